//go:build verif

package distinct

import (
	"math/rand/v2"
)

// VerifSetSource makes src the random source of c and reports whether it could: the field must be
// able to hold an arbitrary rand.Source.  (Written so that it compiles whatever the type of the
// field is: when a change narrows the field to a concrete generator the scripted correspondence
// can no longer be run, but the harness still builds and its statistical step, which uses the
// public API only, still runs.)
// (verification hook: add-only, compiled only under the build tag verif).
func (c *Counter[T]) VerifSetSource(src rand.Source) bool {
	p, ok := any(&c.rng).(*rand.Source)
	if ok {
		*p = src
	}
	return ok
}

// NewCounterWithSource is NewCounter -- the real constructor -- with the random source replaced by
// the caller's before anything was drawn from it; nil if the source cannot be replaced.
func NewCounterWithSource[T comparable](size int, src rand.Source) *Counter[T] {
	c := NewCounter[T](size)
	if !c.VerifSetSource(src) {
		return nil
	}
	return c
}

// VerifP reports the current threshold.
func (c *Counter[T]) VerifP() uint64 { return c.p }

// VerifBuf returns the buffered elements in unspecified order.
func (c *Counter[T]) VerifBuf() []T { return c.buf.Slice() }
