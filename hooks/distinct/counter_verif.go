//go:build verif

package distinct

import (
	"math"
	"math/rand/v2"

	"github.com/creachadair/mds/mapset"
)

// NewCounterWithSource is NewCounter with the random source supplied by the caller
// (verification hook: add-only, compiled only under the build tag verif).
func NewCounterWithSource[T comparable](size int, src rand.Source) *Counter[T] {
	return &Counter[T]{
		buf: make(mapset.Set[T]),
		cap: size,
		p:   math.MaxUint64,
		rng: src,
	}
}

// VerifP reports the current threshold.
func (c *Counter[T]) VerifP() uint64 { return c.p }

// VerifBuf returns the buffered elements in unspecified order.
func (c *Counter[T]) VerifBuf() []T { return c.buf.Slice() }
