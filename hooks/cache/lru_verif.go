//go:build verif

package cache

// Add-only accessor for the verification harness (never part of a normal build).

// VerifLRUEntry is one slot of the LRU store's heap, in heap (array) order.
type VerifLRUEntry[K comparable] struct {
	LastAccess int64
	Key        K
}

// VerifLRUDump reports the internals of a cache built with LRU(): the heap array of
// (lastAccess, key) in storage order, a copy of the key -> offset map, and the logical clock.
// ok is false when the cache uses some other store.
func VerifLRUDump[K comparable, V any](c *Cache[K, V]) (heap []VerifLRUEntry[K], present map[K]int, clock int64, ok bool) {
	c.μ.Lock()
	defer c.μ.Unlock()
	s, isLRU := c.store.(*lruStore[K, V])
	if !isLRU {
		return nil, nil, 0, false
	}
	s.access.Each(func(e prioKey[K, V]) bool {
		heap = append(heap, VerifLRUEntry[K]{LastAccess: e.lastAccess, Key: e.key})
		return true
	})
	present = make(map[K]int, len(s.present))
	for k, p := range s.present {
		present[k] = p
	}
	return heap, present, s.clock, true
}
