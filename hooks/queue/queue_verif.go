//go:build verif

package queue

// VerifState exposes the ring-buffer internals to the correspondence harness (add-only accessor,
// compiled only under the build tag verif, injected with go build -overlay):
// head and n are compared with the model after every operation; len(vs) is the ring capacity --
// after an Add/Push that regrew the buffer it is the oracle input cap(w) chosen by append.
func (q *Queue[T]) VerifState() (head, n, length, capacity int) {
	return q.head, q.n, len(q.vs), cap(q.vs)
}
