//go:build verif

package stree

import "strings"

// VerifCursorShape writes the tree rooted at t.root in preorder straight from the node pointers
// (no Cursor method is involved): key(k) for a node, "." for a nil child, comma separated.
func VerifCursorShape[T any](t *Tree[T], key func(T) string) string {
	var out []string
	// a tree whose nodes form a cycle (or share subtrees) would be printed without end: stop after a
	// number of nodes no tree of this size can have
	budget := 8*t.size + 1024
	if budget < 1024 {
		budget = 1024
	}
	var rec func(n *node[T])
	rec = func(n *node[T]) {
		if budget <= 0 {
			if budget == 0 {
				out = append(out, "CYCLE")
				budget--
			}
			return
		}
		budget--
		if n == nil {
			out = append(out, ".")
			return
		}
		out = append(out, key(n.X))
		rec(n.left)
		rec(n.right)
	}
	rec(t.root)
	return strings.Join(out, ",")
}

// VerifCursorPath describes where the cursor's path really is, by pointer comparison only:
// "nil" for a nil cursor, "-" for an empty path, otherwise "^" for path[0]==t.root ("?" if it is
// some other node) followed by one letter per further path entry: L/R when the entry is the
// left/right child of its predecessor, "?" when it is neither (a path that left the tree).
func VerifCursorPath[T any](t *Tree[T], c *Cursor[T]) string {
	if c == nil {
		return "nil"
	}
	if len(c.path) == 0 {
		return "-"
	}
	var sb strings.Builder
	if c.path[0] == t.root && t.root != nil {
		sb.WriteByte('^')
	} else {
		sb.WriteByte('?')
	}
	for i := 1; i < len(c.path); i++ {
		p, n := c.path[i-1], c.path[i]
		switch {
		case p == nil || n == nil:
			sb.WriteByte('?')
		case p.left == n:
			sb.WriteByte('L')
		case p.right == n:
			sb.WriteByte('R')
		default:
			sb.WriteByte('?')
		}
	}
	return sb.String()
}
