//go:build verif

package stree

import "strings"

// VerifCursorShape writes the tree rooted at t.root in preorder straight from the node pointers
// (no Cursor method is involved): key(k) for a node, "." for a nil child, comma separated.
func VerifCursorShape[T any](t *Tree[T], key func(T) string) string {
	var out []string
	var rec func(n *node[T], depth int)
	rec = func(n *node[T], depth int) {
		if n == nil {
			out = append(out, ".")
			return
		}
		if depth > 1<<20 {
			out = append(out, "CYCLE")
			return
		}
		out = append(out, key(n.X))
		rec(n.left, depth+1)
		rec(n.right, depth+1)
	}
	rec(t.root, 0)
	return strings.Join(out, ",")
}

// VerifCursorPath describes where the cursor's path really is, by pointer comparison only:
// "nil" for a nil cursor, "-" for an empty path, otherwise "^" for path[0]==t.root ("?" if it is
// some other node) followed by one letter per further path entry: L/R when the entry is the
// left/right child of its predecessor, "?" when it is neither (a path that left the tree).
func VerifCursorPath[T any](t *Tree[T], c *Cursor[T]) string {
	if c == nil {
		return "nil"
	}
	if len(c.path) == 0 {
		return "-"
	}
	var sb strings.Builder
	if c.path[0] == t.root && t.root != nil {
		sb.WriteByte('^')
	} else {
		sb.WriteByte('?')
	}
	for i := 1; i < len(c.path); i++ {
		p, n := c.path[i-1], c.path[i]
		switch {
		case p == nil || n == nil:
			sb.WriteByte('?')
		case p.left == n:
			sb.WriteByte('L')
		case p.right == n:
			sb.WriteByte('R')
		default:
			sb.WriteByte('?')
		}
	}
	return sb.String()
}
