//go:build verif

package stree

// VerifHeightLimit exposes the depth limit the tree really uses (the float computation of
// limitFunc) for balance factor β and size n.  Add-only accessor for the C02 check.
func VerifHeightLimit(β, n int) int { return limitFunc(β)(n) }

// VerifHeightLimitFunc returns the limit function itself (one math.Log per call, as in the tree).
func VerifHeightLimitFunc(β int) func(int) int { return limitFunc(β) }

// VerifHeightDeepest walks the node pointers (no Cursor involved) and returns the depth of the
// deepest key below the root (-1 for an empty tree) and the first key found at that depth in
// preorder.  One pass over the nodes: cheap enough to run after every operation on a big tree.
func VerifHeightDeepest[T any](t *Tree[T]) (height int, deepest T, ok bool) {
	height = -1
	var rec func(n *node[T], d int)
	rec = func(n *node[T], d int) {
		if n == nil {
			return
		}
		if d > 1<<22 {
			panic("cycle")
		}
		if d > height {
			height, deepest, ok = d, n.X, true
		}
		rec(n.left, d+1)
		rec(n.right, d+1)
	}
	rec(t.root, 0)
	return
}
