//go:build verif

package stree

// VerifHeightLimit exposes the depth limit the tree really uses (the float computation of
// limitFunc) for balance factor β and size n.  Add-only accessor for the C02 check.
func VerifHeightLimit(β, n int) int { return limitFunc(β)(n) }

// VerifHeightLimitFunc returns the limit function itself (one math.Log per call, as in the tree).
func VerifHeightLimitFunc(β int) func(int) int { return limitFunc(β) }
