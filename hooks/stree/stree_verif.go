//go:build verif

package stree

// Add-only accessors for the verification harness (injected with go build -overlay; nothing
// here is committed to the repository).

// VerifLimit returns the depth limit the package computes for a tree of size n at balance β
// (the float evaluation in limitFunc).
func VerifLimit(β, n int) int { return limitFunc(β)(n) }

// VerifMax returns t.max, the peak size since the last whole-tree rebuild.
func (t *Tree[T]) VerifMax() int { return t.max }

// VerifSize returns the cached t.size and the actual number of nodes under the root.
func (t *Tree[T]) VerifSize() (cached, actual int) { return t.size, t.root.size() }

// VerifBeta returns t.β.
func (t *Tree[T]) VerifBeta() int { return t.β }
