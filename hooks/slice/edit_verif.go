//go:build verif

package slice

// Add-only accessor for the verification harness (never part of a normal build).

// VerifEditScriptFunc calls the unexported editScriptFunc, so that the harness can run the
// edit-script construction under equivalences other than ==.
func VerifEditScriptFunc[T any, Slice ~[]T](eq func(a, b T) bool, lhs, rhs Slice) []Edit[T] {
	return editScriptFunc(eq, lhs, rhs)
}
