(* Replays cachetrace lines on the extracted model of cache.Cache + lruStore (CacheModel.run_Z, heap
   variant = the one read from the current source) and evaluates the reference caches of
   CacheSpec (S2 = reference LRU, S1 = policy-agnostic) on the implementation's own output. *)

let mode_of s =
  if s = "u" then 0
  else
    let k = int_of_string (String.sub s 1 (String.length s - 1)) in
    let k = if k < 1 then 1 else k in
    if s.[0] = 'n' then -k else if s.[0] = 'b' then 1000 + k else k

let parse_op f =
  let rest = String.sub f 1 (String.length f - 1) in
  match f.[0] with
  | 'p' -> (match String.split_on_char ':' rest with
            | [k; v] -> M.OPut (z_of_int (int_of_string k), z_of_int (int_of_string v))
            | [k] -> M.OPut (z_of_int (int_of_string k), M.Z0)
            | _ -> failwith "bad put")
  | 'g' -> M.OGet (z_of_int (int_of_string rest))
  | 'h' -> M.OHas (z_of_int (int_of_string rest))
  | 'r' -> M.ORemove (z_of_int (int_of_string rest))
  | 'c' -> M.OClear
  | 'l' -> M.OLen
  | 's' -> M.OSize
  | _ -> failwith "bad op"

let parse_ops s =
  if s = "." || s = "" then []
  else List.filter (fun x -> x <> "") (String.split_on_char ';' s) |> List.map parse_op

(* the limit is kept as a Z: limits up to 2^63-1 can be replayed *)
let parse_input inp =
  match words inp with
  | ["H"; lim; mode] -> (z_of_string lim, mode, [])
  | ["H"; lim; mode; ops] -> (z_of_string lim, mode, parse_ops ops)
  | _ -> failwith "bad input"

let zpos = function M.Zpos _ -> true | _ -> false

let show_pairs l =
  if l = [] then "." else String.concat "," (List.map (fun (a, b) -> string_of_int a ^ ":" ^ string_of_int b) l)

let show_out = function
  | M.RBool b -> b01 b
  | M.RGet (v, ok) -> b01 ok ^ ":" ^ string_of_z v
  | M.RUnit -> "."
  | M.RNum n -> string_of_z n

let show_log log = show_pairs (List.map (fun (k, v) -> (int_of_z k, int_of_z v)) log)

let show_state (c : (M.z, M.z) M.cache) =
  let s = c.M.store in
  let heap = List.map (fun (e : (M.z, M.z) M.prio) -> (int_of_z e.M.lastAccess, int_of_z e.M.key)) s.M.access.M.data in
  let pres = List.sort compare (List.map (fun (k, p) -> (int_of_z k, int_of_z p)) s.M.present) in
  Printf.sprintf "%s/%s/%s/%s/%s" (string_of_z (M.cache_len c)) (string_of_z (M.cache_size c))
    (show_pairs heap) (show_pairs pres) (string_of_z s.M.clock)

let show_panic = function
  | M.PIndex -> "PANIC:index"
  | M.PBadLimit -> "NEWPANIC"
  | _ -> "PANIC:other"

let show_run evs =
  String.concat ";" (List.map (function
    | (M.EOk (r, log), Some c) -> show_out r ^ "/" ^ show_log log ^ "/" ^ show_state c
    | (M.EOk (r, log), None) -> show_out r ^ "/" ^ show_log log ^ "/?"
    | (M.EPanic k, _) -> show_panic k
    | (M.EFuel, _) -> "FUEL") evs)

let model variant inp =
  let (lim, mode, ops) = parse_input inp in
  show_run (M.run_Z variant (z_of_int (mode_of mode)) lim ops)

let eval inp = model M.current_variant inp

(* ---- the property on the implementation's output ---- *)

let parse_pairs s =
  if s = "." then [] else
  List.map (fun x -> match String.split_on_char ':' x with
    | [a; b] -> (z_of_int (int_of_string a), z_of_int (int_of_string b))
    | _ -> failwith "bad pair") (String.split_on_char ',' s)

(* result/log/len/size/... of one observation *)
let parse_obs (o : (M.z, M.z) M.op) s =
  match String.split_on_char '/' s with
  | res :: ev :: ln :: sz :: _ ->
    let r = match o with
      | M.OPut _ | M.OHas _ | M.ORemove _ -> M.RBool (res = "1")
      | M.OGet _ -> (match String.split_on_char ':' res with
                     | [ok; v] -> M.RGet (z_of_int (int_of_string v), ok = "1")
                     | _ -> failwith "bad get")
      | M.OClear -> M.RUnit
      | M.OLen | M.OSize -> M.RNum (z_of_string res) in
    ((r, parse_pairs ev), int_of_string ln, z_of_string sz)
  | _ -> failwith "bad observation"

let show_op = function
  | M.OPut (k, v) -> Printf.sprintf "Put(%d,%d)" (int_of_z k) (int_of_z v)
  | M.OGet k -> Printf.sprintf "Get(%d)" (int_of_z k)
  | M.OHas k -> Printf.sprintf "Has(%d)" (int_of_z k)
  | M.ORemove k -> Printf.sprintf "Remove(%d)" (int_of_z k)
  | M.OClear -> "Clear" | M.OLen -> "Len" | M.OSize -> "Size"

let rec first_diff i a b =
  match a, b with
  | [], [] -> None
  | x :: a', y :: b' -> if x = y then first_diff (i + 1) a' b' else Some i
  | _, _ -> Some i

let zeq a b = (a : M.z) = b

(* Z order, structurally (no use of the model's arithmetic) *)
let zle a b = match M.Z.compare a b with M.Gt -> false | _ -> true

let spec prop inp out =
  (* C09: the sequential object of the linearizability claim is checked against the policy-agnostic
     reference only (the eviction order, known finding F2, is C08's business) *)
  if prop <> "C08" && prop <> "C09" then None else
  let (zlim, mode, ops) = parse_input inp in
  if not (zpos zlim) then
    (* New's documented panic, and nothing else *)
    (if prop = "C08" && out <> "NEWPANIC" then Some "cache.New with limit <= 0 did not panic" else None)
  else
  (* negative sizes: no cache can keep Size <= limit (removing a negative-size entry raises Size);
     every other clause is checked *)
  let negative = mode <> "u" && mode.[0] = 'n' in
  let obs_s = if out = "" then [] else String.split_on_char ';' out in
  if List.exists (fun s -> (String.length s >= 5 && String.sub s 0 5 = "PANIC") || s = "NEWPANIC") obs_s then
    Some "panic on a history with limit > 0"
  else if out = "hang" then Some "hang"
  else if List.length obs_s <> List.length ops then Some "wrong number of observations"
  else begin
    let sizeOf = M.size_mode (z_of_int (mode_of mode)) in
    let parsed = List.map2 parse_obs ops obs_s in
    let obs = List.map (fun (o, _, _) -> o) parsed in
    let accounting states =
      (* Len = number of present keys, Size = sum of their sizes <= limit, after every call *)
      let rec go i ps ss = match ps, ss with
        | (_, ln, sz) :: ps', st :: ss' ->
          let want_sz = M.total sizeOf st in
          if ln <> List.length st then Some (Printf.sprintf "call #%d %s: Len()=%d but %d keys are present" i (show_op (List.nth ops i)) ln (List.length st))
          else if sz <> want_sz then Some (Printf.sprintf "call #%d %s: Size()=%s but the present values sum to %s" i (show_op (List.nth ops i)) (string_of_z sz) (string_of_z want_sz))
          else if not negative && not (zle sz zlim) then Some (Printf.sprintf "call #%d: Size()=%s exceeds the limit %s" i (string_of_z sz) (string_of_z zlim))
          else go (i + 1) ps' ss'
        | _, _ -> None in
      go 0 parsed states in
    let want = M.s2_run zeq M.Z0 sizeOf zlim [] ops in
    (* The order clause of the property is about the victims of a Put ("evicts exactly the
       least-recently-used entries ... in that order"); for Clear it asks that the callback fires
       exactly once, with key and value, for every entry cleared -- no order.  So Clear's log is
       compared as a multiset (every entry, once, right value), every other log as a sequence. *)
    let norm l = List.map2 (fun o (r, log) -> if o = M.OClear then (r, List.sort compare log) else (r, log)) ops l in
    match (if prop = "C09" then Some 0 else first_diff 0 (norm obs) (norm want)) with
    | None -> accounting (M.s2_states zeq M.Z0 sizeOf zlim [] ops)
    | Some _ when prop = "C09" ->
      (match M.s1_first_reject sizeOf zlim [] ops obs M.O with
       | Some j -> Some (Printf.sprintf "call #%d %s is not a behaviour of any cache (wrong answer, value, accounting or callback)" (int_of_nat j) (show_op (List.nth ops (int_of_nat j))))
       | None -> accounting (M.s1_states zeq M.Z0 sizeOf zlim [] ops obs))
    | Some i ->
      let o = List.nth ops i in
      let (r, log) = List.nth obs i and (r', log') = List.nth want i in
      let what = Printf.sprintf "call #%d %s: result %s callbacks [%s]; the reference LRU gives result %s callbacks [%s]"
          i (show_op o) (show_out r) (show_log log) (show_out r') (show_log log') in
      (match M.s1_first_reject sizeOf zlim [] ops obs M.O with
       | Some j ->
         Some (Printf.sprintf "%s; call #%d is not a behaviour of any cache (wrong answer, value, accounting or callback)" what (int_of_nat j))
       | None ->
         (match accounting (M.s1_states zeq M.Z0 sizeOf zlim [] ops obs) with
          | Some r -> Some (what ^ "; " ^ r)
          | None ->
            (* Only the choice/order of a Put's victims differs from LRU.  It is the known finding F2
               (heapq.pop never sifts up) only if ALL of:
                 (1) the model of the pinned code reproduces this very output, internals included
                     (heap array, key->offset map, clock after every call) -- so the implementation
                     did nothing on this history that the pinned model does not do;
                 (2) the model with the repaired heap -- the same model, only the two heap switches
                     differ -- gives exactly the reference's answers on this history -- so the two
                     switches are what makes the difference;
                 (3) the F2 trigger (a heapq.Remove that needs a sift-up, CacheModel.rm_safe) does fire
                     on this history in the pinned model (by C08_lru_partial it must, given (1));
                 (4) the sizes are non-negative (the scope of the known finding).
               Anything else is a new violation. *)
            let zmode = z_of_int (mode_of mode) in
            let pinned_same = (try model M.pinned inp = out with _ -> false) in
            let repaired_ok =
              (try List.map (function (M.EOk (r, l), _) -> (r, l) | _ -> failwith "x")
                     (M.run_Z M.repaired zmode zlim ops) = want with _ -> false) in
            let trigger_fired = (try not (M.safe_Z M.pinned zmode zlim ops) with _ -> false) in
            Some (what ^ " (a present entry that is not the least recently used one was evicted first)"
                  ^ (if pinned_same && repaired_ok && trigger_fired && not negative then " known=F2" else ""))))
  end

let () = run_main ~eval ~spec
