(* Replays cachetrace lines on the extracted model of cache.Cache + lruStore (CacheModel.run_Z, heap
   variant = the one read from the current source) and evaluates the reference caches of
   CacheSpec (S2 = reference LRU, S1 = policy-agnostic) on the implementation's own output. *)

let mode_of s =
  if s = "u" then 0
  else
    let k = int_of_string (String.sub s 1 (String.length s - 1)) in
    let k = if k < 1 then 1 else k in
    if s.[0] = 'n' then -k else if s.[0] = 'b' then 1000 + k else k

let parse_op f =
  let rest = String.sub f 1 (String.length f - 1) in
  match f.[0] with
  | 'p' -> (match String.split_on_char ':' rest with
            | [k; v] -> M.OPut (z_of_int (int_of_string k), z_of_int (int_of_string v))
            | [k] -> M.OPut (z_of_int (int_of_string k), M.Z0)
            | _ -> failwith "bad put")
  | 'g' -> M.OGet (z_of_int (int_of_string rest))
  | 'h' -> M.OHas (z_of_int (int_of_string rest))
  | 'r' -> M.ORemove (z_of_int (int_of_string rest))
  | 'c' -> M.OClear
  | 'l' -> M.OLen
  | 's' -> M.OSize
  | _ -> failwith "bad op"

let parse_ops s =
  if s = "." || s = "" then []
  else List.filter (fun x -> x <> "") (String.split_on_char ';' s) |> List.map parse_op

(* the limit is kept as a Z: limits up to 2^63-1 can be replayed *)
let parse_input inp =
  match words inp with
  | ["H"; lim; mode] -> (z_of_string lim, mode, [])
  | ["H"; lim; mode; ops] -> (z_of_string lim, mode, parse_ops ops)
  | _ -> failwith "bad input"

let zpos = function M.Zpos _ -> true | _ -> false

let show_pairs l =
  if l = [] then "." else String.concat "," (List.map (fun (a, b) -> string_of_int a ^ ":" ^ string_of_int b) l)

let show_out = function
  | M.RBool b -> b01 b
  | M.RGet (v, ok) -> b01 ok ^ ":" ^ string_of_z v
  | M.RUnit -> "."
  | M.RNum n -> string_of_z n

let show_log log = show_pairs (List.map (fun (k, v) -> (int_of_z k, int_of_z v)) log)

let show_state (c : (M.z, M.z) M.cache) =
  let s = c.M.store in
  let heap = List.map (fun (e : (M.z, M.z) M.prio) -> (int_of_z e.M.lastAccess, int_of_z e.M.key)) s.M.access.M.data in
  let pres = List.sort compare (List.map (fun (k, p) -> (int_of_z k, int_of_z p)) s.M.present) in
  Printf.sprintf "%s/%s/%s/%s/%s" (string_of_z (M.cache_len c)) (string_of_z (M.cache_size c))
    (show_pairs heap) (show_pairs pres) (string_of_z s.M.clock)

let show_panic = function
  | M.PIndex -> "PANIC:index"
  | M.PBadLimit -> "NEWPANIC"
  | _ -> "PANIC:other"

let show_run evs =
  String.concat ";" (List.map (function
    | (M.EOk (r, log), Some c) -> show_out r ^ "/" ^ show_log log ^ "/" ^ show_state c
    | (M.EOk (r, log), None) -> show_out r ^ "/" ^ show_log log ^ "/?"
    | (M.EPanic k, _) -> show_panic k
    | (M.EFuel, _) -> "FUEL") evs)

let model variant inp =
  let (lim, mode, ops) = parse_input inp in
  show_run (M.run_Z variant (z_of_int (mode_of mode)) lim ops)

let is_big inp = String.length inp > 1 && inp.[0] = 'B'

(* ---- the property on the implementation's output ---- *)

let parse_pairs s =
  if s = "." then [] else
  List.map (fun x -> match String.split_on_char ':' x with
    | [a; b] -> (z_of_int (int_of_string a), z_of_int (int_of_string b))
    | _ -> failwith "bad pair") (String.split_on_char ',' s)

(* result/log/len/size/... of one observation *)
let parse_obs (o : (M.z, M.z) M.op) s =
  match String.split_on_char '/' s with
  | res :: ev :: ln :: sz :: _ ->
    let r = match o with
      | M.OPut _ | M.OHas _ | M.ORemove _ -> M.RBool (res = "1")
      | M.OGet _ -> (match String.split_on_char ':' res with
                     | [ok; v] -> M.RGet (z_of_int (int_of_string v), ok = "1")
                     | _ -> failwith "bad get")
      | M.OClear -> M.RUnit
      | M.OLen | M.OSize -> M.RNum (z_of_string res) in
    ((r, parse_pairs ev), int_of_string ln, z_of_string sz)
  | _ -> failwith "bad observation"

let show_op = function
  | M.OPut (k, v) -> Printf.sprintf "Put(%d,%d)" (int_of_z k) (int_of_z v)
  | M.OGet k -> Printf.sprintf "Get(%d)" (int_of_z k)
  | M.OHas k -> Printf.sprintf "Has(%d)" (int_of_z k)
  | M.ORemove k -> Printf.sprintf "Remove(%d)" (int_of_z k)
  | M.OClear -> "Clear" | M.OLen -> "Len" | M.OSize -> "Size"

let rec first_diff i a b =
  match a, b with
  | [], [] -> None
  | x :: a', y :: b' -> if x = y then first_diff (i + 1) a' b' else Some i
  | _, _ -> Some i

let zeq a b = (a : M.z) = b

(* Z order, structurally (no use of the model's arithmetic) *)
let zle a b = match M.Z.compare a b with M.Gt -> false | _ -> true


(* ---- B lines: big caches, macro operations, digests (harness/cmd/cachetrace/scale.go) ---- *)

let perm_of n seed =
  let p = Array.init n (fun i -> i) in
  let x = ref (((seed mod 2147483648) + 2147483648) mod 2147483648) in
  for i = n - 1 downto 1 do
    x := (!x * 1103515245 + 12345) mod 2147483648;
    let j = (!x lsr 8) mod (i + 1) in
    let t = p.(i) in p.(i) <- p.(j); p.(j) <- t
  done;
  p

let max_seq = 1 lsl 16

let keys_of s =
  match String.split_on_char ',' s with
  | "e" :: ks -> List.map int_of_string ks
  | [pat; lo; step; n; take; seed] ->
    let lo = int_of_string lo and step = int_of_string step and n = int_of_string n
    and take = int_of_string take and seed = int_of_string seed in
    if n < 0 || n > max_seq || take < 0 || take > n then failwith "bad key sequence";
    (match pat with
     | "a" -> List.init take (fun j -> lo + step * j)
     | "d" -> List.init take (fun j -> lo + step * (n - 1 - j))
     | "r" -> let p = perm_of n seed in List.init take (fun j -> lo + step * p.(j))
     | _ -> failwith "bad key pattern")
  | _ -> failwith "bad key sequence"

(* a call of a B line, with OCaml ints *)
type bop = BPut of int * int | BGet of int | BHas of int | BRemove of int | BClear | BLen | BSize

let rec expand_macro m : bop list =
  let rest = String.sub m 1 (String.length m - 1) in
  match m.[0] with
  | 'c' -> [BClear] | 'l' -> [BLen] | 's' -> [BSize]
  | 'g' -> List.map (fun k -> BGet k) (keys_of rest)
  | 'h' -> List.map (fun k -> BHas k) (keys_of rest)
  | 'r' -> List.map (fun k -> BRemove k) (keys_of rest)
  | 'p' ->
    (match String.split_on_char ':' rest with
     | [ks; vs] ->
       (match List.map int_of_string (String.split_on_char ',' vs) with
        | [vlo; vstep; vmod] ->
          let vmod = if vmod < 1 then 1 else vmod in
          List.mapi (fun j k -> BPut (k, vlo + (vstep * j) mod vmod)) (keys_of ks)
        | _ -> failwith "bad value sequence")
     | _ -> failwith "bad put macro")
  | 'i' ->
    let parts = List.map (fun p -> Array.of_list (expand_macro p)) (String.split_on_char '+' rest) in
    let longest = List.fold_left (fun a p -> max a (Array.length p)) 0 parts in
    let out = ref [] in
    for j = 0 to longest - 1 do
      List.iter (fun p -> if j < Array.length p then out := p.(j) :: !out) parts
    done;
    List.rev !out
  | _ -> failwith "bad macro"

let op_of_bop = function
  | BPut (k, v) -> M.OPut (z_of_int k, z_of_int v)
  | BGet k -> M.OGet (z_of_int k)
  | BHas k -> M.OHas (z_of_int k)
  | BRemove k -> M.ORemove (z_of_int k)
  | BClear -> M.OClear | BLen -> M.OLen | BSize -> M.OSize

let parse_big inp =
  match words inp with
  | ["B"; lim; mode] -> (z_of_string lim, mode, [])
  | ["B"; lim; mode; ms] -> (z_of_string lim, mode, if ms = "." then [] else String.split_on_char ';' ms)
  | _ -> failwith "bad input"

(* digests, identical to the harness *)
let feed (a, b) v =
  let x = if v < 0 then (-v) + (1 lsl 20) else v in
  let x = x mod (1 lsl 30) in
  ((a * 31337 + x + 7) mod 2147483647, (b * 65599 + x + 13) mod 2147483629)
let show_hash (a, b) = Printf.sprintf "%x.%x" a b

(* sign, then limbs of 30, 30 and 4 bits of the magnitude *)
let feed_big h (z : M.z) =
  let l = [| 0; 0; 0 |] in
  let set i = let w = min 2 (i / 30) in l.(w) <- l.(w) lor (1 lsl (i - 30 * w)) in
  let rec go i = function
    | M.XH -> set i
    | M.XO q -> go (i + 1) q
    | M.XI q -> set i; go (i + 1) q in
  let sign = (match z with M.Z0 -> 0 | M.Zpos p -> go 0 p; 0 | M.Zneg p -> go 0 p; 1) in
  feed (feed (feed (feed h sign) l.(0)) l.(1)) l.(2)

let feed_out h = function
  | M.RBool b -> feed h (if b then 1 else 0)
  | M.RGet (v, ok) -> feed (feed h (if ok then 1 else 0)) (int_of_z v)
  | M.RUnit -> feed h 2
  | M.RNum n -> feed_big h n
let out_true = function M.RBool b -> b | M.RGet (_, ok) -> ok | _ -> false

let feed_log h log = List.fold_left (fun h (k, v) -> feed (feed h (int_of_z k)) (int_of_z v)) h log
let feed_log_spec h is_clear log =
  if not is_clear then feed_log h log else begin
    let s1 = ref 0 and s2 = ref 0 in
    List.iter (fun (k, v) ->
      let k = int_of_z k mod (1 lsl 30) and v = int_of_z v mod (1 lsl 30) in
      s1 := (!s1 + (k * 1000003 + v * 7 + 1) mod 2147483647) mod 2147483647;
      s2 := (!s2 + ((k + 1) * (v + 3)) mod 2147483629) mod 2147483629) log;
    feed (feed h !s1) !s2
  end

(* the public part of one macro's observation: what the reference must reproduce *)
type pub = { trues : int; res : int * int; nev : int; sp : int * int; plen : string; psize : string }
let show_pub p = Printf.sprintf "trues=%d results=%s callbacks=%d (digest %s) Len=%s Size=%s" p.trues (show_hash p.res) p.nev (show_hash p.sp) p.plen p.psize

let state_digest (c : (M.z, M.z) M.cache) =
  let s = c.M.store in
  let hh = List.fold_left (fun h (e : (M.z, M.z) M.prio) -> feed (feed h (int_of_z e.M.lastAccess)) (int_of_z e.M.key)) (0, 0) s.M.access.M.data in
  let pres = List.sort compare (List.map (fun (k, p) -> (int_of_z k, int_of_z p)) s.M.present) in
  let ph = List.fold_left (fun h (k, p) -> feed (feed h k) p) (0, 0) pres in
  Printf.sprintf "%s,%s,%s" (show_hash hh) (show_hash ph) (string_of_z s.M.clock)

(* the model on a B line: one observation string per macro, the public parts, and whether the F2
   trigger never fired (CacheModel.op_safe before every call) *)
let run_big variant inp : string list * pub list * bool =
  let (zlim, mode, macros) = parse_big inp in
  let sizeOf = M.size_mode (z_of_int (mode_of mode)) in
  match M.cache_new zlim with
  | M.CPanic _ | M.CFuel -> (["NEWPANIC"], [], true)
  | M.COk c0 ->
    let c = ref c0 and safe = ref true and obs = ref [] and pubs = ref [] in
    (try
      List.iter (fun m ->
        let res = ref (0, 0) and ev = ref (0, 0) and sp = ref (0, 0) and trues = ref 0 and nev = ref 0 in
        List.iteri (fun i b ->
          let o = op_of_bop b in
          if !safe && not (M.op_safe M.Z.eqb sizeOf !c o) then safe := false;
          match M.step M.Z.eqb M.Z0 M.Z0 sizeOf variant !c o with
          | M.COk (c', (r, log)) ->
            c := c';
            if out_true r then incr trues;
            res := feed_out !res r;
            res := feed !res (List.length log);
            res := feed_big (feed_big !res (M.cache_len c')) (M.cache_size c');
            nev := !nev + List.length log;
            ev := feed_log !ev log;
            sp := feed_log_spec !sp (b = BClear) log
          | M.CPanic k -> obs := Printf.sprintf "%s@%d" (show_panic k) i :: !obs; raise Exit
          | M.CFuel -> obs := "FUEL" :: !obs; raise Exit) (expand_macro m);
        let ln = string_of_z (M.cache_len !c) and sz = string_of_z (M.cache_size !c) in
        pubs := { trues = !trues; res = !res; nev = !nev; sp = !sp; plen = ln; psize = sz } :: !pubs;
        obs := Printf.sprintf "%d,%s,%d,%s,%s/%s/%s/%s" !trues (show_hash !res) !nev (show_hash !ev) (show_hash !sp) ln sz (state_digest !c) :: !obs) macros
    with Exit -> ());
    (List.rev !obs, List.rev !pubs, !safe)

(* the last B line evaluated with the current variant: the spec's attribution of a failure to the
   known finding needs the pinned model's run of the same line, which is this one when the source is
   the pinned one *)
let last_big : (string * (string list * pub list * bool)) option ref = ref None
let eval_big inp =
  let r = run_big M.current_variant inp in
  last_big := Some (inp, r);
  let (obs, _, _) = r in String.concat ";" obs

(* The reference on a B line.  Two of them, run in lockstep:
   - CacheSpec.s2_step, the reference LRU the theorems are about (extracted).  It recomputes the sum
     of the sizes for every eviction, which with sizes near 2^62 and thousands of entries takes
     seconds per line, so it runs only until the cache first holds [coq_ref_upto] entries;
   - a direct definition of the same LRU cache with a hash table and a recency-ordered map
     (below), which runs always; while both run, every call's result and callback log must be the
     same in both (a disagreement is reported as a defect of the driver, never swallowed).
   Len and Size after every call come from the direct reference (count and running sum) and are
   compared with length / CacheSpec.total of the extracted reference's state at the end of every
   macro while that one runs. *)
let coq_ref_upto = 1100

module IMap = Map.Make (Int)
type fast_ref = {
  tbl : (int, int * int) Hashtbl.t;      (* key -> (recency stamp, value) *)
  mutable order : int IMap.t;            (* stamp -> key, least recently used first *)
  mutable stamp : int;
  mutable ftotal : M.z;
}
let fast_new () = { tbl = Hashtbl.create 64; order = IMap.empty; stamp = 0; ftotal = M.Z0 }
let fast_drop f sizeOf k =
  let (st, v) = Hashtbl.find f.tbl k in
  Hashtbl.remove f.tbl k; f.order <- IMap.remove st f.order;
  f.ftotal <- M.Z.sub f.ftotal (sizeOf (z_of_int v)); v
let fast_add f sizeOf k v =
  f.stamp <- f.stamp + 1;
  Hashtbl.replace f.tbl k (f.stamp, v); f.order <- IMap.add f.stamp k f.order;
  f.ftotal <- M.Z.add f.ftotal (sizeOf (z_of_int v))
(* one call: result and callback log, as (out, (key, value) list) with OCaml ints *)
let fast_step f sizeOf zlim (b : bop) : (M.z M.out) * (int * int) list =
  match b with
  | BPut (k, v) ->
    let vs = sizeOf (z_of_int v) in
    if not (zle vs zlim) then (M.RBool false, [])                 (* refused: nothing changes *)
    else begin
      let log = ref [] in
      if Hashtbl.mem f.tbl k then (let old = fast_drop f sizeOf k in log := [(k, old)]);   (* replaced *)
      (* evict from the least recently used end while the value does not fit *)
      while not (IMap.is_empty f.order) && not (zle (M.Z.add f.ftotal vs) zlim) do
        let (_, k') = IMap.min_binding f.order in
        let v' = fast_drop f sizeOf k' in log := (k', v') :: !log
      done;
      fast_add f sizeOf k v;
      (M.RBool true, List.rev !log)
    end
  | BGet k ->
    (match Hashtbl.find_opt f.tbl k with
     | Some (_, v) -> ignore (fast_drop f sizeOf k); fast_add f sizeOf k v; (M.RGet (z_of_int v, true), [])   (* a use *)
     | None -> (M.RGet (M.Z0, false), []))
  | BHas k -> (M.RBool (Hashtbl.mem f.tbl k), [])                  (* not a use *)
  | BRemove k ->
    if Hashtbl.mem f.tbl k then (let v = fast_drop f sizeOf k in (M.RBool true, [(k, v)])) else (M.RBool false, [])
  | BClear ->
    let log = List.map (fun (_, k) -> (k, snd (Hashtbl.find f.tbl k))) (IMap.bindings f.order) in
    Hashtbl.reset f.tbl; f.order <- IMap.empty; f.ftotal <- M.Z0;
    (M.RUnit, log)
  | BLen -> (M.RNum (z_of_int (Hashtbl.length f.tbl)), [])
  | BSize -> (M.RNum f.ftotal, [])

let reference_big zlim sizeOf macros : pub list =
  let f = fast_new () in
  let coq : (M.z * M.z) list option ref = ref (Some []) in
  List.map (fun m ->
    let res = ref (0, 0) and sp = ref (0, 0) and trues = ref 0 and nev = ref 0 in
    List.iter (fun b ->
      let (r, ilog) = fast_step f sizeOf zlim b in
      let log = List.map (fun (k, v) -> (z_of_int k, z_of_int v)) ilog in
      (match !coq with
       | Some l ->
         let (l', (r', log')) = M.s2_step M.Z.eqb M.Z0 sizeOf zlim l (op_of_bop b) in
         if r' <> r || log' <> log then failwith "the driver's two references disagree";
         coq := if List.length l' < coq_ref_upto then Some l' else None
       | None -> ());
      if not (zle f.ftotal zlim) then failwith "the reference exceeds the limit";
      if out_true r then incr trues;
      res := feed_out !res r;
      res := feed !res (List.length log);
      res := feed_big (feed_big !res (z_of_int (Hashtbl.length f.tbl))) f.ftotal;
      nev := !nev + List.length log;
      sp := feed_log_spec !sp (b = BClear) log) (expand_macro m);
    (match !coq with
     | Some l -> if List.length l <> Hashtbl.length f.tbl || M.total sizeOf l <> f.ftotal then failwith "reference accounting"
     | None -> ());
    { trues = !trues; res = !res; nev = !nev; sp = !sp; plen = string_of_int (Hashtbl.length f.tbl); psize = string_of_z f.ftotal }) macros

let parse_pub s =
  match String.split_on_char '/' s with
  | f :: ln :: sz :: _ ->
    (match String.split_on_char ',' f with
     | [t; r; n; _; sp] ->
       let h x = Scanf.sscanf x "%x.%x" (fun a b -> (a, b)) in
       { trues = int_of_string t; res = h r; nev = int_of_string n; sp = h sp; plen = ln; psize = sz }
     | _ -> failwith "bad observation")
  | _ -> failwith "bad observation"

let spec_big inp out =
  (* a line the harness could not read ("?") or whose macros do not expand is not a case (the
     shrinker of bin/check produces such lines when it drops list items) *)
  let parsed = (try let (z, m, ms) = parse_big inp in ignore (List.map expand_macro ms); Some (z, m, ms) with _ -> None) in
  if out = "?" || parsed = None then None else
  let (zlim, mode, macros) = (match parsed with Some x -> x | None -> failwith "unreachable") in
  if not (zpos zlim) then (if out <> "NEWPANIC" then Some "cache.New with limit <= 0 did not panic" else None) else
  let obs_s = if out = "" then [] else String.split_on_char ';' out in
  if List.exists (fun s -> (String.length s >= 5 && String.sub s 0 5 = "PANIC") || s = "NEWPANIC") obs_s then
    Some "panic on a history with limit > 0"
  else if out = "hang" then Some "hang"
  else if List.length obs_s <> List.length macros then Some "wrong number of observations"
  else begin
    let negative = mode <> "u" && mode.[0] = 'n' in
    let sizeOf = M.size_mode (z_of_int (mode_of mode)) in
    let want = reference_big zlim sizeOf macros in
    let got = List.map parse_pub obs_s in
    match first_diff 0 got want with
    | None -> None
    | Some i ->
      let what = Printf.sprintf "macro #%d %s: %s; the reference LRU gives %s" i (List.nth macros i) (show_pub (List.nth got i)) (show_pub (List.nth want i)) in
      (* known finding F2, by the rule of the H lines: the pinned model reproduces this very output
         (digests of the internals included), the repaired model gives the reference's answers, the
         trigger fires in the pinned model, sizes are non-negative *)
      let pinned_run =
        (match !last_big with
         | Some (i', r) when i' = inp && M.current_variant = M.pinned -> Some r
         | _ -> (try Some (run_big M.pinned inp) with _ -> None)) in
      let pinned_same, trigger_fired =
        (match pinned_run with Some (o, _, safe) -> (String.concat ";" o = out, not safe) | None -> (false, false)) in
      let repaired_ok = pinned_same && trigger_fired && (try let (_, p, _) = run_big M.repaired inp in p = want with _ -> false) in
      Some (what ^ (if pinned_same && repaired_ok && trigger_fired && not negative then " known=F2" else ""))
  end

(* ---- W and L lines (round 5; harness/cmd/cachetrace/round5.go) ----
   W: the cache on the harness's own list-based LRU Store, handed over through Config.WithStore.  The model's
      prediction is the model of cache.go over the REPAIRED heap variant of the store - an exact LRU store, as
      the harness's is (C08_refines_S2_repaired) - with the store's state shown as the entries in recency order
      (the heap sorted by lastAccess).  Known finding F2 lives in lruStore's heap and has no part here: the
      spec is the reference LRU, strictly.
   L: other instantiations of Cache[Key, Value] on cache.LRU(), sized by cache.Length; the value for code v has
      v mod k bytes, so the model runs with sizes "m<k>"; values are shown as the hex of those bytes.  The
      generator uses at most five keys per line, where the pinned code is exactly LRU (C08_lru_settled_partial),
      so the spec is strict here too (no attribution to F2). *)

let length_alphabet = "a\xc3\xa9\xe2\x98\x83\xf0\x9f\x98\x80b"
let length_hex k (v : M.z) =
  let v = int_of_z v in
  if v < 0 || k < 1 then "" else
  String.concat "" (List.init (v mod k) (fun i -> Printf.sprintf "%02x" (Char.code length_alphabet.[(v + i) mod 11])))

type rline = { rkind : char; rlim : M.z; rmode : string; rcfg : string; rk : int; rops : (M.z, M.z) M.op list }

let is_r inp = String.length inp > 1 && (inp.[0] = 'W' || inp.[0] = 'L') && inp.[1] = ' '

let parse_r inp =
  let ops = function [] -> [] | [o] -> parse_ops o | _ -> failwith "bad input" in
  match words inp with
  | "W" :: lim :: mode :: cfg :: rest ->
    if not (List.mem cfg ["a"; "b"; "c"; "d"; "A"; "B"; "C"; "D"; "n"; "z"; "N"; "Z"]) then failwith "bad cfg";
    { rkind = 'W'; rlim = z_of_string lim; rmode = mode; rcfg = cfg; rk = 0; rops = ops rest }
  | "L" :: lim :: kinds :: k :: rest ->
    let k' = int_of_string k in
    if String.length kinds <> 2 || not (String.contains "istfap" kinds.[0]) || not (String.contains "sbnm" kinds.[1]) || k' < 1 then failwith "bad kinds";
    let os = ops rest in
    List.iter (function M.OPut (_, M.Zneg _) -> failwith "negative value code" | _ -> ()) os;
    { rkind = 'L'; rlim = z_of_string lim; rmode = "m" ^ k; rcfg = kinds; rk = k'; rops = os }
  | _ -> failwith "bad input"

let no_store l = l.rkind = 'W' && List.mem l.rcfg ["n"; "z"; "N"; "Z"]
let render_of l = if l.rkind = 'W' then string_of_z else length_hex l.rk

let show_out_r rv = function
  | M.RBool b -> b01 b
  | M.RGet (v, ok) -> b01 ok ^ ":" ^ rv v
  | M.RUnit -> "."
  | M.RNum n -> string_of_z n
let show_log_r rv log = if log = [] then "." else String.concat "," (List.map (fun (k, v) -> string_of_z k ^ ":" ^ rv v) log)

(* the store's entries, least recently used first; a digest above 40 entries (as the harness) *)
let show_ents (l : (M.z * M.z) list) =
  let n = List.length l in
  if n > 40 then Printf.sprintf "#%d.%s" n (show_hash (List.fold_left (fun h (k, v) -> feed (feed h (int_of_z k)) (int_of_z v)) (0, 0) l))
  else show_log_r string_of_z l

let eval_r inp =
  match (try Some (parse_r inp) with _ -> None) with
  | None -> "?"
  | Some l ->
    if no_store l then "NEWPANIC" else
    let rv = render_of l in
    let variant = if l.rkind = 'W' then M.repaired else M.current_variant in
    String.concat ";" (List.map (function
      | (M.EOk (r, log), Some c) ->
        if l.rkind = 'W' then begin
          let by_stamp = List.sort (fun (a : (M.z, M.z) M.prio) b -> compare (int_of_z a.M.lastAccess) (int_of_z b.M.lastAccess)) c.M.store.M.access.M.data in
          let ents = List.map (fun (e : (M.z, M.z) M.prio) -> (e.M.key, e.M.value)) by_stamp in
          String.concat "/" [show_out_r rv r; show_log_r rv log; string_of_z (M.cache_len c); string_of_z (M.cache_size c); show_ents ents]
        end else show_out_r rv r ^ "/" ^ show_log_r rv log ^ "/" ^ show_state c
      | (M.EOk (r, log), None) -> show_out_r rv r ^ "/" ^ show_log_r rv log ^ "/?"
      | (M.EPanic k, _) -> show_panic k
      | (M.EFuel, _) -> "FUEL") (M.run_Z variant (z_of_int (mode_of l.rmode)) l.rlim l.rops))

let spec_r inp out =
  match (try Some (parse_r inp) with _ -> None) with
  | None -> None                      (* not a case (the harness answers "?") *)
  | Some l ->
  if out = "?" then None else
  if no_store l then (if out <> "NEWPANIC" then Some "cache.New with a Config that has no store did not panic" else None) else
  if not (zpos l.rlim) then (if out <> "NEWPANIC" then Some "cache.New with limit <= 0 did not panic" else None) else
  let obs_s = if out = "" then [] else String.split_on_char ';' out in
  if List.exists (fun s -> (String.length s >= 5 && String.sub s 0 5 = "PANIC") || s = "NEWPANIC") obs_s then
    Some "panic on a history with limit > 0"
  else if out = "hang" then Some "hang"
  else if List.length obs_s <> List.length l.rops then Some "wrong number of observations"
  else begin
    let rv = render_of l in
    let sizeOf = M.size_mode (z_of_int (mode_of l.rmode)) in
    let want = M.s2_run zeq M.Z0 sizeOf l.rlim [] l.rops in
    let states = M.s2_states zeq M.Z0 sizeOf l.rlim [] l.rops in
    let sort_log s = if s = "." then s else String.concat "," (List.sort compare (String.split_on_char ',' s)) in
    let rec go i ops obs want states =
      match ops, obs, want, states with
      | o :: ops', ob :: obs', (r, log) :: want', st :: states' ->
        (match String.split_on_char '/' ob with
         | res :: ev :: ln :: sz :: rest ->
           let w_res = show_out_r rv r and w_ev = show_log_r rv log in
           (* Clear's callbacks as a multiset, every other log in order (as on H lines) *)
           let (ev', w_ev') = if o = M.OClear then (sort_log ev, sort_log w_ev) else (ev, w_ev) in
           let total = M.total sizeOf st in
           if res <> w_res || ev' <> w_ev' then
             Some (Printf.sprintf "call #%d %s: result %s callbacks [%s]; the reference LRU gives result %s callbacks [%s]" i (show_op o) res ev w_res w_ev)
           else if ln <> string_of_int (List.length st) then
             Some (Printf.sprintf "call #%d %s: Len()=%s but %d keys are present" i (show_op o) ln (List.length st))
           else if sz <> string_of_z total then
             Some (Printf.sprintf "call #%d %s: Size()=%s but the present values sum to %s" i (show_op o) sz (string_of_z total))
           else if not (zle total l.rlim) then Some (Printf.sprintf "call #%d: Size()=%s exceeds the limit %s" i sz (string_of_z l.rlim))
           else if l.rkind = 'W' && (match rest with e :: _ -> e <> show_ents st | [] -> true) then
             Some (Printf.sprintf "call #%d %s: the store handed over through WithStore holds [%s]; the reference LRU's entries, least recently used first, are [%s]"
                     i (show_op o) (match rest with e :: _ -> e | [] -> "") (show_ents st))
           else go (i + 1) ops' obs' want' states'
         | _ -> Some (Printf.sprintf "call #%d: unreadable observation" i))
      | _, _, _, _ -> None in
    go 0 l.rops obs_s want states
  end

let eval inp = if is_r inp then eval_r inp else if is_big inp then eval_big inp else model M.current_variant inp

let spec prop inp out =
  if is_r inp then (if prop = "C08" || prop = "C09" then spec_r inp out else None) else
  if is_big inp then (if prop = "C08" || prop = "C09" then spec_big inp out else None) else
  (* C09: the sequential object of the linearizability claim is checked against the policy-agnostic
     reference only (the eviction order, known finding F2, is C08's business) *)
  if prop <> "C08" && prop <> "C09" then None else
  let (zlim, mode, ops) = parse_input inp in
  if not (zpos zlim) then
    (* New's documented panic, and nothing else *)
    (if prop = "C08" && out <> "NEWPANIC" then Some "cache.New with limit <= 0 did not panic" else None)
  else
  (* negative sizes: no cache can keep Size <= limit (removing a negative-size entry raises Size);
     every other clause is checked *)
  let negative = mode <> "u" && mode.[0] = 'n' in
  let obs_s = if out = "" then [] else String.split_on_char ';' out in
  if List.exists (fun s -> (String.length s >= 5 && String.sub s 0 5 = "PANIC") || s = "NEWPANIC") obs_s then
    Some "panic on a history with limit > 0"
  else if out = "hang" then Some "hang"
  else if List.length obs_s <> List.length ops then Some "wrong number of observations"
  else begin
    let sizeOf = M.size_mode (z_of_int (mode_of mode)) in
    let parsed = List.map2 parse_obs ops obs_s in
    let obs = List.map (fun (o, _, _) -> o) parsed in
    let accounting states =
      (* Len = number of present keys, Size = sum of their sizes <= limit, after every call *)
      let rec go i ps ss = match ps, ss with
        | (_, ln, sz) :: ps', st :: ss' ->
          let want_sz = M.total sizeOf st in
          if ln <> List.length st then Some (Printf.sprintf "call #%d %s: Len()=%d but %d keys are present" i (show_op (List.nth ops i)) ln (List.length st))
          else if sz <> want_sz then Some (Printf.sprintf "call #%d %s: Size()=%s but the present values sum to %s" i (show_op (List.nth ops i)) (string_of_z sz) (string_of_z want_sz))
          else if not negative && not (zle sz zlim) then Some (Printf.sprintf "call #%d: Size()=%s exceeds the limit %s" i (string_of_z sz) (string_of_z zlim))
          else go (i + 1) ps' ss'
        | _, _ -> None in
      go 0 parsed states in
    let want = M.s2_run zeq M.Z0 sizeOf zlim [] ops in
    (* The order clause of the property is about the victims of a Put ("evicts exactly the
       least-recently-used entries ... in that order"); for Clear it asks that the callback fires
       exactly once, with key and value, for every entry cleared -- no order.  So Clear's log is
       compared as a multiset (every entry, once, right value), every other log as a sequence. *)
    let norm l = List.map2 (fun o (r, log) -> if o = M.OClear then (r, List.sort compare log) else (r, log)) ops l in
    match (if prop = "C09" then Some 0 else first_diff 0 (norm obs) (norm want)) with
    | None -> accounting (M.s2_states zeq M.Z0 sizeOf zlim [] ops)
    | Some _ when prop = "C09" ->
      (match M.s1_first_reject sizeOf zlim [] ops obs M.O with
       | Some j -> Some (Printf.sprintf "call #%d %s is not a behaviour of any cache (wrong answer, value, accounting or callback)" (int_of_nat j) (show_op (List.nth ops (int_of_nat j))))
       | None -> accounting (M.s1_states zeq M.Z0 sizeOf zlim [] ops obs))
    | Some i ->
      let o = List.nth ops i in
      let (r, log) = List.nth obs i and (r', log') = List.nth want i in
      let what = Printf.sprintf "call #%d %s: result %s callbacks [%s]; the reference LRU gives result %s callbacks [%s]"
          i (show_op o) (show_out r) (show_log log) (show_out r') (show_log log') in
      (match M.s1_first_reject sizeOf zlim [] ops obs M.O with
       | Some j ->
         Some (Printf.sprintf "%s; call #%d is not a behaviour of any cache (wrong answer, value, accounting or callback)" what (int_of_nat j))
       | None ->
         (match accounting (M.s1_states zeq M.Z0 sizeOf zlim [] ops obs) with
          | Some r -> Some (what ^ "; " ^ r)
          | None ->
            (* Only the choice/order of a Put's victims differs from LRU.  It is the known finding F2
               (heapq.pop never sifts up) only if ALL of:
                 (1) the model of the pinned code reproduces this very output, internals included
                     (heap array, key->offset map, clock after every call) -- so the implementation
                     did nothing on this history that the pinned model does not do;
                 (2) the model with the repaired heap -- the same model, only the two heap switches
                     differ -- gives exactly the reference's answers on this history -- so the two
                     switches are what makes the difference;
                 (3) the F2 trigger (a heapq.Remove that needs a sift-up, CacheModel.rm_safe) does fire
                     on this history in the pinned model (by C08_lru_partial it must, given (1));
                 (4) the sizes are non-negative (the scope of the known finding).
               Anything else is a new violation. *)
            let zmode = z_of_int (mode_of mode) in
            let pinned_same = (try model M.pinned inp = out with _ -> false) in
            let repaired_ok =
              (try List.map (function (M.EOk (r, l), _) -> (r, l) | _ -> failwith "x")
                     (M.run_Z M.repaired zmode zlim ops) = want with _ -> false) in
            let trigger_fired = (try not (M.safe_Z M.pinned zmode zlim ops) with _ -> false) in
            Some (what ^ " (a present entry that is not the least recently used one was evicted first)"
                  ^ (if pinned_same && repaired_ok && trigger_fired && not negative then " known=F2" else ""))))
  end

let () = run_main ~eval ~spec
