(* Replays ringtrace histories on the extracted model (RingModel.step) and evaluates the abstract
   semantics of ring.Ring -- a set of disjoint cyclic sequences of named elements, written here
   independently of the model -- on the implementation's own outputs. *)

let split_ops inp =
  match String.index_opt inp ' ' with
  | None -> []
  | Some i ->
    let rest = String.sub inp (i + 1) (String.length inp - i - 1) in
    if rest = "" then [] else String.split_on_char ';' rest

let op_args o = String.split_on_char ',' (String.sub o 1 (String.length o - 1))
let int_arg args i = match List.nth_opt args i with Some s -> (try int_of_string s with _ -> 0) | None -> 0
let str_arg args i = match List.nth_opt args i with Some s -> s | None -> ""
let of_values o = ints_of (String.sub o 1 (String.length o - 1))

(* lists of more than 200 items are printed as a digest, by the same rule as the harness:
   #<count>:<FNV-1a-64 of the comma-joined text>:<first three>~<last three> *)
let digest_above = 200
let show_list (items : string list) =
  if items = [] then "." else
  let joined = String.concat "," items in
  let n = List.length items in
  if n <= digest_above then joined else begin
    let h = ref (-3750763034362895579L) in
    String.iter (fun c -> h := Int64.mul (Int64.logxor !h (Int64.of_int (Char.code c))) 1099511628211L) joined;
    let a = Array.of_list items in
    Printf.sprintf "#%d:%016Lx:%s~%s" n !h (String.concat "," [a.(0); a.(1); a.(2)]) (String.concat "," [a.(n-3); a.(n-2); a.(n-1)])
  end
let show_int_list l = show_list (List.map string_of_int l)
let max_bulk = 1 lsl 17
let seq_vals b n = List.init (max n 0) (fun i -> b + 1 + i)
let offsets_of args =   (* T<r>,<o>+<o>+... *)
  match args with
  | _ :: rest -> List.map int_of_string_opt (String.split_on_char '+' (String.concat "," rest))
  | [] -> []

let a_big = max_int
let sign_big s = (* "is |n| beyond any ring" for numbers that do not fit an OCaml int *)
  if s = "" then 0 (* a missing argument reads as 0, as in the harness *) else
  match int_of_string_opt s with Some n -> n | None -> if s.[0] = '-' then - a_big else a_big


(* ------------------------------------------------------------------ the extracted model *)

type msess = { mutable heap : int M.heap; mutable names : int list (* addresses, newest first *); tbl : (int, int) Hashtbl.t (* address -> name *); mutable count : int; mutable addr_of : int array }

let m_name s = function
  | None -> "0"
  | Some a -> (match Hashtbl.find_opt s.tbl (int_of_nat a) with Some k -> string_of_int k | None -> "?")

let m_get s a : M.ptr option =
  match int_of_string_opt a with
  | None -> None
  | Some 0 -> Some None
  | Some k -> if k < 0 || k > s.count then None else Some (Some (nat_of_int s.addr_of.(k)))

let m_step s o = let (h, r) = M.step 0 s.heap o in s.heap <- h; r

let m_show s = function
  | M.RPtr p -> m_name s p
  | M.RPeek (v, ok) -> string_of_int v ^ ":" ^ b01 ok
  | M.RLen n -> string_of_int (int_of_z n)
  | M.REach vs -> show_int_list vs
  | M.RBool b -> b01 b
  | M.RPanic -> "panic:nil"
  | M.RFault -> "fault"
  | M.RFuel -> "hang"

let m_register s r n =
  let cur = ref r in
  (try
    for _ = 1 to n do
      (match !cur with
       | None -> raise Exit
       | Some a ->
         let a = int_of_nat a in
         if not (Hashtbl.mem s.tbl a) then begin
           s.count <- s.count + 1;
           Hashtbl.replace s.tbl a s.count;
           if s.count >= Array.length s.addr_of then begin
             let na = Array.make (2 * Array.length s.addr_of) 0 in
             Array.blit s.addr_of 0 na 0 (Array.length s.addr_of); s.addr_of <- na
           end;
           s.addr_of.(s.count) <- a
         end);
      (match m_step s (M.ONext !cur) with M.RPtr p -> cur := p | _ -> raise Exit)
    done
  with Exit -> ())

let m_walk s r k back =
  let out = ref [] and cur = ref r in
  (try
    for _ = 1 to k do
      match m_step s (if back then M.OPrev !cur else M.ONext !cur) with
      | M.RPtr p -> cur := p; out := m_name s p :: !out
      | x -> out := m_show s x :: !out; raise Exit
    done
  with Exit -> ());
  show_list (List.rev !out)

(* k times: x := r.Next() (r.Prev()); x.Pop() *)
let m_drain s r k back =
  let out = ref [] in
  (try
    for _ = 1 to k do
      match m_step s (if back then M.OPrev r else M.ONext r) with
      | M.RPtr x ->
        (match m_step s (M.OPop x) with
         | M.RPtr p -> out := m_name s p :: !out
         | y -> out := m_show s y :: !out; raise Exit)
      | y -> out := m_show s y :: !out; raise Exit
    done
  with Exit -> ());
  show_list (List.rev !out)

let rec m_op s o =
  if o = "" then "?" else
  let args = op_args o in
  match o.[0] with
  | 'N' ->
    let n = sign_big (str_arg args 0) in      (* the count as an OCaml int (only used to name the elements) *)
    if n > 100000 then "too-large" else       (* not an input of the generator; the harness answers the same *)
    (match m_step s (M.ONew (z_of_string (str_arg args 0))) with
     | M.RPtr r -> m_register s r n; m_name s r
     | x -> m_show s x)
  | 'O' ->
    let vs = of_values o in
    (match m_step s (M.OOf vs) with
     | M.RPtr r -> m_register s r (List.length vs); m_name s r
     | x -> m_show s x)
  | 'R' ->
    let n = int_arg args 0 and b = int_arg args 1 in
    if n < 0 || n > max_bulk then "too-large" else
    let vs = seq_vals b n in
    (match m_step s (M.OOf vs) with
     | M.RPtr r -> m_register s r n; m_name s r
     | x -> m_show s x)
  | 'S' ->
    let c = s.count in
    let blocks = List.init c (fun i ->
      let x = Some (nat_of_int s.addr_of.(i + 1)) in
      let lr = m_step s (M.OLen x) in
      let f = [m_walk s x (c + 1) false; m_walk s x (c + 1) true; m_show s lr; m_show s (m_step s (M.OEach (x, M.O)))] in
      let f = match lr with
        | M.RLen n ->
          let ln = int_of_z n in
          let offs = List.init (2 * ln + 3) (fun j -> j - (ln + 1)) in
          f @ [String.concat "," (List.map (fun o -> m_show s (m_step s (M.OAt (x, z_of_int o)))) offs);
               String.concat "," (List.map (fun o -> m_show s (m_step s (M.OPeek (x, z_of_int o)))) offs)]
        | _ -> f in
      String.concat "~" f) in
    if blocks = [] then "." else String.concat "/" blocks
  | c ->
    (match m_get s (str_arg args 0) with
     | None -> "fault"
     | Some r ->
       let zn i = z_of_string (str_arg args i) in
       (match c with
        | 'J' -> (match m_get s (str_arg args 1) with None -> "fault" | Some q -> m_show s (m_step s (M.OJoin (r, q))))
        | 'P' -> m_show s (m_step s (M.OPop r))
        | 'X' -> m_show s (m_step s (M.ONext r))
        | 'V' -> m_show s (m_step s (M.OPrev r))
        | 'A' -> m_show s (m_step s (M.OAt (r, zn 1)))
        | 'K' -> m_show s (m_step s (M.OPeek (r, zn 1)))
        | 'L' -> m_show s (m_step s (M.OLen r))
        | 'E' -> m_show s (m_step s (M.OEach (r, nat_of_int (int_arg args 1))))
        | 'Z' -> m_show s (m_step s (M.OIsEmpty r))
        | 'F' -> m_walk s r (int_arg args 1) false
        | 'B' -> m_walk s r (int_arg args 1) true
        | 'D' -> m_drain s r (int_arg args 1) false
        | 'C' -> m_drain s r (int_arg args 1) true
        | 'G' ->
          let lo = int_arg args 1 and hi = int_arg args 2 in
          if lo < 0 || hi > s.count then "fault" else begin
            let out = ref [] in
            (try
              for x = lo to hi do
                let q = if x = 0 then None else Some (nat_of_int s.addr_of.(x)) in
                match m_step s (M.OJoin (r, q)) with
                | M.RPtr p -> out := m_name s p :: !out
                | y -> out := m_show s y :: !out; raise Exit
              done
            with Exit -> ());
            show_list (List.rev !out)
          end
        | 'T' ->
          let offs = offsets_of args in
          if List.mem None offs then "?" else
          String.concat "," (List.map (function
            | Some n -> m_show s (m_step s (M.OAt (r, z_of_int n))) ^ "=" ^ m_show s (m_step s (M.OPeek (r, z_of_int n)))
            | None -> "?") offs)
        | _ -> "?"))

let eval inp =
  let s = { heap = M.empty_heap; names = []; tbl = Hashtbl.create 16; count = 0; addr_of = Array.make 32 0 } in
  String.concat ";" (List.map (m_op s) (split_ops inp))

(* ------------------------------------------------------------------ the abstract semantics
   State: the cycles (each a list of names, read in Next order from an arbitrary entry point),
   the value of every name, the number of names.  Independent of the model. *)

type asess = { mutable cycles : int list list; vals : (int, int) Hashtbl.t; mutable n : int }

let rec split_at x = function          (* l = l1 @ x :: l2 *)
  | [] -> None
  | y :: t -> if y = x then Some ([], t) else (match split_at x t with Some (l1, l2) -> Some (y :: l1, l2) | None -> None)

(* the cycle through x, listed from x, and the other cycles *)
let cycle_from a x =
  let rec go acc = function
    | [] -> failwith "unknown element"
    | c :: rest -> (match split_at x c with
        | Some (l1, l2) -> ((x :: l2) @ l1, List.rev_append acc rest)
        | None -> go (c :: acc) rest) in
  go [] a.cycles

let a_at a r n =
  if r = 0 then 0 else
  let (c, _) = cycle_from a r in
  let len = List.length c in
  if abs n >= len then 0 else if n >= 0 then List.nth c n else List.nth c (len + n)

let a_next a r = if r = 0 then "panic:nil" else let (c, _) = cycle_from a r in string_of_int (match c with _ :: y :: _ -> y | _ -> r)
let a_prev a r = if r = 0 then "panic:nil" else let (c, _) = cycle_from a r in string_of_int (List.nth c (List.length c - 1))

let a_walk a r k back =
  let out = ref [] and cur = ref r in
  (try for _ = 1 to k do
      let x = if back then a_prev a !cur else a_next a !cur in
      out := x :: !out;
      match int_of_string_opt x with Some y -> cur := y | None -> raise Exit
    done with Exit -> ());
  show_list (List.rev !out)

let a_len a r = if r = 0 then 0 else List.length (fst (cycle_from a r))
let a_each a r lim =
  if r = 0 then "." else
  let vs = List.map (Hashtbl.find a.vals) (fst (cycle_from a r)) in
  show_int_list (if lim = 0 then vs else List.filteri (fun i _ -> i < lim) vs)
let a_peek a r n = match a_at a r n with 0 -> "0:0" | x -> string_of_int (Hashtbl.find a.vals x) ^ ":1"

let a_make a vs =
  match vs with
  | [] -> "0"
  | _ ->
    let names = List.mapi (fun i v -> Hashtbl.replace a.vals (a.n + 1 + i) v; a.n + 1 + i) vs in
    a.cycles <- names :: a.cycles;
    let r = a.n + 1 in
    a.n <- a.n + List.length vs; string_of_int r

let a_handle a s = match int_of_string_opt s with Some k when k >= 0 && k <= a.n -> Some k | _ -> None

(* r.Join(s) on the cycles: the documented two cases *)
let a_join a r s =
  if r = 0 then (if s = 0 then "0" else "panic:nil")   (* r must be non-empty; the code dereferences it *)
  else if s = 0 then "panic:nil"
  else if r = s then "0"
  else begin
    let (cr, others) = cycle_from a r in
    let rest = List.tl cr in
    match split_at s rest with
    | Some ([], _) -> "0"                                   (* s follows r: nothing between *)
    | Some (between, after) ->                              (* same ring: [r2..ri] is cut out *)
      a.cycles <- (r :: s :: after) :: between :: others;
      string_of_int (List.hd between)
    | None ->                                               (* different rings *)
      a.cycles <- others;
      let (cs, others') = cycle_from a s in
      a.cycles <- ((r :: cs) @ rest) :: others';
      string_of_int (match rest with x :: _ -> x | [] -> r)
  end

(* r.Pop(): r alone, the rest of its cycle keeps its order *)
let a_pop a r =
  if r = 0 then "0" else begin
    let (cr, others) = cycle_from a r in
    (match List.tl cr with
     | [] -> ()
     | rest -> a.cycles <- [r] :: rest :: others);
    string_of_int r
  end

let a_op a o =
  if o = "" then "?" else
  let args = op_args o in
  match o.[0] with
  | 'N' -> let n = sign_big (str_arg args 0) in a_make a (List.init (max n 0) (fun _ -> 0))
  | 'O' -> a_make a (of_values o)
  | 'R' ->
    let n = int_arg args 0 and b = int_arg args 1 in
    if n < 0 || n > max_bulk then "too-large" else a_make a (seq_vals b n)
  | 'S' ->
    let c = a.n in
    let blocks = List.init c (fun i ->
      let x = i + 1 in
      let ln = a_len a x in
      let offs = List.init (2 * ln + 3) (fun j -> j - (ln + 1)) in
      String.concat "~" [a_walk a x (c + 1) false; a_walk a x (c + 1) true; string_of_int ln; a_each a x 0;
                         String.concat "," (List.map (fun o -> string_of_int (a_at a x o)) offs);
                         String.concat "," (List.map (fun o -> a_peek a x o) offs)]) in
    if blocks = [] then "." else String.concat "/" blocks
  | c ->
    (match a_handle a (str_arg args 0) with
     | None -> "fault"
     | Some r ->
       (match c with
        | 'J' ->
          (match a_handle a (str_arg args 1) with
           | None -> "fault"
           | Some s -> a_join a r s)
        | 'P' -> a_pop a r
        | 'D' | 'C' ->
          (* k times: x := r.Next() (r.Prev()); x.Pop() *)
          let back = (c = 'C') in
          let out = ref [] in
          (try
            for _ = 1 to int_arg args 1 do
              let x = if back then a_prev a r else a_next a r in
              match int_of_string_opt x with
              | Some x -> out := a_pop a x :: !out
              | None -> out := x :: !out; raise Exit
            done
          with Exit -> ());
          show_list (List.rev !out)
        | 'G' ->
          let lo = int_arg args 1 and hi = int_arg args 2 in
          if lo < 0 || hi > a.n then "fault" else begin
            let out = ref [] in
            (try
              for x = lo to hi do
                let res = a_join a r x in
                out := res :: !out;
                if int_of_string_opt res = None then raise Exit
              done
            with Exit -> ());
            show_list (List.rev !out)
          end
        | 'T' ->
          let offs = offsets_of args in
          if List.mem None offs then "?" else
          String.concat "," (List.map (function
            | Some n -> string_of_int (a_at a r n) ^ "=" ^ a_peek a r n
            | None -> "?") offs)
        | 'X' -> a_next a r
        | 'V' -> a_prev a r
        | 'A' -> string_of_int (a_at a r (sign_big (str_arg args 1)))
        | 'K' -> a_peek a r (sign_big (str_arg args 1))
        | 'L' -> string_of_int (a_len a r)
        | 'E' -> a_each a r (int_arg args 1)
        | 'Z' -> b01 (r = 0)
        | 'F' -> a_walk a r (int_arg args 1) false
        | 'B' -> a_walk a r (int_arg args 1) true
        | _ -> "?"))

(* every cycle non-empty, every name in exactly one cycle *)
let a_partition_ok a =
  let all = List.sort compare (List.concat a.cycles) in
  all = List.init a.n (fun i -> i + 1) && List.for_all (fun c -> c <> []) a.cycles

(* values of Of must be OCaml ints; anything else is not an input the generator produces (it can
   only come from shrinking) and is not judged *)
let well_formed ops =
  List.for_all (fun o -> o = "" || o.[0] <> 'N' || sign_big (String.sub o 1 (String.length o - 1)) <= 100000) ops &&
  List.for_all (fun o -> o = "" || o.[0] <> 'O' ||
    List.for_all (fun v -> v = "" || v = "." || int_of_string_opt v <> None) (String.split_on_char ',' (String.sub o 1 (String.length o - 1)))) ops

let spec _prop inp out =
  let ops = split_ops inp in
  if not (well_formed ops) then None else
  let outs = if out = "" then [] else String.split_on_char ';' out in
  let a = { cycles = []; vals = Hashtbl.create 16; n = 0 } in
  let rec go i ops outs =
    match ops, outs with
    | [], [] -> None
    | [], o :: _ -> Some (Printf.sprintf "extra output %s" o)
    | op :: _, [] -> Some (Printf.sprintf "op #%d %s: no output" i op)
    | op :: ops', o :: outs' ->
      let want = a_op a op in
      if not (a_partition_ok a) then Some "internal: abstract state is not a partition"
      else if want <> o then begin
        (* point at the first differing snapshot block to keep the reason short *)
        let detail =
          if op = "S" then begin
            let wb = String.split_on_char '/' want and ob = String.split_on_char '/' o in
            let rec first k = function
              | w :: ws, g :: gs -> if w = g then first (k + 1) (ws, gs) else Printf.sprintf "element %d: documented %s, got %s" k w g
              | _ -> "different number of elements" in
            first 1 (wb, ob)
          end else Printf.sprintf "documented %s, got %s" want o in
        Some (Printf.sprintf "op #%d %s: %s" i op detail)
      end else go (i + 1) ops' outs' in
  go 0 ops outs

let () = run_main ~eval ~spec
