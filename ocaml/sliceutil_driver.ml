(* Replays sliceutiltrace lines on the extracted model (SliceUtilModel) and evaluates the property
   C17 itself on the implementation's outputs (written directly on OCaml ints and lists; only
   can_overwrite-free arithmetic, independent of the model's loops). *)

let z = z_of_int
let panic_name = function
  | M.PRtIndex -> "rt-index" | M.PRtSlice -> "rt-slice" | M.PRtDiv -> "rt-div" | M.PRtMake -> "rt-make"
  | M.PDocIndex -> "doc-index" | M.PDocOffset -> "doc-offset" | M.PDocMax -> "doc-max" | M.PDocN -> "doc-n"

let show_res f = function
  | M.Ok a -> f a
  | M.Panic p -> "panic:" ^ panic_name p
  | M.OutOfFuel -> "FUEL"

(* base array and the view of vs inside it *)
let mk pre extra vals =
  if pre < 0 then ([], { M.voff = z 0; M.vlen = z 0; M.vcap = z 0 }) else
  let n = List.length vals in
  let a = Array.of_list vals in
  let base = List.init (pre + n + extra) (fun i -> if i < pre || i >= pre + n then 1000 + i else a.(i - pre)) in
  (base, { M.voff = z pre; M.vlen = z n; M.vcap = z (n + extra) })

let show_view w r =
  let len = int_of_z r.M.vlen and cap = int_of_z r.M.vcap in
  (if cap = 0 then "-" else string_of_int (int_of_z r.M.voff)) ^ ":" ^ string_of_int len ^ ":" ^ string_of_int cap ^ ":" ^ b01 (M.can_overwrite w r)
let show_views w rs = if rs = [] then "." else String.concat "," (List.map (show_view w) rs)

let keep_of mask v = v >= 0 && v < 62 && (mask lsr v) land 1 = 1

let parse_lists s = if s = "-" then [] else List.map ints_of (String.split_on_char ';' s)

(* An int argument of the call can be any 64-bit value, OCaml's ints have 63 bits: the model gets
   the exact value (z_of_string); the specification below only compares the argument with numbers
   of the size of the slice, so there it is clamped to +-2^60. *)
let clamp_int s =
  let neg = String.length s > 0 && s.[0] = '-' in
  let digits = if neg then String.length s - 1 else String.length s in
  if digits >= 18 then (if neg then - (1 lsl 60) else 1 lsl 60) else int_of_string s

(* "_" stands for a blank in inputs reported by the extra steps *)
let words s = words (String.map (fun c -> if c = '_' then ' ' else c) s)

(* ---- supplementary operations (outside C17; traces of `sliceutiltrace -prop C17x`) ---- *)
let rec compact = function a :: (b :: _ as r) -> if a = b then compact r else a :: compact r | l -> l
let eval_extra = function
  | ["L"; vals; mask; m] ->
    let mask = int_of_string mask in
    let ((got, _), calls) = M.select_loop (M.take_consumer (z (int_of_string m))) (keep_of mask) (ints_of vals) ([], z 0) (z 0) in
    Some (str_ints got ^ " " ^ string_of_int (int_of_z calls))
  | ["M"; keys] ->
    if keys = "nil" then Some "nil" else
    (match M.map_keys (List.map (fun k -> (k, k + 100)) (ints_of keys)) with
     | None -> Some "nil"
     | Some ks -> Some (str_ints (List.sort compare ks)))
  | ["K"; keys; mask; m; order] ->
    let keys = ints_of keys and mask = int_of_string mask and m = int_of_string m and order = ints_of order in
    (* the oracle: distinct keys of the map ... *)
    let valid = List.for_all (fun k -> List.mem k keys) order && List.length (List.sort_uniq compare order) = List.length order in
    let ((got, _), calls) = M.matching_loop (M.take_consumer (z m)) (fun v -> keep_of mask (v - 100)) (List.map (fun k -> (k, k + 100)) order) ([], z 0) (z 0) in
    (* ... and all of them unless the consumer left the loop *)
    let stopped = m > 0 && List.length got = m in
    if not valid || (not stopped && List.length order <> List.length keys) then Some "BAD-ORACLE"
    else Some (str_ints got ^ " " ^ string_of_int (int_of_z calls))
  | [k; pre; extra; vals; _] when k = "Z" || k = "V" || k = "D" ->
    let pre = int_of_string pre and extra = int_of_string extra and vals = ints_of vals in
    let (base, v) = mk pre extra vals in
    let n = List.length vals in
    let put l = List.mapi (fun i x -> if pre >= 0 && i >= pre && i < pre + n then List.nth l (i - pre) else x) base in
    (match k with
     | "Z" -> Some (show_res str_ints (M.zero_view 0 base v))
     | "V" -> Some (show_res (fun l' -> str_ints (M.splice base v l')) (M.reverse_impl (M.window base v)))
     | _ ->
       ignore put;
       Some (show_res (fun (r, l') -> show_view v r ^ " " ^ str_ints (M.splice base v l')) (M.dedup_view (fun a b -> a = b) 0 (M.window base v) v)))
  | _ -> None

(* ---- zero-size elements, lengths beyond 2^62 (known finding F13): length-only models ---- *)
let fuel64 = nat_of_int 64
let eval_zero_size w = function
  | ["E"; "R"; len; k] -> Some (show_res (fun () -> "ok") (M.rotatez w fuel64 (z_of_string len) (z_of_string k)))
  | ["E"; "C"; len; n] ->
    let len = z_of_string len in
    Some (show_res (fun cs -> if cs = [] then "." else String.concat "," (List.map (fun c -> string_of_z c.M.vlen ^ ":" ^ string_of_z c.M.vcap) cs))
            (M.chunksz w fuel64 { M.voff = z 0; M.vlen = len; M.vcap = len } (z_of_string n)))
  | _ -> None

(* ---- X lines: the scale stream (harness/cmd/sliceutiltrace/scale.go).  The line names its input;
   the outputs are digests / run-length encoded views. ---- *)
let fnv64 s =
  let h = ref 0xcbf29ce484222325L in
  String.iter (fun c -> h := Int64.mul (Int64.logxor !h (Int64.of_int (Char.code c))) 0x100000001b3L) s;
  Printf.sprintf "%Lx" !h
let seq (xs : int list) =
  let a = Array.of_list xs in
  let n = Array.length a in
  let ix = List.sort_uniq compare (List.filter (fun c -> c >= 0 && c < n) [0; 1; 2; n / 2 - 1; n / 2; n / 2 + 1; n - 3; n - 2; n - 1]) in
  Printf.sprintf "%d:%s:%s" n (fnv64 (str_ints xs)) (str_ints (List.map (fun i -> a.(i)) ix))

let x_outside = 1000000
let num_after p s = int_of_string (String.sub s (String.length p) (String.length s - String.length p))
let starts p s = String.length s >= String.length p && String.sub s 0 (String.length p) = p
let x_vals vgen n =
  if vgen = "i" then List.init n (fun j -> j)
  else if starts "d" vgen && num_after "d" vgen > 0 then (let m = num_after "d" vgen in List.init n (fun j -> (7 * j + j / m) mod m))
  else failwith ("bad vgen " ^ vgen)
let x_keep pat n : int -> bool =
  if pat = "all" then (fun _ -> true) else if pat = "none" then (fun _ -> false)
  else if pat = "alt0" then (fun c -> c mod 2 = 0) else if pat = "alt1" then (fun c -> c mod 2 = 1)
  else if pat = "ends" then (fun c -> c = 0 || c = n - 1) else if pat = "first" then (fun c -> c = 0)
  else if pat = "last" then (fun c -> c = n - 1) else if pat = "notends" then (fun c -> c <> 0 && c <> n - 1)
  else if starts "runs" pat then (let l = max (num_after "runs" pat) 1 in fun c -> (c / l) mod 2 = 0)
  else if starts "lo" pat then (let h = num_after "lo" pat in fun c -> c < h)
  else if starts "hi" pat then (let h = num_after "hi" pat in fun c -> c >= h)
  else if starts "m" pat then Scanf.sscanf pat "m%dr%d" (fun m r -> let m = max m 1 in fun c -> c mod m < r)
  else failwith ("bad keep pattern " ^ pat)
let x_list_len lgen j =
  let l = num_after (String.sub lgen 0 1) lgen in
  match lgen.[0] with 'c' -> l | 'v' -> (5 * j + 3) mod (l + 1) | 'o' -> l + j mod 2 | _ -> failwith "bad list generator"
let x_lists m lgen = List.init m (fun j -> List.init (x_list_len lgen j) (fun p -> (31 * j + p) mod 1000003))
let x_base pre extra vals =
  let n = List.length vals in
  let a = Array.of_list vals in
  List.init (pre + n + extra) (fun j -> if j >= pre && j < pre + n then a.(j - pre) else x_outside + j)

(* consecutive views as runs  off:len:cap:cls*count *)
let rle (vs : (string * int * int * string) list) =
  if vs = [] then "." else begin
    let follows (o1, l1, _, _) (o2, _, _, _) =
      if o1 = o2 && (o1 = "-" || o1 = "ext") then true
      else match int_of_string_opt o1, int_of_string_opt o2 with Some x, Some y -> y = x + l1 | _ -> false in
    let buf = Buffer.create 64 in
    let flush (o, l, c, k) cnt = if Buffer.length buf > 0 then Buffer.add_char buf ','; Buffer.add_string buf (Printf.sprintf "%s:%d:%d:%s*%d" o l c k cnt) in
    let rec go first prev cnt = function
      | [] -> flush first cnt
      | ((_, l, c, k) as v) :: r ->
        let (_, l0, c0, k0) = first in
        if l = l0 && c = c0 && k = k0 && follows prev v then go first v (cnt + 1) r else (flush first cnt; go v v 1 r) in
    (match vs with v :: r -> go v v 1 r | [] -> ());
    Buffer.contents buf
  end
let view4 w r =
  let len = int_of_z r.M.vlen and cap = int_of_z r.M.vcap in
  ((if cap = 0 then "-" else string_of_int (int_of_z r.M.voff)), len, cap, b01 (M.can_overwrite w r))

let eval_x = function
  | ["X"; "S"; _; _; _; _; m; lgen; i] ->
    Some (show_res seq (M.stripe (x_lists (int_of_string m) lgen) (z_of_string i)))
  | ["X"; op; _; rep; pre; extra; n; vgen; arg] ->
    let pre = int_of_string pre and extra = int_of_string extra and n = int_of_string n in
    let vals = x_vals vgen n in
    let base = x_base pre extra vals in
    let v = { M.voff = z pre; M.vlen = z n; M.vcap = z (n + extra) } in
    let zarg () = z_of_string arg in
    Some (match op with
     | "P" ->
       show_res (fun (b', r) ->
           let w' = M.window b' v in
           let outside = List.filteri (fun j _ -> j < pre || j >= pre + n) b' in
           show_view v r ^ " " ^ seq (M.window b' r) ^ " " ^ seq b' ^ " " ^ seq (List.sort compare w') ^ " " ^ seq outside)
         (if rep = "f" then M.partition_fast (x_keep arg n) base v else M.partition (x_keep arg n) base v)
     | "R" -> show_res seq (if rep = "f" then M.rotate_view_fast base v (zarg ()) else M.rotate base v (zarg ()))
     | "C" -> show_res (fun rs -> rle (List.map (view4 v) rs) ^ " " ^ seq base) (M.chunks v (zarg ()))
     | "B" -> show_res (fun rs -> rle (List.map (view4 v) rs) ^ " " ^ seq base) (M.batches v (zarg ()))
     | "H" -> show_res (fun r -> show_view v r ^ " " ^ seq base) (M.head v (zarg ()))
     | "T" -> show_res (fun r -> show_view v r ^ " " ^ seq base) (M.tail v (zarg ()))
     | "A" -> show_res string_of_int (M.at_ (M.window base v) (zarg ()))
     | "Q" -> show_res (function None -> "nil" | Some p -> let p = int_of_z p in Printf.sprintf "%d:%d" (pre + p) (List.nth vals p)) (M.ptr_at (M.window base v) (zarg ()))
     | _ -> "?")
  | _ -> None


(* ---- Y lines (round 7): Reverse, Dedup, Select, MatchingKeys at several element types
   (harness/cmd/sliceutiltrace/more.go).  Elements are codes; the element type matters through the
   equality Dedup uses (float64: NaN is not equal to itself, -0.0 == +0.0) and the zero value. ---- *)
let y_outside = 30
let y_zero ty = if ty = "f" then -3 else -9
let y_is_zero c = c = -2 || c = -3
let y_eqb ty a b = if ty = "f" then (a = b && a <> -1) || (y_is_zero a && y_is_zero b) else a = b
let y_keep mask c = let k = if c < 0 then c + 62 else c in k >= 0 && k < 62 && (mask lsr k) land 1 = 1
let y_val k = if k mod 4 = 3 then -1 else (7 * k + 3) mod 13
let y_mk pre extra vals =
  if pre < 0 then ([], { M.voff = z 0; M.vlen = z 0; M.vcap = z 0 }) else
  let n = List.length vals in
  let a = Array.of_list vals in
  (List.init (pre + n + extra) (fun j -> if j >= pre && j < pre + n then a.(j - pre) else y_outside + j),
   { M.voff = z pre; M.vlen = z n; M.vcap = z (n + extra) })
let y_keys s = if s = "nil" then [] else ints_of s

let eval_y = function
  | ["Y"; "V"; _; pre; extra; vals] ->
    let (base, v) = y_mk (int_of_string pre) (int_of_string extra) (ints_of vals) in
    Some (show_res (fun l' -> str_ints (M.splice base v l')) (M.reverse_impl (M.window base v)))
  | ["Y"; "D"; ty; pre; extra; vals] ->
    let pre = int_of_string pre in
    let (base, v) = y_mk pre (int_of_string extra) (ints_of vals) in
    Some (show_res (fun (r, l') ->
        show_view v r ^ " " ^ str_ints (M.window (M.splice base v l') r) ^ " " ^ str_ints (M.splice base v l') ^ (if pre < 0 then " N" else " S"))
      (M.dedup_view (y_eqb ty) (y_zero ty) (M.window base v) v))
  | ["Y"; "L"; _; pre; extra; vals; mask; m; _] ->
    let (base, v) = y_mk (int_of_string pre) (int_of_string extra) (ints_of vals) in
    let ((got, _), calls) = M.select_loop (M.take_consumer (z (int_of_string m))) (y_keep (int_of_string mask)) (M.window base v) ([], z 0) (z 0) in
    Some (Printf.sprintf "%s %d %d %s" (str_ints got) (int_of_z calls) (List.length got) (str_ints base))
  | ["Y"; "K"; _; _; keys; mask; m] ->
    (* the number of keys delivered and, when the consumer never stops, their set do not depend on
       the order the map is visited in: the loop model runs on the keys in the order listed *)
    let m = int_of_string m in
    let ((got, _), calls) = M.matching_loop (M.take_consumer (z m)) (y_keep (int_of_string mask)) (List.map (fun k -> (k, y_val k)) (y_keys keys)) ([], z 0) (z 0) in
    Some (if m > 0 then Printf.sprintf "n=%d %d" (List.length got) (List.length got)
          else Printf.sprintf "%s %d %d" (str_ints (List.sort compare got)) (int_of_z calls) (List.length got))
  | "Y" :: _ -> Some "?"
  | _ -> None

let eval inp =
  match eval_y (words inp) with Some s -> s | None ->
  match eval_x (words inp) with Some s -> s | None ->
  match eval_zero_size M.w64 (words inp) with Some s -> s | None ->
  match eval_extra (words inp) with Some s -> s | None ->
  match words inp with
  | ["S"; i; ls] ->
    show_res str_ints (M.stripe (parse_lists ls) (z_of_string i))
  | [k; pre; extra; vals; arg] ->
    let pre = int_of_string pre and extra = int_of_string extra and vals = ints_of vals and zarg = z_of_string arg in
    let (base, v) = mk pre extra vals in
    (match k with
     | "P" -> show_res (fun (b', r) -> show_view v r ^ " " ^ str_ints (M.window b' r) ^ " " ^ str_ints b') (M.partition (keep_of (int_of_string arg)) base v)
     | "R" -> show_res str_ints (M.rotate base v zarg)
     | "C" -> show_res (fun rs -> show_views v rs ^ " " ^ str_ints base) (M.chunks v zarg)
     | "B" -> show_res (fun rs -> show_views v rs ^ " " ^ str_ints base) (M.batches v zarg)
     | "H" -> show_res (fun r -> show_view v r ^ " " ^ str_ints base) (M.head v zarg)
     | "T" -> show_res (fun r -> show_view v r ^ " " ^ str_ints base) (M.tail v zarg)
     | "A" -> show_res string_of_int (M.at_ (M.window base v) zarg)
     | "Q" -> show_res (function None -> "nil" | Some p -> string_of_int (pre + int_of_z p)) (M.ptr_at (M.window base v) zarg)
     | _ -> "?")
  | _ -> "?"

(* ---- the property on the implementation's output ---- *)
exception Bad of string
let bad fmt = Printf.ksprintf (fun s -> raise (Bad s)) fmt
let is_panic out = String.length out >= 6 && String.sub out 0 6 = "panic:"

(* off: the slot the data pointer addresses (None when cap = 0: such a pointer means nothing) *)
type pview = { off : int option; len : int; cap : int; cls : bool }
let parse_view s =
  match String.split_on_char ':' s with
  | [o; l; k; c] -> { off = (if o = "-" then None else if o = "ext" then Some (-1) else Some (int_of_string o)); len = int_of_string l; cap = int_of_string k; cls = (c = "1") }
  | _ -> bad "bad view syntax %s" s

(* "Capacity-clipped" (the reading of DESIGN.md section 5, C17): the capacity of a returned slice
   ends at its own end, cap = len.  The one exception are the early returns of the pinned code that
   hand back the input itself and not a subslice computed from it -- Partition of an empty slice and
   Chunks with n = 0 or n >= len -- where the result may be vs, capacity and all.  [allowed_self]
   says whether the call is one of those; everything else with cap > len is a violation, whether
   or not the spare capacity happens to lie inside vs. *)
let is_self pre n extra v = v.len = n && v.cap = n + extra && (match v.off with Some o -> o = max pre 0 | None -> true)
let check_clip what pre n extra ~allowed_self v =
  if v.cap < v.len then bad "%s: capacity %d below length %d" what v.cap v.len;
  if v.cap <> v.len && not (allowed_self && is_self pre n extra v) then
    bad "%s: capacity %d is not clipped to the length %d (appending to the result writes into the caller's array)" what v.cap v.len
let parse_views s = if s = "." then [] else List.map parse_view (String.split_on_char ',' s)

let rec take n l = if n <= 0 then [] else match l with [] -> [] | x :: r -> x :: take (n - 1) r
let rec drop n l = if n <= 0 then l else match l with [] -> [] | _ :: r -> drop (n - 1) r
let pmod a n = ((a mod n) + n) mod n

(* base-after must equal the original outside the window; returns the new window *)
let window_after pre extra vals base' =
  if pre < 0 then (if base' <> [] then bad "nil slice grew a base"; []) else begin
    let n = List.length vals in
    let (base, _) = mk pre extra vals in
    if List.length base' <> List.length base then bad "base length changed";
    List.iteri (fun i (a, b) -> if (i < pre || i >= pre + n) && a <> b then bad "element %d outside the slice changed" i) (List.combine base base');
    take n (drop pre base')
  end

(* consecutive views covering vs, none able to overwrite an element of vs *)
let check_cover pre n vs =
  let pre = max pre 0 in
  let pos = ref pre in
  List.iter (fun v ->
    (match v.off with Some o when o <> !pos -> bad "subslice starts at %d, expected %d" o !pos | _ -> ());
    if v.cls then bad "appending to the subslice at %d overwrites an element of the input" !pos;
    if v.len < 0 then bad "negative length";
    pos := !pos + v.len) vs;
  if !pos <> pre + n then bad "subslices cover %d elements, the input has %d" (!pos - pre) n


(* ---- Y lines: the doc comments of Reverse, Dedup, Select, MatchingKeys, stated directly on the
   codes (no model function is called here) ---- *)
let y_base_after pre extra vals base' =
  (* the array around the slice must be as it was; returns the slice's elements afterwards *)
  if pre < 0 then (if base' <> [] then bad "nil slice grew a base"; []) else begin
    let n = List.length vals in
    if List.length base' <> pre + n + extra then bad "the backing array has %d elements, expected %d" (List.length base') (pre + n + extra);
    List.iteri (fun j x -> if (j < pre || j >= pre + n) && x <> y_outside + j then bad "element %d outside the slice changed" j) base';
    take n (drop pre base')
  end
let rec y_firsts ty = function               (* the first element of every run of ==-equal neighbours *)
  | a :: (b :: _ as r) -> if y_eqb ty b a then a :: y_firsts ty (y_skip ty a r) else a :: y_firsts ty r
  | l -> l
and y_skip ty prev = function                (* drops the rest of the run; neighbours are compared pairwise *)
  | b :: r when y_eqb ty b prev -> y_skip ty b r
  | l -> l
let spec_y f out =
  try
    let must_not_panic what = if is_panic out || out = "hang" || out = "hang-skipped" || out = "?" then bad "%s: %s" what out in
    (match f with
     | ["Y"; "V"; _; pre; extra; vals] ->
       must_not_panic "Reverse";
       let pre = int_of_string pre and extra = int_of_string extra and vals = ints_of vals in
       let w' = y_base_after pre extra vals (ints_of out) in
       if List.length w' <> List.length vals then bad "Reverse: length changed";
       let a = Array.of_list vals and n = List.length vals in
       List.iteri (fun i x -> if x <> a.(n - 1 - i) then bad "Reverse: element %d afterwards is not the element that was at %d" i (n - 1 - i)) w'
     | ["Y"; "D"; ty; pre; extra; vals] ->
       must_not_panic "Dedup";
       let pre = int_of_string pre and extra = int_of_string extra and vals = ints_of vals in
       let n = List.length vals in
       (match words out with
        | [v; elems; base'; nl] ->
          let v = parse_view v and elems = ints_of elems in
          let w' = y_base_after pre extra vals (ints_of base') in
          let want = y_firsts ty vals in
          let rec adjacent = function a :: (b :: _ as r) -> if y_eqb ty a b then bad "Dedup: two adjacent equal elements remain in the result" else adjacent r | _ -> () in
          adjacent elems;
          if elems <> want then bad "Dedup: result is %s, the first element of every run in order is %s" (str_ints elems) (str_ints want);
          if v.len <> List.length want then bad "Dedup: result length %d" v.len;
          (match v.off with Some o when o <> max pre 0 -> bad "Dedup: the result is not a prefix of vs (starts at %d)" o | _ -> ());
          if v.cap <> n + extra then bad "Dedup: capacity %d, a prefix of vs has capacity %d" v.cap (n + extra);
          if take v.len w' <> want then bad "Dedup: vs does not begin with the kept elements";
          List.iteri (fun i x -> if i >= v.len && x <> y_zero ty then bad "Dedup: element %d of vs behind the result is not zeroed" i) w';
          if (nl = "N") <> (pre < 0) then bad "Dedup: nil-ness of the result differs from the input's"
        | _ -> bad "bad output syntax")
     | ["Y"; "L"; _; pre; extra; vals; mask; m; _] ->
       must_not_panic "Select";
       let pre = int_of_string pre and extra = int_of_string extra and vals = ints_of vals and mask = int_of_string mask and m = int_of_string m in
       (match words out with
        | [got; calls; ycalls; base'] ->
          let got = ints_of got and calls = int_of_string calls and ycalls = int_of_string ycalls in
          if y_base_after pre extra vals (ints_of base') <> vals then bad "Select: input modified";
          let sat = List.filter (y_keep mask) vals in
          let want = if m > 0 then take m sat else sat in
          if got <> want then bad "Select: delivered %s, the elements satisfying f in order%s are %s" (str_ints got) (if m > 0 then " up to the stop" else "") (str_ints want);
          if ycalls <> List.length want then bad "Select: yield called %d times for %d values (it was called again after it returned false)" ycalls (List.length want);
          (* stops when told: f is not asked about anything behind the element the consumer stopped at *)
          let stopped = m > 0 && List.length sat >= m in
          let upto = if not stopped then List.length vals else begin
              let rec pos i k = function [] -> i | x :: r -> if y_keep mask x then (if k + 1 = m then i + 1 else pos (i + 1) (k + 1) r) else pos (i + 1) k r in
              pos 0 0 vals end in
          if calls <> upto then bad "Select: f called %d times, expected %d" calls upto
        | _ -> bad "bad output syntax")
     | ["Y"; "K"; _; _; keys; mask; m] ->
       must_not_panic "MatchingKeys";
       let keys = y_keys keys and mask = int_of_string mask and m = int_of_string m in
       let matching = List.sort compare (List.filter (fun k -> y_keep mask (y_val k)) keys) in
       (match words out with
        | [cnt; ycalls] when m > 0 ->
          let want = min m (List.length matching) in
          if cnt <> Printf.sprintf "n=%d" want then bad "MatchingKeys: %s keys delivered, expected %d" cnt want;
          if int_of_string ycalls <> want then bad "MatchingKeys: yield called %s times for %d keys" ycalls want
        | [got; calls; ycalls] when m <= 0 ->
          if ints_of got <> matching then bad "MatchingKeys: delivered %s, the keys whose value satisfies f are %s" got (str_ints matching);
          if int_of_string calls <> List.length keys then bad "MatchingKeys: f called %s times on a map of %d entries" calls (List.length keys);
          if int_of_string ycalls <> List.length matching then bad "MatchingKeys: yield called %s times for %d keys" ycalls (List.length matching)
        | _ -> bad "bad output syntax")
     | _ -> bad "bad Y line");
    None
  with Bad s -> Some s

(* supplementary: what the documentation of Zero, Select, MatchingKeys, MapKeys says, directly *)
let spec_extra inp out =
  try
    (match words inp with
     | ["L"; vals; mask; m] ->
       let vals = ints_of vals and mask = int_of_string mask and m = int_of_string m in
       let want = List.filter (keep_of mask) vals in
       let want = if m > 0 then take m want else want in
       (match words out with
        | [got; _] -> if ints_of got <> want then bad "Select: expected %s" (str_ints want)
        | _ -> bad "bad output syntax")
     | ["M"; keys] ->
       let want = if keys = "nil" || ints_of keys = [] then "nil" else str_ints (List.sort compare (ints_of keys)) in
       if out <> want then bad "MapKeys: expected %s" want
     | ["K"; keys; mask; m; _] ->
       let keys = ints_of keys and mask = int_of_string mask and m = int_of_string m in
       let matching = List.filter (keep_of mask) keys in
       (match words out with
        | [got; _] ->
          let got = ints_of got in
          if List.length (List.sort_uniq compare got) <> List.length got then bad "MatchingKeys: a key delivered twice";
          if not (List.for_all (fun k -> List.mem k matching) got) then bad "MatchingKeys: delivered a key whose value does not match";
          let wantn = if m > 0 then min m (List.length matching) else List.length matching in
          if List.length got <> wantn then bad "MatchingKeys: %d keys delivered, expected %d" (List.length got) wantn
        | _ -> bad "bad output syntax")
     | ["Z"; pre; extra; vals; _] ->
       let pre = int_of_string pre and extra = int_of_string extra and vals = ints_of vals in
       if is_panic out then bad "Zero panics";
       let w' = window_after pre extra vals (ints_of out) in
       if List.exists (fun x -> x <> 0) w' then bad "Zero: a non-zero element remains"
     | ["V"; pre; extra; vals; _] ->
       let pre = int_of_string pre and extra = int_of_string extra and vals = ints_of vals in
       if is_panic out then bad "Reverse panics";
       if window_after pre extra vals (ints_of out) <> List.rev vals then bad "Reverse: the slice afterwards is not the reverse of what it was"
     | ["D"; pre; extra; vals; _] ->
       let pre = int_of_string pre and extra = int_of_string extra and vals = ints_of vals in
       if is_panic out then bad "Dedup panics";
       (match words out with
        | [v; base'] ->
          let v = parse_view v and w' = window_after pre extra vals (ints_of base') in
          let want = compact vals and n = List.length vals in
          if take v.len w' <> want || v.len <> List.length want then bad "Dedup: result is not the first element of every run (%s)" (str_ints want);
          (match v.off with Some o when o <> max pre 0 -> bad "Dedup: the result is not a prefix of vs" | _ -> ());
          if v.cap <> n + extra then bad "Dedup: capacity %d, a prefix of vs has capacity %d" v.cap (n + extra);
          if List.exists (fun x -> x <> 0) (drop v.len w') then bad "Dedup: the elements behind the result are not zeroed"
        | _ -> bad "bad output syntax")
     | _ -> ());
    None
  with Bad s -> Some s

(* Rotate / Chunks of zero-size elements: the property (no panic on a documented argument; the
   documented chunk lengths).  A failure is the known finding F13 only if the slice has more than
   2^62 elements, the 64-bit wrap-around model reproduces the implementation's output on this very
   input, and the unbounded model does not fail on it (Chunks: it yields exactly the documented
   chunks; Rotate: no panic -- it is linear in len, so "still running after 64 steps" is all that
   can be evaluated; C17_rotate proves it never panics). *)
let spec_zero_size inp out =
  match words inp with
  | ["E"; fn; len; arg] ->
    let zlen = z_of_string len in
    let small x = String.length x < 18 in
    let documented = match fn with
      | "R" -> true          (* the corpus lines keep -len <= k <= len; checked below through the unbounded model *)
      | _ -> String.length arg > 0 && arg.[0] <> '-' in
    let unbounded = match eval_zero_size M.wid (words inp) with Some s -> s | None -> "?" in
    let failure =
      if not documented then None
      else if is_panic out || out = "hang-skipped" then Some (Printf.sprintf "%s on a documented argument of a slice of %s zero-size elements" out len)
      else if fn = "C" && out <> "hang" && out <> unbounded && unbounded <> "FUEL" then Some ("Chunks: expected " ^ unbounded)
      else None in
    (match failure with
     | None -> None
     | Some r ->
       let unbounded_ok = (fn = "R" && (unbounded = "ok" || unbounded = "FUEL")) || (fn = "C" && not (is_panic unbounded) && unbounded <> "FUEL") in
       let known = M.above62 zlen && not (small len) && eval inp = out && unbounded_ok in
       Some (if known then r ^ " known=F13" else r))
  | _ -> None

(* ---- the property on the X lines (scale stream): the same clauses, evaluated on digests of whole
   sequences (a digest stands for the sequence it was computed from: FNV-1a 64 over its decimal
   text, together with its length and nine of its elements) and on run-length encoded views, which
   are expanded before they are checked. ---- *)
let parse_rle s : pview list =
  if s = "." then [] else
  List.concat_map (fun run ->
    match String.split_on_char '*' run with
    | [v; cnt] ->
      let v = parse_view v and cnt = (match int_of_string_opt cnt with Some c -> c | None -> bad "bad run count %s" cnt) in
      if cnt < 1 || cnt > 4_000_000 then bad "bad run count %d" cnt;
      List.init cnt (fun j -> { v with off = (match v.off with Some o when o >= 0 -> Some (o + j * v.len) | x -> x) })
    | _ -> bad "bad run syntax %s" run) (String.split_on_char ',' s)

let spec_x f out =
  try
    let must_not_panic () = if is_panic out || out = "hang" || out = "hang-skipped" then bad "%s on a documented argument" out in
    (match f with
     | ["X"; "S"; _; _; _; _; m; lgen; i] ->
       let i = clamp_int i in
       if i >= 0 then begin
         let want = List.concat_map (fun l -> match List.nth_opt l i with Some x -> [x] | None -> []) (x_lists (int_of_string m) lgen) in
         if out <> seq want then bad "Stripe: expected %s" (seq want)
       end
     | ["X"; k; _; _; pre; extra; n; vgen; arg] ->
       let pre = int_of_string pre and extra = int_of_string extra and n = int_of_string n in
       let vals = x_vals vgen n in
       let a = Array.of_list vals in
       let base = x_base pre extra vals in
       let outside l = List.filteri (fun j _ -> j < pre || j >= pre + n) l in
       let base_unchanged what d = if d <> seq base then bad "%s: input (or the array around it) modified" what in
       (match k with
        | "P" ->
          must_not_panic ();
          (match words out with
           | [v; elems; _; sorted; outs] ->
             let v = parse_view v in
             let want = List.filter (x_keep arg n) vals in
             if elems <> seq want then bad "Partition: result is %s, kept elements in order are %s" elems (seq want);
             if v.len <> List.length want then bad "Partition: result length";
             (match v.off with Some o when o <> pre -> bad "Partition: result is not a prefix of vs (starts at %d)" o | _ -> ());
             if v.cls then bad "Partition: appending to the result overwrites an element of vs (capacity not clipped)";
             check_clip "Partition" pre n extra ~allowed_self:(n = 0) v;
             if sorted <> seq (List.sort compare vals) then bad "Partition: vs is not a permutation of its original contents";
             if outs <> seq (outside base) then bad "Partition: an element outside the slice changed"
           | _ -> bad "bad output syntax")
        | "R" ->
          let arg = clamp_int arg in
          if arg < -n || arg > n then (if out <> "panic:doc-offset" then bad "Rotate: k out of range must panic(offset out of range)")
          else begin
            must_not_panic ();
            let w' = Array.make n 0 in
            for i = 0 to n - 1 do w'.(pmod (i + arg) n) <- a.(i) done;
            let want = List.mapi (fun j x -> if j >= pre && j < pre + n then w'.(j - pre) else x) base in
            if out <> seq want then bad "Rotate: the array afterwards is %s, expected %s (element i at index (i+k) mod n, nothing else changed)" out (seq want)
          end
        | "C" ->
          let arg = clamp_int arg in
          if arg < 0 then (if not (is_panic out) then bad "Chunks: n < 0 must panic")
          else begin
            must_not_panic ();
            (match words out with
             | [vs; base'] ->
               let vs = parse_rle vs in
               base_unchanged "Chunks" base';
               check_cover pre n vs;
               let m = List.length vs in
               if m = 0 then bad "Chunks: no chunk";
               List.iter (check_clip "Chunks" pre n extra ~allowed_self:(m = 1 && (arg = 0 || arg >= n))) vs;
               if arg = 0 then (if m <> 1 then bad "Chunks: n = 0 must give a single chunk")
               else List.iteri (fun j v ->
                 if j < m - 1 && v.len <> arg then bad "Chunks: chunk %d has length %d" j v.len;
                 if j = m - 1 && (v.len > arg || (v.len = 0 && n > 0)) then bad "Chunks: last chunk has length %d" v.len) vs
             | _ -> bad "bad output syntax")
          end
        | "B" ->
          let arg = clamp_int arg in
          if arg < 0 then (if not (is_panic out) then bad "Batches: n < 0 must panic")
          else begin
            must_not_panic ();
            (match words out with
             | [vs; base'] ->
               let vs = parse_rle vs in
               base_unchanged "Batches" base';
               if arg > 0 then check_cover pre n vs;
               List.iter (check_clip "Batches" pre n extra ~allowed_self:false) vs;
               if List.length vs <> min arg n then bad "Batches: %d batches, expected min(n, len) = %d" (List.length vs) (min arg n);
               let lens = List.map (fun v -> v.len) vs in
               if lens <> [] then begin
                 let lo = List.fold_left min max_int lens and hi = List.fold_left max 0 lens in
                 if hi - lo > 1 then bad "Batches: lengths differ by %d" (hi - lo)
               end
             | _ -> bad "bad output syntax")
          end
        | "H" | "T" ->
          let arg = clamp_int arg in
          if arg >= 0 then begin
            must_not_panic ();
            (match words out with
             | [v; base'] ->
               let v = parse_view v in
               base_unchanged "Head/Tail" base';
               let want = min arg n in
               if v.len <> want then bad "Head/Tail: length %d, expected %d" v.len want;
               let o = if k = "H" then pre else pre + n - want in
               (match v.off with Some x when x <> o -> bad "Head/Tail: starts at %d, expected %d" x o | _ -> ())
             | _ -> bad "bad output syntax")
          end
        | "A" ->
          let arg = clamp_int arg in
          if arg >= -n && arg < n then begin
            must_not_panic ();
            if out <> string_of_int a.(pmod arg n) then bad "At: expected %d" a.(pmod arg n)
          end else if out <> "panic:doc-index" then bad "At: out of range must panic(index out of range)"
        | "Q" ->
          let arg = clamp_int arg in
          if arg >= -n && arg < n then begin
            let want = Printf.sprintf "%d:%d" (pre + pmod arg n) a.(pmod arg n) in
            if out <> want then bad "PtrAt: expected the address of element %d (%s)" (pmod arg n) want
          end else if out <> "nil" then bad "PtrAt: out of range must return nil"
        | _ -> ())
     | _ -> bad "bad X line");
    None
  with Bad s -> Some s

let spec prop inp out =
  if prop = "C17x" then spec_extra inp out else
  if prop <> "C17" then None else
  match words inp with "E" :: _ -> spec_zero_size inp out | "X" :: _ -> spec_x (words inp) out | "Y" :: _ -> spec_y (words inp) out
  | ("L" | "M" | "K" | "Z" | "V" | "D") :: _ -> spec_extra inp out | _ ->
  try
    (match words inp with
     | ["S"; i; ls] ->
       let i = clamp_int i and ls = parse_lists ls in
       if i >= 0 then begin
         let want = List.concat_map (fun l -> match List.nth_opt l i with Some x -> [x] | None -> []) ls in
         if out <> str_ints want then bad "Stripe: expected %s" (str_ints want)
       end
     | [k; pre; extra; vals; arg] ->
       let pre = int_of_string pre and extra = int_of_string extra and vals = ints_of vals and arg = clamp_int arg in
       let n = List.length vals in
       let a = Array.of_list vals in
       let must_not_panic () = if is_panic out || out = "hang" || out = "hang-skipped" then bad "%s on a documented argument" out in
       (match k with
        | "P" ->
          must_not_panic ();
          (match words out with
           | [v; elems; base'] ->
             let v = parse_view v and elems = ints_of elems and w' = window_after pre extra vals (ints_of base') in
             let want = List.filter (keep_of arg) vals in
             if elems <> want then bad "Partition: result is %s, kept elements in order are %s" (str_ints elems) (str_ints want);
             if v.len <> List.length want then bad "Partition: result length";
             (match v.off with Some o when o <> pre -> bad "Partition: result is not a prefix of vs (starts at %d)" o | _ -> ());
             if v.cls then bad "Partition: appending to the result overwrites an element of vs (capacity not clipped)";
             check_clip "Partition" pre n extra ~allowed_self:(n = 0) v;
             if take v.len w' <> want then bad "Partition: vs does not begin with the kept elements";
             if List.sort compare w' <> List.sort compare vals then bad "Partition: vs is not a permutation of its original contents"
           | _ -> bad "bad output syntax")
        | "R" ->
          if arg < -n || arg > n then (if out <> "panic:doc-offset" then bad "Rotate: k out of range must panic(offset out of range)")
          else begin
            must_not_panic ();
            let w' = Array.of_list (window_after pre extra vals (ints_of out)) in
            if Array.length w' <> n then bad "Rotate: length changed";
            for i = 0 to n - 1 do
              let d = pmod (i + arg) n in
              if w'.(d) <> a.(i) then bad "Rotate: element at index %d is not at index %d afterwards" i d
            done
          end
        | "C" ->
          if arg < 0 then (if not (is_panic out) then bad "Chunks: n < 0 must panic")
          else begin
            must_not_panic ();
            (match words out with
             | [vs; base'] ->
               let vs = parse_views vs and w' = window_after pre extra vals (ints_of base') in
               if w' <> vals then bad "Chunks: input modified";
               check_cover pre n vs;
               let m = List.length vs in
               if m = 0 then bad "Chunks: no chunk";
               List.iter (check_clip "Chunks" pre n extra ~allowed_self:(m = 1 && (arg = 0 || arg >= n))) vs;
               if arg = 0 then (if m <> 1 then bad "Chunks: n = 0 must give a single chunk")
               else List.iteri (fun j v ->
                 if j < m - 1 && v.len <> arg then bad "Chunks: chunk %d has length %d" j v.len;
                 if j = m - 1 && (v.len > arg || (v.len = 0 && n > 0)) then bad "Chunks: last chunk has length %d" v.len) vs
             | _ -> bad "bad output syntax")
          end
        | "B" ->
          if arg < 0 then (if not (is_panic out) then bad "Batches: n < 0 must panic")
          else begin
            must_not_panic ();
            (match words out with
             | [vs; base'] ->
               let vs = parse_views vs and w' = window_after pre extra vals (ints_of base') in
               if w' <> vals then bad "Batches: input modified";
               (* n = 0 is documented to return nil; otherwise the batches cover vs *)
               if arg > 0 then check_cover pre n vs;
               List.iter (check_clip "Batches" pre n extra ~allowed_self:false) vs;
               if List.length vs <> min arg n then bad "Batches: %d batches, expected min(n, len) = %d" (List.length vs) (min arg n);
               let lens = List.map (fun v -> v.len) vs in
               if lens <> [] then begin
                 let lo = List.fold_left min max_int lens and hi = List.fold_left max 0 lens in
                 if hi - lo > 1 then bad "Batches: lengths differ by %d" (hi - lo)
               end
             | _ -> bad "bad output syntax")
          end
        | "H" | "T" ->
          if arg >= 0 then begin
            must_not_panic ();
            (match words out with
             | [v; base'] ->
               let v = parse_view v and w' = window_after pre extra vals (ints_of base') in
               if w' <> vals then bad "Head/Tail: input modified";
               let want = min arg n in
               if v.len <> want then bad "Head/Tail: length %d, expected %d" v.len want;
               let o = if k = "H" then max pre 0 else max pre 0 + n - want in
               (match v.off with Some x when x <> o -> bad "Head/Tail: starts at %d, expected %d" x o | _ -> ())
             | _ -> bad "bad output syntax")
          end
        | "A" ->
          if arg >= -n && arg < n then begin
            must_not_panic ();
            if out <> string_of_int a.(pmod arg n) then bad "At: expected %d" a.(pmod arg n)
          end else if out <> "panic:doc-index" then bad "At: out of range must panic(index out of range)"
        | "Q" ->
          if arg >= -n && arg < n then begin
            if out <> string_of_int (pre + pmod arg n) then bad "PtrAt: expected the address of element %d" (pmod arg n)
          end else if out <> "nil" then bad "PtrAt: out of range must return nil"
        | _ -> ())
     | _ -> ());
    None
  with Bad s -> Some s

let () = run_main ~eval ~spec
