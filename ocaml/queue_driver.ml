(* Replays queuetrace lines (see harness/cmd/queuetrace/main.go for the syntax).
   eval: the extracted model at Go's int width (QueueModel.step64 = step wrap64 on the ring-buffer
         state, regrowth through the C17 loop model of slice.Rotate, the oracle capacities taken
         from the input annotations) predicts every record, head/n/len(vs) included.
   spec: the extracted reference (QueueSpec.spec_step on a plain list) is evaluated against the
         implementation's own records -- independent of the model, of head and of capacities. *)

let zero = 0

exception Stop of string

let panic_str = function
  | M.PIndex -> "panic:index"       (* index / slice bounds out of range *)
  | M.PDivZero -> "panic:divzero"
  | M.PRotate -> "panic:index"      (* slice.Rotate: "offset out of range" (the harness enum folds it into index) *)
  | M.PMakeLen -> "panic:index"     (* makeslice: len out of range *)

let get = function
  | M.QOk x -> x
  | M.QPanic k -> raise (Stop (panic_str k))
  | M.BadOracle -> raise (Stop "bad-oracle")
  | M.RotateFuel -> raise (Stop "rotate-out-of-fuel")

(* s<k>! : NewSize(k) of more than 2^48 slots was refused by the runtime (allocation is the
   runtime's decision there: an oracle event, annotated by the harness).  Accepted only for such k. *)
let alloc_refused s =
  let n = String.length s in
  n > 2 && s.[0] = 's' && s.[n - 1] = '!' &&
  (let d = String.sub s 1 (n - 2) in
   let b = "281474976710656" in
   d.[0] <> '-' && (String.length d > String.length b || (String.length d = String.length b && d > b)))

let parse_init s =
  let s = if String.length s > 0 && s.[String.length s - 1] = '!' then String.sub s 0 (String.length s - 1) else s in
  if s = "z" then M.IZero else if s = "n" then M.INew
  else if String.length s > 1 && s.[0] = 's' then M.ISize (z_of_string (String.sub s 1 (String.length s - 1)))
  else failwith "bad init"

let parse_op_with (value : string -> 'a) o : 'a M.op =
  let body, c = match String.index_opt o '^' with
    | Some i -> String.sub o 0 i, z_of_string (String.sub o (i + 1) (String.length o - i - 1))
    | None -> o, z_of_int 0 in
  let rest = String.sub body 1 (String.length body - 1) in
  match body.[0] with
  | 'a' -> M.OAdd (value rest, c)
  | 'u' -> M.OPush (value rest, c)
  | 'p' -> M.OPop
  | 'l' -> M.OPopLast
  | 'c' -> M.OClear
  | 'k' -> M.OPeek (z_of_string rest)   (* any int, math.MinInt included *)
  | _ -> failwith "bad op"

let parse_op o : int M.op = parse_op_with int_of_string o
let parse_uop o : unit M.op = parse_op_with (fun _ -> ()) o

(* T<letter> lines: queue.Queue at another element type (byte, bool, int16, [3]byte, float32, *int,
   string, a 40-byte struct; harness/cmd/queuetrace/typed.go).  Elements travel as integer codes
   (0 = the zero value) and the model is polymorphic in the element type, so a T line is replayed
   exactly as an H line; the capacities append chose for THAT type are the oracle annotations. *)
let is_kind k = k = "H" || k = "U" || k = "B" || k = "X" || (String.length k = 2 && k.[0] = 'T' && k.[1] >= 'a' && k.[1] <= 'z')

let parse_input inp =
  match words inp with
  | [k; i; ops] when is_kind k ->
    let ops = if ops = "-" then [] else List.filter (fun x -> x <> "") (String.split_on_char ';' ops) in
    (i, ops)
  | [k; i] when is_kind k -> (i, [])
  | _ -> failwith "bad input"

let is_u inp = String.length inp > 0 && inp.[0] = 'U'
let is_b inp = String.length inp > 0 && inp.[0] = 'B'
let is_x inp = String.length inp > 0 && inp.[0] = 'X'

let show_ret = function
  | M.RUnit -> "-"
  | M.RVal (v, ok) -> string_of_int v ^ ":" ^ b01 ok
  | _ -> "?"

let show_peek = function
  | M.RVal (v, true) -> string_of_int v
  | M.RVal (0, false) -> "x"
  | M.RVal (v, false) -> "!" ^ string_of_int v
  | _ -> "?"

let range a b = List.init (max 0 (b - a + 1)) (fun i -> a + i)

(* the part of a record that the public API shows, from any "observer" (model state or reference list) *)
let public_part (obs : int M.op -> int M.out) =
  let len = match obs M.OLen with M.RInt z -> int_of_z z | _ -> failwith "len" in
  let empty = match obs M.OIsEmpty with M.RBool b -> b | _ -> failwith "empty" in
  let front = match obs M.OFront with M.RElem v -> v | _ -> failwith "front" in
  let lst = function M.RList l -> l | _ -> failwith "list" in
  let slice = lst (obs M.OSlice) in
  let all = lst (obs (M.OEach (nat_of_int (len + 1)))) in
  let half = lst (obs (M.OEach (nat_of_int (len / 2)))) in
  let peeks = List.map (fun k -> show_peek (obs (M.OPeek (z_of_int k)))) (range (-(len + 2)) (len + 1)) in
  Printf.sprintf "%d,%s/%d/%s/%s/%s/%s" len (b01 empty) front
    (if slice = [] then "nil" else str_ints slice) (str_ints all) (str_ints half) (String.concat "," peeks)

(* op e: re-entrant and interleaved iteration (typed.go).  One Each whose callback observes the same
   queue at every element (Len, IsEmpty, Front, Peek i, Peek -1, a nested complete Each, Slice), then
   two pulled iterations advanced in turns.  Every traversal must yield what it yields alone, so the
   text is a function of the unchanged state, rendered from any observer. *)
let seq_text l = if l = [] then "." else String.concat "~" (List.map string_of_int l)

let reentrant_text (obs : int M.op -> int M.out) =
  let len = match obs M.OLen with M.RInt z -> int_of_z z | _ -> failwith "len" in
  let empty = match obs M.OIsEmpty with M.RBool b -> b | _ -> failwith "empty" in
  let front = match obs M.OFront with M.RElem v -> v | _ -> failwith "front" in
  let lst = function M.RList l -> l | _ -> failwith "list" in
  let all = lst (obs (M.OEach (nat_of_int (len + 1)))) in
  let slice = lst (obs M.OSlice) in
  let part i v =
    Printf.sprintf "%d(%d,%s,%d,%s,%s,%s,%s)" v len (b01 empty) front
      (show_peek (obs (M.OPeek (z_of_int i)))) (show_peek (obs (M.OPeek (z_of_int (-1)))))
      (seq_text all) (seq_text slice) in
  "E" ^ String.concat "+" (List.mapi part all) ^ "|" ^ seq_text all ^ "|" ^ seq_text all

let model_record q ret =
  let obs o = snd (get (M.step64 zero q o)) in
  let ((h, n), c) = M.hook_state q in
  Printf.sprintf "%s/%d,%d,%d/%s" ret (int_of_z h) (int_of_z n) (int_of_z c) (public_part obs)

let eval_h inp =
  let (i, ops) = parse_input inp in
  let recs = ref [] in
  (try
    let q = ref (get (M.mk_init zero (parse_init i))) in
    recs := model_record !q "-" :: !recs;
    List.iter (fun o ->
      if o = "e" then
        recs := model_record !q (reentrant_text (fun o -> snd (get (M.step64 zero !q o)))) :: !recs
      else begin
        let (q', r) = get (M.step64 zero !q (parse_op o)) in
        q := q';
        recs := model_record q' (show_ret r) :: !recs
      end) ops
  with Stop s -> recs := s :: !recs);
  String.concat ";" (List.rev !recs)

(* drop the hook field (second '/'-separated field) of an implementation record *)
let public_of_record r =
  match String.split_on_char '/' r with
  | ret :: _hook :: rest -> Some (ret, String.concat "/" rest)
  | _ -> None

let spec_h inp out =
  let (i, ops) = parse_input inp in
  match parse_init i with
  | M.ISize (M.Zneg _) -> None
    (* NewSize of a negative size: nothing is documented, so nothing is demanded here; what the
       code does (the constructor panics in make, C07_newsize_negative) is pinned by eval *)
  | _ ->
    let recs = if out = "" then [] else String.split_on_char ';' out in
    let l = ref [] in
    let expect ret = ret ^ "/" ^ public_part (fun o -> snd (M.spec_step zero !l o)) in
    let check what r want =
      match public_of_record r with
      | None -> Some (Printf.sprintf "%s: implementation gave %s, the reference sequence gives %s" what r want)
      | Some (ret, pub) ->
        let got = ret ^ "/" ^ pub in
        if got = want then None
        else Some (Printf.sprintf "%s: observables %s differ from the reference sequence's %s (ret/Len,IsEmpty/Front/Slice/Each/Each-stopped/Peeks)" what got want) in
    let rec go k ops recs =
      match ops, recs with
      | [], [] -> None
      | [], _ :: _ -> Some "more records than operations"
      | _ :: _, [] -> Some (Printf.sprintf "history ended after %d operations (record missing)" k)
      | o :: ops', r :: recs' ->
        let ret =
          if o = "e" then reentrant_text (fun o -> snd (M.spec_step zero !l o))
          else begin
            let (l', ret) = M.spec_step zero !l (parse_op o) in
            l := l';
            show_ret ret
          end in
        (match check (Printf.sprintf "after op #%d (%s)" (k + 1) o) r (expect ret) with
         | Some e -> Some e
         | None -> go (k + 1) ops' recs') in
    (match recs with
     | [] -> Some "no record"
     | r0 :: rest ->
       (match check "after construction" r0 (expect "-") with
        | Some e -> Some e
        | None -> go 0 ops rest))


(* ---- B lines: the scale stream (harness/cmd/queuetrace/big.go).  Batched operations on buffers of
   hundreds to thousands of slots; long sequences are printed as <count>:<FNV-1a 64>:<a few elements>.
   One interpreter renders the records from any "machine" (the extracted model, or the extracted
   reference list), so that model and reference digest the same kind of sequence. ---- *)

let fnv64 s =
  let h = ref 0xcbf29ce484222325L in
  String.iter (fun c -> h := Int64.mul (Int64.logxor !h (Int64.of_int (Char.code c))) 0x100000001b3L) s;
  Printf.sprintf "%Lx" !h

let uniq_sorted l = List.sort_uniq compare l

(* indices 0,1,2, j-2..j+2, count-3..count-1 inside [0,count) *)
let window count j =
  uniq_sorted (List.filter (fun c -> c >= 0 && c < count) [0; 1; 2; j - 2; j - 1; j; j + 1; j + 2; count - 3; count - 2; count - 1])

let seq_summary (xs : int list) j =
  let a = Array.of_list xs in
  let n = Array.length a in
  Printf.sprintf "%d:%s:%s" n (fnv64 (str_ints xs)) (str_ints (List.map (fun i -> a.(i)) (window n j)))

let peek_window ln j =
  let lo = -(ln + 2) and hi = ln + 1 in
  uniq_sorted (List.concat_map (fun c -> List.filter (fun k -> k >= lo && k <= hi) [c - 1; c; c + 1; c + 2])
                 [lo; -ln; -2; 0; ln - 1; j; j - ln])

(* the offsets whose Peek results are digested (see big.go) *)
let peek_sweep ln j =
  let lo = -(ln + 2) and hi = ln + 1 in
  if ln <= 300 then range lo hi
  else begin
    let stride = (2 * ln + 4) / 100 + 1 in
    let rec go k acc = if k > hi then acc else go (k + stride) (k :: acc) in
    uniq_sorted (go lo (peek_window ln j))
  end

type machine = {
  op : int M.op -> int M.out;          (* runs one operation (mutating or observing) *)
  set_caps : M.z list -> unit;         (* oracle capacities for the regrowths of the next batch *)
  hook : unit -> string;               (* "head,n,len(vs)/" for the model, "" for the reference *)
}

let z0 = z_of_int 0

let model_machine q0 =
  let q = ref q0 and caps = ref [] in
  let len_of q = snd (M.hook_state q) in
  { op = (fun o ->
      let c = match !caps with c :: _ -> c | [] -> z0 in
      let o' = match o with M.OAdd (v, _) -> M.OAdd (v, c) | M.OPush (v, _) -> M.OPush (v, c) | o -> o in
      let (q', r) = get (M.step64 zero !q o') in
      (match o, !caps with
       | (M.OAdd _ | M.OPush _), _ :: t ->
         (* an oracle value is consumed exactly when the buffer was regrown (with no value left, a
            regrowth is given capacity 0 and the model answers BadOracle) *)
         if len_of q' <> len_of !q then caps := t
       | _ -> ());
      q := q'; r);
    set_caps = (fun l -> caps := l);
    hook = (fun () -> let ((h, n), c) = M.hook_state !q in Printf.sprintf "%d,%d,%d/" (int_of_z h) (int_of_z n) (int_of_z c)) }

let reference_machine () =
  let l = ref [] in
  { op = (fun o -> let (l', r) = M.spec_step zero !l o in l := l'; r);
    set_caps = (fun _ -> ());
    hook = (fun () -> "") }

(* A direct double-ended sequence (an array with room at both ends, re-centred when an end is
   reached; no ring, no wrap-around): the reference for X lines, i.e. B histories on 2^15 .. 2^16+1
   slots, where the list-based extracted reference (Add = l ++ [v]) would take minutes and the
   extracted model hours.  It answers the same ops with the same meaning as QueueSpec.spec_step; on
   every B line of modest size the two are run in lockstep ([checked_reference]) and any
   difference between them is reported as a failure of that line. *)
let fast_machine () =
  let cap = ref 1024 in
  let a = ref (Array.make !cap 0) in
  let lo = ref 512 and hi = ref 512 in                (* the elements are a.(lo) .. a.(hi-1) *)
  let recenter () =
    let n = !hi - !lo in
    let ncap = max 1024 (4 * (n + 1)) in
    let b = Array.make ncap 0 in
    let nlo = (ncap - n) / 2 in
    Array.blit !a !lo b nlo n; a := b; cap := ncap; lo := nlo; hi := nlo + n in
  let sub i n = List.init (max 0 n) (fun k -> !a.(i + k)) in
  { op = (fun o ->
      let n = !hi - !lo in
      match o with
      | M.OAdd (v, _) -> if !hi >= !cap then recenter (); !a.(!hi) <- v; incr hi; M.RUnit
      | M.OPush (v, _) -> if !lo <= 0 then recenter (); decr lo; !a.(!lo) <- v; M.RUnit
      | M.OPop -> if n = 0 then M.RVal (zero, false) else begin let v = !a.(!lo) in incr lo; M.RVal (v, true) end
      | M.OPopLast -> if n = 0 then M.RVal (zero, false) else begin decr hi; M.RVal (!a.(!hi), true) end
      | M.OClear -> lo := !cap / 2; hi := !lo; M.RUnit
      | M.OLen -> M.RInt (z_of_int n)
      | M.OIsEmpty -> M.RBool (n = 0)
      | M.OFront -> M.RElem (if n = 0 then zero else !a.(!lo))
      | M.OPeek k ->
        let k = int_of_z k in
        let k = if k < 0 then k + n else k in
        if k < 0 || k >= n then M.RVal (zero, false) else M.RVal (!a.(!lo + k), true)
      | M.OSlice -> M.RList (sub !lo n)
      | M.OEach m -> M.RList (sub !lo (min n (int_of_nat m + 1))));   (* the recording callback answers false on call m+1 *)
    set_caps = (fun _ -> ());
    hook = (fun () -> "") }

(* the extracted reference and the direct sequence side by side; the extracted one answers *)
let checked_reference () =
  let r = reference_machine () and f = fast_machine () in
  { op = (fun o -> let x = r.op o and y = f.op o in if x <> y then raise (Stop "reference-implementations-disagree"); x);
    set_caps = (fun _ -> ());
    hook = (fun () -> "") }

let parse_bop o =
  match String.split_on_char '^' o with
  | body :: caps when body <> "" ->
    let k = if String.length body > 1 then int_of_string (String.sub body 1 (String.length body - 1)) else 0 in
    (body.[0], k, List.map z_of_string caps)
  | _ -> raise (Stop "bad-op")

let m_len m = match m.op M.OLen with M.RInt z -> int_of_z z | _ -> failwith "len"
let m_list m o = match m.op o with M.RList l -> l | _ -> failwith "list"

let b_light m ret =
  let hook = m.hook () in
  let len = m_len m in
  let empty = match m.op M.OIsEmpty with M.RBool b -> b | _ -> failwith "empty" in
  let front = match m.op M.OFront with M.RElem v -> v | _ -> failwith "front" in
  Printf.sprintf "%s/%s%d,%s/%d/%s" ret hook len (b01 empty) front (show_peek (m.op (M.OPeek (z_of_int (-1)))))

let b_obs m j =
  let hook = m.hook () in
  let len = m_len m in
  let empty = match m.op M.OIsEmpty with M.RBool b -> b | _ -> failwith "empty" in
  let front = match m.op M.OFront with M.RElem v -> v | _ -> failwith "front" in
  let slice = m_list m M.OSlice in
  let all = m_list m (M.OEach (nat_of_int (len + 1))) in
  let half = m_list m (M.OEach (nat_of_int (len / 2))) in
  let tbl = Hashtbl.create 512 in
  let swept = List.map (fun k -> let t = show_peek (m.op (M.OPeek (z_of_int k))) in Hashtbl.replace tbl k t; t) (peek_sweep len j) in
  Printf.sprintf "o/%s%d,%s/%d/%s/%s/%s/%s/%s" hook len (b01 empty) front
    (if slice = [] then "nil" else seq_summary slice j) (seq_summary all j) (seq_summary half j)
    (fnv64 (String.concat "," swept))
    (String.concat "," (List.map (fun k -> Printf.sprintf "%d:%s" k (Hashtbl.find tbl k)) (peek_window len j)))

(* runs the batches on a machine; [emit] receives one record per op (and one for the construction) *)
let run_b m ops emit =
  let next = ref 1 in
  emit (b_light m "-");
  List.iter (fun o ->
    let (code, k, caps) = parse_bop o in
    if k > 4194304 then raise (Stop "bad-op");
    match code with
    | 'A' | 'U' ->
      m.set_caps caps;
      for _ = 1 to k do
        ignore (m.op (if code = 'A' then M.OAdd (!next, z0) else M.OPush (!next, z0)));
        incr next
      done;
      emit (b_light m "-")
    | 'P' | 'L' ->
      let rets = ref [] and oks = ref 0 in
      for _ = 1 to k do
        (match m.op (if code = 'P' then M.OPop else M.OPopLast) with
         | M.RVal (v, ok) -> rets := v :: !rets; if ok then incr oks
         | _ -> failwith "pop")
      done;
      emit (b_light m (Printf.sprintf "%d:%s" !oks (seq_summary (List.rev !rets) 0)))
    | 'c' -> ignore (m.op M.OClear); emit (b_light m "-")
    | 'o' -> emit (b_obs m k)
    | _ -> raise (Stop "bad-op")) ops

let b_init i =
  match parse_init i with
  | M.ISize k when int_of_z k > 16777216 -> raise (Stop "bad-init")
  | x -> x

let eval_b inp =
  let (i, ops) = parse_input inp in
  let recs = ref [] in
  (try
    if is_x inp then begin
      (* X lines: spec only -- the model is not run (see fast_machine); the prediction is the
         reference's rendering, records without the hook field *)
      (match b_init i with M.ISize (M.Zneg _) -> raise (Stop "panic:index") | _ -> ());
      run_b (fast_machine ()) ops (fun r -> recs := r :: !recs)
    end else begin
      let q = get (M.mk_init zero (b_init i)) in
      run_b (model_machine q) ops (fun r -> recs := r :: !recs)
    end
  with Stop s -> recs := s :: !recs);
  String.concat ";" (List.rev !recs)

(* the property on the implementation's B records: every public field (return values of the
   batch, Len, IsEmpty, Front, Peek(-1); Slice, Each, Each stopped, every Peek) must be the one
   the reference list gives; head/n/len(vs) are not looked at *)
let spec_b inp out =
  let (i, ops) = parse_input inp in
  match (try Some (b_init i) with Stop _ -> None) with
  | None | Some (M.ISize (M.Zneg _)) -> None
  | Some init ->
    let want = ref [] in
    let x = is_x inp in
    let small = (match init with M.ISize k -> int_of_z k <= 600 | _ -> true) && String.length inp < 400 in
    let machine = if x then fast_machine () else if small then checked_reference () else reference_machine () in
    (try run_b machine ops (fun r -> want := r :: !want) with Stop e -> want := e :: !want);
    let want = List.rev !want in
    let recs = if out = "" then [] else String.split_on_char ';' out in
    let opname k = if k = 0 then "after construction" else Printf.sprintf "after op #%d (%s)" k (try List.nth ops (k - 1) with _ -> "?") in
    let rec go k want recs =
      match want, recs with
      | [], [] -> None
      | [], r :: _ -> if r = "bad-op" then None else Some "more records than operations"
      | _ :: _, [] -> Some (Printf.sprintf "history ended after %d operations (record missing)" (max 0 (k - 1)))
      | w :: want', r :: recs' ->
        let got = if x then r else match public_of_record r with Some (ret, pub) -> ret ^ "/" ^ pub | None -> r in
        if got = w then go (k + 1) want' recs'
        else Some (Printf.sprintf "%s: observables %s differ from the reference sequence's %s (ret/Len,IsEmpty/Front/Peek(-1) or o/Len,IsEmpty/Front/Slice/Each/Each-stopped/digest of all Peeks/Peeks; sequences as count:fnv:sample)" (opname k) got w) in
    go 0 want recs

(* ---- U lines: queue.Queue[struct{}] replayed on the length-only model (QueueUnitModel, proved to
   be the main model on unit elements); values beyond OCaml's 63-bit ints are printed from Z ---- *)

let ushow_ret = function
  | M.UUnit -> "-"
  | M.UVal ok -> b01 ok
  | _ -> "?"

(* the public part of a U record from any observer giving (Len, IsEmpty, Front reachable, Slice
   length, Each calls, Peek ok) *)
let upublic ~len ~empty ~slice ~each ~peek =
  let all = each (len + 1) and half = each (len / 2) in
  let peeks = String.concat "" (List.map (fun k -> b01 (peek k)) (range (-(len + 2)) (len + 1))) in
  Printf.sprintf "%d,%s/%d/%d/%d/%s" len (b01 empty) slice all half peeks

let umodel_record ustep q ret =
  let obs o = snd (get (ustep q o)) in
  let cnt = function M.UList k -> int_of_z k | _ -> failwith "list" in
  let len = match obs M.OLen with M.UInt z -> int_of_z z | _ -> failwith "len" in
  let empty = match obs M.OIsEmpty with M.UBool b -> b | _ -> failwith "empty" in
  ignore (obs M.OFront);
  let ((h, n), c) = M.uhook_state q in
  Printf.sprintf "%s/%s,%s,%s/%s" ret (string_of_z h) (string_of_z n) (string_of_z c)
    (upublic ~len ~empty ~slice:(cnt (obs M.OSlice))
       ~each:(fun m -> cnt (obs (M.OEach (nat_of_int m))))
       ~peek:(fun k -> match obs (M.OPeek (z_of_int k)) with M.UVal ok -> ok | _ -> failwith "peek"))

let eval_u_with ustep inp =
  let (i, ops) = parse_input inp in
  let recs = ref [] in
  (try
    let q = ref (get (M.umk_init (parse_init i))) in
    recs := umodel_record ustep !q "-" :: !recs;
    List.iter (fun o ->
      let (q', r) = get (ustep !q (parse_uop o)) in
      q := q';
      recs := umodel_record ustep q' (ushow_ret r) :: !recs) ops
  with Stop s -> recs := s :: !recs);
  String.concat ";" (List.rev !recs)

let eval inp =
  let (i, _) = parse_input inp in
  if alloc_refused i then "panic:index"
  else if is_u inp then eval_u_with M.ustep64 inp
  else if is_b inp || is_x inp then eval_b inp else eval_h inp

(* the reference for U lines: the same plain list, of units *)
let spec_u_plain inp out =
  let (i, ops) = parse_input inp in
  match parse_init i with
  | M.ISize (M.Zneg _) -> None
  | _ ->
    let recs = if out = "" then [] else String.split_on_char ';' out in
    let l = ref [] in
    let expect ret =
      let obs o = snd (M.spec_step () !l o) in
      let len = match obs M.OLen with M.RInt z -> int_of_z z | _ -> failwith "len" in
      let empty = match obs M.OIsEmpty with M.RBool b -> b | _ -> failwith "empty" in
      let cnt = function M.RList x -> List.length x | _ -> failwith "list" in
      ret ^ "/" ^ upublic ~len ~empty ~slice:(cnt (obs M.OSlice))
        ~each:(fun m -> cnt (obs (M.OEach (nat_of_int m))))
        ~peek:(fun k -> match obs (M.OPeek (z_of_int k)) with M.RVal (_, ok) -> ok | _ -> failwith "peek") in
    let show_sret = function M.RUnit -> "-" | M.RVal (_, ok) -> b01 ok | _ -> "?" in
    let check what r want =
      match public_of_record r with
      | None -> Some (Printf.sprintf "%s: implementation gave %s, the reference sequence gives %s" what r want)
      | Some (ret, pub) ->
        let got = ret ^ "/" ^ pub in
        if got = want then None
        else Some (Printf.sprintf "%s: observables %s differ from the reference sequence's %s (ret/Len,IsEmpty/len(Slice)/Each calls/Each-stopped calls/Peek ok flags)" what got want) in
    let rec go k ops recs =
      match ops, recs with
      | [], [] -> None
      | [], _ :: _ -> Some "more records than operations"
      | _ :: _, [] -> Some (Printf.sprintf "history ended after %d operations (record missing)" k)
      | o :: ops', r :: recs' ->
        let (l', ret) = M.spec_step () !l (parse_uop o) in
        l := l';
        (match check (Printf.sprintf "after op #%d (%s)" (k + 1) o) r (expect (show_sret ret)) with
         | Some e -> Some e
         | None -> go (k + 1) ops' recs') in
    (match recs with
     | [] -> Some "no record"
     | r0 :: rest ->
       (match check "after construction" r0 (expect "-") with
        | Some e -> Some e
        | None -> go 0 ops rest))

(* a decimal string of a non-negative integer above 2^62 *)
let above_2_62 s =
  let b = "4611686018427387904" in
  String.length s > 0 && s.[0] <> '-' &&
  (String.length s > String.length b || (String.length s = String.length b && s > b))

(* does some buffer of this history (initial size or a recorded growth capacity) exceed 2^62 slots? *)
let beyond_bound inp =
  let (i, ops) = parse_input inp in
  (String.length i > 1 && i.[0] = 's' && above_2_62 (String.sub i 1 (String.length i - 1))) ||
  List.exists (fun o -> match String.index_opt o '^' with
    | Some j -> above_2_62 (String.sub o (j + 1) (String.length o - j - 1)) | None -> false) ops

(* Known finding F11 (queue.Add: head+n overflows int on buffers longer than 2^62 slots).  A failure
   is attributed to it only when (a) some buffer of the history is that long, (b) the model at Go's
   int width reproduces the implementation's output on this very input, and (c) the same model with
   unbounded integers satisfies the reference on it. *)
let spec_u inp out =
  match spec_u_plain inp out with
  | None -> None
  | Some reason ->
    let known =
      beyond_bound inp
      && (try eval_u_with M.ustep64 inp = out with _ -> false)
      && (try spec_u_plain inp (eval_u_with M.ustep_ideal inp) = None with _ -> false) in
    Some (if known then reason ^ " known=F11" else reason)

let spec prop inp out =
  if prop <> "C07" then None
  else if alloc_refused (fst (parse_input inp)) then None     (* no queue came into being; nothing is demanded *)
  else if is_u inp then spec_u inp out
  else if is_b inp || is_x inp then spec_b inp out
  else spec_h inp out

let () = run_main ~eval ~spec
