(* Replays queuetrace lines (see harness/cmd/queuetrace/main.go for the syntax).
   eval: the extracted model (QueueModel.step on the ring-buffer state, with the oracle capacities
         taken from the input annotations) predicts every record, head/n/len(vs) included.
   spec: the extracted reference (QueueSpec.spec_step on a plain list) is evaluated against the
         implementation's own records -- independent of the model, of head and of capacities. *)

let zero = 0

exception Stop of string

let panic_str = function
  | M.PIndex -> "panic:index"       (* index / slice bounds out of range *)
  | M.PDivZero -> "panic:divzero"
  | M.PRotate -> "panic:index"      (* slice.Rotate: "offset out of range" (the harness enum folds it into index) *)
  | M.PMakeLen -> "panic:index"     (* makeslice: len out of range *)

let get = function
  | M.Ok x -> x
  | M.Panic k -> raise (Stop (panic_str k))
  | M.BadOracle -> raise (Stop "bad-oracle")

let parse_init s =
  if s = "z" then M.IZero else if s = "n" then M.INew
  else if String.length s > 1 && s.[0] = 's' then M.ISize (z_of_int (int_of_string (String.sub s 1 (String.length s - 1))))
  else failwith "bad init"

let parse_op o : int M.op =
  let body, c = match String.index_opt o '^' with
    | Some i -> String.sub o 0 i, int_of_string (String.sub o (i + 1) (String.length o - i - 1))
    | None -> o, 0 in
  let arg () = int_of_string (String.sub body 1 (String.length body - 1)) in
  match body.[0] with
  | 'a' -> M.OAdd (arg (), z_of_int c)
  | 'u' -> M.OPush (arg (), z_of_int c)
  | 'p' -> M.OPop
  | 'l' -> M.OPopLast
  | 'c' -> M.OClear
  | _ -> failwith "bad op"

let parse_input inp =
  match words inp with
  | ["H"; i; ops] ->
    let ops = if ops = "-" then [] else List.filter (fun x -> x <> "") (String.split_on_char ';' ops) in
    (i, ops)
  | ["H"; i] -> (i, [])
  | _ -> failwith "bad input"

let show_ret = function
  | M.RUnit -> "-"
  | M.RVal (v, ok) -> string_of_int v ^ ":" ^ b01 ok
  | _ -> "?"

let show_peek = function
  | M.RVal (v, true) -> string_of_int v
  | M.RVal (0, false) -> "x"
  | M.RVal (v, false) -> "!" ^ string_of_int v
  | _ -> "?"

let range a b = List.init (max 0 (b - a + 1)) (fun i -> a + i)

(* the part of a record that the public API shows, from any "observer" (model state or reference list) *)
let public_part (obs : int M.op -> int M.out) =
  let len = match obs M.OLen with M.RInt z -> int_of_z z | _ -> failwith "len" in
  let empty = match obs M.OIsEmpty with M.RBool b -> b | _ -> failwith "empty" in
  let front = match obs M.OFront with M.RElem v -> v | _ -> failwith "front" in
  let lst = function M.RList l -> l | _ -> failwith "list" in
  let slice = lst (obs M.OSlice) in
  let all = lst (obs (M.OEach (nat_of_int (len + 1)))) in
  let half = lst (obs (M.OEach (nat_of_int (len / 2)))) in
  let peeks = List.map (fun k -> show_peek (obs (M.OPeek (z_of_int k)))) (range (-(len + 2)) (len + 1)) in
  Printf.sprintf "%d,%s/%d/%s/%s/%s/%s" len (b01 empty) front
    (if slice = [] then "nil" else str_ints slice) (str_ints all) (str_ints half) (String.concat "," peeks)

let model_record q ret =
  let obs o = snd (get (M.step zero q o)) in
  let ((h, n), c) = M.hook_state q in
  Printf.sprintf "%s/%d,%d,%d/%s" ret (int_of_z h) (int_of_z n) (int_of_z c) (public_part obs)

let eval inp =
  let (i, ops) = parse_input inp in
  let recs = ref [] in
  (try
    let q = ref (get (M.mk_init zero (parse_init i))) in
    recs := model_record !q "-" :: !recs;
    List.iter (fun o ->
      let (q', r) = get (M.step zero !q (parse_op o)) in
      q := q';
      recs := model_record q' (show_ret r) :: !recs) ops
  with Stop s -> recs := s :: !recs);
  String.concat ";" (List.rev !recs)

(* drop the hook field (second '/'-separated field) of an implementation record *)
let public_of_record r =
  match String.split_on_char '/' r with
  | ret :: _hook :: rest -> Some (ret, String.concat "/" rest)
  | _ -> None

let spec prop inp out =
  if prop <> "C07" then None else
  let (i, ops) = parse_input inp in
  match parse_init i with
  | M.ISize k when int_of_z k < 0 -> None      (* NewSize of a negative size: nothing is promised *)
  | _ ->
    let recs = if out = "" then [] else String.split_on_char ';' out in
    let l = ref [] in
    let expect ret = ret ^ "/" ^ public_part (fun o -> snd (M.spec_step zero !l o)) in
    let check what r want =
      match public_of_record r with
      | None -> Some (Printf.sprintf "%s: implementation gave %s, the reference sequence gives %s" what r want)
      | Some (ret, pub) ->
        let got = ret ^ "/" ^ pub in
        if got = want then None
        else Some (Printf.sprintf "%s: observables %s differ from the reference sequence's %s (ret/Len,IsEmpty/Front/Slice/Each/Each-stopped/Peeks)" what got want) in
    let rec go k ops recs =
      match ops, recs with
      | [], [] -> None
      | [], _ :: _ -> Some "more records than operations"
      | _ :: _, [] -> Some (Printf.sprintf "history ended after %d operations (record missing)" k)
      | o :: ops', r :: recs' ->
        let (l', ret) = M.spec_step zero !l (parse_op o) in
        l := l';
        (match check (Printf.sprintf "after op #%d (%s)" (k + 1) o) r (expect (show_ret ret)) with
         | Some e -> Some e
         | None -> go (k + 1) ops' recs') in
    (match recs with
     | [] -> Some "no record"
     | r0 :: rest ->
       (match check "after construction" r0 (expect "-") with
        | Some e -> Some e
        | None -> go 0 ops rest))

let () = run_main ~eval ~spec
