(* Replays mdifftrace lines on the extracted model (MdiffModel) and evaluates the property C13
   itself (the extracted checkers of MdiffSpec) on the implementation's own chunks.

     D <n> <script> <lhs> <rhs> | E=<script> N=<chunks> A=<chunks> U=<chunks> K=<flags>

   The script in the input is an oracle input (what slice.EditScript returned): eval validates it
   (it must consume lhs and produce rhs, or be empty for equal inputs) and builds everything else
   from it.  A line is a byte list.

     C <n> <lhs> <rhs> | (same output)

   No oracle: the model of slice.EditScript (Slice/EditModel.v, property C11) computes the script,
   i.e. the composed model mdiff_new of Mdiff/MdiffCompose.v predicts everything from the inputs.

   H / HC: histories; U: UnifyChunks on arbitrary chunk lists; S / SC: texts by recipe, digested
   outputs; PD / PU (round 4): the case of an H line after an earlier call in the same process;
   V / VC (round 5): Left and Right two windows of one array. *)

let leq (a : M.n list) (b : M.n list) = (a = b)

let op_of = function "D" -> M.Drop | "E" -> M.Emit | "C" -> M.Copy | "R" -> M.Replace | s -> failwith ("bad op " ^ s)
let op_str = function M.Drop -> "D" | M.Emit -> "E" | M.Copy -> "C" | M.Replace -> "R"

let parse_edits s : M.n list M.edit list =
  if s = "." then [] else
  List.map (fun e ->
    match String.split_on_char ':' e with
    | [o; x; y] -> { M.eop = op_of o; M.x = unhexs x; M.y = unhexs y }
    | _ -> failwith ("bad edit " ^ e)) (String.split_on_char '/' s)

let str_edits (es : M.n list M.edit list) =
  if es = [] then "." else
  String.concat "/" (List.map (fun e -> op_str e.M.eop ^ ":" ^ hexs e.M.x ^ ":" ^ hexs e.M.y) es)

let parse_chunks s : M.n list M.chunk list =
  if s = "." then [] else
  List.map (fun c ->
    match String.split_on_char ';' c with
    | [ls; le; rs; re; es] ->
      { M.edits = parse_edits es; M.lStart = z_of_int (int_of_string ls); M.lEnd = z_of_int (int_of_string le);
        M.rStart = z_of_int (int_of_string rs); M.rEnd = z_of_int (int_of_string re) }
    | _ -> failwith ("bad chunk " ^ c)) (String.split_on_char '_' s)

let str_chunks (cs : M.n list M.chunk list) =
  if cs = [] then "." else
  String.concat "_" (List.map (fun c ->
    String.concat ";" [string_of_z c.M.lStart; string_of_z c.M.lEnd; string_of_z c.M.rStart; string_of_z c.M.rEnd;
                       str_edits c.M.edits]) cs)

let is_panic_str s = String.length s >= 6 && String.sub s 0 6 = "panic:"
let panic_str = function M.PIndex -> "panic:index" | M.PNil -> "panic:nil" | M.PMerge -> "panic:other"

(* ---- histories: H <ops> <script> <lhs> <rhs> / HC <ops> <lhs> <rhs> *)
let parse_ops s : M.hop list =
  if s = "." then [] else
  List.map (fun w ->
    if w = "u" then M.HUnify
    else if String.length w >= 2 && w.[0] = 'a' then M.HAdd (z_of_string (String.sub w 1 (String.length w - 1)))
    else failwith ("bad op " ^ w)) (String.split_on_char ',' s)

(* V / VC lines (round 5, harness/cmd/mdifftrace/round5.go): Left = arr[i:j], Right = arr[p:q], two
   windows of ONE array (how they were built -- plain or capacity-clipped slice expressions, append
   within spare capacity, the Diff rebuilt as a struct literal -- is the harness's business).  The
   model knows texts, not storage: the line is the H line of the two windows.  Indices clamped as
   in the harness. *)
let shared_windows how win arr =
  let ok_how = match how with
    | "v" | "c" | "a" | "A" | "vl" | "cl" | "al" | "Al" -> true | _ -> false in
  match List.map int_of_string_opt (String.split_on_char '.' win) with
  | [Some i; Some j; Some p; Some q] when ok_how ->
    let a = Array.of_list (unhexs arr) in
    let n = Array.length a in
    let cl x = min (max x 0) n in
    let i = cl i and p = cl p in
    let j = max (cl j) i and q = max (cl q) p in
    let shape_ok = match how.[0] with
      | 'a' -> i = p && j <= q
      | 'A' -> i = p && q <= j
      | _ -> true in
    if not shape_ok then None
    else Some (Array.to_list (Array.sub a i (j - i)), Array.to_list (Array.sub a p (q - p)))
  | _ -> None

let parse_hist inp =
  match words inp with
  | ["H"; ops; script; lhs; rhs] -> Some (parse_ops ops, script, unhexs lhs, unhexs rhs)
  | ["HC"; ops; lhs; rhs] -> Some (parse_ops ops, "", unhexs lhs, unhexs rhs)
  | ["V"; how; ops; script; win; arr] ->
    (match shared_windows how win arr with
     | Some (lhs, rhs) -> Some (parse_ops ops, script, lhs, rhs)
     | None -> None)
  | ["VC"; how; ops; win; arr] ->
    (match shared_windows how win arr with
     | Some (lhs, rhs) -> Some (parse_ops ops, "", lhs, rhs)
     | None -> None)
  | _ -> None

(* PD / PU lines (harness/cmd/mdifftrace/round4.go): the history case of an H line run after an
   earlier call in the same process (another diff, or UnifyChunks on an arbitrary chunk list).
   New / AddContext / Unify keep nothing between calls: the model predicts the case from its own
   inputs; Q=1 says the earlier call's result still spells as it did before the case ran. *)
let parse_prelude inp =
  match words inp with
  | ["PD"; pops; plhs; prhs; ops; script; lhs; rhs] ->
    (try ignore (parse_ops pops); ignore (unhexs plhs); ignore (unhexs prhs);
         Some (parse_ops ops, script, unhexs lhs, unhexs rhs) with _ -> None)
  | ["PU"; cs; ops; script; lhs; rhs] ->
    (try ignore (parse_chunks cs); Some (parse_ops ops, script, unhexs lhs, unhexs rhs) with _ -> None)
  | _ -> None

let parse_input inp =
  match words inp with
  | ["D"; n; script; lhs; rhs] -> Some (z_of_string n, script, unhexs lhs, unhexs rhs)
  | ["C"; n; lhs; rhs] -> Some (z_of_string n, "", unhexs lhs, unhexs rhs)
  | _ -> None

(* the bound "at most n context lines" as an OCaml int: max(n, 0), saturated (n may be 2^63-1) *)
let clamp_n (zn : M.z) : int =
  let rec bits = function M.XH -> 1 | M.XO p | M.XI p -> 1 + bits p in
  match zn with
  | M.Zpos p -> if bits p > 40 then max_int else int_of_z zn
  | _ -> 0

let script_of script lhs rhs =
  if script = "" then (match M.edit_script_run leq lhs rhs with M.EOk es -> Some es | _ -> None)
  else Some (parse_edits script)

let eval_hist (ops, script, lhs, rhs) =
  if String.length script >= 6 && String.sub script 0 6 = "panic:" then "ORACLE-PANIC" else
  match script_of script lhs rhs with
  | None -> "MODEL-OF-EDITSCRIPT-PANICS"
  | Some es ->
    if not (M.script_okb leq lhs rhs es) then "BAD-ORACLE: the recorded script does not transform lhs into rhs" else
    let c0 = M.new_chunks es in
    let stages = M.run_trace leq lhs rhs c0 ops in
    let panicked = List.exists (function M.Panic _ -> true | _ -> false) stages in
    let hs = if stages = [] then "none" else
      String.concat "!" (List.map (function M.Ok cs -> str_chunks cs | M.Panic k -> panic_str k) stages) in
    "E=" ^ str_edits es ^ " N=" ^ str_chunks c0 ^ " H=" ^ hs ^ " K=" ^ (if panicked then "-" else "111")

(* ---- S / SC lines: texts named by a recipe, outputs digested (harness/cmd/mdifftrace/scale.go) *)

let fnv64 (s : string) : string =
  let h = ref 0xcbf29ce484222325L in
  String.iter (fun c -> h := Int64.mul (Int64.logxor !h (Int64.of_int (Char.code c))) 0x100000001b3L) s;
  Printf.sprintf "%016Lx" !h

let line_tbl : (int, M.n list) Hashtbl.t = Hashtbl.create 1024
let line_of_int v : M.n list =
  if v = 0 then [] else
  match Hashtbl.find_opt line_tbl v with
  | Some l -> l
  | None ->
    let t = string_of_int v in
    let l = List.init (String.length t) (fun i -> n_of_int (Char.code t.[i])) in
    Hashtbl.replace line_tbl v l; l

exception Bad_recipe

(* recipe -> (lhs, rhs) *)
let build_texts (recipe : string) : M.n list list * M.n list list =
  let l = ref [] and r = ref [] and total = ref 0 in
  let int_ s = match int_of_string_opt s with Some n when n >= 0 -> n | _ -> raise Bad_recipe in
  if recipe <> "." then
    List.iter (fun gs ->
      let gs, reps = match String.index_opt gs '*' with
        | Some i -> String.sub gs 0 i, int_ (String.sub gs (i + 1) (String.length gs - i - 1))
        | None -> gs, 1 in
      let items = List.map (fun is ->
        if String.length is < 2 then raise Bad_recipe;
        let kind = is.[0] in
        if kind <> 'e' && kind <> 'd' && kind <> 'c' then raise Bad_recipe;
        match List.map int_ (String.split_on_char '.' (String.sub is 1 (String.length is - 1))) with
        | [c; p; o] when p >= 1 -> (kind, c, p, o, 1)
        | [c; p; o; rl] when p >= 1 && rl >= 1 -> (kind, c, p, o, rl)
        | _ -> raise Bad_recipe) (String.split_on_char '/' gs) in
      for _ = 1 to reps do
        List.iter (fun (kind, c, p, o, rl) ->
          total := !total + c;
          if !total > 40000 then raise Bad_recipe;
          for j = 0 to c - 1 do
            let t = line_of_int (o + (j / rl) mod p) in
            if kind <> 'c' then l := t :: !l;
            if kind <> 'd' then r := t :: !r
          done) items
      done) (String.split_on_char ',' recipe);
  (List.rev !l, List.rev !r)

(* the oracle by lengths -> the edits, taken from the texts at the running offsets *)
let decode_oracle (s : string) (lhs : M.n list list) (rhs : M.n list list) : M.n list M.edit list =
  if s = "." then [] else
  let la = Array.of_list lhs and ra = Array.of_list rhs in
  let lp = ref 0 and rp = ref 0 in
  let take a p k = if k < 0 || !p + k > Array.length a then failwith "oracle runs past the end of the text"
    else (let x = Array.to_list (Array.sub a !p k) in p := !p + k; x) in
  let num t = int_of_string (String.sub t 1 (String.length t - 1)) in
  let out = ref [] in
  List.iter (fun gs ->
    let gs, reps = match String.index_opt gs '*' with
      | Some i -> String.sub gs 0 i, int_of_string (String.sub gs (i + 1) (String.length gs - i - 1))
      | None -> gs, 1 in
    let toks = String.split_on_char '/' gs in
    for _ = 1 to reps do
      List.iter (fun t ->
        let e = match t.[0] with
          | 'E' -> let k = num t in let x = take la lp k in rp := !rp + k; { M.eop = M.Emit; M.x = x; M.y = [] }
          | 'D' -> { M.eop = M.Drop; M.x = take la lp (num t); M.y = [] }
          | 'C' -> { M.eop = M.Copy; M.x = []; M.y = take ra rp (num t) }
          | 'R' -> (match String.split_on_char '.' (String.sub t 1 (String.length t - 1)) with
                    | [a; b] -> let x = take la lp (int_of_string a) in
                      { M.eop = M.Replace; M.x = x; M.y = take ra rp (int_of_string b) }
                    | _ -> failwith ("bad oracle token " ^ t))
          | _ -> failwith ("bad oracle token " ^ t) in
        out := e :: !out) toks
    done) (String.split_on_char ',' s);
  List.rev !out

let stage_digest (cs : M.n list M.chunk list) =
  let ne = List.fold_left (fun a c -> a + List.length c.M.edits) 0 cs in
  let ctx = List.fold_left (fun a c ->
    List.fold_left (fun a (e : M.n list M.edit) -> if e.M.eop = M.Emit then a + List.length e.M.x else a) a c.M.edits) 0 cs in
  Printf.sprintf "%d:%d:%d:%s" (List.length cs) ne ctx (fnv64 (str_chunks cs))

let parse_scale inp =
  match words inp with
  | ["S"; ops; oracle; recipe] -> Some (ops, Some oracle, recipe)
  | ["SC"; ops; recipe] -> Some (ops, None, recipe)
  | _ -> None

(* what eval computed for the last S line: the spec re-uses the texts, and -- when the implementation's
   digests are the model's, i.e. its chunks are these chunks -- evaluates the reference on them *)
type scale_memo = { s_inp : string; s_out : string; s_ops : M.hop list; s_lhs : M.n list list; s_rhs : M.n list list;
                    s_es : M.n list M.edit list; s_cn : M.n list M.chunk list; s_stages : M.n list M.chunk list list }
let scale_last : scale_memo option ref = ref None

let eval_scale inp (opss, oracle, recipe) =
  scale_last := None;
  match (try Some (build_texts recipe) with Bad_recipe -> None) with
  | None -> "?"
  | Some (lhs, rhs) ->
  let ops = parse_ops opss in
  match oracle with
  | Some o when is_panic_str o -> "ORACLE-PANIC"
  | _ ->
  match (match oracle with
         | None -> (match M.edit_script_run leq lhs rhs with M.EOk es -> Some es | _ -> None)
         | Some o -> (try Some (decode_oracle o lhs rhs) with Failure _ -> Some [])) with
  | None -> "MODEL-OF-EDITSCRIPT-PANICS"
  | Some es ->
    (* an oracle that runs past the end of a text (decode_oracle fails) is a script that does not fit *)
    if (es = [] && oracle <> None && oracle <> Some "." ) || not (M.script_okb leq lhs rhs es) then "BAD-ORACLE: the recorded script does not transform lhs into rhs" else
    let c0 = M.new_chunks es in
    let stages = M.run_trace leq lhs rhs c0 ops in
    let panicked = List.exists (function M.Panic _ -> true | _ -> false) stages in
    let hs = if stages = [] then "none" else
      String.concat "!" (List.map (function M.Ok cs -> stage_digest cs | M.Panic k -> panic_str k) stages) in
    let out = Printf.sprintf "E=%d:%s N=%s H=%s %s" (List.length es) (fnv64 (str_edits es)) (stage_digest c0) hs
        (if panicked then "K=- P=-" else "K=111 P=ok") in
    if not panicked then
      scale_last := Some { s_inp = inp; s_out = out; s_ops = ops; s_lhs = lhs; s_rhs = rhs; s_es = es; s_cn = c0;
                           s_stages = List.filter_map (function M.Ok cs -> Some cs | M.Panic _ -> None) stages };
    out

let eval_unify s =
  match M.unify_chunks (parse_chunks s) with
  | M.Ok cs -> "U=" ^ str_chunks cs
  | M.Panic k -> "U=" ^ panic_str k

let eval inp =
  match words inp with
  | ["U"; s] -> eval_unify s
  | _ ->
  match parse_scale inp with
  | Some sc -> eval_scale inp sc
  | None ->
  match parse_prelude inp with
  | Some h -> eval_hist h ^ " Q=1"
  | None ->
  match parse_hist inp with
  | Some h -> eval_hist h
  | None ->
  match parse_input inp with
  | None -> "?"
  | Some (n, script, lhs, rhs) ->
    if String.length script >= 6 && String.sub script 0 6 = "panic:" then "ORACLE-PANIC" else
    let composed = (script = "") in
    match (if composed then (match M.edit_script_run leq lhs rhs with M.EOk es -> Some es | _ -> None)
           else Some (parse_edits script)) with
    | None -> "MODEL-OF-EDITSCRIPT-PANICS"
    | Some es ->
    if not (M.script_okb leq lhs rhs es) then "BAD-ORACLE: the recorded script does not transform lhs into rhs" else
    let ((c0, c1), c2) = M.pipeline leq lhs rhs es n in
    let out = "E=" ^ str_edits es ^ " N=" ^ str_chunks c0 in
    (match c1 with
     | M.Panic k -> out ^ " A=" ^ panic_str k ^ " U=- K=-"
     | M.Ok a ->
       let out = out ^ " A=" ^ str_chunks a in
       (match c2 with
        | M.Panic k -> out ^ " U=" ^ panic_str k ^ " K=-"
        | M.Ok u -> out ^ " U=" ^ str_chunks u ^ " K=1111"))

(* ---- the property on the implementation's output *)

let field out key =
  let pre = key ^ "=" in
  let l = String.length pre in
  let rec go = function
    | [] -> None
    | w :: r -> if String.length w >= l && String.sub w 0 l = pre then Some (String.sub w l (String.length w - l)) else go r in
  go (words out)

let is_panic s = String.length s >= 6 && String.sub s 0 6 = "panic:"

let rec nth_chunk_msg i = "chunk " ^ string_of_int i

(* every chunk consumes Left[LStart,LEnd) and produces Right[RStart,REnd) *)
let all_ok stage lhs rhs cs =
  let rec go i = function
    | [] -> None
    | c :: r -> if M.chunk_okb leq lhs rhs c then go (i + 1) r
      else Some (Printf.sprintf "after %s: chunk %d does not consume Left[%s,%s) and produce Right[%s,%s)" stage i
                   (string_of_z c.M.lStart) (string_of_z c.M.lEnd) (string_of_z c.M.rStart) (string_of_z c.M.rEnd)) in
  go 0 cs

let nonemit_edits cs = List.concat (List.map (fun c -> M.changes c.M.edits) cs)

let ( >>= ) o f = match o with Some r -> Some r | None -> f ()

(* c1 is c0 with at most n context lines (one Emit edit) before and after, nothing else changed *)
let ctx_step n (c0 : M.n list M.chunk) (c1 : M.n list M.chunk) =
  let e0 = c0.M.edits and e1 = c1.M.edits in
  let is_emit (e : M.n list M.edit) = (e.M.eop = M.Emit) in
  let try_ pre post =
    let l1 = List.length e1 and l0 = List.length e0 in
    if l1 <> l0 + (if pre then 1 else 0) + (if post then 1 else 0) then false else
    let e1' = if pre then List.tl e1 else e1 in
    let pre_e = if pre then Some (List.hd e1) else None in
    let mid = List.filteri (fun i _ -> i < l0) e1' in
    let post_e = if post then Some (List.nth e1' l0) else None in
    let lenx = function None -> 0 | Some (e : M.n list M.edit) -> List.length e.M.x in
    let okctx = function None -> true | Some e -> is_emit e && e.M.x <> [] && List.length e.M.x <= n in
    mid = e0 && okctx pre_e && okctx post_e
    && int_of_z c1.M.lStart = int_of_z c0.M.lStart - lenx pre_e && int_of_z c1.M.rStart = int_of_z c0.M.rStart - lenx pre_e
    && int_of_z c1.M.lEnd = int_of_z c0.M.lEnd + lenx post_e && int_of_z c1.M.rEnd = int_of_z c0.M.rEnd + lenx post_e in
  try_ false false || try_ true false || try_ false true || try_ true true

(* Unify: the ranges of the new chunks are [unified_spans] of the list before (MdiffSpec.v,
   extracted): every maximal run of touching chunks becomes one chunk spanning the run *)
let unify_groups (prev : M.n list M.chunk list) (cur : M.n list M.chunk list) =
  List.map M.span_of cur = M.unified_spans prev

(* the property on a history, on parsed values: es = d.Edits, cn = the chunks after New,
   stages = the chunks after every call *)
let spec_hist_core ops lhs rhs es cn (stages : M.n list M.chunk list list) =
    if List.length stages <> List.length ops then Some "history: wrong number of stages" else
    (if M.script_okb leq lhs rhs es then None else Some "d.Edits does not transform Left into Right")
    >>= fun () -> all_ok "New" lhs rhs cn
    >>= fun () ->
      let rec go i prev ops stages =
        match ops, stages with
        | [], _ | _, [] -> None
        | o :: ops', cs :: stages' ->
          let name = Printf.sprintf "call %d" i in
          all_ok name lhs rhs cs
          >>= fun () -> (if nonemit_edits cs = M.changes es then None else Some ("after " ^ name ^ ": the chunks' non-context edits are not those of the script"))
          >>= fun () -> (if M.separatedb (z_of_int 0) cs && not (M.applies leq lhs rhs cs)
                         then Some ("after " ^ name ^ ": chunks ascending and disjoint, but applying them to Left does not give Right") else None)
          >>= fun () ->
            (match o with
             | M.HUnify ->
               (if M.separatedb (z_of_int 1) cs then None else Some ("after " ^ name ^ " (Unify): chunks not ascending, disjoint and non-adjacent"))
               >>= fun () -> (if M.applies leq lhs rhs cs then None else Some ("after " ^ name ^ " (Unify): applying the chunks to Left does not give Right"))
               >>= fun () -> (if unify_groups prev cs then None else Some ("after " ^ name ^ " (Unify): the chunks are not the runs of touching chunks of the list before"))
             | M.HAdd zn ->
               let n = clamp_n zn in
               if List.length cs <> List.length prev then Some ("after " ^ name ^ " (AddContext): number of chunks changed") else
               if List.for_all2 (ctx_step n) prev cs then None
               else Some ("after " ^ name ^ " (AddContext): a chunk is not the chunk before with at most n context lines before and after"))
          >>= fun () -> go (i + 1) cs ops' stages' in
      go 1 cn ops stages

let spec_hist (ops, _script, lhs, rhs) out =
  match field out "E", field out "N", field out "H", field out "K" with
  | Some e, Some ns, Some h, Some k ->
    if is_panic ns then Some "New panicked" else
    let stages = if h = "none" then [] else String.split_on_char '!' h in
    if List.exists is_panic stages then Some "a call panicked (history)" else
    spec_hist_core ops lhs rhs (parse_edits e) (parse_chunks ns) (List.map parse_chunks stages)
    >>= fun () -> (if k = "111" then None else Some ("aliasing: d.Edits / inputs disturbed or receiver not returned, flags " ^ k))
  | _ -> Some "bad output syntax"

(* UnifyChunks on an arbitrary chunk list: if it returns, the ranges are unified_spans of the input *)
let spec_unify s out =
  match field out "U" with
  | Some u when is_panic u -> None      (* outside the property: such chunks do not come from a Diff *)
  | Some u ->
    if List.map M.span_of (parse_chunks u) = M.unified_spans (parse_chunks s) then None
    else Some "UnifyChunks: the ranges of the result are not the runs of touching chunks of the input"
  | None -> Some "bad output syntax"

(* S / SC lines.  The chunks themselves are behind digests: the property was decided by the harness
   on the implementation's chunks (field P, by direct definition, see scale.go) and is reported
   here; when the implementation's output is digest for digest what the model computed, its chunks
   are the model's and the extracted reference checkers are evaluated on them as well (they walk
   the texts from the start for every chunk: skipped when lines x chunks exceeds a million). *)
let spec_scale inp out =
  match field out "N", field out "H", field out "K", field out "P" with
  | Some ns, Some h, Some k, Some p ->
    if is_panic ns then Some "New panicked" else
    if List.exists is_panic (String.split_on_char '!' h) then Some "a call panicked (history)" else
    (if p = "ok" then None else Some ("the property fails on the implementation's chunks: " ^ p))
    >>= fun () -> (if k = "111" then None else Some ("aliasing: d.Edits / inputs disturbed or receiver not returned, flags " ^ k))
    >>= fun () ->
      (match !scale_last with
       | Some m when m.s_inp = inp && m.s_out = out
                     && (List.length m.s_lhs + List.length m.s_rhs) * (List.length m.s_cn + 1) <= 1_000_000 ->
         (match spec_hist_core m.s_ops m.s_lhs m.s_rhs m.s_es m.s_cn m.s_stages with
          | Some r -> Some ("reference checkers on the chunks behind the digests: " ^ r)
          | None -> None)
       | _ -> None)
  | _ -> if out = "?" then None else Some "bad output syntax"

let spec prop inp out =
  match words inp with
  | ["U"; s] when prop = "C13" -> spec_unify s out
  | ("S" | "SC") :: _ when prop = "C13" -> spec_scale inp out
  | _ ->
  match parse_prelude inp with
  | Some h when prop = "C13" ->
    spec_hist h out
    >>= fun () -> (match field out "Q" with
                   | Some "1" -> None
                   | Some _ -> Some "the Diff (or chunk list) an earlier call returned reads differently after this case ran: results of separate calls share storage"
                   | None -> Some "bad output syntax")
  | _ ->
  match parse_hist inp with
  | Some h when prop = "C13" -> spec_hist h out
  | _ ->
  match prop, parse_input inp with
  | "C13", Some (n, _script, lhs, rhs) ->
    (match field out "E", field out "N", field out "A", field out "U", field out "K" with
     | Some e, Some ns, Some a, Some u, Some k ->
       if is_panic ns then Some "New panicked" else
       if is_panic a then Some "AddContext panicked" else
       if is_panic u then Some "Unify panicked" else
       let es = parse_edits e and cn = parse_chunks ns and ca = parse_chunks a and cu = parse_chunks u in
       (* Edits holds the full script: a valid script for (lhs, rhs) *)
       (if M.script_okb leq lhs rhs es then None else Some "d.Edits does not transform Left into Right")
       >>= fun () -> all_ok "New" lhs rhs cn
       >>= fun () -> all_ok "AddContext" lhs rhs ca
       >>= fun () -> all_ok "Unify" lhs rhs cu
       (* ascending, disjoint (after New and Unify), not adjacent (after Unify; after New too) *)
       >>= fun () -> (if M.separatedb (z_of_int 0) cn then None else Some "after New: chunks not ascending and disjoint")
       >>= fun () -> (if M.separatedb (z_of_int 1) cu then None else Some "after Unify: chunks not ascending, disjoint and non-adjacent")
       >>= fun () -> (if unify_groups ca cu then None else Some "after Unify: the chunks are not the runs of touching chunks of the list before")
       (* substituting the chunks turns Left into Right *)
       >>= fun () -> (if M.applies leq lhs rhs cn then None else Some "after New: applying the chunks to Left does not give Right")
       >>= fun () -> (if M.applies leq lhs rhs cu then None else Some "after Unify: applying the chunks to Left does not give Right")
       (* the chunks hold exactly the changing edits of the script, in order, at every stage *)
       >>= fun () -> (if nonemit_edits cn = M.changes es then None else Some "after New: the chunks' edits are not the non-Emit edits of the script")
       >>= fun () -> (if nonemit_edits ca = M.changes es then None else Some "after AddContext: the chunks' non-context edits are not those of the script")
       >>= fun () -> (if nonemit_edits cu = M.changes es then None else Some "after Unify: the chunks' non-context edits are not those of the script")
       (* New adds no context; AddContext(n) adds at most n lines before and after each chunk, and
          changes nothing else; after Unify at most n leading and trailing context lines *)
       >>= fun () -> (if List.for_all (fun c -> M.changes c.M.edits = c.M.edits) cn then None else Some "after New: a chunk contains an Emit edit")
       >>= fun () ->
         (if List.length ca <> List.length cn then Some "AddContext changed the number of chunks" else
          let nn = clamp_n n in
          let bad = List.exists2 (fun c0 c1 ->
            let pre = int_of_z (M.lead_ctx c1.M.edits) and post = int_of_z (M.trail_ctx c1.M.edits) in
            not (pre <= nn && post <= nn
                 && int_of_z c1.M.lStart = int_of_z c0.M.lStart - pre && int_of_z c1.M.rStart = int_of_z c0.M.rStart - pre
                 && int_of_z c1.M.lEnd = int_of_z c0.M.lEnd + post && int_of_z c1.M.rEnd = int_of_z c0.M.rEnd + post
                 && M.changes c1.M.edits = c0.M.edits
                 && List.length c1.M.edits = List.length c0.M.edits + (if pre > 0 then 1 else 0) + (if post > 0 then 1 else 0))) cn ca in
          if bad then Some "after AddContext: a chunk is not the New chunk with at most n context lines before and after" else None)
       >>= fun () ->
         (let nn = clamp_n n in
          if List.for_all (fun c -> int_of_z (M.lead_ctx c.M.edits) <= nn && int_of_z (M.trail_ctx c.M.edits) <= nn) cu then None
          else Some "after Unify: more than n context lines before or after a chunk")
       >>= fun () -> (if k = "1111" then None else Some ("aliasing: d.Edits / inputs disturbed or receiver not returned, flags " ^ k))
     | _ -> Some "bad output syntax")
  | _ -> None

let () = run_main ~eval ~spec
