(* Replays mdifffmttrace lines on the extracted model (FormatModel/ReaderModel, pinned variant =
   the code as Gen describes it) and evaluates the property itself on the implementation's
   outputs: the reference appliers (ApplySpec) on the rendered text must turn Left into Right,
   the readers must return the normalised chunks (FormatSpec) and re-formatting must give the
   same bytes.  A failure is tagged known=F5 / known=F6 only if the pinned model reproduces the
   implementation's whole output on that input, the Gen facts are the pinned ones, and the model
   with exactly that switch repaired passes the same check.
   Q lines (round 4): one round trip after earlier calls in the same process that the line names;
   the model has no state between calls, see eval_q / spec_q. *)

let split_on c s = String.split_on_char c s

(* ---- decoding ---- *)
let op_of_char = function 'd' -> M.Drop | 'e' -> M.Emit | 'c' -> M.Copy | 'r' -> M.Replace | _ -> failwith "op"
let char_of_op = function M.Drop -> "d" | M.Emit -> "e" | M.Copy -> "c" | M.Replace -> "r"

let dec_edits s =
  if s = "." then [] else
  List.map (fun es ->
    let body = String.sub es 1 (String.length es - 1) in
    match split_on '_' body with
    | [x; y] -> { M.eop = op_of_char es.[0]; M.x = unhexs x; M.y = unhexs y }
    | _ -> failwith "edit") (split_on '/' s)

let dec_chunks s =
  if s = "." then [] else
  List.map (fun cs ->
    match split_on ':' cs with
    | [a; b; c; d; es] ->
      { M.edits = dec_edits es; M.lStart = z_of_string a; M.lEnd = z_of_string b;
        M.rStart = z_of_string c; M.rEnd = z_of_string d }
    | _ -> failwith "chunk") (split_on ';' s)

let dec_fi s =
  if s = "-" then None else
  match split_on ',' s with
  | [l; r; lt; rt] -> Some { M.fi_left = unhex l; M.fi_right = unhex r; M.fi_ltime = unhex lt; M.fi_rtime = unhex rt }
  | _ -> failwith "fi"

(* ---- encoding ---- *)
let enc_edits es =
  if es = [] then "." else
  String.concat "/" (List.map (fun e -> char_of_op e.M.eop ^ hexs e.M.x ^ "_" ^ hexs e.M.y) es)

let enc_chunks cs =
  if cs = [] then "." else
  String.concat ";" (List.map (fun c ->
    Printf.sprintf "%s:%s:%s:%s:%s" (string_of_z c.M.lStart) (string_of_z c.M.lEnd)
      (string_of_z c.M.rStart) (string_of_z c.M.rEnd) (enc_edits c.M.edits)) cs)

let enc_fi = function
  | None -> "-"
  | Some f -> hex f.M.fi_left ^ "," ^ hex f.M.fi_right ^ "," ^ hex f.M.fi_ltime ^ "," ^ hex f.M.fi_rtime

let err_kind = function
  | M.EBlank -> "blank" | M.ECmd -> "cmd" | M.ESpan -> "span" | M.ECount -> "count" | M.EEdit -> "edit"
  | M.EHeader -> "header" | M.ERight -> "right" | M.EEof -> "eof" | M.EPrefix -> "prefix"
  | M.ENoPatch -> "nopatch" | M.EPatchHeader -> "patchhdr" | M.EFuel -> "FUEL"

let enc_patch fi cs = "P:" ^ enc_fi fi ^ ":" ^ enc_chunks cs

(* line numbers of magnitude beyond 2^61: the formatters' int arithmetic is outside the model
   (the harness does not format such patches again either) *)
let two61 = z_of_string "2305843009213693952"
let zabs = function M.Zneg p -> M.Zpos p | z -> z
let zle a b = match M.Z.compare a b with M.Gt -> false | _ -> true
let beyond_model cs =
  List.exists (fun c -> List.exists (fun z -> not (zle (zabs z) two61)) [c.M.lStart; c.M.lEnd; c.M.rStart; c.M.rEnd]) cs
let refmt cs f = if beyond_model cs then "big" else hex (f ())

(* ---- LA lines (round 6, harness/cmd/mdifffmttrace/round6.go): LA <ctx> <fi> <recipe> | <N> <U> <C> <chunks>.
   Left and Right are NAMED by a recipe; the harness calls New [.AddContext(ctx).Unify()] itself when
   the line runs and records the three renderings and the chunks.  The chunks are an observation (the
   formatter model has no New): the driver reads the LA lines of its trace files once, [eval] renders
   the RECORDED chunks with the formatter model (so the three texts are compared as on A lines), and
   [spec] judges by the property alone -- the chunks must describe how Left becomes Right and every
   rendering, applied to Left by the reference appliers, must give Right. *)
let echo : (string, string) Hashtbl.t = Hashtbl.create 256
let () =
  Array.iteri (fun i f ->
    if i > 0 && String.length f > 0 && f.[0] <> '-' && Sys.file_exists f && not (Sys.is_directory f) then begin
      let ic = open_in f in
      (try while true do
        let line = input_line ic in
        if String.length line > 3 && String.sub line 0 3 = "LA " then begin
          let (inp, out) = split_line line in Hashtbl.replace echo inp out
        end
      done with End_of_file -> ());
      close_in ic
    end) Sys.argv

exception Bad_recipe
let line_of_int v = if v = 0 then [] else
  let t = string_of_int v in List.init (String.length t) (fun i -> n_of_int (Char.code t.[i]))
(* recipe -> (Left, Right); the language of harness/cmd/mdifftrace/scale.go *)
let build_texts (recipe : string) =
  let l = ref [] and r = ref [] and total = ref 0 in
  let int_ s = match int_of_string_opt s with Some n when n >= 0 -> n | _ -> raise Bad_recipe in
  if recipe <> "." then
    List.iter (fun gs ->
      let gs, reps = match String.index_opt gs '*' with
        | Some i -> String.sub gs 0 i, int_ (String.sub gs (i + 1) (String.length gs - i - 1))
        | None -> gs, 1 in
      let items = List.map (fun is ->
        if String.length is < 2 then raise Bad_recipe;
        let kind = is.[0] in
        if kind <> 'e' && kind <> 'd' && kind <> 'c' then raise Bad_recipe;
        match List.map int_ (String.split_on_char '.' (String.sub is 1 (String.length is - 1))) with
        | [c; p; o] when p >= 1 -> (kind, c, p, o, 1)
        | [c; p; o; rl] when p >= 1 && rl >= 1 -> (kind, c, p, o, rl)
        | _ -> raise Bad_recipe) (String.split_on_char '/' gs) in
      for _ = 1 to reps do
        List.iter (fun (kind, c, p, o, rl) ->
          total := !total + c;
          if !total > 40000 then raise Bad_recipe;
          for j = 0 to c - 1 do
            let t = line_of_int (o + (j / rl) mod p) in
            if kind <> 'c' then l := t :: !l;
            if kind <> 'd' then r := t :: !r
          done) items
      done) (String.split_on_char ',' recipe);
  (List.rev !l, List.rev !r)

(* ---- the model's prediction ---- *)
let render v fi cs = (M.x_normal cs, M.x_unified v fi cs, M.x_context fi cs)

let eval_d v kind fi cs =
  let (n, u, c) = render v fi cs in
  if kind = "A" then hex n ^ " " ^ hex u ^ " " ^ hex c else
  let (rn, fn) = match M.x_read_normal n with
    | M.ROk cs' -> (enc_patch None cs', refmt cs' (fun () -> M.x_normal cs'))
    | M.RErr e -> ("E:" ^ err_kind e, "x") in
  let (ru, fu) = match M.x_read_unified v u with
    | M.ROk p -> (enc_patch p.M.p_info p.M.p_chunks, refmt p.M.p_chunks (fun () -> M.x_unified v p.M.p_info p.M.p_chunks))
    | M.RErr e -> ("E:" ^ err_kind e, "x") in
  String.concat " " [hex n; hex u; hex c; rn; ru; fn; fu]

let enc_patches = function
  | M.RErr e -> "E:" ^ err_kind e
  | M.ROk [] -> "P*"
  | M.ROk ps -> String.concat "+" (List.map (fun p -> enc_patch p.M.p_info p.M.p_chunks) ps)

let rec triples = function
  | j :: f :: c :: r -> (unhexs j, dec_fi f, dec_chunks c) :: triples r
  | _ -> []

let git_text v ts =
  List.concat (List.map (fun (junk, fi, cs) ->
    List.concat (List.map (fun l -> l @ [n_of_int 10]) junk) @ M.x_unified v fi cs) ts)

(* ---- Q lines: a round trip through one reader after a prelude of earlier calls.  The readers and
   formatters keep nothing between calls, so the prelude has no effect on the round trip: the model
   predicts it from the chunks alone.  The prelude's reader calls are predicted like T lines. *)
let bytes_of_string s = List.init (String.length s) (fun i -> n_of_int (Char.code s.[i]))
let git_junk = bytes_of_string "diff --git a/f b/f\nindex 83a4f1..9bc2d0 100644\n"

exception Bad_prelude
let prelude_items pre = String.split_on_char '&' pre
let prelude_result v item =
  let n = String.length item in
  if n < 2 then raise Bad_prelude else
  if item.[1] = ':' then begin
    let t = unhex (String.sub item 2 (n - 2)) in
    match item.[0] with
    | 'n' -> (match M.x_read_normal t with M.ROk cs -> enc_patch None cs | M.RErr e -> "E:" ^ err_kind e)
    | 'u' -> (match M.x_read_unified v t with M.ROk p -> enc_patch p.M.p_info p.M.p_chunks | M.RErr e -> "E:" ^ err_kind e)
    | 'g' -> enc_patches (M.x_read_git v t)
    | _ -> raise Bad_prelude
  end else
    match item.[0], int_of_string_opt (String.sub item 1 (n - 1)) with
    | ('w' | 'x' | 'b'), Some k when k >= 0 && k <= 100000 -> "-"
    | _ -> raise Bad_prelude

let q_main v rk fi cs =
  match rk with
  | "n" ->
    let n = M.x_normal cs in
    (match M.x_read_normal n with
     | M.ROk cs' -> Some (hex n, enc_patch None cs', refmt cs' (fun () -> M.x_normal cs'))
     | M.RErr e -> Some (hex n, "E:" ^ err_kind e, "x"))
  | "u" ->
    let u = M.x_unified v fi cs in
    (match M.x_read_unified v u with
     | M.ROk p -> Some (hex u, enc_patch p.M.p_info p.M.p_chunks, refmt p.M.p_chunks (fun () -> M.x_unified v p.M.p_info p.M.p_chunks))
     | M.RErr e -> Some (hex u, "E:" ^ err_kind e, "x"))
  | "g" ->
    let text = git_junk @ M.x_unified v fi cs in
    Some (hex text, enc_patches (M.x_read_git v text), "-")
  | _ -> None

let eval_q v pre rk fi cs =
  match (try Some (List.map (prelude_result v) (prelude_items pre)) with Bad_prelude -> None), q_main v rk fi cs with
  | Some ps, Some (text, res, re) -> String.concat " " [text; res; re; String.concat "&" ps; "same"]
  | _ -> "?"

let eval_v v inp =
  match words inp with
  | [("D" | "S" | "A") as k; _l; _r; fi; cs] -> eval_d v k (dec_fi fi) (dec_chunks cs)
  | ["T"; "n"; t] ->
    (match M.x_read_normal (unhex t) with
     | M.ROk cs -> enc_patch None cs ^ " " ^ refmt cs (fun () -> M.x_normal cs)
     | M.RErr e -> "E:" ^ err_kind e ^ " x")
  | ["T"; "u"; t] ->
    (match M.x_read_unified v (unhex t) with
     | M.ROk p -> enc_patch p.M.p_info p.M.p_chunks ^ " " ^ refmt p.M.p_chunks (fun () -> M.x_unified v p.M.p_info p.M.p_chunks)
     | M.RErr e -> "E:" ^ err_kind e ^ " x")
  | ["T"; "g"; t] -> enc_patches (M.x_read_git v (unhex t))
  | "G" :: _k :: rest ->
    let text = git_text v (triples rest) in
    hex text ^ " " ^ enc_patches (M.x_read_git v text)
  | ["Q"; pre; rk; fi; cs] -> eval_q v pre rk (dec_fi fi) (dec_chunks cs)
  | ["LA"; _ctx; fi; _recipe] ->
    (match Hashtbl.find_opt echo inp with
     | None -> "NOT-REPLAYED"
     | Some out ->
       (match words out with
        | [_; _; _; css] ->
          (match (try Some (dec_chunks css) with _ -> None) with
           | Some cs -> let (n, u, c) = render v (dec_fi fi) cs in String.concat " " [hex n; hex u; hex c; css]
           | None -> "UNREADABLE-CHUNKS")
        | _ -> "NO-CHUNKS-RECORDED"))
  | _ -> "?"

(* ---- timestamps (Z lines) ----
   The Coq theorems take timestamps as opaque tokens with the hypothesis parse (format t) = Some t.
   This is the statement of WHICH real time.Time values satisfy it with the default TimeFormat
   "2006-01-02 15:04:05.999999 -0700", validated against the Go runtime on every run: an instant
   [sec,nsec] shown in a fixed zone [off] seconds east of UTC comes back as the same instant (at
   microsecond precision: the layout has six fractional digits, further digits are cut) with the
   same zone offset  iff  its local year is in 0..9999 (four digits, no sign), the offset is a
   whole number of minutes (the layout has no seconds field for the zone) and below 25 hours in
   magnitude (time.Parse rejects larger hour fields).  The zero time is never written. *)
let year0 = -62167219200 and year10000 = 253402300800 and zero_sec = -62135596800
let stamp_domain sec off =
  let local = sec + off in
  local >= year0 && local < year10000 && off mod 60 = 0 && abs off < 90000
let eval_z sec nsec off =
  if sec = zero_sec && nsec = 0 then "zero" else if stamp_domain sec off then "same" else "lost"

(* ZP lines (round 6, harness/cmd/mdifffmttrace/round6.go): TWO real times, one per side, under a
   layout ("-": the default).  The headers must carry each side's own time as time.Format spells it
   (the harness compares with the Go runtime: "hdr").  Under the default layout each side comes back
   as on Z lines, judged on its own; re-formatting the patch read gives the text back byte for
   byte iff every stamp that was written parses again: local year in 0..9999 and a zone below 25
   hours (seconds of a zone and digits below the microsecond are cut by the WRITER: the text written
   the second time is the same). *)
let is_zero_time sec nsec = (sec = zero_sec && nsec = 0)
let reparses sec nsec off =
  is_zero_time sec nsec || (let local = sec + off in local >= year0 && local < year10000 && abs off < 90000)
let eval_zp lay s1 n1 o1 s2 n2 o2 =
  if lay <> "-" then "hdr - - -" else
  String.concat " " ["hdr"; eval_z s1 n1 o1; eval_z s2 n2 o2; (if reparses s1 n1 o1 && reparses s2 n2 o2 then "same" else "diff")]

let eval inp = match words inp with
  | ("V" | "W") :: _ -> "ok"
  | ["ZP"; lay; s1; n1; o1; s2; n2; o2] ->
    eval_zp lay (int_of_string s1) (int_of_string n1) (int_of_string o1) (int_of_string s2) (int_of_string n2) (int_of_string o2)
  | ["Z"; s; n; o] -> eval_z (int_of_string s) (int_of_string n) (int_of_string o)
  (* ZF (round 5): a real time under FileInfo.TimeFormat = a caller-chosen layout ("-": the field left
     empty).  The harness compares the two headers Unified and Context write with time.Format under
     that layout (the Go runtime is the reference for what a layout spells); the zero time is never
     written, every other time always is. *)
  | ["ZF"; _lay; s; n; _o] -> if int_of_string s = zero_sec && int_of_string n = 0 then "zero" else "same"
  | _ -> eval_v M.pinned inp

(* ---- the property on the implementation's output ---- *)
let only_f5 = { M.uspan_omitted_count_zero = false; M.uspan_empty_names_next_line = true }
let only_f6 = { M.uspan_omitted_count_zero = true; M.uspan_empty_names_next_line = false }

let clean_name s = not (List.exists (fun b -> let b = int_of_n b in b = 9 || b = 10) s)
let lines_ok ls = List.for_all (fun l -> not (List.exists (fun b -> int_of_n b = 10) l)) ls

let expected_fi fi cs =
  if cs = [] then None else
  match fi with
  | None -> None
  | Some f ->
    let dflt d s = if s = [] then [n_of_int d] else s in
    Some { f with M.fi_left = dflt 97 f.M.fi_left; M.fi_right = dflt 98 f.M.fi_right }

(* round trip of the unified rendering [u]: what reading gave ([ru]) and re-formatting ([fu]) *)
let check_unified_roundtrip fi cs u ru fu =
  let want = enc_patch (expected_fi fi cs) (M.x_unified_normalise cs) in
  if ru <> want then Some ("ReadUnified(Unified(chunks)) = " ^ ru ^ ", want " ^ want)
  else if fu <> u then Some "re-formatting the patch read from the unified text changes the bytes"
  else None

let names_clean = function
  | None -> true
  | Some f -> clean_name f.M.fi_left && clean_name f.M.fi_right

let spec_d inp out =
  match words inp, words out with
  | [_; _; _; fis; css], [n; u; _c; rn; ru; fn; fu] ->
    let fi = dec_fi fis and cs = dec_chunks css in
    let wantn = enc_patch None (M.x_normal_normalise cs) in
    if rn <> wantn then Some ("Read(Normal(chunks)) = " ^ rn ^ ", want " ^ wantn)
    else if fn <> n then Some "re-formatting the patch read from the normal text changes the bytes"
    else if not (names_clean fi) then None
    else (match check_unified_roundtrip fi cs u ru fu with
      | None -> None
      | Some reason ->
        (* attributable to F5?  pinned model = implementation on this input, and with the
           omitted count read as 1 the model round-trips *)
        let known =
          M.gen_facts_pinned && eval inp = out &&
          (match words (eval_v only_f5 inp) with
           | [_; u'; _; _; ru'; _; fu'] -> check_unified_roundtrip fi cs u' ru' fu' = None
           | _ -> false) in
        Some (reason ^ (if known then " known=F5" else "")))
  | _ -> Some "bad output syntax"

(* [f true] is the applier of the theorems (the new-file numbers must be where the new lines
   land); when it refuses, [f false] (those numbers ignored, as GNU patch does) refines the message *)
let apply_check name f l r text =
  match f true l (unhex text) with
  | Some got when got = r -> None
  | Some got -> Some (name ^ " rendering applied to Left gives " ^ hexs got ^ ", not Right")
  | None ->
    match f false l (unhex text) with
    | Some got when got = r ->
      Some (name ^ " rendering turns Left into Right only when its new-file line numbers are ignored: a right-hand range is not where the new lines land")
    | Some got -> Some (name ^ " rendering placed by its left-hand ranges alone gives " ^ hexs got ^ ", not Right; read strictly it does not apply")
    | None -> Some (name ^ " rendering does not apply to Left (strict reading of the format)")

let spec_a inp out =
  match words inp, words out with
  | [_; ls; rs; fis; css], [n; u; c] ->
    let l = unhexs ls and r = unhexs rs in
    if not (lines_ok l && lines_ok r) then None else
    if not (M.patch_okb l r (dec_chunks css)) then
      Some "the chunks do not describe how Left becomes Right (patch_ok, the hypothesis of the application theorems, fails)" else
    (match apply_check "normal" M.x_apply_normal l r n with
     | Some e -> Some e
     | None ->
     match apply_check "context" M.x_apply_context l r c with
     | Some e -> Some e
     | None ->
     match apply_check "unified" M.x_apply_unified l r u with
     | None -> None
     | Some reason ->
       let fi = dec_fi fis and cs = dec_chunks css in
       let known =
         M.gen_facts_pinned && eval inp = out &&
         M.x_apply_unified true l (M.x_unified only_f6 fi cs) = Some r in
       Some (reason ^ (if known then " known=F6" else "")))
  | _ -> Some "bad output syntax"

(* LA lines: the texts come from the recipe, the chunks from the implementation's own record *)
let spec_la inp out =
  match words inp, words out with
  | ["LA"; _ctx; fis; recipe], [n; u; c; css] ->
    (match (try Some (build_texts recipe) with Bad_recipe -> None), (try Some (dec_chunks css) with _ -> None) with
     | None, _ -> None
     | _, None -> Some "unreadable chunks in the record"
     | Some (l, r), Some cs ->
       if not (M.patch_okb l r cs) then
         Some "the chunks New (AddContext, Unify) returned for the texts of the recipe do not describe how Left becomes Right (patch_ok fails)" else
       (match apply_check "normal" M.x_apply_normal l r n with
        | Some e -> Some e
        | None ->
        match apply_check "context" M.x_apply_context l r c with
        | Some e -> Some e
        | None ->
        match apply_check "unified" M.x_apply_unified l r u with
        | None -> None
        | Some reason ->
          let fi = dec_fi fis in
          let known =
            M.gen_facts_pinned && eval inp = out &&
            M.x_apply_unified true l (M.x_unified only_f6 fi cs) = Some r in
          Some (reason ^ (if known then " known=F6" else ""))))
  | ["LA"; _; _; _], _ ->
    if String.length out >= 6 && String.sub out 0 6 = "panic:" then Some "New, AddContext, Unify or a formatter panicked on the texts of the recipe"
    else if out = "?" then None else Some "bad output syntax"
  | _ -> Some "bad output syntax"

let spec_g inp out =
  match words inp, words out with
  | "G" :: _ :: rest, [_text; res] ->
    let ts = triples rest in
    if not (List.for_all (fun (_, fi, _) -> names_clean fi) ts) then None else
    let want v = String.concat "+" (List.map (fun (_, fi, cs) -> enc_patch (expected_fi fi cs) (M.x_unified_normalise cs)) ts) in
    if res = want () then None else
    let reason = "ReadGitPatch of the wrapped renderings = " ^ res ^ ", want " ^ want () in
    let known =
      M.gen_facts_pinned && eval inp = out &&
      (match words (eval_v only_f5 inp) with [_; res'] -> res' = want () | _ -> false) in
    Some (reason ^ (if known then " known=F5" else ""))
  | _ -> Some "bad output syntax"

(* Q lines: the round trip must hold whatever was called before it in the same process, and a
   patch an earlier call returned must not be changed by a later one.  Same clauses as D / G lines
   for the one reader the line goes through; independent of the model (normalise functions only). *)
let spec_q inp out =
  match words inp, words out with
  | ["Q"; _pre; rk; fis; css], [text; res; re; _pres; same] ->
    let fi = dec_fi fis and cs = dec_chunks css in
    if same <> "same" then
      Some "a patch returned by an earlier reader call reads differently after a later call (results of separate calls share storage)" else
    (match rk with
     | "n" ->
       let want = enc_patch None (M.x_normal_normalise cs) in
       if res <> want then Some ("after earlier calls in the same process: Read(Normal(chunks)) = " ^ res ^ ", want " ^ want)
       else if re <> text then Some "after earlier calls in the same process: re-formatting the patch read from the normal text changes the bytes"
       else None
     | "u" ->
       if not (names_clean fi) then None else
       (match check_unified_roundtrip fi cs text res re with
        | None -> None
        | Some reason ->
          let known =
            M.gen_facts_pinned && eval inp = out &&
            (match words (eval_v only_f5 inp) with
             | [t'; res'; re'; _; _] -> check_unified_roundtrip fi cs t' res' re' = None
             | _ -> false) in
          Some ("after earlier calls in the same process: " ^ reason ^ (if known then " known=F5" else "")))
     | "g" ->
       if cs = [] || fi = None || not (names_clean fi) then None else
       let want = enc_patch (expected_fi fi cs) (M.x_unified_normalise cs) in
       if res = want then None else
       let known =
         M.gen_facts_pinned && eval inp = out &&
         (match words (eval_v only_f5 inp) with [_; res'; _; _; _] -> res' = want | _ -> false) in
       Some ("after earlier calls in the same process: ReadGitPatch of the wrapped rendering = " ^ res ^ ", want " ^ want
             ^ (if known then " known=F5" else ""))
     | _ -> None)
  | _ -> Some "bad output syntax"

(* Failures attributed to a known finding are reported three times per finding and counted after
   that (KNOWNCOUNT lines at exit), so that the report budget of the main loop is left to
   anything that is NOT a known finding. *)
let known_seen : (string, int) Hashtbl.t = Hashtbl.create 4
let contains s sub =
  let n = String.length s and m = String.length sub in
  let rec go i = i + m <= n && (String.sub s i m = sub || go (i + 1)) in go 0
let throttle = function
  | None -> None
  | Some reason ->
    let id = if contains reason " known=F5" then Some "F5" else if contains reason " known=F6" then Some "F6" else None in
    (match id with
     | None -> Some reason
     | Some id ->
       let k = 1 + (try Hashtbl.find known_seen id with Not_found -> 0) in
       Hashtbl.replace known_seen id k;
       if k <= 3 then Some reason else None)

(* inputs cut into pieces by the shrinker of bin/check may be malformed: they are not cases *)
let well_formed inp =
  try (match words inp with
    | [("D" | "A" | "S"); l; r; fi; cs] ->
      ignore (unhexs l); ignore (unhexs r); ignore (dec_fi fi);
      List.for_all (fun c -> ignore c.M.edits; true) (dec_chunks cs)
    | "G" :: k :: rest -> List.length (triples rest) = int_of_string k && List.length rest = 3 * int_of_string k
    | ["T"; _; t] -> ignore (unhex t); true
    | ["Q"; pre; rk; fi; cs] ->
      ignore (dec_fi fi);
      List.for_all (fun c -> ignore c.M.edits; true) (dec_chunks cs)
      && (rk = "n" || rk = "u" || rk = "g")
      && (try ignore (List.map (prelude_result M.pinned) (prelude_items pre)); true with Bad_prelude -> false)
    | ["LA"; ctx; fi; recipe] -> ignore (dec_fi fi); int_of_string ctx >= 0 && (try ignore (build_texts recipe); true with Bad_recipe -> false)
    | ["V"; _; l; r; t] -> ignore (unhexs l); ignore (unhexs r); ignore (unhex t); true
    | ["W"; l; r; cs; _; _; _] -> ignore (unhexs l); ignore (unhexs r); ignore (dec_chunks cs); true
    | ["Z"; s; n; o] -> ignore (int_of_string s); ignore (int_of_string o); let n = int_of_string n in n >= 0 && n < 1000000000
    | ["ZF"; lay; s; n; o] -> if lay <> "-" then ignore (unhex lay); ignore (int_of_string s); ignore (int_of_string o);
      let n = int_of_string n in n >= 0 && n < 1000000000
    | ["ZP"; lay; s1; n1; o1; s2; n2; o2] -> if lay <> "-" then ignore (unhex lay);
      List.iter (fun x -> ignore (int_of_string x)) [s1; o1; s2; o2];
      List.for_all (fun n -> let n = int_of_string n in n >= 0 && n < 1000000000) [n1; n2]
    | _ -> false)
  with _ -> false

(* validation of the reference appliers themselves (thorough tier): GNU diff's output must be
   applied correctly; whenever the strict applier accepts one of mdiff's renderings, GNU patch
   must have produced the same file.  A failure here is a fault of ApplySpec.v, not of mdiff. *)
let spec_v inp =
  match words inp with
  | ["V"; m; ls; rs; t] ->
    let l = unhexs ls and r = unhexs rs in
    let f = match m with "n" -> M.x_apply_normal | "u" -> M.x_apply_unified | _ -> M.x_apply_context in
    if f true l (unhex t) = Some r then None
    else Some ("HARNESS-FAULT: reference applier (" ^ m ^ ", strict) does not turn Left into Right with GNU diff's own output")
  | ["W"; ls; _rs; css; pn; pu; pc] ->
    let l = unhexs ls and cs = dec_chunks css in
    let join ls = List.concat (List.map (fun x -> x @ [n_of_int 10]) ls) in
    let one name applied got =
      match applied with
      | Some x when got = "x" || unhex got <> join x ->
        Some ("HARNESS-FAULT: the strict " ^ name ^ " applier accepts mdiff's rendering and gives " ^ hexs x ^ " but GNU patch " ^ (if got = "x" then "rejects it" else "gives " ^ got))
      | _ -> None in
    (match one "normal" (M.x_apply_normal true l (M.x_normal cs)) pn with Some e -> Some e | None ->
     match one "unified" (M.x_apply_unified true l (M.x_unified M.pinned None cs)) pu with Some e -> Some e | None ->
     match one "unified (new-file numbers ignored)" (M.x_apply_unified false l (M.x_unified M.pinned None cs)) pu with Some e -> Some e | None ->
     one "context" (M.x_apply_context true l (M.x_context None cs)) pc)
  | _ -> None

let spec prop inp out =
  if prop <> "C14" || not (well_formed inp) then None else
  throttle (match words inp with
  | ("V" | "W") :: _ -> spec_v inp
  | "D" :: _ -> spec_d inp out
  | "A" :: _ -> spec_a inp out
  | "LA" :: _ -> spec_la inp out
  | "G" :: _ -> spec_g inp out
  | "Q" :: _ -> spec_q inp out
  | ["ZF"; _; s; n; _] ->
    let zero = (int_of_string s = zero_sec && int_of_string n = 0) in
    if out = (if zero then "zero" else "same") then None
    else Some "FileInfo.TimeFormat: the file headers Unified and Context write do not carry the time as time.Format spells it under the caller's layout (or under the default layout when the field is empty), or the body changed with the option"
  | ["ZP"; lay; s1; n1; o1; s2; n2; o2] ->
    (match words out with
     | [hdr; l; r; re] ->
       let s1 = int_of_string s1 and n1 = int_of_string n1 and o1 = int_of_string o1
       and s2 = int_of_string s2 and n2 = int_of_string n2 and o2 = int_of_string o2 in
       let side name s n o got =
         if is_zero_time s n then (if got = "zero" then None else Some ("no " ^ name ^ " timestamp was given, yet one comes back"))
         else if stamp_domain s o && got <> "same" then
           Some ("the " ^ name ^ " timestamp (one the default TimeFormat can express) does not survive Unified -> ReadUnified/ReadGitPatch as the instant and zone it was given with, the other side's stamp being another time or the same instant in another zone")
         else None in
       if hdr <> "hdr" then
         Some "the file headers Unified and Context write do not carry each side's OWN time as time.Format spells it under the layout in force (a zero time: no TAB part): e.g. one side's rendering re-used for the other side's time at the same instant in another zone"
       else if lay <> "-" then None
       else (match side "left" s1 n1 o1 l with
         | Some e -> Some e
         | None ->
         match side "right" s2 n2 o2 r with
         | Some e -> Some e
         | None ->
           let clean s n o = is_zero_time s n || stamp_domain s o in
           if clean s1 n1 o1 && clean s2 n2 o2 && re <> "same" then
             Some "re-formatting the patch read from the unified text (two header timestamps the default TimeFormat can express) changes the bytes"
           else None)
     | _ -> Some "bad output syntax")
  | ["Z"; s; n; o] ->
    (* the property: default-format timestamps survive (for the times the layout can express) *)
    let s = int_of_string s and n = int_of_string n and o = int_of_string o in
    if s = zero_sec && n = 0 then None
    else if stamp_domain s o && out <> "same" then
      Some "a timestamp the default TimeFormat can express (year 0..9999, zone offset in whole minutes) does not survive Unified -> ReadUnified/ReadGitPatch"
    else None
  | _ -> None)

let () = at_exit (fun () -> Hashtbl.iter (fun id k -> Printf.printf "KNOWNCOUNT %s %d\n" id k) known_seen)

let () = run_main ~eval ~spec
