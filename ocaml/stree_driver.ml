(* Replays streetrace lines on the extracted model (StreeModel.step) and evaluates the extracted
   reference (StreeSpec.spec_step: sorted lists) on the implementation's own outputs.
   Elements are OCaml pairs (key, payload) compared by key. *)

(* big trees allocate gigabytes of short-lived Z digits: a roomy minor heap halves the run time *)
let () = Gc.set { (Gc.get ()) with Gc.minor_heap_size = 4 * 1024 * 1024; Gc.space_overhead = 200 }

(* ---- the depth limit: largest k with 2000^k <= n * (1000+b)^k, exactly; n+1 at b = 1000.
   Small naturals-only bignum (little endian, base 2^30); one incremental table per beta. *)
let bbits = 30
let bmask = (1 lsl bbits) - 1
let big_trim (a : int array) =
  let n = ref (Array.length a) in
  while !n > 0 && a.(!n - 1) = 0 do decr n done;
  if !n = Array.length a then a else Array.sub a 0 !n
let big_mul_small (a : int array) (m : int) =
  let n = Array.length a in
  let r = Array.make (n + 2) 0 in
  let carry = ref 0 in
  for i = 0 to n - 1 do
    let v = a.(i) * m + !carry in
    r.(i) <- v land bmask; carry := v lsr bbits
  done;
  r.(n) <- !carry land bmask; r.(n + 1) <- !carry lsr bbits;
  big_trim r
let big_cmp (a : int array) (b : int array) =
  let la = Array.length a and lb = Array.length b in
  if la <> lb then compare la lb else begin
    let i = ref (la - 1) in
    while !i >= 0 && a.(!i) = b.(!i) do decr i done;
    if !i < 0 then 0 else compare a.(!i) b.(!i)
  end

type ltab = { mutable k : int; mutable pa : int array; mutable pb : int array; mutable vals : int array; mutable upto : int }
let ltabs : (int, ltab) Hashtbl.t = Hashtbl.create 16
let limit_exact (b : int) (n : int) : int =
  if b >= 1000 then n + 1
  else if n < 1 then 0
  else begin
    let t = match Hashtbl.find_opt ltabs b with
      | Some t -> t
      | None -> let t = { k = 0; pa = [|1|]; pb = [|1|]; vals = Array.make 64 0; upto = 0 } in Hashtbl.add ltabs b t; t in
    while t.upto < n do
      let m = t.upto + 1 in
      let continue = ref true in
      while !continue do
        let a2 = big_mul_small t.pa 2000 and b2 = big_mul_small t.pb (1000 + b) in
        if big_cmp a2 (big_mul_small b2 m) <= 0 then begin t.pa <- a2; t.pb <- b2; t.k <- t.k + 1 end
        else continue := false
      done;
      if m >= Array.length t.vals then begin
        let v = Array.make (2 * m) 0 in Array.blit t.vals 0 v 0 (Array.length t.vals); t.vals <- v end;
      t.vals.(m) <- t.k; t.upto <- m
    done;
    t.vals.(n)
  end

let limit_z (b : M.z) (n : M.z) : M.z = z_of_int (limit_exact (int_of_z b) (int_of_z n))

(* ---- elements and comparators *)
type e = int * int
let show_e ((k, p) : e) = string_of_int k ^ "_" ^ string_of_int p
let parse_e s : e =
  match String.index_opt s '_' with
  | Some i -> (int_of_string (String.sub s 0 i), int_of_string (String.sub s (i + 1) (String.length s - i - 1)))
  | None -> failwith "bad element"
let parse_es s : e list = if s = "." || s = "" then [] else List.map parse_e (String.split_on_char ',' s)
let show_es (l : e list) = if l = [] then "." else String.concat "," (List.map show_e l)
let show_opt_e = function Some e -> show_e e | None -> "0_0"

(* <order><style>, as in the harness: the same numbers, not just the same signs *)
let z_min64 = z_of_string "-9223372036854775808"
let z_max64 = z_of_string "9223372036854775807"
let split_cmp (s : string) : char * string =
  if s = "" then failwith "bad cmp";
  let n = String.length s in
  match s.[n - 1] with
  | 'd' | 't' | 'v' | 'x' | 'k' | 'e' | 'q' as c when n > 1 -> (c, String.sub s 0 (n - 1))   (* q: -1/0/1 (it also reads its tree) *)
  | _ -> (' ', s)
(* the position of an element in the order (equal positions = equivalent elements) *)
let pos_for (s : string) : e -> int =
  let (_, body) = split_cmp s in
  if body = "n" then (fun (k, _) -> k)
  else if body = "r" then (fun (k, _) -> - k)
  else if String.length body > 1 && body.[0] = 'm' then begin
    let j = int_of_string (String.sub body 1 (String.length body - 1)) in
    if j <= 0 then failwith "bad cmp";
    (fun (k, _) -> ((k mod j) + j) mod j)
  end else failwith "bad cmp"
(* comparison results as Z: the small ones are shared (big trees make millions of comparisons) *)
let zc_span = 1 lsl 15
let zc_tab : M.z array Lazy.t = lazy (Array.init (2 * zc_span + 1) (fun i -> z_of_int (i - zc_span)))
let zc v = if v >= - zc_span && v <= zc_span then (Lazy.force zc_tab).(v + zc_span) else z_of_int v
let cmp_for (s : string) : (e -> e -> M.z) =
  let z_of_int = zc in
  let z_x1 = M.Zpos (pos_of_int (1 lsl 40)) and z_x0 = M.Zneg (pos_of_int (1 lsl 40)) in
  let (style, _) = split_cmp s in
  let pos = pos_for s in
  let sign d = compare d 0 in
  match style with
  | 'd' -> (fun a b -> z_of_int (pos a - pos b))
  | 't' -> (fun a b -> z_of_int (3 * (pos a - pos b)))
  | 'v' -> (fun ((_, pa) as a) ((_, pb) as b) -> z_of_int ((pos a - pos b) * (1 + (abs pa + abs pb) mod 5)))
  | 'x' -> (fun a b -> let d = pos a - pos b in if d < 0 then z_x0 else if d > 0 then z_x1 else M.Z0)
  | 'e' -> (fun a b -> let d = pos a - pos b in if d < 0 then z_min64 else if d > 0 then z_max64 else M.Z0)
  | _ -> (fun a b -> z_of_int (sign (pos a - pos b)))

(* ---- hashes, identical to the harness *)
let feed (a, b) v =
  let x = if v < 0 then (-v) + (1 lsl 20) else v in
  let x = x mod (1 lsl 30) in
  ((a * 31337 + x + 7) mod 2147483647, (b * 65599 + x + 13) mod 2147483629)
let show_hash (a, b) = Printf.sprintf "%x.%x" a b
let hash_list (l : e list) = List.fold_left (fun h (k, p) -> feed (feed h k) p) (0, 0) l
let rec hash_shape h (t : e M.tree) =
  match t with
  | M.Leaf -> feed h 0
  | M.Node (l, (k, p), r) -> hash_shape (hash_shape (feed (feed (feed h 1) k) p) l) r
let shape_string (t : e M.tree) =
  let b = Buffer.create 256 in
  let rec go = function
    | M.Leaf -> Buffer.add_char b '.'
    | M.Node (l, x, r) -> Buffer.add_char b '('; go l; Buffer.add_string b (show_e x); go r; Buffer.add_char b ')' in
  go t; Buffer.contents b

(* ---- ops *)
exception Bad
let stop_of s = let n = int_of_string s in if n < 0 then None else Some (nat_of_int n)
let nat_ix s = let n = int_of_string s in if n < 0 then raise Bad else nat_of_int n

(* the model op, and whether it is a mutation (its output carries the summaries) *)
let parse_op (o : string) : e M.op * char =
  match String.split_on_char ':' o with
  | ["N"; b; keys; picks] -> (M.ONew (z_of_string b, parse_es keys, List.map nat_of_int (ints_of picks)), 'N')
  | ["C"; t] -> (M.OClone (nat_ix t), 'm')
  | ["a"; t; e] -> (M.OAdd (nat_ix t, parse_e e), 'm')
  | ["r"; t; e] -> (M.OReplace (nat_ix t, parse_e e), 'm')
  | ["d"; t; e] -> (M.ORemove (nat_ix t, parse_e e), 'm')
  | ["x"; t] -> (M.OClear (nat_ix t), 'm')
  | ["g"; t; e] -> (M.OGet (nat_ix t, parse_e e), 'g')
  | ["I"; t; s] -> (M.OInorder (nat_ix t, stop_of s), 'l')
  | ["A"; t; e; s] -> (M.OInorderAfter (nat_ix t, parse_e e, stop_of s), 'l')
  | ["S"; t] -> (M.OLen (nat_ix t), 'S')
  | _ -> raise Bad

let split_ops s = String.split_on_char ';' s

(* ---- round 5: traversals alive together (ops Z and Y of the H lines, harness round5.go).  Each
   traversal is evaluated BY ITSELF through [ask] (the model's step, or the reference's): what it
   delivers must not depend on what else is running. *)
type trav = TAfter of int * e | TIn of int
let parse_trav (s : string) : trav =
  if String.length s < 2 then raise Bad;
  let rest = String.sub s 1 (String.length s - 1) in
  match s.[0] with
  | 'I' -> (match int_of_string_opt rest with Some t when t >= 0 -> TIn t | _ -> raise Bad)
  | 'A' -> (match String.split_on_char '/' rest with
            | [t; e] -> (match int_of_string_opt t with Some t when t >= 0 -> TAfter (t, (try parse_e e with _ -> raise Bad)) | _ -> raise Bad)
            | _ -> raise Bad)
  | _ -> raise Bad
let trav_op tv stop = match tv with
  | TAfter (t, e) -> M.OInorderAfter (nat_of_int t, e, stop)
  | TIn t -> M.OInorder (nat_of_int t, stop)
let rec take_n n l = if n <= 0 then [] else match l with [] -> [] | x :: r -> x :: take_n (n - 1) r
let is_ext_op (o : string) = String.length o >= 2 && (o.[0] = 'Z' || o.[0] = 'Y') && o.[1] = ':'
(* the output of an op Z or Y, given how one tree answers one op *)
let ext_output (cmp : e -> e -> M.z) (ask : e M.op -> e M.out) (o : string) : string =
  let list_of op = match ask op with M.RList l -> l | _ -> raise Bad in
  let sign a b = match cmp a b with M.Z0 -> 0 | M.Zpos _ -> 1 | M.Zneg _ -> -1 in
  match String.split_on_char ':' o with
  | ["Z"; travs; sched] ->
    let tvs = Array.of_list (List.map parse_trav (String.split_on_char ',' travs)) in
    let k = Array.length tvs in
    if k = 0 || k > 10 then raise Bad;
    let pulls = Array.make k 0 in
    String.iter (fun c -> let i = Char.code c - 48 in if i < 0 || i >= k then raise Bad; pulls.(i) <- pulls.(i) + 1) sched;
    String.concat "/" (Array.to_list (Array.mapi (fun i tv ->
      let l = list_of (trav_op tv None) in
      show_es (take_n pulls.(i) l) ^ (if pulls.(i) > List.length l then "$" else "")) tvs))
  | ["Y"; outer; stop; every; inners] ->
    let outer = parse_trav outer in
    let stop = (match int_of_string_opt stop with Some s when s >= -1 -> s | _ -> raise Bad) in
    let every = (match int_of_string_opt every with Some v when v >= 1 -> v | _ -> raise Bad) in
    let iv x = match int_of_string_opt x with Some v -> v | None -> raise Bad in
    let tree x = let t = iv x in if t < 0 then raise Bad else nat_of_int t in
    let st x = let s = iv x in if s < -1 then raise Bad else stop_of (string_of_int s) in
    let inner (s : string) : e -> string =
      if String.length s < 2 then raise Bad;
      match s.[0], String.split_on_char '/' (String.sub s 1 (String.length s - 1)) with
      | 'A', [t; dk; sp] -> let t = tree t and dk = iv dk and sp = st sp in
        (fun (k, _) -> show_es (list_of (M.OInorderAfter (t, (k + dk, 0), sp))))
      | 'I', [t; sp] -> let t = tree t and sp = st sp in (fun _ -> show_es (list_of (M.OInorder (t, sp))))
      | 'g', [t; dk] -> let t = tree t and dk = iv dk in
        (fun (k, _) -> match ask (M.OGet (t, (k + dk, 0))) with
           | M.ROpt w -> (match w with Some _ -> "1:" | None -> "0:") ^ show_opt_e w
           | _ -> raise Bad)
      | 'm', [t] -> let t = tree t in
        (fun _ -> match ask (M.OMin t), ask (M.OMax t), ask (M.OLen t) with
           | M.ROpt a, M.ROpt b, M.RInt n -> show_opt_e a ^ "~" ^ show_opt_e b ^ "~" ^ string_of_int (int_of_z n)
           | _ -> raise Bad)
      | 'c', [t; dk] -> let t = tree t and dk = iv dk in
        (* Tree.Cursor(key): valid at the stored key equivalent to it; Next / Prev = its neighbours *)
        (fun (k, _) ->
           let l = Array.of_list (list_of (M.OInorder (t, None))) in
           let j = ref (-1) in
           Array.iteri (fun i x -> if sign x (k + dk, 0) = 0 then j := i) l;
           if !j < 0 then "0~0_0~0_0~0_0"
           else "1~" ^ show_e l.(!j) ^ "~" ^ (if !j + 1 < Array.length l then show_e l.(!j + 1) else "0_0")
                ^ "~" ^ (if !j > 0 then show_e l.(!j - 1) else "0_0"))
      | _ -> raise Bad in
    let inners = List.map inner (String.split_on_char '+' inners) in
    let l = list_of (trav_op outer (stop_of (string_of_int stop))) in
    let b = Buffer.create 256 in
    Buffer.add_string b (show_es l);
    List.iteri (fun i x ->
      if i mod every = 0 then begin
        Buffer.add_char b '#';
        Buffer.add_string b (String.concat "+" (List.map (fun f -> f x) inners))
      end) l;
    Buffer.contents b
  | _ -> raise Bad

(* ---- model side *)
let model_summary cmp (st : e M.state) (i : int) (t : e M.tree0) =
  let ask o = snd (M.step cmp limit_z st o) in
  let ix = nat_of_int i in
  let len = match ask (M.OLen ix) with M.RInt z -> string_of_int (int_of_z z) | _ -> "?" in
  let emp = match ask (M.OIsEmpty ix) with M.RBool b -> b01 b | _ -> "?" in
  let mn = match ask (M.OMin ix) with M.ROpt o -> show_opt_e o | _ -> "?" in
  let mx = match ask (M.OMax ix) with M.ROpt o -> show_opt_e o | _ -> "?" in
  let ih = match ask (M.OInorder (ix, None)) with M.RList l -> show_hash (hash_list l) | _ -> "?" in
  String.concat "," [len; emp; mn; mx; string_of_int (int_of_z t.M.maxsize); string_of_int (int_of_z (M.size t.M.root)); ih;
                     show_hash (hash_shape (0, 0) t.M.root)]

let model_summaries cmp (st : e M.state) =
  String.concat "+" (List.mapi (fun i t -> model_summary cmp st i t) st)

let eval_history cmpname opss =
  let cmp = cmp_for cmpname in
  let outs = ref [] in
  let push s = outs := s :: !outs in
  let st = ref ([] : e M.state) in
  (try
    List.iter (fun o ->
      if is_ext_op o then push (ext_output cmp (fun op -> snd (M.step cmp limit_z !st op)) o) else
      let (op, kind) = parse_op o in
      if kind = 'S' then begin
        match op with
        | M.OLen ix -> (match M.nth_error !st ix with Some t -> push (shape_string t.M.root) | None -> raise Bad)
        | _ -> raise Bad
      end else begin
        let (st', r) = M.step cmp limit_z !st op in
        st := st';
        match r with
        | M.RNoTree -> raise Bad
        | M.RPanic ->
          (* New: the documented panic where the generated range test says so, otherwise an index
             out of range in extract; everywhere else a nil dereference *)
          push (match op with
                | M.ONew (b, _, _) -> if M.new_beta_bad b then "panic:beta" else "panic:index"
                | _ -> "panic:nil");
          raise Exit
        | M.RFuel -> push "OUT-OF-FUEL"; raise Exit
        | M.RBadOracle -> push "BAD-ORACLE"; raise Exit
        | M.RUnit ->
          if kind = 'N' then begin
            let i = List.length st' - 1 in
            let l = match snd (M.step cmp limit_z st' (M.OInorder (nat_of_int i, None))) with M.RList l -> l | _ -> [] in
            push ("u:" ^ show_es l ^ "@" ^ model_summaries cmp st')
          end else push ("u@" ^ model_summaries cmp st')
        | M.RBool b ->
          if kind = 'm' then push (b01 b ^ "@" ^ model_summaries cmp st') else push (b01 b)
        | M.RInt z -> push (string_of_int (int_of_z z))
        | M.ROpt o -> push ((match o with Some _ -> "1:" | None -> "0:") ^ show_opt_e o)
        | M.RList l -> push (show_es l)
      end) (split_ops opss)
  with Exit -> ());
  String.concat ";" (List.rev !outs)

(* ================================================================== big trees (B lines, harness scale.go) *)

(* ---- key sequences, exactly as in the harness *)
let perm_of n seed =
  let p = Array.init n (fun i -> i) in
  let x = ref (((seed mod 2147483648) + 2147483648) mod 2147483648) in
  for i = n - 1 downto 1 do
    x := (!x * 1103515245 + 12345) mod 2147483648;
    let j = (!x lsr 8) mod (i + 1) in
    let t = p.(i) in p.(i) <- p.(j); p.(j) <- t
  done;
  p

let order_idx pat n seed : int array =
  match pat with
  | 'a' -> Array.init n (fun i -> i)
  | 'd' -> Array.init n (fun i -> n - 1 - i)
  | 'z' | 'i' ->
    let out = Array.make n 0 in
    let lo = ref 0 and hi = ref (n - 1) and w = ref 0 in
    while !lo <= !hi do
      out.(!w) <- !lo; incr w;
      if !lo <> !hi then begin out.(!w) <- !hi; incr w end;
      incr lo; decr hi
    done;
    if pat = 'i' then Array.init n (fun i -> out.(n - 1 - i)) else out
  | 'r' -> perm_of n seed
  | _ -> raise Bad

let max_seq = 1 lsl 16
let keys_of_ks (s : string) : int list =
  match String.split_on_char ',' s with
  | "e" :: rest ->
    if List.length rest > max_seq then raise Bad;
    List.map (fun x -> match int_of_string_opt x with Some v -> v | None -> raise Bad) rest
  | [pat; lo; step; n; rep; take; seed] when String.length pat = 1 ->
    let iv x = match int_of_string_opt x with Some v -> v | None -> raise Bad in
    let lo = iv lo and step = iv step and n = iv n and rep = iv rep and take = iv take and seed = iv seed in
    if n < 0 || n > max_seq || rep < 1 || take < 0 || take > n || abs lo > 1 lsl 40 || abs step > 1 lsl 20 then raise Bad;
    let idx = order_idx pat.[0] n seed in
    List.init take (fun j -> lo + step * (idx.(j) / rep))
  | _ -> raise Bad

(* ---- sequences of small integers: v | vxc | +c | -c, '.'-separated, ~ for a negative value *)
let enc_seq (xs : int list) : string =
  let a = Array.of_list xs in
  let n = Array.length a in
  if n = 0 then "." else begin
    let num v = if v < 0 then "~" ^ string_of_int (- v) else string_of_int v in
    let toks = ref [] in
    let i = ref 0 in
    while !i < n do
      if !i > 0 && (a.(!i) = a.(!i - 1) + 1 || a.(!i) = a.(!i - 1) - 1) then begin
        let d = a.(!i) - a.(!i - 1) in
        let j = ref !i in
        while !j < n && a.(!j) = a.(!j - 1) + d do incr j done;
        toks := ((if d < 0 then "-" else "+") ^ string_of_int (!j - !i)) :: !toks;
        i := !j
      end else begin
        let j = ref !i in
        while !j < n && a.(!j) = a.(!i) do incr j done;
        toks := (if !j - !i = 1 then num a.(!i) else num a.(!i) ^ "x" ^ string_of_int (!j - !i)) :: !toks;
        i := !j
      end
    done;
    String.concat "." (List.rev !toks)
  end

let dec_seq (s : string) : int list =
  if s = "." || s = "" then [] else begin
    let out = ref [] and prev = ref 0 and total = ref 0 in
    let put v = incr total; if !total > 4 * max_seq then raise Bad; out := v :: !out; prev := v in
    let nat x = match int_of_string_opt x with Some v when v >= 0 -> v | _ -> raise Bad in
    List.iter (fun tok ->
      let l = String.length tok in
      if l = 0 then raise Bad;
      match tok.[0] with
      | '+' -> if !out = [] then raise Bad; for _ = 1 to nat (String.sub tok 1 (l - 1)) do put (!prev + 1) done
      | '-' -> if !out = [] then raise Bad; for _ = 1 to nat (String.sub tok 1 (l - 1)) do put (!prev - 1) done
      | _ ->
        let (vs, c) = match String.index_opt tok 'x' with
          | Some i -> (String.sub tok 0 i, nat (String.sub tok (i + 1) (l - i - 1)))
          | None -> (tok, 1) in
        let v = if String.length vs > 0 && vs.[0] = '~' then - (nat (String.sub vs 1 (String.length vs - 1))) else nat vs in
        for _ = 1 to c do put v done) (String.split_on_char '.' s);
    List.rev !out
  end

(* ---- macros *)
type macro =
  | MNew of int
  | MBulk of int * int list * int list      (* beta, keys, oracle (ordinal of the kept member per class) *)
  | MClone of int
  | MClear of int
  | MMut of char * int * int list           (* 'A' | 'P' | 'D', tree, keys *)
  | MGet of int * int list
  | MAfter of int * int list * int
  | MInorder of int * int
  | MZip of int * int * int list * int      (* round 5: InorderAfter(k) on two trees pulled in turns, m times each *)

let parse_macro (m : string) : macro =
  if m = "" then raise Bad;
  let f = String.split_on_char ':' (String.sub m 1 (String.length m - 1)) in
  let iv x = match int_of_string_opt x with Some v -> v | None -> raise Bad in
  let beta x = let b = iv x in if b < 0 || b > 1000 then raise Bad else b in
  let tree x = let t = iv x in if t < 0 then raise Bad else t in
  let stop x = let s = iv x in if s < -1 then raise Bad else s in
  match m.[0], f with
  | 'N', [b] -> MNew (beta b)
  | 'K', [b; ks; o] -> MBulk (beta b, keys_of_ks ks, dec_seq o)
  | 'C', [t] -> MClone (tree t)
  | 'X', [t] -> MClear (tree t)
  | ('A' | 'P' | 'D'), [t; ks] -> MMut (m.[0], tree t, keys_of_ks ks)
  | 'Q', [t; ks] -> MGet (tree t, keys_of_ks ks)
  | 'I', [t; ks; s] -> MAfter (tree t, keys_of_ks ks, stop s)
  | 'F', [t; s] -> MInorder (tree t, stop s)
  | 'Z', [t1; t2; ks; m] -> let m = iv m in if m < 0 || m > max_seq then raise Bad else MZip (tree t1, tree t2, keys_of_ks ks, m)
  | _ -> raise Bad

let checkpoint_every m = max 4 ((m + 7) / 8)

let feed_e_ h ((k, p) : e) = feed (feed h k) p
(* the digest of a Z macro: per key the two sequences (each evaluated alone) in the order of delivery *)
let zip_feed (h, total) (l1 : e list) (l2 : e list) =
  let h = ref h and total = ref total in
  let rec go a b = match a, b with
    | [], [] -> ()
    | x :: a', [] -> h := feed_e_ !h x; incr total; go a' []
    | [], y :: b' -> h := feed_e_ !h y; incr total; go [] b'
    | x :: a', y :: b' -> h := feed_e_ (feed_e_ !h x) y; total := !total + 2; go a' b' in
  go l1 l2;
  (feed !h (-1), !total)

(* the oracle of a bulk New as indices into the keys: for every class in ascending order the member
   with the given ordinal (argument order); anything malformed becomes an index out of range, which
   both the model and the reference reject *)
let bulk_picks (pos : e -> int) (keys : e list) (oracle : int list) : int list =
  let n = List.length keys in
  let seen : (int, int) Hashtbl.t = Hashtbl.create 64 in
  let where : (int * int, int) Hashtbl.t = Hashtbl.create 64 in
  List.iteri (fun i k ->
    let c = pos k in
    let o = try Hashtbl.find seen c with Not_found -> 0 in
    Hashtbl.replace seen c (o + 1);
    Hashtbl.replace where (c, o) i) keys;
  let classes = List.sort compare (Hashtbl.fold (fun c _ acc -> c :: acc) seen []) in
  if List.length classes <> List.length oracle then List.map (fun _ -> n) oracle
  else List.map2 (fun c o -> try Hashtbl.find where (c, o) with Not_found -> n) classes oracle

let feed_e h ((k, p) : e) = feed (feed h k) p
let feed_opt h = function Some e -> feed_e (feed h 1) e | None -> feed (feed (feed h 0) 0) 0

(* the summary of a tree as in the H lines, but the Inorder digest is fed by the model's own traversal
   (node.inorder = inorder_until) with a consumer that hashes instead of collecting: the history step
   OInorder reverses its log with Coq's quadratic rev *)
let model_summary_big cmp limit (st : e M.state) (i : int) (t : e M.tree0) =
  let ask o = snd (M.step cmp limit st o) in
  let ix = nat_of_int i in
  let len = match ask (M.OLen ix) with M.RInt z -> string_of_int (int_of_z z) | _ -> "?" in
  let emp = match ask (M.OIsEmpty ix) with M.RBool b -> b01 b | _ -> "?" in
  let mn = match ask (M.OMin ix) with M.ROpt o -> show_opt_e o | _ -> "?" in
  let mx = match ask (M.OMax ix) with M.ROpt o -> show_opt_e o | _ -> "?" in
  let ih = show_hash (fst (M.inorder_until (fun h x -> (feed_e h x, true)) t.M.root (0, 0))) in
  String.concat "," [len; emp; mn; mx; string_of_int (int_of_z t.M.maxsize); string_of_int (int_of_z (M.size t.M.root)); ih;
                     show_hash (hash_shape (0, 0) t.M.root)]

(* min(limit_exact b n, n): StreeModel under it goes through the same states as under limit_exact
   (C02_capped_same), and the search for a vine-friendly balance factor stops at n instead of 2000 ln n *)
let ctabs : (int, ltab) Hashtbl.t = Hashtbl.create 16
let limit_capped (b : int) (n : int) : int =
  if b >= 1000 then n + 1
  else if n < 1 then 0
  else begin
    let t = match Hashtbl.find_opt ctabs b with
      | Some t -> t
      | None -> let t = { k = 0; pa = [|1|]; pb = [|1|]; vals = Array.make 64 0; upto = 0 } in Hashtbl.add ctabs b t; t in
    while t.upto < n do
      let m = t.upto + 1 in
      let continue = ref true in
      while !continue && t.k < m do
        let a2 = big_mul_small t.pa 2000 and b2 = big_mul_small t.pb (1000 + b) in
        if big_cmp a2 (big_mul_small b2 m) <= 0 then begin t.pa <- a2; t.pb <- b2; t.k <- t.k + 1 end
        else continue := false
      done;
      if m >= Array.length t.vals then begin
        let v = Array.make (2 * m) 0 in Array.blit t.vals 0 v 0 (Array.length t.vals); t.vals <- v end;
      t.vals.(m) <- t.k; t.upto <- m;
      if m <= 40 && t.k <> min m (limit_exact b m) then failwith "capped limit differs from the exact one"
    done;
    t.vals.(n)
  end
let limit_zc (b : M.z) (n : M.z) : M.z = z_of_int (limit_capped (int_of_z b) (int_of_z n))

let eval_big cmpname prog =
  let limit_z = limit_zc in
  let model_summaries cmp st = String.concat "+" (List.mapi (fun i t -> model_summary_big cmp limit_z st i t) st) in
  let cmp = cmp_for cmpname and pos = pos_for cmpname in
  let outs = ref [] in
  let push s = outs := s :: !outs in
  let st = ref ([] : e M.state) in
  let p = ref 0 in
  let el k = incr p; (k, !p) in
  let step o = let (st', r) = M.step cmp limit_z !st o in st := st'; r in
  let fail_of = function
    | M.RPanic -> push "panic:nil"; raise Exit
    | M.RFuel -> push "OUT-OF-FUEL"; raise Exit
    | M.RBadOracle -> push "BAD-ORACLE"; raise Exit
    | _ -> raise Bad in
  let ix t = if t >= List.length !st then raise Bad else nat_of_int t in
  let sums () = model_summaries cmp !st in
  (try
    List.iter (fun m ->
      match parse_macro m with
      | MNew b ->
        (match step (M.ONew (z_of_int b, [], [])) with M.RUnit -> push ("u/" ^ sums ()) | r -> fail_of r)
      | MBulk (b, ks, oracle) ->
        let keys = List.map el ks in
        let picks = List.map nat_of_int (bulk_picks pos keys oracle) in
        (match step (M.ONew (z_of_int b, keys, picks)) with
         | M.RUnit -> push ("u/" ^ sums ())
         | M.RPanic -> push "panic:index"; raise Exit
         | r -> fail_of r)
      | MClone t -> (match step (M.OClone (ix t)) with M.RUnit -> push ("u/" ^ sums ()) | r -> fail_of r)
      | MClear t -> (match step (M.OClear (ix t)) with M.RUnit -> push ("u/" ^ sums ()) | r -> fail_of r)
      | MMut (c, t, ks) ->
        let i = ix t in
        let m = List.length ks in
        let every = checkpoint_every m in
        let obs = ref (0, 0) and inn = ref (0, 0) and trues = ref 0 and cps = ref [] in
        List.iteri (fun j k ->
          let e = el k in
          let r = step (match c with 'A' -> M.OAdd (i, e) | 'P' -> M.OReplace (i, e) | _ -> M.ORemove (i, e)) in
          (match r with
           | M.RBool b -> if b then incr trues; obs := feed !obs (if b then 1 else 0)
           | r -> fail_of r);
          (match step (M.OLen i) with M.RInt z -> obs := feed !obs (int_of_z z) | _ -> raise Bad);
          (match step (M.OIsEmpty i) with M.RBool b -> obs := feed !obs (if b then 1 else 0) | _ -> raise Bad);
          (match step (M.OMin i) with M.ROpt (Some e) -> obs := feed_e !obs e | M.ROpt None -> obs := feed (feed !obs 0) 0 | _ -> raise Bad);
          (match step (M.OMax i) with M.ROpt (Some e) -> obs := feed_e !obs e | M.ROpt None -> obs := feed (feed !obs 0) 0 | _ -> raise Bad);
          (match step (M.OGet (i, e)) with M.ROpt o -> obs := feed_opt !obs o | _ -> raise Bad);
          (match M.nth_error !st i with Some tr -> inn := feed !inn (int_of_z tr.M.maxsize) | None -> raise Bad);
          if (j + 1) mod every = 0 || j = m - 1 then cps := sums () :: !cps) ks;
        push (String.concat "/" (Printf.sprintf "%d,%s,%s" !trues (show_hash !obs) (show_hash !inn) :: List.rev !cps))
      | MGet (t, ks) ->
        let i = ix t in
        let h = ref (0, 0) and found = ref 0 in
        List.iter (fun k ->
          match step (M.OGet (i, el k)) with
          | M.ROpt o -> (if o <> None then incr found); h := feed_opt !h o
          | _ -> raise Bad) ks;
        push (Printf.sprintf "%d,%s" !found (show_hash !h))
      | MAfter (t, ks, s) ->
        let i = ix t in
        let h = ref (0, 0) and total = ref 0 in
        List.iter (fun k ->
          match step (M.OInorderAfter (i, el k, stop_of (string_of_int s))) with
          | M.RList l -> total := !total + List.length l; h := feed (List.fold_left feed_e !h l) (-1)
          | r -> fail_of r) ks;
        push (Printf.sprintf "%d,%s" !total (show_hash !h))
      | MInorder (t, s) ->
        (match step (M.OInorder (ix t, stop_of (string_of_int s))) with
         | M.RList l -> push (Printf.sprintf "%d,%s" (List.length l) (show_hash (feed (List.fold_left feed_e (0, 0) l) (-1))))
         | r -> fail_of r)
      | MZip (t1, t2, ks, m) ->
        let i1 = ix t1 and i2 = ix t2 in
        let acc = ref ((0, 0), 0) in
        List.iter2 (fun k k' ->
          let e1 = el k in
          let e2 = el k' in
          let run i e = if m = 0 then [] else
            (match step (M.OInorderAfter (i, e, Some (nat_of_int (m - 1)))) with M.RList l -> l | r -> fail_of r) in
          let l1 = run i1 e1 in
          let l2 = run i2 e2 in
          acc := zip_feed !acc l1 l2) ks (List.rev ks);
        push (Printf.sprintf "%d,%s" (snd !acc) (show_hash (fst !acc)))) (String.split_on_char ';' prog)
  with Exit -> ());
  String.concat ";" (List.rev !outs)

let eval inp =
  try
    match words inp with
    | ["H"; c; ops] -> eval_history c ops
    | ["B"; c; prog] -> eval_big c prog
    | ["L"; b; lo; hi] ->
      let b = int_of_string b and lo = int_of_string lo and hi = int_of_string hi in
      if b < 0 || b > 1000 || lo < 1 || hi < lo || hi - lo > 100000 then "BAD"
      else str_ints (List.init (hi - lo + 1) (fun i -> limit_exact b (lo + i)))
    | _ -> "BAD"
  with Bad | Failure _ | Not_found | Invalid_argument _ -> "BAD"

(* ---- the property on the implementation's output: the reference sets of StreeSpec *)
let rec shape_inorder (s : string) : e list =
  (* "(" left e right ")" | "." *)
  let pos = ref 0 in
  let acc = ref [] in
  let rec go () =
    if !pos >= String.length s then failwith "shape" else
    if s.[!pos] = '.' then incr pos
    else if s.[!pos] = '(' then begin
      incr pos; go ();
      let st = !pos in
      while !pos < String.length s && s.[!pos] <> '.' && s.[!pos] <> '(' && s.[!pos] <> ')' do incr pos done;
      acc := parse_e (String.sub s st (!pos - st)) :: !acc;
      go ();
      if !pos < String.length s && s.[!pos] = ')' then incr pos else failwith "shape"
    end else failwith "shape" in
  go ();
  if !pos <> String.length s then failwith "shape";
  List.rev !acc

let index_of (x : e) (l : e list) =
  let rec go i = function [] -> None | y :: r -> if y = x then Some i else go (i + 1) r in go 0 l

let spec_history cmpname opss out : string option =
  let cmp = cmp_for cmpname in
  let ops = split_ops opss in
  let outs = if out = "" then [] else String.split_on_char ';' out in
  let st = ref ([] : e list list) in
  let fail i o msg = Some (Printf.sprintf "op#%d %s: %s" i o msg) in
  let check_summaries i o sums =
    let parts = String.split_on_char '+' sums in
    if List.length parts <> List.length !st then fail i o "number of live trees" else begin
      let bad = ref None in
      List.iteri (fun j (s, l) ->
        if !bad = None then
          match String.split_on_char ',' s with
          | [len; emp; mn; mx; _tmax; nodes; ih; _sh] ->
            let n = List.length l in
            let say m = bad := fail i o (Printf.sprintf "tree %d: %s (reference set %s)" j m (show_es l)) in
            if len <> string_of_int n then say ("Len = " ^ len)
            else if emp <> b01 (n = 0) then say ("IsEmpty = " ^ emp)
            else if mn <> show_opt_e (M.s_min l) then say ("Min = " ^ mn)
            else if mx <> show_opt_e (M.s_max l) then say ("Max = " ^ mx)
            else if nodes <> len then say ("cached size " ^ len ^ " but " ^ nodes ^ " nodes")
            else if ih <> show_hash (hash_list l) then say "Inorder differs from the reference set"
          | _ -> bad := fail i o "bad summary") (List.combine parts !st);
      !bad
    end in
  let rec go i ops outs =
    match ops, outs with
    | [], [] -> None
    | [], _ -> Some "more outputs than ops"
    | o :: _, [] -> fail i o "no output (the history stopped early)"
    | o :: ops', x :: outs' when is_ext_op o ->
      if x = "hang" || (String.length x >= 6 && String.sub x 0 6 = "panic:") then fail i o x else
      let want = ext_output cmp (fun op -> snd (M.spec_step cmp !st op)) o in
      if x = want then go (i + 1) ops' outs'
      else fail i o ("traversals alive together deliver " ^ x ^ ", each one alone on the reference set delivers " ^ want)
    | o :: ops', x :: outs' ->
      let (op, kind) = parse_op o in
      let is_fail = x = "hang" || (String.length x >= 6 && String.sub x 0 6 = "panic:") in
      (* derive New's oracle from what the implementation itself stored *)
      let op = match op with
        | M.ONew (b, keys, _) when not is_fail ->
          let listed = (match String.index_opt x '@' with
            | Some a when String.length x >= 2 && String.sub x 0 2 = "u:" -> parse_es (String.sub x 2 (a - 2))
            | _ -> []) in
          let picks = List.map (fun e -> match index_of e keys with Some j -> nat_of_int j | None -> nat_of_int (List.length keys)) listed in
          M.ONew (b, keys, picks)
        | _ -> op in
      if kind = 'S' then begin
        if is_fail then fail i o x else
        match op with
        | M.OLen ix ->
          (match M.nth_error !st ix with
           | None -> Some "BAD"
           | Some l -> if (try shape_inorder x = l with Failure _ -> false) then go (i + 1) ops' outs'
                       else fail i o ("the shape read through the cursor API is not a search tree over the reference set " ^ show_es l))
        | _ -> Some "BAD"
      end else begin
        let (st', r) = M.spec_step cmp !st op in
        st := st';
        match r with
        | M.RPanic -> if x = "panic:beta" then None else fail i o ("New with beta outside 0..1000 must panic with the documented value, got " ^ x)
        | _ when is_fail -> fail i o x
        | M.RBadOracle -> fail i o "the contents after New are not a strictly ascending choice of one given key per class"
        | M.RNoTree | M.RFuel -> Some "BAD"
        | M.RUnit | M.RBool _ when kind = 'N' || kind = 'm' ->
          (match String.index_opt x '@' with
           | None -> fail i o "bad output"
           | Some a ->
             let res = String.sub x 0 a and sums = String.sub x (a + 1) (String.length x - a - 1) in
             let want = (match r with M.RBool b -> b01 b | _ -> "u") in
             let got = if kind = 'N' then "u" else res in
             if got <> want then fail i o ("result " ^ got ^ ", reference " ^ want)
             else (match check_summaries i o sums with Some m -> Some m | None -> go (i + 1) ops' outs'))
        | M.ROpt w ->
          let want = (match w with Some _ -> "1:" | None -> "0:") ^ show_opt_e w in
          if x = want then go (i + 1) ops' outs' else fail i o ("Get gives " ^ x ^ ", reference " ^ want)
        | M.RList l ->
          if x = show_es l then go (i + 1) ops' outs'
          else if x = show_es l ^ "!" then fail i o "yield called again after it returned false"
          else fail i o ("iteration gives " ^ x ^ ", reference " ^ show_es l)
        | _ -> fail i o "bad output"
      end in
  go 0 ops outs

(* ---- the property on the implementation's output of a B line.  The reference is a sorted set written
   directly: a map from the position of a class in the order to the stored representative (the sorted
   lists of StreeSpec cost a whole pass per operation).  On lines that create at most xcheck_max
   elements the extracted reference StreeSpec.spec_step runs alongside and must agree with it after
   every operation. *)
module IM = Map.Make (Int)
let xcheck_max = 600
exception Disagree of string
let rec seq_take n (s : 'a Seq.t) : 'a Seq.t = fun () ->
  if n <= 0 then Seq.Nil else match s () with Seq.Nil -> Seq.Nil | Seq.Cons (x, r) -> Seq.Cons (x, seq_take (n - 1) r)

let macro_keys = function
  | MBulk (_, ks, _) | MMut (_, _, ks) | MGet (_, ks) | MAfter (_, ks, _) -> List.length ks
  | MZip (_, _, ks, _) -> 2 * List.length ks
  | _ -> 0

let spec_big cmpname prog out : string option =
  let cmp = cmp_for cmpname and pos = pos_for cmpname in
  let macros = List.map (fun m -> (m, parse_macro m)) (String.split_on_char ';' prog) in
  let items = if out = "" then [] else String.split_on_char ';' out in
  let xcheck = List.fold_left (fun a (_, m) -> a + macro_keys m) 0 macros <= xcheck_max in
  let st : e IM.t array ref = ref [||] in
  let card : int array ref = ref [||] in                   (* IM.cardinal takes a whole pass *)
  let xs = ref ([] : e list list) in                       (* the extracted reference, when xcheck *)
  let p = ref 0 in
  let el k = incr p; (k, !p) in
  let lists () = Array.to_list (Array.map (fun m -> List.map snd (IM.bindings m)) !st) in
  let tree t = if t >= Array.length !st then raise Bad else t in
  let set t m n = !st.(t) <- m; !card.(t) <- n in
  let push_tree m n = st := Array.append !st [| m |]; card := Array.append !card [| n |] in
  let disagree what = raise (Disagree ("the direct reference and StreeSpec disagree: " ^ what)) in
  let xstep o =
    if xcheck then begin
      let (xs', r) = M.spec_step cmp !xs o in xs := xs'; Some r
    end else None in
  let xsame () = if xcheck && !xs <> lists () then disagree "contents" in
  let check_sums i mname sums : string option =
    let parts = String.split_on_char '+' sums in
    let ls = lists () in
    if List.length parts <> List.length ls then Some (Printf.sprintf "macro#%d %s: number of live trees" i mname) else begin
      let bad = ref None in
      List.iteri (fun j (s, l) ->
        if !bad = None then
          let say m = bad := Some (Printf.sprintf "macro#%d %s: tree %d: %s" i mname j m) in
          match String.split_on_char ',' s with
          | [len; emp; mn; mx; _tmax; nodes; ih; _sh] ->
            let n = List.length l in
            let last = (match List.rev l with x :: _ -> Some x | [] -> None) in
            if len <> string_of_int n then say (Printf.sprintf "Len = %s, the reference set has %d" len n)
            else if emp <> b01 (n = 0) then say ("IsEmpty = " ^ emp)
            else if mn <> show_opt_e (match l with x :: _ -> Some x | [] -> None) then say ("Min = " ^ mn)
            else if mx <> show_opt_e last then say ("Max = " ^ mx)
            else if nodes <> len then say ("cached size " ^ len ^ " but " ^ nodes ^ " nodes")
            else if ih <> show_hash (hash_list l) then say "Inorder differs from the reference set"
          | _ -> say "bad summary") (List.combine parts ls);
      !bad
    end in
  let is_fail x = x = "hang" || (String.length x >= 6 && String.sub x 0 6 = "panic:") in
  let short m = if String.length m > 60 then String.sub m 0 60 ^ "..." else m in
  let rec go i macros items =
    match macros, items with
    | [], [] -> None
    | [], _ -> Some "more items than macros"
    | (mname, _) :: _, [] -> Some (Printf.sprintf "macro#%d %s: no output (the history stopped early)" i (short mname))
    | (mname, _) :: _, x :: _ when is_fail x -> Some (Printf.sprintf "macro#%d %s: %s" i (short mname) x)
    | (mname, m) :: macros', x :: items' ->
      let mname = short mname in
      let fail msg = Some (Printf.sprintf "macro#%d %s: %s" i mname msg) in
      let next () = go (i + 1) macros' items' in
      let unit_item () =
        match String.index_opt x '/' with
        | Some 1 when x.[0] = 'u' ->
          xsame ();
          (match check_sums i mname (String.sub x 2 (String.length x - 2)) with Some r -> Some r | None -> next ())
        | _ -> fail "bad output" in
      (match m with
       | MNew _ ->
         push_tree IM.empty 0;
         ignore (xstep (M.ONew (z_of_int 0, [], [])));
         unit_item ()
       | MBulk (b, ks, oracle) ->
         let keys = List.map el ks in
         (* one given key per class, the member the oracle names *)
         let picks = bulk_picks pos keys oracle in
         let arr = Array.of_list keys in
         let n = Array.length arr in
         if List.exists (fun j -> j >= n) picks then
           fail "the contents after New are not one given key per class (one of the equivalent keys given)"
         else begin
           let m = List.fold_left (fun m j -> IM.add (pos arr.(j)) arr.(j) m) IM.empty picks in
           push_tree m (IM.cardinal m);
           (match xstep (M.ONew (z_of_int b, keys, List.map nat_of_int picks)) with
            | Some M.RUnit | None -> ()
            | Some _ -> disagree "New");
           unit_item ()
         end
       | MClone t ->
         let t = tree t in
         push_tree !st.(t) !card.(t);
         ignore (xstep (M.OClone (nat_of_int t)));
         unit_item ()
       | MClear t ->
         let t = tree t in
         set t IM.empty 0;
         ignore (xstep (M.OClear (nat_of_int t)));
         unit_item ()
       | MMut (c, t, ks) ->
         let t = tree t in
         (match String.split_on_char '/' x with
          | [] -> fail "bad output"
          | head :: cps ->
            let cps = ref cps in
            let n = List.length ks in
            let every = checkpoint_every n in
            let obs = ref (0, 0) and trues = ref 0 and res = ref None in
            List.iteri (fun j k ->
              if !res = None then begin
                let e = el k in
                let m = !st.(t) in
                let c0 = pos e in
                let present = IM.mem c0 m in
                let (m', r) = match c with
                  | 'A' -> ((if present then m else IM.add c0 e m), not present)
                  | 'P' -> (IM.add c0 e m, not present)
                  | _ -> (IM.remove c0 m, present) in
                let n' = !card.(t) + (if not r then 0 else if c = 'D' then -1 else 1) in
                set t m' n';
                (match xstep (match c with 'A' -> M.OAdd (nat_of_int t, e) | 'P' -> M.OReplace (nat_of_int t, e) | _ -> M.ORemove (nat_of_int t, e)) with
                 | Some (M.RBool b) -> if b <> r then disagree "result"
                 | None -> ()
                 | Some _ -> disagree "result");
                if r then incr trues;
                obs := feed !obs (if r then 1 else 0);
                obs := feed !obs n';
                obs := feed !obs (if IM.is_empty m' then 1 else 0);
                (match IM.min_binding_opt m' with Some (_, e) -> obs := feed_e !obs e | None -> obs := feed (feed !obs 0) 0);
                (match IM.max_binding_opt m' with Some (_, e) -> obs := feed_e !obs e | None -> obs := feed (feed !obs 0) 0);
                obs := feed_opt !obs (IM.find_opt c0 m');
                if (j + 1) mod every = 0 || j = n - 1 then begin
                  xsame ();
                  match !cps with
                  | [] -> res := fail (Printf.sprintf "no checkpoint after call %d" (j + 1))
                  | s :: rest ->
                    cps := rest;
                    (match check_sums i (Printf.sprintf "%s after call %d of %d" mname (j + 1) n) s with
                     | Some r -> res := Some r
                     | None -> ())
                end
              end) ks;
            if !res <> None then !res
            else if !cps <> [] then fail "more checkpoints than expected"
            else (match String.split_on_char ',' head with
              | [tr; ob; _int] ->
                if tr <> string_of_int !trues then fail (Printf.sprintf "%s calls returned true, reference %d" tr !trues)
                else if ob <> show_hash !obs then fail "results, Len, IsEmpty, Min, Max or Get after some call differ from the reference"
                else next ()
              | _ -> fail "bad output"))
       | MGet (t, ks) ->
         let t = tree t in
         let h = ref (0, 0) and found = ref 0 in
         List.iter (fun k ->
           let e = el k in
           let o = IM.find_opt (pos e) !st.(t) in
           (match xstep (M.OGet (nat_of_int t, e)) with
            | Some (M.ROpt o') -> if o <> o' then disagree "Get"
            | None -> ()
            | Some _ -> disagree "Get");
           if o <> None then incr found;
           h := feed_opt !h o) ks;
         let want = Printf.sprintf "%d,%s" !found (show_hash !h) in
         if x = want then next () else fail (Printf.sprintf "Get results %s, reference %s" x want)
       | MAfter (t, ks, s) ->
         let t = tree t in
         let h = ref (0, 0) and total = ref 0 in
         List.iter (fun k ->
           let e = el k in
           (* the elements not less than k, the first s+1 of them *)
           let (_, eq, above) = IM.split (pos e) !st.(t) in
           let seq = Seq.append (match eq with Some v -> Seq.return v | None -> Seq.empty) (Seq.map snd (IM.to_seq above)) in
           let l = List.of_seq (if s < 0 then seq else seq_take (s + 1) seq) in
           (match xstep (M.OInorderAfter (nat_of_int t, e, stop_of (string_of_int s))) with
            | Some (M.RList l') -> if l <> l' then disagree "InorderAfter"
            | None -> ()
            | Some _ -> disagree "InorderAfter");
           total := !total + List.length l;
           h := feed (List.fold_left feed_e !h l) (-1)) ks;
         let want = Printf.sprintf "%d,%s" !total (show_hash !h) in
         if x = want then next ()
         else if x = want ^ "!" then fail "yield called again after it returned false"
         else fail (Printf.sprintf "InorderAfter delivers %s, reference %s" x want)
       | MZip (t1, t2, ks, m) ->
         let t1 = tree t1 and t2 = tree t2 in
         let acc = ref ((0, 0), 0) in
         List.iter2 (fun k k' ->
           let e1 = el k in
           let e2 = el k' in
           (* each of the two range queries alone: the first m elements not less than its key *)
           let run t e =
             let (_, eq, above) = IM.split (pos e) !st.(t) in
             let seq = Seq.append (match eq with Some v -> Seq.return v | None -> Seq.empty) (Seq.map snd (IM.to_seq above)) in
             let l = List.of_seq (seq_take m seq) in
             (if m > 0 then match xstep (M.OInorderAfter (nat_of_int t, e, Some (nat_of_int (m - 1)))) with
               | Some (M.RList l') -> if l <> l' then disagree "InorderAfter"
               | None -> ()
               | Some _ -> disagree "InorderAfter");
             l in
           let l1 = run t1 e1 in
           let l2 = run t2 e2 in
           acc := zip_feed !acc l1 l2) ks (List.rev ks);
         let want = Printf.sprintf "%d,%s" (snd !acc) (show_hash (fst !acc)) in
         if x = want then next ()
         else fail (Printf.sprintf "two range queries pulled in turns deliver %s, each one alone on the reference set gives %s" x want)
       | MInorder (t, s) ->
         let t = tree t in
         let seq = Seq.map snd (IM.to_seq !st.(t)) in
         let l = List.of_seq (if s < 0 then seq else seq_take (s + 1) seq) in
         (match xstep (M.OInorder (nat_of_int t, stop_of (string_of_int s))) with
          | Some (M.RList l') -> if l <> l' then disagree "Inorder"
          | None -> ()
          | Some _ -> disagree "Inorder");
         let want = Printf.sprintf "%d,%s" (List.length l) (show_hash (feed (List.fold_left feed_e (0, 0) l) (-1))) in
         if x = want then next ()
         else if x = want ^ "!" then fail "yield called again after it returned false"
         else fail (Printf.sprintf "Inorder delivers %s, reference %s" x want)) in
  go 0 macros items

let spec prop inp out =
  if out = "BAD" then None else
  match prop, words inp with
  | ("C01" | "C02"), ["H"; c; ops] when prop = "C01" ->
    (try spec_history c ops out with Bad | Failure _ | Not_found | Invalid_argument _ -> None)
  | "C01", ["B"; c; prog] ->
    (try spec_big c prog out with Bad -> None)
  | _ -> None

let () = run_main ~eval ~spec
