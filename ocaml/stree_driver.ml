(* Replays streetrace lines on the extracted model (StreeModel.step) and evaluates the extracted
   reference (StreeSpec.spec_step: sorted lists) on the implementation's own outputs.
   Elements are OCaml pairs (key, payload) compared by key. *)

(* ---- the depth limit: largest k with 2000^k <= n * (1000+b)^k, exactly; n+1 at b = 1000.
   Small naturals-only bignum (little endian, base 2^30); one incremental table per beta. *)
let bbits = 30
let bmask = (1 lsl bbits) - 1
let big_trim (a : int array) =
  let n = ref (Array.length a) in
  while !n > 0 && a.(!n - 1) = 0 do decr n done;
  if !n = Array.length a then a else Array.sub a 0 !n
let big_mul_small (a : int array) (m : int) =
  let n = Array.length a in
  let r = Array.make (n + 2) 0 in
  let carry = ref 0 in
  for i = 0 to n - 1 do
    let v = a.(i) * m + !carry in
    r.(i) <- v land bmask; carry := v lsr bbits
  done;
  r.(n) <- !carry land bmask; r.(n + 1) <- !carry lsr bbits;
  big_trim r
let big_cmp (a : int array) (b : int array) =
  let la = Array.length a and lb = Array.length b in
  if la <> lb then compare la lb else begin
    let i = ref (la - 1) in
    while !i >= 0 && a.(!i) = b.(!i) do decr i done;
    if !i < 0 then 0 else compare a.(!i) b.(!i)
  end

type ltab = { mutable k : int; mutable pa : int array; mutable pb : int array; mutable vals : int array; mutable upto : int }
let ltabs : (int, ltab) Hashtbl.t = Hashtbl.create 16
let limit_exact (b : int) (n : int) : int =
  if b >= 1000 then n + 1
  else if n < 1 then 0
  else begin
    let t = match Hashtbl.find_opt ltabs b with
      | Some t -> t
      | None -> let t = { k = 0; pa = [|1|]; pb = [|1|]; vals = Array.make 64 0; upto = 0 } in Hashtbl.add ltabs b t; t in
    while t.upto < n do
      let m = t.upto + 1 in
      let continue = ref true in
      while !continue do
        let a2 = big_mul_small t.pa 2000 and b2 = big_mul_small t.pb (1000 + b) in
        if big_cmp a2 (big_mul_small b2 m) <= 0 then begin t.pa <- a2; t.pb <- b2; t.k <- t.k + 1 end
        else continue := false
      done;
      if m >= Array.length t.vals then begin
        let v = Array.make (2 * m) 0 in Array.blit t.vals 0 v 0 (Array.length t.vals); t.vals <- v end;
      t.vals.(m) <- t.k; t.upto <- m
    done;
    t.vals.(n)
  end

let limit_z (b : M.z) (n : M.z) : M.z = z_of_int (limit_exact (int_of_z b) (int_of_z n))

(* ---- elements and comparators *)
type e = int * int
let show_e ((k, p) : e) = string_of_int k ^ "_" ^ string_of_int p
let parse_e s : e =
  match String.index_opt s '_' with
  | Some i -> (int_of_string (String.sub s 0 i), int_of_string (String.sub s (i + 1) (String.length s - i - 1)))
  | None -> failwith "bad element"
let parse_es s : e list = if s = "." || s = "" then [] else List.map parse_e (String.split_on_char ',' s)
let show_es (l : e list) = if l = [] then "." else String.concat "," (List.map show_e l)
let show_opt_e = function Some e -> show_e e | None -> "0_0"

(* <order><style>, as in the harness: the same numbers, not just the same signs *)
let cmp_for (s : string) : (e -> e -> M.z) =
  if s = "" then failwith "bad cmp";
  let n = String.length s in
  let style, body =
    match s.[n - 1] with
    | 'd' | 't' | 'v' | 'x' | 'k' as c when n > 1 -> (c, String.sub s 0 (n - 1))
    | _ -> (' ', s) in
  let pos : e -> int =
    if body = "n" then (fun (k, _) -> k)
    else if body = "r" then (fun (k, _) -> - k)
    else if String.length body > 1 && body.[0] = 'm' then begin
      let j = int_of_string (String.sub body 1 (String.length body - 1)) in
      if j <= 0 then failwith "bad cmp";
      (fun (k, _) -> ((k mod j) + j) mod j)
    end else failwith "bad cmp" in
  let sign d = compare d 0 in
  match style with
  | 'd' -> (fun a b -> z_of_int (pos a - pos b))
  | 't' -> (fun a b -> z_of_int (3 * (pos a - pos b)))
  | 'v' -> (fun ((_, pa) as a) ((_, pb) as b) -> z_of_int ((pos a - pos b) * (1 + (abs pa + abs pb) mod 5)))
  | 'x' -> (fun a b -> z_of_int (sign (pos a - pos b) * (1 lsl 40)))
  | _ -> (fun a b -> z_of_int (sign (pos a - pos b)))

(* ---- hashes, identical to the harness *)
let feed (a, b) v =
  let x = if v < 0 then (-v) + (1 lsl 20) else v in
  let x = x mod (1 lsl 30) in
  ((a * 31337 + x + 7) mod 2147483647, (b * 65599 + x + 13) mod 2147483629)
let show_hash (a, b) = Printf.sprintf "%x.%x" a b
let hash_list (l : e list) = List.fold_left (fun h (k, p) -> feed (feed h k) p) (0, 0) l
let rec hash_shape h (t : e M.tree) =
  match t with
  | M.Leaf -> feed h 0
  | M.Node (l, (k, p), r) -> hash_shape (hash_shape (feed (feed (feed h 1) k) p) l) r
let shape_string (t : e M.tree) =
  let b = Buffer.create 256 in
  let rec go = function
    | M.Leaf -> Buffer.add_char b '.'
    | M.Node (l, x, r) -> Buffer.add_char b '('; go l; Buffer.add_string b (show_e x); go r; Buffer.add_char b ')' in
  go t; Buffer.contents b

(* ---- ops *)
exception Bad
let stop_of s = let n = int_of_string s in if n < 0 then None else Some (nat_of_int n)
let nat_ix s = let n = int_of_string s in if n < 0 then raise Bad else nat_of_int n

(* the model op, and whether it is a mutation (its output carries the summaries) *)
let parse_op (o : string) : e M.op * char =
  match String.split_on_char ':' o with
  | ["N"; b; keys; picks] -> (M.ONew (z_of_string b, parse_es keys, List.map nat_of_int (ints_of picks)), 'N')
  | ["C"; t] -> (M.OClone (nat_ix t), 'm')
  | ["a"; t; e] -> (M.OAdd (nat_ix t, parse_e e), 'm')
  | ["r"; t; e] -> (M.OReplace (nat_ix t, parse_e e), 'm')
  | ["d"; t; e] -> (M.ORemove (nat_ix t, parse_e e), 'm')
  | ["x"; t] -> (M.OClear (nat_ix t), 'm')
  | ["g"; t; e] -> (M.OGet (nat_ix t, parse_e e), 'g')
  | ["I"; t; s] -> (M.OInorder (nat_ix t, stop_of s), 'l')
  | ["A"; t; e; s] -> (M.OInorderAfter (nat_ix t, parse_e e, stop_of s), 'l')
  | ["S"; t] -> (M.OLen (nat_ix t), 'S')
  | _ -> raise Bad

let split_ops s = String.split_on_char ';' s

(* ---- model side *)
let model_summary cmp (st : e M.state) (i : int) (t : e M.tree0) =
  let ask o = snd (M.step cmp limit_z st o) in
  let ix = nat_of_int i in
  let len = match ask (M.OLen ix) with M.RInt z -> string_of_int (int_of_z z) | _ -> "?" in
  let emp = match ask (M.OIsEmpty ix) with M.RBool b -> b01 b | _ -> "?" in
  let mn = match ask (M.OMin ix) with M.ROpt o -> show_opt_e o | _ -> "?" in
  let mx = match ask (M.OMax ix) with M.ROpt o -> show_opt_e o | _ -> "?" in
  let ih = match ask (M.OInorder (ix, None)) with M.RList l -> show_hash (hash_list l) | _ -> "?" in
  String.concat "," [len; emp; mn; mx; string_of_int (int_of_z t.M.maxsize); string_of_int (int_of_z (M.size t.M.root)); ih;
                     show_hash (hash_shape (0, 0) t.M.root)]

let model_summaries cmp (st : e M.state) =
  String.concat "+" (List.mapi (fun i t -> model_summary cmp st i t) st)

let eval_history cmpname opss =
  let cmp = cmp_for cmpname in
  let outs = ref [] in
  let push s = outs := s :: !outs in
  let st = ref ([] : e M.state) in
  (try
    List.iter (fun o ->
      let (op, kind) = parse_op o in
      if kind = 'S' then begin
        match op with
        | M.OLen ix -> (match M.nth_error !st ix with Some t -> push (shape_string t.M.root) | None -> raise Bad)
        | _ -> raise Bad
      end else begin
        let (st', r) = M.step cmp limit_z !st op in
        st := st';
        match r with
        | M.RNoTree -> raise Bad
        | M.RPanic ->
          (* New: the documented panic where the generated range test says so, otherwise an index
             out of range in extract; everywhere else a nil dereference *)
          push (match op with
                | M.ONew (b, _, _) -> if M.new_beta_bad b then "panic:beta" else "panic:index"
                | _ -> "panic:nil");
          raise Exit
        | M.RFuel -> push "OUT-OF-FUEL"; raise Exit
        | M.RBadOracle -> push "BAD-ORACLE"; raise Exit
        | M.RUnit ->
          if kind = 'N' then begin
            let i = List.length st' - 1 in
            let l = match snd (M.step cmp limit_z st' (M.OInorder (nat_of_int i, None))) with M.RList l -> l | _ -> [] in
            push ("u:" ^ show_es l ^ "@" ^ model_summaries cmp st')
          end else push ("u@" ^ model_summaries cmp st')
        | M.RBool b ->
          if kind = 'm' then push (b01 b ^ "@" ^ model_summaries cmp st') else push (b01 b)
        | M.RInt z -> push (string_of_int (int_of_z z))
        | M.ROpt o -> push ((match o with Some _ -> "1:" | None -> "0:") ^ show_opt_e o)
        | M.RList l -> push (show_es l)
      end) (split_ops opss)
  with Exit -> ());
  String.concat ";" (List.rev !outs)

let eval inp =
  try
    match words inp with
    | ["H"; c; ops] -> eval_history c ops
    | ["L"; b; lo; hi] ->
      let b = int_of_string b and lo = int_of_string lo and hi = int_of_string hi in
      if b < 0 || b > 1000 || lo < 1 || hi < lo || hi - lo > 100000 then "BAD"
      else str_ints (List.init (hi - lo + 1) (fun i -> limit_exact b (lo + i)))
    | _ -> "BAD"
  with Bad | Failure _ | Not_found | Invalid_argument _ -> "BAD"

(* ---- the property on the implementation's output: the reference sets of StreeSpec *)
let rec shape_inorder (s : string) : e list =
  (* "(" left e right ")" | "." *)
  let pos = ref 0 in
  let acc = ref [] in
  let rec go () =
    if !pos >= String.length s then failwith "shape" else
    if s.[!pos] = '.' then incr pos
    else if s.[!pos] = '(' then begin
      incr pos; go ();
      let st = !pos in
      while !pos < String.length s && s.[!pos] <> '.' && s.[!pos] <> '(' && s.[!pos] <> ')' do incr pos done;
      acc := parse_e (String.sub s st (!pos - st)) :: !acc;
      go ();
      if !pos < String.length s && s.[!pos] = ')' then incr pos else failwith "shape"
    end else failwith "shape" in
  go ();
  if !pos <> String.length s then failwith "shape";
  List.rev !acc

let index_of (x : e) (l : e list) =
  let rec go i = function [] -> None | y :: r -> if y = x then Some i else go (i + 1) r in go 0 l

let spec_history cmpname opss out : string option =
  let cmp = cmp_for cmpname in
  let ops = split_ops opss in
  let outs = if out = "" then [] else String.split_on_char ';' out in
  let st = ref ([] : e list list) in
  let fail i o msg = Some (Printf.sprintf "op#%d %s: %s" i o msg) in
  let check_summaries i o sums =
    let parts = String.split_on_char '+' sums in
    if List.length parts <> List.length !st then fail i o "number of live trees" else begin
      let bad = ref None in
      List.iteri (fun j (s, l) ->
        if !bad = None then
          match String.split_on_char ',' s with
          | [len; emp; mn; mx; _tmax; nodes; ih; _sh] ->
            let n = List.length l in
            let say m = bad := fail i o (Printf.sprintf "tree %d: %s (reference set %s)" j m (show_es l)) in
            if len <> string_of_int n then say ("Len = " ^ len)
            else if emp <> b01 (n = 0) then say ("IsEmpty = " ^ emp)
            else if mn <> show_opt_e (M.s_min l) then say ("Min = " ^ mn)
            else if mx <> show_opt_e (M.s_max l) then say ("Max = " ^ mx)
            else if nodes <> len then say ("cached size " ^ len ^ " but " ^ nodes ^ " nodes")
            else if ih <> show_hash (hash_list l) then say "Inorder differs from the reference set"
          | _ -> bad := fail i o "bad summary") (List.combine parts !st);
      !bad
    end in
  let rec go i ops outs =
    match ops, outs with
    | [], [] -> None
    | [], _ -> Some "more outputs than ops"
    | o :: _, [] -> fail i o "no output (the history stopped early)"
    | o :: ops', x :: outs' ->
      let (op, kind) = parse_op o in
      let is_fail = x = "hang" || (String.length x >= 6 && String.sub x 0 6 = "panic:") in
      (* derive New's oracle from what the implementation itself stored *)
      let op = match op with
        | M.ONew (b, keys, _) when not is_fail ->
          let listed = (match String.index_opt x '@' with
            | Some a when String.length x >= 2 && String.sub x 0 2 = "u:" -> parse_es (String.sub x 2 (a - 2))
            | _ -> []) in
          let picks = List.map (fun e -> match index_of e keys with Some j -> nat_of_int j | None -> nat_of_int (List.length keys)) listed in
          M.ONew (b, keys, picks)
        | _ -> op in
      if kind = 'S' then begin
        if is_fail then fail i o x else
        match op with
        | M.OLen ix ->
          (match M.nth_error !st ix with
           | None -> Some "BAD"
           | Some l -> if (try shape_inorder x = l with Failure _ -> false) then go (i + 1) ops' outs'
                       else fail i o ("the shape read through the cursor API is not a search tree over the reference set " ^ show_es l))
        | _ -> Some "BAD"
      end else begin
        let (st', r) = M.spec_step cmp !st op in
        st := st';
        match r with
        | M.RPanic -> if x = "panic:beta" then None else fail i o ("New with beta outside 0..1000 must panic with the documented value, got " ^ x)
        | _ when is_fail -> fail i o x
        | M.RBadOracle -> fail i o "the contents after New are not a strictly ascending choice of one given key per class"
        | M.RNoTree | M.RFuel -> Some "BAD"
        | M.RUnit | M.RBool _ when kind = 'N' || kind = 'm' ->
          (match String.index_opt x '@' with
           | None -> fail i o "bad output"
           | Some a ->
             let res = String.sub x 0 a and sums = String.sub x (a + 1) (String.length x - a - 1) in
             let want = (match r with M.RBool b -> b01 b | _ -> "u") in
             let got = if kind = 'N' then "u" else res in
             if got <> want then fail i o ("result " ^ got ^ ", reference " ^ want)
             else (match check_summaries i o sums with Some m -> Some m | None -> go (i + 1) ops' outs'))
        | M.ROpt w ->
          let want = (match w with Some _ -> "1:" | None -> "0:") ^ show_opt_e w in
          if x = want then go (i + 1) ops' outs' else fail i o ("Get gives " ^ x ^ ", reference " ^ want)
        | M.RList l ->
          if x = show_es l then go (i + 1) ops' outs'
          else if x = show_es l ^ "!" then fail i o "yield called again after it returned false"
          else fail i o ("iteration gives " ^ x ^ ", reference " ^ show_es l)
        | _ -> fail i o "bad output"
      end in
  go 0 ops outs

let spec prop inp out =
  if out = "BAD" then None else
  match prop, words inp with
  | ("C01" | "C02"), ["H"; c; ops] when prop = "C01" ->
    (try spec_history c ops out with Bad | Failure _ | Not_found | Invalid_argument _ -> None)
  | _ -> None

let () = run_main ~eval ~spec
