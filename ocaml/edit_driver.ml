(* Replays edittrace lines on the extracted model (EditModel.edit_script_run_cap, which contains
   the C12 model of LCSFunc; the inputs come with the contents of their spare capacity) and
   evaluates property C11 on the implementation's own output with the
   extracted checkers of EditSpec (valid_script_gen, canonical, alternating, kept, eq_lists) and
   an independent LCS length (plain full-table DP written here). *)

(* "P <prelude> <line>" (harness/cmd/edittrace/round4.go): calls made before the case.  The model's
   functions have no state: the prelude is dropped, the case replayed and judged as if alone. *)
(* Round 5 (harness/cmd/edittrace/round5.go): "S ..." is the L line once more, for inputs too long
   for the extracted model (its lists are indexed by position: the cost grows with the cube of the
   length).  Above 65 x 130 elements such a line is NOT replayed on the model: [eval] hands back the
   implementation's own record (read from the trace files before the main loop starts), so that the
   generic loop has nothing to compare, and [spec] alone judges it -- all clauses of C11 on the
   script as returned, with the LCS table written on arrays.  "P ...@j:call... <line>": a call made
   from inside the case's own eq; dropped like every prelude.  Element types b w z p (identity on
   codes, mode 0) and g (float32, mode -5) reach the model as codes like the others. *)
let echo : (string, string) Hashtbl.t = Hashtbl.create 4096
let () =
  Array.iteri (fun i f ->
    if i > 0 && String.length f > 0 && f.[0] <> '-' && Sys.file_exists f && not (Sys.is_directory f) then begin
      let ic = open_in f in
      (try while true do
        let line = input_line ic in
        if String.length line > 2 && line.[0] = 'S' && line.[1] = ' ' then begin
          let (inp, out) = split_line line in Hashtbl.replace echo inp out
        end
      done with End_of_file -> ());
      close_in ic
    end) Sys.argv
let echo_of inp = match Hashtbl.find_opt echo inp with Some o -> o | None -> "NOT-REPLAYED"
let model_fits la lb = min la lb <= 65 && max la lb <= 130

(* ints_of with the two abbreviations of round 5 for long inputs: "v*n" (n times v), "a~b" (a .. b) *)
let ints_of5 s =
  if not (String.contains s '*' || String.contains s '~') then ints_of s else
  List.concat_map (fun p ->
    match String.split_on_char '*' p, String.split_on_char '~' p with
    | [v; n], _ -> let v = int_of_string v and n = int_of_string n in
      if n < 0 || n > 131072 then failwith "bad int" else List.init n (fun _ -> v)
    | _, [a; b] -> let a = int_of_string a and b = int_of_string b in
      if b - a > 131072 then failwith "bad int" else List.init (max 0 (b - a + 1)) (fun i -> a + i)
    | _ -> [int_of_string p]) (String.split_on_char ',' s)

let strip_p inp =
  match words (String.map (fun c -> if c = '_' then ' ' else c) inp) with
  | "P" :: _ :: rest -> String.concat " " rest
  | _ -> inp

let eq_for mode : int -> int -> bool =
  if mode > 100 then (let k = mode - 100 in fun a b -> a / k = b / k)
  else if mode > 0 then (fun a b -> a mod mode = b mod mode)
  else if mode = -1 then (fun a b -> let d = a - b in d >= -1 && d <= 1)
  else if mode = -2 then (fun a b -> a < b)
  else if mode = -3 then (fun a b -> a <= b)
  else if mode = -4 then (fun a b -> a = b && a <> 3)
  else if mode = -5 then (fun a b -> a <> 3 && b <> 3 && (a = b || (a <= 1 && b <= 1)))   (* == on floats: 0 = +0, 1 = -0, 3 = NaN *)
  else (fun a b -> a = b)

let op_char o = Char.chr (int_of_z (M.op_code o))
let op_of_char c =
  List.find_opt (fun o -> op_char o = c) [M.Drop; M.Emit; M.Copy; M.Replace]

(* edits with the offsets a script has when executed from (0, 0), and the capacity a two-index
   slice expression s[lo:hi] has in Go: cap(s) - lo *)
let show_edits lcap rcap (es : int M.edit list) =
  if es = [] then "." else begin
    let lp = ref 0 and rp = ref 0 in
    String.concat ";" (List.map (fun (e : int M.edit) ->
      let nx = List.length e.M.x and ny = List.length e.M.y in
      let xo = if nx = 0 then "-" else Printf.sprintf "%d/%d" !lp (lcap - !lp) in
      let yo = if ny = 0 then "-" else Printf.sprintf "%d/%d" !rp (rcap - !rp) in
      let s = Printf.sprintf "%c:%s:%s:%s:%s" (op_char e.M.eop) xo (str_ints e.M.x) yo (str_ints e.M.y) in
      (match e.M.eop with
       | M.Emit -> lp := !lp + nx; rp := !rp + nx
       | _ -> lp := !lp + nx; rp := !rp + ny);
      s) es)
  end

(* the whole backing arrays as the harness builds them: two guards, the input, the spare capacity *)
let larr l lx = str_ints ([555; 555] @ l @ lx)
let rarr r rx = str_ints ([666; 666] @ r @ rx)
let mk_e mode l r lx rx = (mode, l, r, lx, rx, larr l lx, rarr r rx)

let rec drop n l = if n <= 0 then l else match l with [] -> [] | _ :: t -> drop (n - 1) t
let rec take n l = if n <= 0 then [] else match l with [] -> [] | h :: t -> h :: take (n - 1) t

(* -> (mode, lhs, rhs, lx, rx, lhs array, rhs array) *)
let parse_input inp =
  match words (String.map (fun c -> if c = '_' then ' ' else c) inp) with
  | ["A"; mode; arr; a; b; c; d; cl] ->
    let arr = ints_of arr and a = int_of_string a and b = int_of_string b
    and c = int_of_string c and d = int_of_string d in
    let win lo hi = take (hi - lo) (drop lo arr) in
    let extra hi = if cl = "1" then [] else drop hi arr in
    Some (int_of_string mode, win a b, win c d, extra b, extra d, str_ints arr, str_ints arr)
  | ["E"; mode; l; r] -> Some (mk_e (int_of_string mode) (ints_of l) (ints_of r) [777; 777; 777] [888; 888; 888])
  | ["E"; mode; l; r; lx; rx] -> Some (mk_e (int_of_string mode) (ints_of l) (ints_of r) (ints_of lx) (ints_of rx))
  | _ -> None

let eval inp =
  match parse_input inp with
  | None -> "?"
  | Some (mode, l, r, lx, rx, la, ra) ->
    (match M.edit_script_run_cap (eq_for mode) lx rx l r with
     | M.EOk es ->
       show_edits (List.length l + List.length lx) (List.length r + List.length rx) es
       ^ " / " ^ la ^ " / " ^ ra
     | M.EPanic -> "PANIC index"
     | M.EOutOfFuel -> "FUEL")


(* ---- L lines (harness/cmd/edittrace/long.go): typed, long, poisoned; bounded output ---- *)
let fnv64 s =
  let h = ref 0xcbf29ce484222325L in
  String.iter (fun c -> h := Int64.mul (Int64.logxor !h (Int64.of_int (Char.code c))) 0x100000001b3L) s;
  Printf.sprintf "%Lx" !h
let seq (xs : int list) =
  let a = Array.of_list xs in
  let n = Array.length a in
  let ix = List.sort_uniq compare (List.filter (fun c -> c >= 0 && c < n) [0; 1; 2; n / 2 - 1; n / 2; n / 2 + 1; n - 3; n - 2; n - 1]) in
  Printf.sprintf "%d:%s:%s" n (fnv64 (str_ints xs)) (str_ints (List.map (fun i -> a.(i)) ix))

type lline = { mode : int; l : int list; r : int list; lx : int list; rx : int list;
               larr : int list; rarr : int list; same : bool;
               lbase : int; rbase : int  (* index of lhs[0] / rhs[0] in its array *) }
let parse_l inp =
  match words inp with
  | [("L" | "S"); mode; _; "E"; l; r; lx; rx] ->
    let l = ints_of5 l and r = ints_of5 r and lx = ints_of lx and rx = ints_of rx in
    Some { mode = int_of_string mode; l; r; lx; rx; larr = [555; 555] @ l @ lx; rarr = [666; 666] @ r @ rx; same = false; lbase = 2; rbase = 2 }
  | [("L" | "S"); mode; _; "A"; arr; a; b; c; d; cl] ->
    let arr = ints_of arr and a = int_of_string a and b = int_of_string b
    and c = int_of_string c and d = int_of_string d in
    let win lo hi = take (hi - lo) (drop lo arr) in
    let extra hi = if cl = "1" then [] else drop hi arr in
    Some { mode = int_of_string mode; l = win a b; r = win c d; lx = extra b; rx = extra d; larr = arr; rarr = arr; same = true; lbase = a; rbase = c }
  | _ -> None

(* what the script's X and Y read once every element of the arrays has been overwritten *)
let poison_l = 500 and poison_r = 700
let show_long (q : lline) (es : int M.edit list) =
  let lcap = List.length q.l + List.length q.lx and rcap = List.length q.r + List.length q.rx in
  let lp = ref 0 and rp = ref 0 in
  let eds = if es = [] then "." else
    String.concat ";" (List.map (fun (e : int M.edit) ->
      let nx = List.length e.M.x and ny = List.length e.M.y in
      let xo = if nx = 0 then "-" else Printf.sprintf "%d/%d" !lp (lcap - !lp) in
      let yo = if ny = 0 then "-" else Printf.sprintf "%d/%d" !rp (rcap - !rp) in
      let s = Printf.sprintf "%c:%s:%d:%s:%d" (op_char e.M.eop) xo nx yo ny in
      (match e.M.eop with
       | M.Emit -> lp := !lp + nx; rp := !rp + nx
       | _ -> lp := !lp + nx; rp := !rp + ny);
      s) es) in
  let xs = List.concat_map (fun (e : int M.edit) -> e.M.x) es and ys = List.concat_map (fun (e : int M.edit) -> e.M.y) es in
  let py = if q.same then poison_l else poison_r in
  String.concat " / " [eds; seq xs; seq ys; seq q.larr; seq q.rarr;
                       seq (List.map (fun v -> v + poison_l) xs); seq (List.map (fun v -> v + py) ys)]

let eval_l inp =
  match parse_l inp with
  | None -> "?"
  | Some q ->
    if inp.[0] = 'S' && not (model_fits (List.length q.l) (List.length q.r)) then echo_of inp else
    (match M.edit_script_run_cap (eq_for q.mode) q.lx q.rx q.l q.r with
     | M.EOk es -> show_long q es
     | M.EPanic -> "PANIC index"
     | M.EOutOfFuel -> "FUEL")

let eval inp = let inp = strip_p inp in if String.length inp > 1 && (inp.[0] = 'L' || inp.[0] = 'S') then eval_l inp else eval inp

(* "<edits> / <lhs> / <rhs>" *)
let split3 out =
  match Str.split_delim (Str.regexp_string " / ") out with
  | [a; b; c] -> Some (a, b, c)
  | _ -> None

exception Bad of string

let parse_edits s : (int M.edit * string * string) list =
  if s = "." then [] else
  List.map (fun item ->
    match String.split_on_char ':' item with
    | [o; xo; x; yo; y] when String.length o = 1 ->
      (match op_of_char o.[0] with
       | Some op -> ({ M.eop = op; M.x = ints_of x; M.y = ints_of y }, xo, yo)
       | None -> raise (Bad ("unknown Op byte " ^ o)))
    | _ -> raise (Bad ("bad edit syntax " ^ item))) (String.split_on_char ';' s)

(* "<off>/<cap>" -> "<off>" *)
let strip_cap s = match String.index_opt s '/' with Some i -> String.sub s 0 i | None -> s

(* the offsets a script has when executed from (0, 0): "-" for an empty field *)
let offsets_of (es : int M.edit list) =
  let lp = ref 0 and rp = ref 0 in
  List.map (fun (e : int M.edit) ->
    let nx = List.length e.M.x and ny = List.length e.M.y in
    let xo = if nx = 0 then "-" else string_of_int !lp in
    let yo = if ny = 0 then "-" else string_of_int !rp in
    (match e.M.eop with
     | M.Emit -> lp := !lp + nx; rp := !rp + nx
     | _ -> lp := !lp + nx; rp := !rp + ny);
    (xo, yo)) es

(* independent LCS length under eq: the textbook (m+1) x (n+1) table *)
let lcs_len eq l r =
  let a = Array.of_list l and b = Array.of_list r in
  let m = Array.length a and n = Array.length b in
  (* row by row: only the previous row is ever read *)
  let p = ref (Array.make (n + 1) 0) and c = ref (Array.make (n + 1) 0) in
  for i = 1 to m do
    let t = !p in p := !c; c := t;
    let p = !p and c = !c in
    c.(0) <- 0;
    for j = 1 to n do
      c.(j) <- if eq a.(i-1) b.(j-1) then p.(j-1) + 1 else max p.(j) c.(j-1)
    done
  done;
  (!c).(n)

(* an upper bound of the LCS length under plain equality: the number of elements the two inputs
   share as multisets (sum over the values of the smaller count) *)
let shared_bound (l : int list) (r : int list) =
  let t : (int, int) Hashtbl.t = Hashtbl.create 4096 in
  List.iter (fun v -> Hashtbl.replace t v (1 + (try Hashtbl.find t v with Not_found -> 0))) l;
  List.fold_left (fun n v ->
    match Hashtbl.find_opt t v with
    | Some c when c > 0 -> Hashtbl.replace t v (c - 1); n + 1
    | _ -> n) 0 r

(* the clauses of C11 on a script given as values, with the places its X and Y alias;
   plain: eq is equality of codes (the multiset bound applies) *)
let check_script ?(plain = false) eq l r (parsed : (int M.edit * string * string) list) =
  let es = List.map (fun (e, _, _) -> e) parsed in
  let same (a : int) (b : int) = (a = b) in
  if not (M.valid_script_gen eq same l r es) then
    Some "executing the edits does not consume lhs and produce rhs with X/Y the spans at the current offsets"
  else if List.exists (fun (_, xo, yo) -> xo = "?" || yo = "?") parsed
       || List.map (fun (_, xo, yo) -> (strip_cap xo, strip_cap yo)) parsed
          <> offsets_of es then
    Some "an X or Y is not the sub-slice of its input at the current offset (aliasing)"
  else if not (M.canonical es) then
    Some "not canonical: an empty edit, two adjacent edits of one kind, or a Drop next to a Copy"
  else if not (M.alternating es) then
    Some "not canonical: Emit and non-Emit edits do not alternate (an unfused Replace next to a Drop/Copy)"
  else begin
    let same_inputs = M.eq_lists eq l r in
    if (es = []) <> same_inputs then
      Some (if es = [] then "empty script although lhs and rhs differ" else "non-empty script although lhs equals rhs")
    else begin
      let k = int_of_nat (M.kept (M.expand l es)) in
      (* the script is valid, so the k elements it keeps are a common subsequence: an LCS has at
         least k.  Under plain equality none is longer than what the inputs share as multisets; when
         k reaches that bound (constructed large inputs, round 6) the table is not needed *)
      let opt = if plain && shared_bound l r = k then k else lcs_len eq l r in
      if k <> opt then Some (Printf.sprintf "script keeps %d elements, a longest common subsequence has %d" k opt)
      else begin
        let c = int_of_nat (M.cost (M.expand l es)) in
        let least = List.length l + List.length r - 2 * opt in
        if c <> least then Some (Printf.sprintf "script removes + inserts %d elements, %d suffice" c least)
        else None
      end
    end
  end

(* L lines: the script is given by places and lengths; the values it holds are those of the spans
   it aliases -- checked through the digests of everything X and Y read, before and after the
   arrays were overwritten *)
let spec_l (q : lline) out =
  if String.length out >= 5 && String.sub out 0 5 = "PANIC" then Some "EditScript panicked" else
  match Str.split_delim (Str.regexp_string " / ") out with
  | [eds; xs; ys; la; ra; xs2; ys2] ->
    (try
      if la <> seq q.larr || ra <> seq q.rarr then raise (Bad "an input (or what lies before / behind it in its array) was modified by the call");
      let la = Array.of_list q.l and ra = Array.of_list q.r in
      let span what a off len =
        if len = 0 then (if off <> "-" then raise (Bad "bad edit syntax") else [])
        else match int_of_string_opt (strip_cap off) with
          | Some o when o >= 0 && o + len <= Array.length a -> Array.to_list (Array.sub a o len)
          | Some _ -> raise (Bad (Printf.sprintf "%s reaches beyond its input (it exposes the spare capacity or a neighbour)" what))
          | None -> raise (Bad (Printf.sprintf "%s is not a sub-slice of its input (the script does not share storage with it)" what)) in
      let parsed =
        if eds = "." then [] else
        List.map (fun item ->
          match String.split_on_char ':' item with
          | [o; xo; xl; yo; yl] when String.length o = 1 ->
            (match op_of_char o.[0] with
             | Some op -> ({ M.eop = op; M.x = span "an X" la xo (int_of_string xl); M.y = span "a Y" ra yo (int_of_string yl) }, xo, yo)
             | None -> raise (Bad ("unknown Op byte " ^ o)))
          | _ -> raise (Bad ("bad edit syntax " ^ item))) (String.split_on_char ';' eds) in
      let allx = List.concat_map (fun ((e : int M.edit), _, _) -> e.M.x) parsed
      and ally = List.concat_map (fun ((e : int M.edit), _, _) -> e.M.y) parsed in
      if xs <> seq allx || ys <> seq ally then raise (Bad "the elements read through X / Y are not those of the spans of lhs / rhs they point at");
      let py = if q.same then poison_l else poison_r in
      if xs2 <> seq (List.map (fun v -> v + poison_l) allx) || ys2 <> seq (List.map (fun v -> v + py) ally) then
        raise (Bad "after the inputs were overwritten the script does not show their new contents (it does not share storage with them)");
      check_script ~plain:(q.mode = 0) (eq_for q.mode) q.l q.r parsed
    with Bad m -> Some m)
  | _ -> Some "bad output syntax"

let spec prop inp out =
  if prop <> "C11" then None else
  let inp = strip_p inp in
  match parse_l inp with
  | Some q -> if q.mode >= 0 || q.mode = -4 || q.mode = -5 then spec_l q out else None
  | None ->
  match parse_input inp with
  | Some (mode, l, r, _, _, la0, ra0) when mode >= 0 || mode = -4 ->
    let eq = eq_for mode in
    if String.length out >= 5 && String.sub out 0 5 = "PANIC" then Some "EditScript panicked" else
    (match split3 out with
     | None -> Some "bad output syntax"
     | Some (eds, la, ra) ->
       (try
         if la <> la0 || ra <> ra0 then Some "an input (or what lies before / behind it in its array) was modified by the call"
         else check_script eq l r (parse_edits eds)
       with Bad m -> Some m))
  | _ -> None

let () = run_main ~eval ~spec
