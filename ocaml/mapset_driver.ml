(* Replays mapsettrace lines on the extracted model (MapsetModel.step, elements = OCaml ints
   compared with (=), zero value 0) and evaluates the property itself -- the set-theoretic
   answers, computed here on sorted duplicate-free int lists without any use of the model -- on
   the implementation's own outputs. *)

let eqb (a : int) (b : int) = a = b
let zero = 0
let mask_n = 8

exception Bad_syntax

let ints_of' s =
  if s = "." || s = "" then [] else
  List.map (fun x -> match int_of_string_opt x with Some n -> n | None -> raise Bad_syntax) (String.split_on_char ',' s)
let int_of' s = match int_of_string_opt s with Some n -> n | None -> raise Bad_syntax
let sorted l = List.sort compare l
let rec dedup_first = function [] -> [] | x :: r -> x :: dedup_first (List.filter (fun y -> y <> x) r)

let parse_case inp =
  match words inp with
  | [_kind; k; ops] -> (int_of' k, List.map (String.split_on_char ':') (String.split_on_char ';' ops))
  | [_kind; k] -> (int_of' k, [])
  | _ -> raise Bad_syntax

(* ---------------------------------------------------------------- model side *)

let var k s = let i = int_of' s in if i < 0 || i >= k then raise Bad_syntax else nat_of_int i
let nth_arg p n = match List.nth_opt p n with Some x -> x | None -> "."

(* Orders of map iterations that are not observable in the result are supplied as the key list
   of the operand the model says is ranged over (any enumeration would do: the theorems say the
   result does not depend on it).  Observable ones (Pop's element, Slice/Append's order) come
   from the trace. *)
let build_op k st p : int M.op =
  let v n = var k (nth_arg p n) in
  let l n = ints_of' (nth_arg p n) in
  match List.hd p with
  | "new" -> M.ONew (v 1, l 2)
  | "newsize" -> let n = int_of' (nth_arg p 2) in if n < 0 then raise Bad_syntax else M.ONewSize (v 1, z_of_int n)
  | "nil" -> M.ONil (v 1)
  | "clone" -> M.OClone (v 1, v 2)
  | "isect" ->
    let js = List.map (fun j -> if j < 0 || j >= k then raise Bad_syntax else nat_of_int j) (l 2) in
    let ord = match M.intersect_operand (List.map st js) with M.Ok m -> M.m_keys m | _ -> [] in
    M.OIntersect (v 1, js, ord)
  | "range" -> M.ORange (v 1, l 2)
  | "keys" -> M.OKeys (v 1, dedup_first (l 2))
  | "values" -> M.OValues (v 1, l 2)
  | "add" -> M.OAdd (v 1, l 2)
  | "addall" -> M.OAddAll (v 1, v 2, M.m_keys (st (v 2)))
  | "rm" -> M.ORemove (v 1, l 2)
  | "rmall" -> M.ORemoveAll (v 1, v 2, M.m_keys (st (v 2)))
  | "clear" -> M.OClear (v 1)
  | "pop" ->
    let x = int_of' (nth_arg p 2) in
    let keys = M.m_keys (st (v 1)) in
    M.OPop (v 1, if keys = [] then [] else x :: List.filter (fun y -> y <> x) keys)
  | "has" -> M.OHas (v 1, int_of' (nth_arg p 2))
  | "hasall" -> M.OHasAll (v 1, l 2)
  | "hasany" -> M.OHasAny (v 1, l 2)
  | "len" -> M.OLen (v 1)
  | "empty" -> M.OIsEmpty (v 1)
  | "meets" -> M.OIntersects (v 1, v 2, M.m_keys (fst (M.intersects_operands (st (v 1)) (st (v 2)))))
  | "sub" -> M.OIsSubset (v 1, v 2, M.m_keys (st (v 1)))
  | "eq" -> M.OEquals (v 1, v 2, M.m_keys (st (v 1)))
  | "slice" -> M.OSlice (v 1, l 2)
  | "append" ->
    let vs = if nth_arg p 2 = "n" then None else Some (l 2) in
    M.OAppend (v 1, vs, l 3)
  | _ -> raise Bad_syntax

let rec take n l = if n <= 0 then [] else match l with [] -> [] | x :: r -> x :: take (n - 1) r
let rec drop n l = if n <= 0 then l else match l with [] -> [] | _ :: r -> drop (n - 1) r

let show_res p (o : int M.out) =
  let name = List.hd p in
  match o with
  | M.RSet m ->
    (match name with
     | "add" | "addall" | "rm" | "rmall" | "clear" -> "s10"
     | _ -> "c" ^ b01 (m <> None) ^ "0")
  | M.RBool b -> "b" ^ b01 b
  | M.RInt z -> "i" ^ string_of_int (int_of_z z)
  | M.RElem x -> "e" ^ string_of_int x
  | M.RSlice s ->
    let els = match s with None -> [] | Some l -> l in
    let n = if name = "append" && nth_arg p 2 <> "n" then List.length (ints_of' (nth_arg p 2)) else 0 in
    "l" ^ b01 (s <> None) ^ ":" ^ str_ints (take n els) ^ ":" ^ str_ints (sorted (drop n els))
  | M.RPanicNilMap -> "PANIC:nil"
  | M.RPanicIndex -> "PANIC:index"
  | M.RBadOrder -> "BADORDER"

let dump_model (m : int list option) =
  match m with
  | None -> "n"
  | Some l ->
    let mask = String.concat "" (List.init mask_n (fun x -> b01 (M.has eqb m x))) in
    string_of_int (int_of_z (M.len m)) ^ (if M.isEmpty m then "E" else "F") ^ ":" ^ mask ^ ":" ^ str_ints (sorted l)

let eval inp =
  match (try Some (parse_case inp) with Bad_syntax -> None) with
  | None -> "?"
  | Some (k, ops) ->
    if k < 1 || k > 8 then "?" else
    let st = ref (fun _ -> None) in
    let outs = List.map (fun p ->
      let res =
        match (try Some (build_op k !st p) with Bad_syntax | Failure _ -> None) with
        | None -> "?"
        | Some o -> let (st', r) = M.step eqb zero !st o in st := st'; show_res p r in
      String.concat "/" (res :: List.init k (fun i -> dump_model (!st (nat_of_int i))))) ops in
    String.concat ";" outs

(* ---------------------------------------------------------------- the property on the implementation's output *)

let set_of l = List.sort_uniq compare l
let union a b = set_of (a @ b)
let diff a b = List.filter (fun x -> not (List.mem x b)) a
let inter a b = List.filter (fun x -> List.mem x b) a
let subset a b = List.for_all (fun x -> List.mem x b) a

let check_dump i (r : int list) d =
  if d = "n" then (if r = [] then None else Some (Printf.sprintf "v%d is nil but the reference set is {%s}" i (str_ints r)))
  else match String.split_on_char ':' d with
  | [le; mask; keys] ->
    let n = String.length le in
    if n < 2 then Some "bad dump" else
    let len = int_of' (String.sub le 0 (n - 1)) and e = le.[n - 1] in
    let wantmask = String.concat "" (List.init mask_n (fun x -> b01 (List.mem x r))) in
    if len <> List.length r then Some (Printf.sprintf "v%d.Len() = %d, reference set {%s}" i len (str_ints r))
    else if (e = 'E') <> (r = []) then Some (Printf.sprintf "v%d.IsEmpty() wrong, reference set {%s}" i (str_ints r))
    else if mask <> wantmask then Some (Printf.sprintf "v%d.Has over 0..7 = %s, reference set {%s}" i mask (str_ints r))
    else if keys <> str_ints r then Some (Printf.sprintf "v%d holds {%s}, reference set {%s}" i keys (str_ints r))
    else None
  | _ -> Some "bad dump"

let spec_case inp out =
  let (k, ops) = parse_case inp in
  let outs = if out = "" then [] else String.split_on_char ';' out in
  if List.length outs <> List.length ops then Some "number of outputs differs from number of operations" else
  let r = Array.make k [] in
  let fail n p why = Some (Printf.sprintf "op#%d %s: %s" n (String.concat ":" p) why) in
  let rec go n ops outs =
    match ops, outs with
    | [], _ | _, [] -> None
    | p :: ops', o :: outs' ->
      let fields = String.split_on_char '/' o in
      let res = List.hd fields and dumps = List.tl fields in
      if res = "?" then go (n + 1) ops' outs' else
      let v a = let i = int_of' (nth_arg p a) in if i < 0 || i >= k then raise Bad_syntax else i in
      let l a = ints_of' (nth_arg p a) in
      let i = v 1 in
      let expect_res want = if res = want then None else Some (Printf.sprintf "result %s, set theory says %s" res want) in
      let fresh s = r.(i) <- s;
        if String.length res <> 3 || res.[0] <> 'c' then Some ("result " ^ res)
        else if res.[1] <> '1' then Some "the constructor returned a nil set"
        else if res.[2] <> '0' then Some "the returned set shares storage with an argument or another variable"
        else None in
      let mutated s = r.(i) <- s;
        if String.length res <> 3 || res.[0] <> 's' then Some ("result " ^ res)
        else if res.[1] <> '1' then Some "the method did not return its receiver"
        else if res.[2] <> '0' then Some "receiver and argument share storage after the call"
        else None in
      let verdict =
        match List.hd p with
        | "new" | "range" | "keys" | "values" -> fresh (set_of (l 2))
        | "newsize" -> fresh []
        | "nil" -> r.(i) <- []; None
        | "clone" -> fresh r.(v 2)
        | "isect" ->
          let js = l 2 in
          List.iter (fun j -> if j < 0 || j >= k then raise Bad_syntax) js;
          fresh (match js with [] -> [] | j :: rest -> List.fold_left (fun a j -> inter a r.(j)) r.(j) rest)
        | "add" -> mutated (union r.(i) (l 2))
        | "addall" -> mutated (union r.(i) r.(v 2))
        | "rm" -> mutated (diff r.(i) (l 2))
        | "rmall" -> mutated (diff r.(i) r.(v 2))
        | "clear" -> mutated []
        | "pop" ->
          if r.(i) = [] then expect_res "e0"
          else if String.length res < 2 || res.[0] <> 'e' then Some ("result " ^ res)
          else
            let x = int_of' (String.sub res 1 (String.length res - 1)) in
            if not (List.mem x r.(i)) then Some (Printf.sprintf "Pop returned %d, not a member of {%s}" x (str_ints r.(i)))
            else (r.(i) <- diff r.(i) [x]; None)
        | "has" -> expect_res ("b" ^ b01 (List.mem (int_of' (nth_arg p 2)) r.(i)))
        | "hasall" -> expect_res ("b" ^ b01 (subset (l 2) r.(i)))
        | "hasany" -> expect_res ("b" ^ b01 (inter (l 2) r.(i) <> []))
        | "len" -> expect_res ("i" ^ string_of_int (List.length r.(i)))
        | "empty" -> expect_res ("b" ^ b01 (r.(i) = []))
        | "meets" -> expect_res ("b" ^ b01 (inter r.(i) r.(v 2) <> []))
        | "sub" -> expect_res ("b" ^ b01 (subset r.(i) r.(v 2)))
        | "eq" -> expect_res ("b" ^ b01 (r.(i) = r.(v 2)))
        | "slice" | "append" ->
          let (prefix, order) = if List.hd p = "slice" then (".", l 2) else ((if nth_arg p 2 = "n" then "." else str_ints (l 2)), l 3) in
          (match String.split_on_char ':' res with
           | [_nonnil; pre; rest] ->
             if pre <> prefix then Some "the given prefix was not preserved"
             else if rest <> str_ints r.(i) then Some (Printf.sprintf "listed {%s}, members {%s}: not each member exactly once" rest (str_ints r.(i)))
             else if sorted order <> r.(i) then Some "the recorded order is not an enumeration of the members"
             else None
           | _ -> Some ("result " ^ res))
        | _ -> raise Bad_syntax in
      (match verdict with
       | Some why -> fail n p why
       | None ->
         if List.length dumps <> k then fail n p "bad dump count" else
         let rec chk j = function
           | [] -> None
           | d :: ds -> (match check_dump j r.(j) d with Some why -> fail n p ("afterwards " ^ why) | None -> chk (j + 1) ds) in
         (match chk 0 dumps with
          | Some x -> Some x
          | None ->
            (* constructors: the variable itself must now be non-nil *)
            (match List.hd p with
             | "new" | "range" | "keys" | "values" | "newsize" | "clone" | "isect" when List.nth dumps i = "n" -> fail n p "the constructed set is nil"
             | _ -> go (n + 1) ops' outs')))
  in
  go 0 ops outs

let spec prop inp out =
  if prop <> "C18" then None else
  try spec_case inp out with Bad_syntax | Failure _ | Invalid_argument _ | Not_found -> None

let () = run_main ~eval ~spec
