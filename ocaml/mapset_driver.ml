(* Replays mapsettrace lines on the extracted model (MapsetModel.step, elements = OCaml ints
   compared with (=), zero value 0; the allocator's frontier threaded as in MapsetModel.run) and
   evaluates the property itself -- the set-theoretic answers and the identity rules (constructors
   return a map never seen before, mutators return their receiver, no two variables share a map),
   computed here on sorted duplicate-free int lists and on the implementation's own dumps, without
   any use of the model -- on the implementation's outputs. *)

let eqb (a : int) = let f (b : int) = a = b in f   (* arity 1 returning a closure: the model applies it partially (existsb (eqb x) l) *)
let zero = 0
let mask_n = 8

exception Bad_syntax

let int_of' s = match int_of_string_opt s with Some n -> n | None -> raise Bad_syntax
(* a list of codes: ints and runs lo~hi / lo~hi~step (lo, lo+step, ... below hi) *)
let ints_of' s =
  if s = "." || s = "" then [] else
  List.concat_map (fun x ->
    if String.contains x '~' then
      (match String.split_on_char '~' x with
       | [lo; hi] | [lo; hi; _] as q ->
         let lo = int_of' lo and hi = int_of' hi in
         let step = (match q with [_; _; st] -> int_of' st | _ -> 1) in
         if step < 1 || hi - lo > 1 lsl 22 then raise Bad_syntax else
         let rec go x acc = if x >= hi then List.rev acc else go (x + step) (x :: acc) in go lo []
       | _ -> raise Bad_syntax)
    else [int_of' x]) (String.split_on_char ',' s)
let sorted l = List.sort compare l
let rec dedup_first = function [] -> [] | x :: r -> x :: dedup_first (List.filter (fun y -> y <> x) r)

(* the scale kinds (Si Sx Ss St: codes of ints / extreme ints / strings / structs on the Go side, plain
   codes here -- the model and the reference are about any element type with a decidable equality
   and the harness' code -> value maps are injective with 0 -> the zero value) print every list of
   more than 64 codes in the output as #<digest of the sorted codes> *)
let digest_over = 64
let digest (xs : int list) =
  let m1 = 2147483647 and p1 = 1000003 and m2 = 2147483629 and p2 = 1000033 in
  let (h1, h2) = List.fold_left (fun (h1, h2) x ->
    let a = ((x mod m1) + m1) mod m1 and b = ((x mod m2) + m2) mod m2 in
    ((h1 * p1 + a) mod m1, (h2 * p2 + b) mod m2)) (7, 7) xs in
  Printf.sprintf "%08x%08x" h1 h2
let rec longer l n = match l with [] -> false | _ :: r -> n = 0 || longer r (n - 1)
let show_ints scale l = if scale && longer l digest_over then "#" ^ digest l else str_ints l

(* round 4: Sp Sa Sf Sz = pointer / interface / float64 / struct{} elements (Sz has the one code 0);
   round 5: So Sb Sh Sg = bool (codes 0 1) / uint8 / int16 / float32 *)
let is_scale kind = String.length kind = 2 && kind.[0] = 'S' && String.contains "ixstpafzobhg" kind.[1]
(* round 5, thorough tier: Li Lx Ls Lt Lf = the element types of Si Sx Ss St Sf on sets of 2^15 .. 2^16+1
   members.  The extracted model is quadratic per ranged call (173 s for ONE such line at 65536
   members), so these lines are not replayed on it: [eval] computes the expected output on OCaml's own
   balanced-tree sets by the rules of the API (eval_large below) and [spec] decides the property on
   the implementation's output as for every other line. *)
let is_large kind = String.length kind = 2 && kind.[0] = 'L' && String.contains "ixstf" kind.[1]
let is_nan_kind0 kind = List.mem kind ["LNf"; "LNg"; "LNa"; "LNr"]   (* round 7: NaN members, see eval_nan / spec_nan below *)
let parse_case inp =
  match words inp with
  | [kind; k; ops] when is_nan_kind0 kind -> (true, int_of' k, List.map (String.split_on_char ':') (String.split_on_char ';' ops))
  | [kind; k; ops] when is_scale kind || is_large kind || List.mem kind ["X"; "B"; "H"] ->
    (is_scale kind || is_large kind, int_of' k, List.map (String.split_on_char ':') (String.split_on_char ';' ops))
  | [kind; k] when is_scale kind || is_large kind || List.mem kind ["X"; "B"; "H"] -> (is_scale kind || is_large kind, int_of' k, [])
  | _ -> raise Bad_syntax

(* ---------------------------------------------------------------- model side *)

let var k s = let i = int_of' s in if i < 0 || i >= k then raise Bad_syntax else nat_of_int i
let nth_arg p n = match List.nth_opt p n with Some x -> x | None -> "."
let is_int s = s <> "" && (let ok = ref true in String.iteri (fun i c -> if not ((c >= '0' && c <= '9') || (i = 0 && c = '-' && String.length s > 1)) then ok := false) s; !ok)

(* Orders of map iterations that are not observable in the result are supplied as the key list
   of the operand the model says is ranged over (any enumeration would do: the theorems say the
   result does not depend on it).  Observable ones (Pop's element, Slice/Append's order) come
   from the trace. *)
let build_op k st p : int M.op =
  let v n = var k (nth_arg p n) in
  let l n = ints_of' (nth_arg p n) in
  let lnil n = if nth_arg p n = "nil" then [] else l n in
  match List.hd p with
  | "new" -> M.ONew (v 1, l 2)
  | "newsize" -> let n = nth_arg p 2 in if not (is_int n) then raise Bad_syntax else M.ONewSize (v 1, z_of_string n)
  | "nil" -> M.ONil (v 1)
  | "clone" -> M.OClone (v 1, v 2)
  | "isect" ->
    let js = List.map (fun j -> if j < 0 || j >= k then raise Bad_syntax else nat_of_int j) (l 2) in
    let ord = match M.intersect_operand (List.map st js) with M.Ok m -> M.m_keys m | _ -> [] in
    M.OIntersect (v 1, js, ord)
  (* round 4: a 4th field names the instantiation of the OTHER type parameter (value type of the map
     given to Keys, key type for Values, kind of iterator for Range) or the form of the variadic
     argument list: the model is stated for all of them alike.  The hand-written iterator h yields
     every element twice. *)
  | "range" -> M.ORange (v 1, if nth_arg p 2 = "nil" then None else
                              Some (if nth_arg p 3 = "h" then List.concat_map (fun x -> [x; x]) (l 2) else l 2))
  | "keys" -> M.OKeys (v 1, dedup_first (lnil 2))
  | "values" -> M.OValues (v 1, lnil 2)
  (* another set as the argument map: Keys(v_j), Range(maps.Keys(v_j)); the order in which the
     argument is ranged over is not observable in the result *)
  | "keysv" -> M.OKeys (v 1, M.m_keys (st (v 2)))
  | "rangev" -> M.ORange (v 1, Some (M.m_keys (st (v 2))))
  | "add" -> M.OAdd (v 1, l 2)
  | "addall" -> M.OAddAll (v 1, v 2, M.m_keys (st (v 2)))
  | "rm" -> M.ORemove (v 1, l 2)
  | "rmall" -> M.ORemoveAll (v 1, v 2, M.m_keys (st (v 2)))
  | "clear" -> M.OClear (v 1)
  | "pop" ->
    let x = int_of' (nth_arg p 2) in
    let keys = M.m_keys (st (v 1)) in
    M.OPop (v 1, if keys = [] then [] else x :: List.filter (fun y -> y <> x) keys)
  | "has" -> M.OHas (v 1, int_of' (nth_arg p 2))
  | "hasall" -> M.OHasAll (v 1, l 2)
  | "hasany" -> M.OHasAny (v 1, l 2)
  | "len" -> M.OLen (v 1)
  | "empty" -> M.OIsEmpty (v 1)
  | "meets" -> M.OIntersects (v 1, v 2, M.m_keys (fst (M.intersects_operands (st (v 1)) (st (v 2)))))
  | "sub" -> M.OIsSubset (v 1, v 2, M.m_keys (st (v 1)))
  | "eq" -> M.OEquals (v 1, v 2, M.m_keys (st (v 1)))
  | "slice" -> M.OSlice (v 1, if nth_arg p 2 = "#" then M.m_keys (st (v 1)) else l 2)
  | "append" | "appendf" | "appendc" ->
    let vs = if nth_arg p 2 = "n" then None else Some (l 2) in
    if List.hd p = "appendc" && (vs = None || int_of' (nth_arg p 4) < 0) then raise Bad_syntax else
    M.OAppend (v 1, vs, if nth_arg p 3 = "#" then M.m_keys (st (v 1)) else l 3)
  | _ -> raise Bad_syntax

let rec take n l = if n <= 0 then [] else match l with [] -> [] | x :: r -> x :: take (n - 1) r
let rec drop n l = if n <= 0 then l else match l with [] -> [] | _ :: r -> drop (n - 1) r

let ptr_of m = int_of_z (M.m_ptr m)

(* which map is m, relative to the variables of the state before the call (st0) and the
   allocator's frontier before the call *)
let ident k st0 next0 m =
  match m with
  | None -> "nil"
  | Some _ ->
    let p = ptr_of m in
    if p >= next0 then "new" else
    let rec find j = if j >= k then "old" else if ptr_of (st0 (nat_of_int j)) = p then "v" ^ string_of_int j else find (j + 1) in
    find 0

let show_res scale k st0 next0 st1 p (o : int M.out) =
  let name = List.hd p in
  match o with
  | M.RSet m ->
    let i = int_of' (nth_arg p 1) in
    let eq = if ptr_of (st1 (nat_of_int i)) = ptr_of m then "=" else "!" in
    "S" ^ ident k st0 next0 m ^ eq ^ "0"
  | M.RBool b -> "b" ^ b01 b
  | M.RInt z -> "i" ^ string_of_int (int_of_z z)
  | M.RElem x -> "e" ^ string_of_int x
  | M.RSlice s ->
    let els = match s with None -> [] | Some l -> l in
    let n = if (name = "append" || name = "appendf" || name = "appendc") && nth_arg p 2 <> "n" then List.length (ints_of' (nth_arg p 2)) else 0 in
    "l" ^ b01 (s <> None) ^ ":" ^ str_ints (take n els) ^ ":" ^ show_ints scale (sorted (drop n els))
    ^ (if name <> "appendc" then "" else
       (* where the result lives is the language's rule for append, applied to the model's own
          count of members: the same array iff the spare capacity holds them all *)
       let added = List.length els - n and room = int_of' (nth_arg p 4) in
       ":" ^ b01 (added = 0 || room >= added) ^ "0")
  | M.RPanicNilMap -> "PANIC:nil"
  | M.RPanicIndex -> "PANIC:index"
  | M.RPanicNilFunc -> "PANIC:nil"
  | M.RBadOrder -> "BADORDER"
  | M.RUnmodelled -> "UNMODELLED"

let res_ok = function M.Ok x -> x | _ -> failwith "model function is not Ok"

let dump_model scale k st i =
  let m = st (nat_of_int i) in
  match m with
  | None -> "n"
  | Some (_, l) ->
    let mask = String.concat "" (List.init mask_n (fun x -> b01 (res_ok (M.has eqb m x)))) in
    let rec first j = if j >= i then i else if ptr_of (st (nat_of_int j)) = ptr_of m then j else first (j + 1) in
    string_of_int (int_of_z (res_ok (M.len m))) ^ (if res_ok (M.isEmpty m) then "E" else "F") ^ ":" ^ mask ^ ":" ^ show_ints scale (sorted l)
    ^ "@" ^ string_of_int (first 0)

(* the expected output of a large line, without the model: the answers of set theory, constructors
   return a new map, mutators their receiver (Add/AddAll allocate for a nil receiver), no two
   variables ever share a map.  Only the plain forms of the operations are understood. *)
module LS = Set.Make (Int)
let eval_large k ops =
  let r = Array.make k LS.empty and isnil = Array.make k true in
  let show l = show_ints true l in
  let dump i =
    if isnil.(i) then "n" else
    let s = r.(i) in
    string_of_int (LS.cardinal s) ^ (if LS.is_empty s then "E" else "F") ^ ":"
    ^ String.concat "" (List.init mask_n (fun x -> b01 (LS.mem x s))) ^ ":" ^ show (LS.elements s) ^ "@" ^ string_of_int i in
  String.concat ";" (List.map (fun p ->
    let res =
      try
        if List.length p > 3 && not (List.mem (List.hd p) ["append"; "appendf"]) then raise Bad_syntax;
        let v a = let i = int_of' (nth_arg p a) in if i < 0 || i >= k then raise Bad_syntax else i in
        let l a = ints_of' (nth_arg p a) in
        let i = v 1 in
        let ctor s = r.(i) <- s; isnil.(i) <- false; "Snew=0" in
        let recv s = r.(i) <- s; if isnil.(i) then "Snil=0" else Printf.sprintf "Sv%d=0" i in
        let recv_alloc s = r.(i) <- s; if isnil.(i) then (isnil.(i) <- false; "Snew=0") else Printf.sprintf "Sv%d=0" i in
        let b x = "b" ^ b01 x in
        (match List.hd p with
         | "new" -> ctor (LS.of_list (l 2))
         | "nil" -> r.(i) <- LS.empty; isnil.(i) <- true; "Snil=0"
         | "clone" -> ctor r.(v 2)
         | "isect" -> (match l 2 with
             | [] -> ctor LS.empty
             | j :: rest -> List.iter (fun j -> if j < 0 || j >= k then raise Bad_syntax) (j :: rest);
               ctor (List.fold_left (fun a j -> LS.inter a r.(j)) r.(j) rest))
         | "add" -> recv_alloc (LS.union r.(i) (LS.of_list (l 2)))
         | "addall" -> recv_alloc (LS.union r.(i) r.(v 2))
         | "rm" -> recv (LS.diff r.(i) (LS.of_list (l 2)))
         | "rmall" -> recv (LS.diff r.(i) r.(v 2))
         | "clear" -> recv LS.empty
         | "pop" -> if LS.is_empty r.(i) then "e0" else
             let x = int_of' (nth_arg p 2) in r.(i) <- LS.remove x r.(i); "e" ^ string_of_int x
         | "has" -> b (LS.mem (int_of' (nth_arg p 2)) r.(i))
         | "hasd" -> let yes = List.filter (fun x -> LS.mem x r.(i)) (l 2) in "h" ^ string_of_int (List.length yes) ^ ":" ^ digest yes
         | "hasall" -> b (List.for_all (fun x -> LS.mem x r.(i)) (l 2))
         | "hasany" -> b (List.exists (fun x -> LS.mem x r.(i)) (l 2))
         | "len" -> "i" ^ string_of_int (LS.cardinal r.(i))
         | "empty" -> b (LS.is_empty r.(i))
         | "meets" -> b (not (LS.disjoint r.(i) r.(v 2)))
         | "sub" -> b (LS.subset r.(i) r.(v 2))
         | "eq" -> b (LS.equal r.(i) r.(v 2))
         | "slice" -> "l" ^ b01 (not (LS.is_empty r.(i))) ^ ":.:" ^ show (LS.elements r.(i))
         | "append" | "appendf" ->
           let vsnil = nth_arg p 2 = "n" in
           let pre = if vsnil then [] else l 2 in
           "l" ^ b01 (not (vsnil && LS.is_empty r.(i))) ^ ":" ^ str_ints pre ^ ":" ^ show (LS.elements r.(i))
         | _ -> raise Bad_syntax)
      with Bad_syntax | Failure _ -> "?" in
    String.concat "/" (res :: List.init k dump)) ops)

(* ---------------------------------------------------------------- round 7: NaN members (kinds LNf LNg LNa LNr)

   Elements that are not equal to themselves are outside the theorems (the model's elements have a
   reflexive decidable equality), so these lines are NOT replayed on the extracted model.  The
   reference is the built-in map as the Go specification describes it, driven by the same calls: an
   ordinary set of codes plus a COUNT of NaN members per variable -- every insertion of a NaN adds a
   member, Has(NaN) is false, Remove/RemoveAll/Pop cannot delete a NaN (Pop returns it and it stays),
   Equals/IsSubset are false as soon as the receiver holds a NaN (and is not empty / not larger),
   Intersect never takes a NaN, Clone copies them, and the clear builtin -- Clear -- removes them
   all.  [eval_nan] spells the expected output from that reference; [spec_nan] walks the
   implementation's output against it clause by clause, the clause for Clear first: after Clear the
   set has Len 0, IsEmpty, ranging over it meets nothing and Slice is empty. *)
module NS = Set.Make (Int)

type nan_var = { mutable nil : bool; mutable s : NS.t; mutable n : int }

let nan_len v = NS.cardinal v.s + v.n
let nan_dump v =
  if v.nil then "n" else
  let len = nan_len v in
  Printf.sprintf "%d%s:%s0:%d:%s:%d" len (if len = 0 then "E" else "F")
    (String.concat "" (List.init 4 (fun x -> b01 (NS.mem x v.s)))) v.n (str_ints (NS.elements v.s)) len

(* one call on the reference; the expected result *)
let nan_step k (r : nan_var array) p =
  if List.length p < 2 || List.length p > 3 then raise Bad_syntax;
  let v a = let i = int_of' (nth_arg p a) in if i < 0 || i >= k then raise Bad_syntax else i in
  let l a = let xs = ints_of' (nth_arg p a) in List.iter (fun x -> if x < -2 then raise Bad_syntax) xs; xs in
  let ord xs = NS.of_list (List.filter (fun x -> x >= 0) xs) and nans xs = List.length (List.filter (fun x -> x < 0) xs) in
  let i = v 1 in
  let x = r.(i) in
  let b c = "b" ^ b01 c in
  let set_to s n = x.nil <- false; x.s <- s; x.n <- n in
  match List.hd p with
  | "new" -> let xs = l 2 in set_to (ord xs) (nans xs); "C1"
  | "nil" -> x.nil <- true; x.s <- NS.empty; x.n <- 0; "R1"
  | "clone" -> let y = r.(v 2) in set_to y.s y.n; "C1"
  | "isect" ->
    let js = ints_of' (nth_arg p 2) in
    List.iter (fun j -> if j < 0 || j >= k then raise Bad_syntax) js;
    let s = (match js with [] -> NS.empty | j :: rest -> List.fold_left (fun a j -> NS.inter a r.(j).s) r.(j).s rest) in
    set_to s 0; "C1"
  | "add" -> let xs = l 2 in set_to (NS.union x.s (ord xs)) (x.n + nans xs); "R1"
  | "addall" ->
    let j = v 2 in if j = i then raise Bad_syntax;
    let y = r.(j) in
    if x.nil then set_to y.s y.n else set_to (NS.union x.s y.s) (x.n + y.n); "R1"
  | "rm" -> let xs = l 2 in x.s <- NS.diff x.s (ord xs); "R1"
  | "rmall" -> x.s <- NS.diff x.s r.(v 2).s; "R1"
  | "clear" -> if List.length p <> 2 then raise Bad_syntax; x.s <- NS.empty; x.n <- 0; "R1"
  | "pop" ->
    if nan_len x = 0 then "e0" else
    let c = int_of' (nth_arg p 2) in
    if c < 0 then (if x.n > 0 then "e-1" else "BADORDER")
    else if NS.mem c x.s then (x.s <- NS.remove c x.s; "e" ^ string_of_int c) else "BADORDER"
  | "has" -> (match l 2 with [c] -> b (c >= 0 && NS.mem c x.s) | _ -> raise Bad_syntax)
  | "hasall" -> let xs = l 2 in if nan_len x = 0 then b (xs = []) else b (List.for_all (fun c -> c >= 0 && NS.mem c x.s) xs)
  | "hasany" -> let xs = l 2 in b (List.exists (fun c -> c >= 0 && NS.mem c x.s) xs)
  | "len" -> "i" ^ string_of_int (nan_len x)
  | "empty" -> b (nan_len x = 0)
  | "eq" -> let y = r.(v 2) in b (nan_len x = nan_len y && x.n = 0 && NS.subset x.s y.s)
  | "sub" -> let y = r.(v 2) in b (nan_len x = 0 || (nan_len x <= nan_len y && x.n = 0 && NS.subset x.s y.s))
  | "meets" -> b (not (NS.disjoint x.s r.(v 2).s))
  | "slice" -> Printf.sprintf "l%s:%d:%s" (b01 (nan_len x > 0)) x.n (str_ints (NS.elements x.s))
  | _ -> raise Bad_syntax

let nan_fresh k = Array.init k (fun _ -> { nil = true; s = NS.empty; n = 0 })

let eval_nan k ops =
  let r = nan_fresh k in
  String.concat ";" (List.map (fun p ->
    match (try Some (nan_step k r p) with Bad_syntax | Failure _ -> None) with
    | None -> "?"
    | Some res -> String.concat "/" (res :: List.map nan_dump (Array.to_list r))) ops)

let spec_nan k ops out =
  let outs = if out = "" then [] else String.split_on_char ';' out in
  if List.length outs <> List.length ops then Some "number of outputs differs from number of operations" else
  let r = nan_fresh k in
  let rec go n ops outs =
    match ops, outs with
    | [], _ | _, [] -> None
    | p :: ops', o :: outs' ->
      let fail why =
        let o = String.concat ":" p in
        let o = if String.length o > 120 then String.sub o 0 120 ^ "..." else o in
        Some (Printf.sprintf "op#%d %s: %s" n o why) in
      let fields = String.split_on_char '/' o in
      let res = List.hd fields and dumps = List.tl fields in
      if res = "?" then go (n + 1) ops' outs' else
      (match (try Some (nan_step k r p) with Bad_syntax | Failure _ -> None) with
       | None -> fail "unreadable operation with a readable output"
       | Some want ->
         let name = List.hd p in
         let i = int_of' (nth_arg p 1) in
         if List.length dumps <> k then fail "bad dump count" else
         (* the clause this round is about: Clear removes ALL elements, the irreflexive ones too *)
         let d_i = List.nth dumps i in
         if name = "clear" && d_i <> "n" && d_i <> "0E:00000:0:.:0" then
           fail (Printf.sprintf "after Clear the set is not empty: dump %s (Len, IsEmpty, Has over 0..3 and a NaN : NaN members met by ranging : other members : length of Slice), must be 0E:00000:0:.:0" d_i)
         else if res <> want then
           fail (Printf.sprintf "result %s, a built-in map driven by the same calls gives %s" res want)
         else
           let rec chk j = function
             | [] -> None
             | d :: ds ->
               let w = nan_dump r.(j) in
               (* nil-ness is tracked by the reference as the API prescribes it *)
               if d <> w then Some (Printf.sprintf "afterwards v%d is %s, a built-in map driven by the same calls is %s" j d w) else chk (j + 1) ds in
           (match chk 0 dumps with Some why -> fail why | None -> go (n + 1) ops' outs'))
  in
  go 0 ops outs


let eval inp =
  match (try Some (parse_case inp) with Bad_syntax -> None) with
  | None -> "?"
  | Some (_, k, ops) when k >= 1 && k <= 8 && (match words inp with kind :: _ -> is_nan_kind0 kind | [] -> false) -> eval_nan k ops
  | Some (_, k, ops) when k >= 1 && k <= 8 && (match words inp with kind :: _ -> is_large kind | [] -> false) -> eval_large k ops
  | Some (scale, k, ops) ->
    if k < 1 || k > 8 then "?" else
    let st = ref (fun _ -> None) in
    let next = ref M.next0 in
    let outs = List.map (fun p ->
      let res =
        if List.hd p = "hasd" then
          (* Has of every item, one call of the model each; the variables do not change *)
          (match (try Some (var k (nth_arg p 1), ints_of' (nth_arg p 2)) with Bad_syntax | Failure _ -> None) with
           | None -> "?"
           | Some (i, l) ->
             let answers = List.map (fun x -> (x, snd (M.step eqb zero !st !next (M.OHas (i, x))))) l in
             next := M.bump !next;
             if List.exists (fun (_, r) -> match r with M.RBool _ -> false | _ -> true) answers then "UNMODELLED" else
             let yes = List.filter_map (fun (x, r) -> if r = M.RBool true then Some x else None) answers in
             "h" ^ string_of_int (List.length yes) ^ ":" ^ digest yes)
        else
        match (try Some (build_op k !st p) with Bad_syntax | Failure _ -> None) with
        | None -> "?"
        | Some o ->
          let st0 = !st and n0 = int_of_pos !next in
          let (st', r) = M.step eqb zero st0 !next o in
          st := st'; next := M.bump !next;
          show_res scale k st0 n0 st' p r in
      String.concat "/" (res :: List.init k (fun i -> try dump_model scale k !st i with Failure _ -> "UNMODELLED"))) ops in
    String.concat ";" outs

(* ---------------------------------------------------------------- the property on the implementation's output *)

(* reference sets: OCaml's own balanced-tree sets of codes (nothing of the model is used) *)
module IS = Set.Make (Int)
let set_of l = IS.of_list l
let show_set scale s = show_ints scale (IS.elements s)
let braces s = let l = IS.elements s in if longer l 40 then Printf.sprintf "a set of %d" (List.length l) else "{" ^ str_ints l ^ "}"

(* a dump against the reference set r of variable i: nil-ness is free (tracked, not prescribed),
   the rest is not *)
let check_dump scale i (r : IS.t) d =
  if d = "n" then (if IS.is_empty r then None else Some (Printf.sprintf "v%d is nil but the reference set is %s" i (braces r)))
  else
  match String.split_on_char '@' d with
  | [body; a] ->
    (match String.split_on_char ':' body with
     | [le; mask; keys] ->
       let n = String.length le in
       if n < 2 then Some "bad dump" else
       let len = int_of' (String.sub le 0 (n - 1)) and e = le.[n - 1] in
       let wantmask = String.concat "" (List.init mask_n (fun x -> b01 (IS.mem x r))) in
       if len <> IS.cardinal r then Some (Printf.sprintf "v%d.Len() = %d, reference set %s" i len (braces r))
       else if (e = 'E') <> IS.is_empty r then Some (Printf.sprintf "v%d.IsEmpty() wrong, reference set %s" i (braces r))
       else if mask <> wantmask then Some (Printf.sprintf "v%d.Has over 0..7 = %s, reference set %s" i mask (braces r))
       else if keys <> show_set scale r then Some (Printf.sprintf "v%d holds {%s}, reference set %s (%s)" i keys (braces r) (show_set scale r))
       else if int_of' a <> i then Some (Printf.sprintf "v%d and v%s share one map" i a)
       else None
     | _ -> Some "bad dump")
  | _ -> Some "bad dump"

let spec_case scale k ops out =
  let outs = if out = "" then [] else String.split_on_char ';' out in
  if List.length outs <> List.length ops then Some "number of outputs differs from number of operations" else
  let r = Array.make k IS.empty in    (* reference sets *)
  let isnil = Array.make k true in    (* nil-ness of every variable, read off the implementation's own dumps *)
  let fail n p why =
    let o = String.concat ":" p in
    let o = if String.length o > 120 then String.sub o 0 120 ^ "..." else o in
    Some (Printf.sprintf "op#%d %s: %s" n o why) in
  let rec go n ops outs =
    match ops, outs with
    | [], _ | _, [] -> None
    | p :: ops', o :: outs' ->
      let fields = String.split_on_char '/' o in
      let res = List.hd fields and dumps = List.tl fields in
      if res = "?" then go (n + 1) ops' outs' else
      (* "!" behind a result: the harness found the argument it handed in (item slice, the cells
         around a window, argument map, round 5: the list of operands of Intersect and the spare cell
         behind it) changed after the call *)
      if String.length res > 1 && res.[String.length res - 1] = '!' && res.[0] <> 'P' then
        fail n p "the callee wrote to its argument: the operand list / item slice / argument map differs from what was handed in" else
      (* round 6: "<" behind a result: values were left in the single-use sequence handed to Range *)
      if String.length res > 1 && res.[String.length res - 1] = '<' && res.[0] <> 'P' then
        fail n p "the callee stopped ranging over its sequence argument before the end: values were left in the single-use source" else
      let v a = let i = int_of' (nth_arg p a) in if i < 0 || i >= k then raise Bad_syntax else i in
      let l a = ints_of' (nth_arg p a) in
      let lnil a = if nth_arg p a = "nil" then [] else l a in
      let i = v 1 in
      let expect_res want = if res = want then None else Some (Printf.sprintf "result %s, set theory says %s" res want) in
      (* the identity part of a result S<id><=|!><0|1> *)
      let identity want why =
        let n = String.length res in
        if n < 4 || res.[0] <> 'S' then Some ("result " ^ res) else
        let id = String.sub res 1 (n - 3) and eq = res.[n - 2] and pz = res.[n - 1] in
        if id <> want then Some (Printf.sprintf "%s: returned map is '%s', must be '%s'" why id want)
        else if eq <> '=' then Some "the receiver/destination variable does not hold the returned map"
        else if pz <> '0' then Some "poisoning disagrees with the address comparison"
        else None in
      let fresh s = r.(i) <- s; identity "new" "the constructor must return a non-nil map that aliases no argument and no variable" in
      let receiver s = r.(i) <- s; identity (if isnil.(i) then "nil" else "v" ^ string_of_int i) "the method must return its receiver" in
      let receiver_alloc s = r.(i) <- s; identity (if isnil.(i) then "new" else "v" ^ string_of_int i) "the method must return its receiver (a new map for a nil receiver, never the argument)" in
      let verdict =
        match List.hd p with
        | "new" -> fresh (set_of (l 2))
        | "keys" | "values" -> fresh (set_of (lnil 2))
        | "range" -> if nth_arg p 2 = "nil" then expect_res "PANIC:nil" else fresh (set_of (l 2))
        | "keysv" | "rangev" -> fresh r.(v 2)
        | "newsize" -> fresh IS.empty
        | "nil" -> r.(i) <- IS.empty; expect_res "Snil=0"
        | "clone" -> fresh r.(v 2)
        | "isect" ->
          let js = l 2 in
          List.iter (fun j -> if j < 0 || j >= k then raise Bad_syntax) js;
          fresh (match js with [] -> IS.empty | j :: rest -> List.fold_left (fun a j -> IS.inter a r.(j)) r.(j) rest)
        | "add" -> receiver_alloc (IS.union r.(i) (set_of (l 2)))
        | "addall" -> receiver_alloc (IS.union r.(i) r.(v 2))
        | "rm" -> receiver (IS.diff r.(i) (set_of (l 2)))
        | "rmall" -> receiver (IS.diff r.(i) r.(v 2))
        | "clear" -> receiver IS.empty
        | "pop" ->
          if IS.is_empty r.(i) then expect_res "e0"
          else if String.length res < 2 || res.[0] <> 'e' then Some ("result " ^ res)
          else
            let x = int_of' (String.sub res 1 (String.length res - 1)) in
            if not (IS.mem x r.(i)) then Some (Printf.sprintf "Pop returned %d, not a member of %s" x (braces r.(i)))
            else (r.(i) <- IS.remove x r.(i); None)
        | "has" -> expect_res ("b" ^ b01 (IS.mem (int_of' (nth_arg p 2)) r.(i)))
        | "hasd" ->
          let yes = List.filter (fun x -> IS.mem x r.(i)) (l 2) in
          (match expect_res ("h" ^ string_of_int (List.length yes) ^ ":" ^ digest yes) with
           | None -> None
           | Some _ -> Some (Printf.sprintf "Has, asked about each of the %d items: answers %s, by membership in the reference set %d say yes (%s)"
                               (List.length (l 2)) res (List.length yes) (digest yes)))
        | "hasall" -> expect_res ("b" ^ b01 (List.for_all (fun x -> IS.mem x r.(i)) (l 2)))
        | "hasany" -> expect_res ("b" ^ b01 (List.exists (fun x -> IS.mem x r.(i)) (l 2)))
        | "len" -> expect_res ("i" ^ string_of_int (IS.cardinal r.(i)))
        | "empty" -> expect_res ("b" ^ b01 (IS.is_empty r.(i)))
        | "meets" -> expect_res ("b" ^ b01 (not (IS.disjoint r.(i) r.(v 2))))
        | "sub" -> expect_res ("b" ^ b01 (IS.subset r.(i) r.(v 2)))
        | "eq" -> expect_res ("b" ^ b01 (IS.equal r.(i) r.(v 2)))
        | "slice" | "append" | "appendf" | "appendc" ->
          let (prefix, order) = if List.hd p = "slice" then (".", nth_arg p 2) else ((if nth_arg p 2 = "n" then "." else str_ints (l 2)), nth_arg p 3) in
          let fields = String.split_on_char ':' res in
          (* appendc: the two digits behind say where the result lives and whether cells outside the
             appended range were written; by the language's rule for append the array of vs is used
             iff its spare capacity holds every member *)
          let (fields, place) =
            match List.hd p, fields with
            | "appendc", [a; b; c; d] ->
              let room = int_of' (nth_arg p 4) and card = IS.cardinal r.(i) in
              let want = b01 (card = 0 || room >= card) ^ "0" in
              ([a; b; c], if d = want then None else
                 Some (Printf.sprintf "Append onto len %d cap %d of a set of %d: placement/clobber digits %s, must be %s (in place iff the spare capacity suffices; no cell outside the appended range written)"
                         (List.length (l 2)) (List.length (l 2) + room) card d want))
            | "appendc", [_; "short"; _] -> (fields, None)
            | "appendc", _ -> ([], None)
            | _ -> (fields, None) in
          (match fields with
           | [nonnil; pre; rest] ->
             if pre = "short" then Some "the result is shorter than the slice given"
             else if pre <> prefix then Some "the given prefix was not preserved"
             else if rest <> show_set scale r.(i) then Some (Printf.sprintf "listed {%s}, members %s (%s): not each member exactly once" rest (braces r.(i)) (show_set scale r.(i)))
             else if not (scale && order = "#") && sorted (ints_of' order) <> IS.elements r.(i) then Some "the recorded order is not an enumeration of the members"
             else if List.hd p = "slice" && (nonnil = "l1") <> not (IS.is_empty r.(i)) then Some "Slice must be nil exactly for the empty set"
             else place
           | _ -> Some ("result " ^ res))
        | _ -> raise Bad_syntax in
      (match verdict with
       | Some why -> fail n p why
       | None ->
         if List.length dumps <> k then fail n p "bad dump count" else
         let rec chk j = function
           | [] -> None
           | d :: ds -> (match check_dump scale j r.(j) d with Some why -> fail n p ("afterwards " ^ why) | None -> chk (j + 1) ds) in
         (match chk 0 dumps with
          | Some x -> Some x
          | None ->
            (* nil-ness: only the receiver/destination may change it, and only as the API says *)
            let nil_now = Array.of_list (List.map (fun d -> d = "n") dumps) in
            let name = List.hd p in
            let panicked = String.length res >= 5 && String.sub res 0 5 = "PANIC" in
            let bad = ref None in
            Array.iteri (fun j was ->
              if !bad = None then
                if j <> i || panicked then (if nil_now.(j) <> was then bad := Some (Printf.sprintf "nil-ness of v%d changed" j))
                else match name with
                  | "new" | "range" | "keys" | "values" | "keysv" | "rangev" | "newsize" | "clone" | "isect" | "add" | "addall" ->
                    if nil_now.(j) then bad := Some "the constructed/receiving set is nil"
                  | "nil" -> if not nil_now.(j) then bad := Some "nil assignment did not take"
                  | _ -> if nil_now.(j) <> was then bad := Some (Printf.sprintf "nil-ness of v%d changed" j)) isnil;
            (match !bad with
             | Some why -> fail n p ("afterwards " ^ why)
             | None -> Array.blit nil_now 0 isnil 0 k; go (n + 1) ops' outs')))
  in
  go 0 ops outs

let spec prop inp out =
  if prop <> "C18" then None else
  match (try Some (parse_case inp) with Bad_syntax | Failure _ -> None) with
  | None -> None                                  (* not an input of this harness *)
  | Some (scale, k, ops) ->
    if k < 1 || k > 8 then None else
    (* the input parses: from here on anything unreadable is the implementation's output *)
    try (if (match words inp with kind :: _ -> is_nan_kind0 kind | [] -> false) then spec_nan k ops out else spec_case scale k ops out) with
    | Bad_syntax -> if String.contains out '?' then None else Some "unreadable output"
    | Failure _ | Invalid_argument _ | Not_found -> Some "unreadable output"

let () = run_main ~eval ~spec
