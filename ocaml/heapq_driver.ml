(* Replays heapqtrace lines on the extracted model (HeapqModel, instance HeapqInst) and evaluates
   properties C05/C06 on the implementation's own outputs.  Trace syntax: see
   harness/cmd/heapqtrace/main.go. *)

type e = int * int                                     (* key, payload *)
let e_str (k, p) = string_of_int k ^ "." ^ string_of_int p
let es_str l = String.concat "," (List.map e_str l)

let int_opt s =
  if s = "" || String.length s > 9 || String.contains s '+' || String.contains s ' ' then None
  else int_of_string_opt s
let elem_opt s : e option =
  match String.index_opt s '.' with
  | Some i when i > 0 ->
    (match int_opt (String.sub s 0 i), int_opt (String.sub s (i+1) (String.length s - i - 1)) with
     | Some k, Some p -> Some (k, p) | _ -> None)
  | _ -> None
let elems_opt s : e list option =
  if s = "" then Some [] else
  let parts = List.map elem_opt (String.split_on_char ',' s) in
  if List.mem None parts then None else Some (List.map Option.get parts)
(* the comparison function, by code (harness cmpOf / HeapqInst.ccmp) *)
let dir_opt = function
  | "a" -> Some 0 | "d" -> Some 1 | "A" -> Some 2 | "D" -> Some 3
  | "m" -> Some 4 | "M" -> Some 5 | "z" -> Some 6 | "p" -> Some 7 | _ -> None

type pop =
  | PNew of int | PNewData of int * e list | PAdd of e | PPop | PRemove of int | PX of int
  | PPeek of int | PFront | PSet of e list | PReorder of int | PClear | PLen | PIsEmpty | PEach of int
  | PUpdate of bool
  | PBad

let parse_op (s : string) : pop =
  if s = "" then PBad else
  let arg = String.sub s 1 (String.length s - 1) in
  let noarg r = if arg = "" then r else PBad in
  match s.[0] with
  | 'n' -> (match dir_opt arg with Some d -> PNew d | None -> PBad)
  | 'w' -> if arg = "" then PBad else
    (match dir_opt (String.sub arg 0 1), elems_opt (String.sub arg 1 (String.length arg - 1)) with
     | Some d, Some l -> PNewData (d, l) | _ -> PBad)
  | 'a' -> (match elem_opt arg with Some x -> PAdd x | None -> PBad)
  | 'p' -> noarg PPop
  | 'r' -> (match int_opt arg with Some n -> PRemove n | None -> PBad)
  | 'x' -> (match int_opt arg with Some n -> PX n | None -> PBad)
  | 'k' -> (match int_opt arg with Some n -> PPeek n | None -> PBad)
  | 'f' -> noarg PFront
  | 's' -> (match elems_opt arg with Some l -> PSet l | None -> PBad)
  | 'o' -> (match dir_opt arg with Some d -> PReorder d | None -> PBad)
  | 'c' -> noarg PClear
  | 'l' -> noarg PLen
  | 'e' -> noarg PIsEmpty
  | 'E' -> (match int_opt arg with Some k when k >= 0 -> PEach k | _ -> PBad)
  | 'U' -> (match arg with "0" -> PUpdate false | "1" -> PUpdate true | _ -> PBad)
  | _ -> PBad

let cut_kind inp =
  let at i = (String.sub inp 0 i, String.sub inp (i+1) (String.length inp - i - 1)) in
  match String.index_opt inp ' ' with
  | Some i -> at i
  | None -> (match String.index_opt inp '_' with Some i -> at i | None -> (inp, ""))   (* extras print '_' for the blank *)

(* ------------------------------------------------------------------ the model *)
let me (k, p) = (z_of_int k, z_of_int p)
let em (k, p) = (int_of_z k, int_of_z p)

(* Z <n>: Set on heapq.Queue[struct{}] of n elements, the generated child-index expression
   evaluated at Go's int width (M.zset64) or with unbounded integers (M.zset_ideal) *)
let z_arg rest =
  if rest = "" || String.length rest > 19 || not (String.for_all (fun c -> c >= '0' && c <= '9') rest) then None
  else Some (z_of_string rest)
let zres_str = function
  | M.ZOk n -> "ok " ^ string_of_z n
  | M.ZIndexPanic i -> "PANIC:index[" ^ string_of_z i ^ "]"
  | M.ZRefused -> "?"
let eval_z (f : M.z -> M.zres) rest =
  match z_arg rest with
  | None -> "?"
  | Some n ->
    if M.z_refused n then "?" else
    let r = zres_str (f n) in
    (* for small n the list model itself (Set of n equal elements under the all-tie comparison) must agree *)
    if M.z_small n then begin
      let k = int_of_z n in
      let l = List.init k (fun _ -> (z_of_int 0, z_of_int 0)) in
      match M.q_step M.current_variant (M.q_new (z_of_int 6)) (M.OSet l) with
      | M.Ok (q', _) when List.length (M.q_data q') = k -> r
      | _ -> "MODEL-DISAGREES"
    end else r

(* ------------------------------------------------------------------ B lines: the scale stream
   (harness/cmd/heapqtrace/big.go).  Batched operations, element lists given by generators, records
   bounded by digests. *)
let fnv64 s =
  let h = ref 0xcbf29ce484222325L in
  String.iter (fun c -> h := Int64.mul (Int64.logxor !h (Int64.of_int (Char.code c))) 0x100000001b3L) s;
  Printf.sprintf "%Lx" !h
let fnv_elems l = fnv64 (es_str l)

(* -?[0-9]+ of at most 9 characters *)
let sint_opt s =
  let n = String.length s in
  if n = 0 || n > 9 then None else
  let st = if s.[0] = '-' then 1 else 0 in
  if st = n then None else
  let ok = ref true in
  String.iteri (fun i c -> if i >= st && (c < '0' || c > '9') then ok := false) s;
  if !ok then int_of_string_opt s else None

let big_max_n = 10000
type gspec = { pat : char; gn : int; ga : int; gb : int; gc : int }
let gspec_opt s =
  if String.length s < 2 || not (String.contains "udezbr" s.[0]) then None else
  let mk n a b c =
    let g = { pat = s.[0]; gn = n; ga = a; gb = b; gc = c } in
    if n < 0 || n > big_max_n || c < 0 || c > big_max_n then None
    else if (g.pat = 'b' && b < 1) || (g.pat = 'r' && (a < 1 || b < 0)) then None
    else Some g in
  match List.map sint_opt (String.split_on_char ',' (String.sub s 1 (String.length s - 1))) with
  | [Some n; Some a; Some b] -> mk n a b 0
  | [Some n; Some a; Some b; Some c] -> mk n a b c
  | _ -> None
let gkeys g =
  let x = ref g.gb in
  List.init g.gn (fun j ->
    match g.pat with
    | 'u' -> g.ga + j
    | 'd' -> g.ga + (g.gn - 1 - j)
    | 'e' -> g.ga
    | 'z' -> if j mod 2 = 0 then g.ga + j else g.ga + 2 * g.gn - j
    | 'b' -> g.ga + j / g.gb
    | _ -> x := (!x * 1103515245 + 12345) land 0x7fffffff; 1 + (!x lsr 8) mod g.ga)
(* the elements of a generator; payloads are handed out from the counter *)
let gelems (nextp : int ref) g : e list =
  List.map (fun k -> let p = !nextp in incr nextp; (k, p)) (gkeys g)

type bop =
  | BNew of int | BNewData of int * gspec | BSet of gspec | BAdd of gspec | BPop of int
  | BRemove of int | BX of int | BReorder of int | BClear | BUpdate of bool | BObs of int | BBad
let parse_bop s =
  if s = "" then BBad else
  let arg = String.sub s 1 (String.length s - 1) in
  match s.[0] with
  | 'n' -> (match dir_opt arg with Some d -> BNew d | None -> BBad)
  | 'W' -> if arg = "" then BBad else
    (match dir_opt (String.sub arg 0 1), gspec_opt (String.sub arg 1 (String.length arg - 1)) with
     | Some d, Some g -> BNewData (d, g) | _ -> BBad)
  | 'S' -> (match gspec_opt arg with Some g -> BSet g | None -> BBad)
  | 'A' -> (match gspec_opt arg with Some g -> BAdd g | None -> BBad)
  | 'P' -> (match sint_opt arg with Some k when k >= 0 && k <= big_max_n -> BPop k | _ -> BBad)
  | 'R' -> (match sint_opt arg with Some i -> BRemove i | None -> BBad)
  | 'X' -> (match sint_opt arg with Some p -> BX p | None -> BBad)
  | 'o' -> (match dir_opt arg with Some d -> BReorder d | None -> BBad)
  | 'c' -> if arg = "" then BClear else BBad
  | 'U' -> (match arg with "0" -> BUpdate false | "1" -> BUpdate true | _ -> BBad)
  | 'O' -> (match sint_opt arg with Some k when k >= 0 -> BObs k | _ -> BBad)
  | _ -> BBad

let is_pow2_ n = n > 0 && n land (n - 1) = 0
let add_sampled j cnt m = j < 3 || j >= cnt - 3 || is_pow2_ m || is_pow2_ (m + 1) || is_pow2_ (m + 2)
let window_of (lay : e list) =
  let n = List.length lay in
  List.filteri (fun i _ -> i < 3 || i >= n - 3) lay

(* the comparison functions by code, written out here independently of the model (OCaml's /
   truncates towards zero like Go's); used by the spec and by the trigger conditions below *)
let kcmp code ((a, pa) : e) ((b, pb) : e) =
  match code with
  | 0 -> compare a b
  | 1 -> - (compare a b)
  | 2 -> 3 * (a - b)
  | 3 -> 7 * (b - a)
  | 4 -> compare (a / 4) (b / 4)
  | 5 -> (b / 4 - a / 4) * 2
  | 6 -> 0
  | _ -> pa - pb

exception Stop of string
(* per record of the last B line evaluated: had a trigger of finding F1 / F2 occurred, on the MODEL's
   layouts, since the last reset when the op of that record began?  (Used only after the model under
   the pinned variant has reproduced the implementation's records, digests included.) *)
let model_taints : (bool * bool) array ref = ref [||]

let eval_big (v : M.variant) (rest : string) : string =
  let q = ref (M.q_new (z_of_int 0)) and desc = ref 0 and rep = ref true and nextp = ref 1 in
  let pos : (int, int) Hashtbl.t = Hashtbl.create 64 in
  let t1 = ref false and t2 = ref false in
  let mvn = ref 0 and mvb = Buffer.create 256 in
  let taints = ref [] in
  let layout () = List.map em (M.q_data !q) in
  (* one call of the model *)
  let step (o : (M.z * M.z) M.op) : (M.z * M.z) M.out =
    let before = M.q_data !q in
    (match o with
     | M.OAdd x ->
       let nn = List.length before in
       if not (nn <= 2 || is_pow2_ (nn + 1)
               || (kcmp !desc (em (List.nth before (nn / 2))) (em x) <= 0
                   && kcmp !desc (em (List.nth before ((nn - 1) / 2))) (em x) <= 0)) then t1 := true
     | M.ORemove zi ->
       let i = int_of_z zi and len0 = List.length before in
       if i > 0 && i < len0 - 1
          && kcmp !desc (em (List.nth before ((i - 1) / 2))) (em (List.nth before (len0 - 1))) > 0 then t2 := true
     | _ -> ());
    match M.q_step v !q o with
    | M.IndexPanic -> raise (Stop "PANIC:index")
    | M.OutOfFuel -> raise (Stop "FUEL")
    | M.Ok (q', (r, mv)) ->
      q := q';
      if !rep then List.iter (fun (x, i) ->
        let x = em x and i = int_of_z i in
        if !mvn > 0 then Buffer.add_char mvb ',';
        Buffer.add_string mvb (e_str x ^ ":" ^ string_of_int i);
        incr mvn;
        Hashtbl.replace pos (snd x) i) mv;
      (match o with
       | M.ONew _ | M.ONewWithData _ | M.OSet _ | M.OReorder _ | M.OClear -> t1 := false; t2 := false
       | _ -> ());
      (match M.q_data q' with [] | [_] -> t1 := false; t2 := false | _ -> ());
      r in
  let vstr = function M.RVal (Some x) -> "v" ^ e_str (em x) | M.RVal None -> "-" | M.RPanic -> "!" | _ -> "BADRES" in
  let state () =
    let lay = layout () in
    let wrongn = ref 0 and missn = ref 0 and wrong = Buffer.create 16 and miss = Buffer.create 16 in
    List.iteri (fun i (x : e) ->
      match Hashtbl.find_opt pos (snd x) with
      | None -> incr missn; if !missn <= 8 then Buffer.add_string miss (Printf.sprintf ":%s@%d" (e_str x) i)
      | Some p -> if p <> i then begin
          incr wrongn; if !wrongn <= 8 then Buffer.add_string wrong (Printf.sprintf ":%s@%d=%d" (e_str x) i p) end) lay;
    Printf.sprintf "%d/%s/%s/%s/%d%s/%d%s" (List.length lay) (fnv_elems lay) (fnv_elems (List.sort compare lay))
      (es_str (window_of lay)) !wrongn (Buffer.contents wrong) !missn (Buffer.contents miss) in
  let run (o : bop) : string =           (* the result part; "?" = unreadable *)
    match o with
    | BBad -> "?"
    | BNew d -> Hashtbl.reset pos; rep := true; ignore (step (M.ONew (M.ccmp (z_of_int d)))); desc := d; "u"
    | BNewData (d, g) ->
      let es = gelems nextp g in
      Hashtbl.reset pos; rep := false;
      ignore (step (M.ONewWithData (M.ccmp (z_of_int d), List.map me es))); desc := d; rep := true; "u"
    | BSet g -> let es = gelems nextp g in ignore (step (M.OSet (List.map me es))); "u"
    | BAdd g ->
      let es = gelems nextp g in
      let cnt = List.length es in
      let idxs = ref [] and samples = ref [] in
      List.iteri (fun j x ->
        let m = List.length (M.q_data !q) in
        let idx = (match step (M.OAdd (me x)) with M.RIdx i -> int_of_z i | _ -> -1) in
        idxs := string_of_int idx :: !idxs;
        if add_sampled j cnt m then begin
          let pk = (match (if idx >= 0 then List.nth_opt (M.q_data !q) idx else None) with Some y -> e_str (em y) | None -> "-") in
          let rp = (match Hashtbl.find_opt pos (snd x) with Some p -> string_of_int p | None -> "-") in
          samples := Printf.sprintf "%d=%d/%s/%s" j idx pk rp :: !samples
        end) es;
      Printf.sprintf "i%d:%s:%s" cnt (fnv64 (String.concat "," (List.rev !idxs))) (String.concat "," (List.rev !samples))
    | BPop k ->
      let got = ref [] in
      for _ = 1 to k do
        match step M.OPop with M.RVal (Some x) -> got := em x :: !got | _ -> ()
      done;
      Printf.sprintf "v%d:%s" (List.length !got) (es_str (List.rev !got))
    | BRemove i ->
      if i < 0 then (match step (M.ORemove (z_of_int i)) with M.RPanic -> "!" | r -> vstr r ^ "/?")
      else begin
        let pk = vstr (step (M.OPeek (z_of_int i))) in
        vstr (step (M.ORemove (z_of_int i))) ^ "/" ^ pk
      end
    | BX p ->
      (match Hashtbl.find_opt pos p with
       | Some i when i >= 0 -> vstr (step (M.ORemove (z_of_int i)))
       | _ -> "?")
    | BReorder d -> ignore (step (M.OReorder (M.ccmp (z_of_int d)))); desc := d; "u"
    | BClear -> ignore (step M.OClear); "u"
    | BUpdate b -> rep := b; if not b then Hashtbl.reset pos; "u"
    | BObs k ->
      let n = (match step M.OLen with M.RNum n -> int_of_z n | _ -> -1) in
      let b = (match step M.OIsEmpty with M.RBool b -> b01 b | _ -> "?") in
      let f = (match step M.OFront with M.RVal (Some x) -> e_str (em x) | M.RVal None -> "0.0" | _ -> "?") in
      let each k = (match step (M.OEach (nat_of_int k)) with M.RList l -> List.map em l | _ -> []) in
      let all = each 0 and some = each k in
      let swept i = n <= 1100 || i < 300 || i >= n - 300 || i mod 16 = 0 || is_pow2_ i || is_pow2_ (i + 1) || is_pow2_ (i + 2) in
      let peeks = List.filter_map (fun i ->
        if swept i then Some (match step (M.OPeek (z_of_int i)) with M.RVal (Some x) -> e_str (em x) | _ -> "missing") else None)
        (List.init (max n 0) (fun i -> i)) in
      Printf.sprintf "n%d,b%s,f%s,E%d:%s,e%d:%s,K%s,%s,%s" n b f (List.length all) (fnv_elems all)
        (List.length some) (fnv_elems some) (fnv64 (String.concat "," peeks))
        (vstr (step (M.OPeek (z_of_int (-1))))) (vstr (step (M.OPeek (z_of_int n)))) in
  let outs = ref [] in
  (try
    List.iter (fun s ->
      taints := (!t1, !t2) :: !taints;
      mvn := 0; Buffer.clear mvb;
      match (try run (parse_bop s) with Stop m -> outs := m :: !outs; raise Exit) with
      | "?" -> outs := "?" :: !outs
      | res -> outs := Printf.sprintf "%s@%d:%s#%s" res !mvn (fnv64 (Buffer.contents mvb)) (state ()) :: !outs)
      (String.split_on_char ';' rest)
  with Exit -> ());
  model_taints := Array.of_list (List.rev !taints);
  String.concat ";" (List.rev !outs)


(* ------------------------------------------------------------------ T lines: heapq.Sort observed
   through digests (harness/cmd/heapqtrace/r4.go).  T <mode><dir><G>[+<off>] *)
type tline = { tmode : char; tdir : int; tg : gspec; toff : int }
let tline_opt rest =
  if String.length rest < 4 || not (rest.[0] = 'x' || rest.[0] = 'q') then None else
  match dir_opt (String.sub rest 1 1) with
  | None -> None
  | Some d ->
    let gs = String.sub rest 2 (String.length rest - 2) in
    let (gs, off) = (match String.index_opt gs '+' with
      | Some i -> (String.sub gs 0 i, int_opt (String.sub gs (i+1) (String.length gs - i - 1)))
      | None -> (gs, Some 0)) in
    (match gspec_opt gs, off with
     | Some g, Some o when o >= 0 && o <= big_max_n -> Some { tmode = rest.[0]; tdir = d; tg = g; toff = o }
     | _ -> None)
let t_elems t : e list = List.mapi (fun j k -> (k, j + 1)) (gkeys t.tg)
(* the comparison class of an element: what a sorted arrangement is determined by *)
let t_class d ((k, p) : e) = match d with 4 | 5 -> k / 4 | 6 -> 0 | 7 -> p | _ -> k
(* the record of a window that holds r after the call (nothing outside it touched) *)
let t_render ~exact d (r : e list) =
  let inv = ref 0 and first = ref (-1) in
  let rec scan i = function
    | a :: (b :: _ as tl) -> if kcmp d a b > 0 then begin (if !inv = 0 then first := i); incr inv end; scan (i + 1) tl
    | _ -> () in
  scan 0 r;
  Printf.sprintf "n%d,%s,o0,c%s,p%s%s" (List.length r)
    (if !inv = 0 then "i0" else Printf.sprintf "i%d@%d" !inv !first)
    (fnv64 (String.concat "," (List.map (fun x -> string_of_int (t_class d x)) r)))
    (fnv_elems (List.sort compare r))
    (if exact then ",x" ^ fnv_elems r else "")
(* lines of mode x, and all lines of at most this many elements, are replayed on the extracted model *)
let t_replayed_upto = 128

let eval_with_ (v : M.variant) (inp : string) : string =
  match cut_kind inp with
  | ("B", rest) -> eval_big v rest
  | ("Z", rest) -> eval_z M.zset64 rest
  | ("T", rest) ->
    (match tline_opt rest with
     | None -> "?"
     | Some t ->
       let l = t_elems t in
       if t.tmode = 'x' || t.tg.gn <= t_replayed_upto then
         (match M.q_sort v (z_of_int t.tdir) (List.map me l) with
          | M.Ok r -> t_render ~exact:(t.tmode = 'x') t.tdir (List.map em r)
          | M.IndexPanic -> "PANIC:index"
          | M.OutOfFuel -> "FUEL")
       else
         (* not replayed (the list-based model is quadratic): the record of mode q consists of
            values that every sorted permutation of the input shares, and the model's Sort returns
            one (theorem C05_sort); they are computed here with OCaml's own sort *)
         t_render ~exact:false t.tdir (List.stable_sort (kcmp t.tdir) l))
  | ("S", rest) ->
    if rest = "" then "?" else
    (match dir_opt (String.sub rest 0 1), elems_opt (String.sub rest 1 (String.length rest - 1)) with
     | Some d, Some l ->
       (match M.q_sort v (z_of_int d) (List.map me l) with
        | M.Ok r -> es_str (List.map em r)
        | M.IndexPanic -> "PANIC:index"
        | M.OutOfFuel -> "FUEL")
     | _ -> "?")
  | ("H", rest) ->
    let q = ref (M.q_new (z_of_int 0)) in
    let pos : (int, int) Hashtbl.t = Hashtbl.create 16 in
    let outs = ref [] in
    let stop = ref false in
    let rep = ref true in                      (* is an update function installed? *)
    List.iter (fun s ->
      if not !stop then begin
        (match parse_op s with PNew _ | PNewData _ -> rep := true | _ -> ());
        match parse_op s with
        | PUpdate b -> rep := b; outs := ("u@#" ^ es_str (List.map em (M.q_data !q))) :: !outs
        | pop_ ->
        let mop = match pop_ with
          | PBad | PUpdate _ -> None
          | PNew d -> Some (M.ONew (M.ccmp (z_of_int d)))
          | PNewData (d, l) -> Some (M.ONewWithData (M.ccmp (z_of_int d), List.map me l))
          | PAdd x -> Some (M.OAdd (me x))
          | PPop -> Some M.OPop
          | PRemove n -> Some (M.ORemove (z_of_int n))
          | PX p -> (match Hashtbl.find_opt pos p with Some n -> Some (M.ORemove (z_of_int n)) | None -> None)
          | PPeek n -> Some (M.OPeek (z_of_int n))
          | PFront -> Some M.OFront
          | PSet l -> Some (M.OSet (List.map me l))
          | PReorder d -> Some (M.OReorder (M.ccmp (z_of_int d)))
          | PClear -> Some M.OClear
          | PLen -> Some M.OLen
          | PIsEmpty -> Some M.OIsEmpty
          | PEach k -> Some (M.OEach (nat_of_int k)) in
        match mop with
        | None -> outs := "?" :: !outs
        | Some o ->
          (match M.q_step v !q o with
           | M.IndexPanic -> outs := "PANIC:index" :: !outs; stop := true
           | M.OutOfFuel -> outs := "FUEL" :: !outs; stop := true
           | M.Ok (q', (r, mv)) ->
             q := q';
             let mv = if !rep then List.map (fun (x, i) -> (em x, int_of_z i)) mv else [] in
             List.iter (fun ((_, p), i) -> Hashtbl.replace pos p i) mv;
             let res = match r with
               | M.RIdx i -> "i" ^ string_of_int (int_of_z i)
               | M.RVal (Some x) -> "v" ^ e_str (em x)
               | M.RVal None -> (match o with M.OFront -> "v0.0" | _ -> "-")
               | M.RPanic -> "!"
               | M.RUnit -> "u"
               | M.RNum n -> "n" ^ string_of_int (int_of_z n)
               | M.RBool b -> "b" ^ b01 b
               | M.RList l -> "[" ^ es_str (List.map em l) ^ "]" in
             outs := (res ^ "@" ^ String.concat "," (List.map (fun (x, i) -> e_str x ^ ":" ^ string_of_int i) mv)
                      ^ "#" ^ es_str (List.map em (M.q_data q'))) :: !outs)
      end) (String.split_on_char ';' rest);
    String.concat ";" (List.rev !outs)
  | _ -> "?"

(* the last evaluations are remembered (the known-finding rule below evaluates the same line under
   up to four variants, one of which the main loop has just computed) *)
let memo : (string * M.variant * string * (bool * bool) array) list ref = ref []
let eval_with (v : M.variant) (inp : string) : string =
  match List.find_opt (fun (i, w, _, _) -> w = v && String.equal i inp) !memo with
  | Some (_, _, o, t) -> model_taints := t; o
  | None ->
    let o = eval_with_ v inp in
    memo := (inp, v, o, !model_taints) :: (match !memo with a :: b :: c :: _ -> [a; b; c] | l -> l);
    o

let eval = eval_with M.current_variant

(* ------------------------------------------------------------------ the property on an output *)
exception Fail of string
let failf fmt = Printf.ksprintf (fun s -> raise (Fail s)) fmt


(* Has a trigger of known finding F1 / F2 (coq/Heapq/HeapqTriggerSpec.v, theorem
   C05_min_since_reset) occurred since the queue was last ordered by a reset (New, NewWithData,
   Set, Reorder, Clear, or holding at most one element)?  Computed from the implementation's own
   layouts.  A minimality failure with neither flag set cannot be the known findings. *)
let taint_f1 = ref false and taint_f2 = ref false
let is_pow2 n = n > 0 && n land (n - 1) = 0

let rec remove_one x = function
  | [] -> None
  | y :: r -> if y = x then Some r else (match remove_one x r with Some r' -> Some (y :: r') | None -> None)
let same_multiset a b = List.sort compare a = List.sort compare b

let must_elems what s = match elems_opt s with Some l -> l | None -> failf "%s: unreadable element list" what

(* "<res>@<moves>#<layout>" *)
let split_out n s =
  match String.index_opt s '@', String.rindex_opt s '#' with
  | Some i, Some j when i < j ->
    let res = String.sub s 0 i and mv = String.sub s (i+1) (j-i-1) and lay = String.sub s (j+1) (String.length s - j - 1) in
    let mv = if mv = "" then [] else List.map (fun m ->
      match String.rindex_opt m ':' with
      | Some c -> (match elem_opt (String.sub m 0 c), int_opt (String.sub m (c+1) (String.length m - c - 1)) with
                   | Some x, Some i -> (x, i) | _ -> failf "op#%d: unreadable move" n)
      | None -> failf "op#%d: unreadable move" n) (String.split_on_char ',' mv) in
    (res, mv, must_elems (Printf.sprintf "op#%d layout" n) lay)
  | _ -> failf "op#%d: output %s" n (if String.length s > 40 then String.sub s 0 40 else s)

let check_sort rest out =
  if rest = "" then () else
  match dir_opt (String.sub rest 0 1), elems_opt (String.sub rest 1 (String.length rest - 1)) with
  | Some d, Some l ->
    if String.length out >= 5 && String.sub out 0 5 = "PANIC" then failf "Sort panicked";
    let r = must_elems "Sort output" out in
    if not (same_multiset l r) then failf "Sort output is not a permutation of its argument";
    let rec sorted = function a :: (b :: _ as t) -> kcmp d a b <= 0 && sorted t | _ -> true in
    if not (sorted r) then failf "Sort output is not in non-decreasing order"
  | _ -> ()

(* T lines: the property on the digests.  A sorted arrangement of the input has exactly one sequence
   of comparison classes (computed here from the input with OCaml's sort under the comparison
   written out above) and, being a permutation, the input's digest when sorted by (key, payload). *)
let check_sort_digest rest out =
  match tline_opt rest with
  | None -> ()
  | Some t ->
    if String.length out >= 5 && String.sub out 0 5 = "PANIC" then failf "Sort panicked";
    let l = t_elems t in
    (match String.split_on_char ',' out with
     | n :: i :: _o :: c :: p :: _ ->
       if n <> "n" ^ string_of_int t.tg.gn then failf "Sort: the argument has %s elements after the call, %d before" n t.tg.gn;
       if p <> "p" ^ fnv_elems (List.sort compare l) then
         failf "Sort output is not a permutation of its argument (digest of the argument's %d elements sorted by (key, payload): %s, of the input's: p%s)" t.tg.gn p (fnv_elems (List.sort compare l));
       if i <> "i0" then failf "Sort output is not in non-decreasing order (adjacent pairs out of order: %s)" i;
       let want = fnv64 (String.concat "," (List.map (fun x -> string_of_int (t_class t.tdir x)) (List.stable_sort (kcmp t.tdir) l))) in
       if c <> "c" ^ want then failf "Sort output is not the sorted arrangement of the input (digest of its comparison classes %s, of the sorted input's c%s)" c want
     | _ -> failf "Sort: record %s" (if String.length out > 60 then String.sub out 0 60 else out))

let check_history (prop : string) (rest : string) (out : string) : unit =
  let c05 = (prop <> "C06") and c06 = (prop = "C06") in
  let ops = String.split_on_char ';' rest in
  let outs = if out = "" then [] else String.split_on_char ';' out in
  let held = ref [] and desc = ref 0 and prev = ref [] and inst = ref true in
  taint_f1 := false; taint_f2 := false;
  let pos : (int, int) Hashtbl.t = Hashtbl.create 16 in
  let tracked : (int, unit) Hashtbl.t = Hashtbl.create 16 in
  let take n what x =
    match remove_one x !held with
    | Some r -> held := r; Hashtbl.remove tracked (snd x)
    | None -> failf "op#%d %s returned %s which is not held" n what (e_str x) in
  let minimal n what x =
    if c05 then List.iter (fun y -> if kcmp !desc x y > 0 then
      failf "op#%d %s returned %s but %s is held" n what (e_str x) (e_str y)) !held in
  let rec go n ops outs =
    match ops, outs with
    | [], [] -> ()
    | [], _ -> failf "more outputs than ops"
    | _ :: _, [] -> failf "op#%d: the history ended early" n
    | o :: ops', s :: outs' ->
      if String.length s >= 5 && String.sub s 0 5 = "PANIC" then failf "op#%d panicked inside the package (%s)" n s;
      if s = "FUEL" then failf "op#%d ran out of fuel" n;
      let p = parse_op o in
      let p = match p with
        | PX pl -> (match Hashtbl.find_opt pos pl with Some _ -> p | None -> PBad)
        | _ -> p in
      if p = PBad then (if s <> "?" then failf "op#%d: unreadable op answered" n; go (n+1) ops' outs') else begin
      let (res, mv, lay) = split_out n s in
      let len0 = List.length !prev in
      let value () =
        if String.length res >= 1 && res.[0] = 'v' then
          (match elem_opt (String.sub res 1 (String.length res - 1)) with Some x -> x | None -> failf "op#%d: result %s" n res)
        else failf "op#%d: result %s where a value was expected" n res in
      if not !inst && (match p with PNew _ | PNewData _ -> false | _ -> true) && mv <> [] then
        failf "op#%d: the update function was called although it had been removed" n;
      (* triggers, from the layout before the op *)
      (match p with
       | PAdd x ->
         let nn = len0 in
         if not (nn <= 2 || is_pow2 (nn + 1)
                 || (kcmp !desc (List.nth !prev (nn / 2)) x <= 0 && kcmp !desc (List.nth !prev ((nn - 1) / 2)) x <= 0))
         then taint_f1 := true
       | PRemove i | PX i ->
         let i = (match p with PX pl -> Hashtbl.find pos pl | _ -> i) in
         if i > 0 && i < len0 - 1
            && kcmp !desc (List.nth !prev ((i - 1) / 2)) (List.nth !prev (len0 - 1)) > 0
         then taint_f2 := true
       | _ -> ());
      (match p with
       | PNew d -> if res <> "u" then failf "op#%d New: result %s" n res;
         held := []; desc := d; Hashtbl.reset tracked; inst := true
       | PNewData (d, l) -> if res <> "u" then failf "op#%d NewWithData: result %s" n res;
         held := l; desc := d; Hashtbl.reset tracked; inst := true
       | PUpdate b -> if res <> "u" then failf "op#%d Update: result %s" n res;
         (* while no function is installed nothing is tracked; tracking starts again with the
            elements that enter after Update(f) *)
         inst := b; if not b then Hashtbl.reset tracked
       | PAdd x ->
         held := x :: !held;
         if !inst then Hashtbl.replace tracked (snd x) ();
         List.iter (fun ((_, pl), i) -> Hashtbl.replace pos pl i) mv;
         let idx = (if String.length res >= 2 && res.[0] = 'i' then int_opt (String.sub res 1 (String.length res - 1)) else None) in
         (match idx with
          | None -> failf "op#%d Add: result %s" n res
          | Some i ->
            if i < 0 || i >= List.length lay then failf "op#%d Add returned index %d outside the queue" n i;
            if List.nth lay i <> x then failf "op#%d Add returned index %d but Peek finds %s there" n i (e_str (List.nth lay i));
            if c06 && !inst && Hashtbl.find_opt pos (snd x) <> Some i then
              failf "op#%d Add returned index %d but the last reported position of the new element is %s" n i
                (match Hashtbl.find_opt pos (snd x) with Some j -> string_of_int j | None -> "none"))
       | PPop ->
         if !held = [] then (if res <> "-" then failf "op#%d Pop on an empty queue returned %s" n res)
         else begin
           let x = value () in
           if x <> List.hd !prev then failf "op#%d Pop returned %s but Front position held %s" n (e_str x) (e_str (List.hd !prev));
           take n "Pop" x; minimal n "Pop" x
         end
       | PFront ->
         if !held = [] then (if res <> "v0.0" then failf "op#%d Front on an empty queue returned %s" n res)
         else begin
           let x = value () in
           if not (List.mem x !held) then failf "op#%d Front returned %s which is not held" n (e_str x);
           if x <> List.hd !prev then failf "op#%d Front returned %s but Peek(0) showed %s" n (e_str x) (e_str (List.hd !prev));
           minimal n "Front" x
         end
       | PRemove i | PPeek i ->
         let what = (match p with PRemove _ -> "Remove" | _ -> "Peek") in
         if i < 0 then (if res <> "!" then failf "op#%d %s(%d) did not panic" n what i)
         else if i >= len0 then (if res <> "-" then failf "op#%d %s(%d) beyond the end returned %s" n what i res)
         else begin
           let x = value () in
           if x <> List.nth !prev i then failf "op#%d %s(%d) returned %s but Peek(%d) showed %s" n what i (e_str x) i (e_str (List.nth !prev i));
           (match p with PRemove _ -> take n what x | _ -> ())
         end
       | PX pl ->
         let i = Hashtbl.find pos pl in
         let holds = List.exists (fun (_, q) -> q = pl) !held in
         if c06 && holds && Hashtbl.mem tracked pl then begin
           let x = value () in
           if snd x <> pl then failf "op#%d Remove at the reported position %d of payload %d removed %s" n i pl (e_str x);
           take n "Remove" x
         end else begin
           (* stale position: behaves as Remove(i) *)
           if i >= len0 then (if res <> "-" then failf "op#%d Remove(%d) beyond the end returned %s" n i res)
           else begin
             let x = value () in
             if x <> List.nth !prev i then failf "op#%d Remove(%d) returned %s but Peek showed %s" n i (e_str x) (e_str (List.nth !prev i));
             take n "Remove" x
           end
         end
       | PSet l -> if res <> "u" then failf "op#%d Set: result %s" n res;
         held := l; Hashtbl.reset tracked; if !inst then List.iter (fun (_, pl) -> Hashtbl.replace tracked pl ()) l
       | PReorder d -> if res <> "u" then failf "op#%d Reorder: result %s" n res; desc := d
       | PClear -> if res <> "u" then failf "op#%d Clear: result %s" n res; held := []; Hashtbl.reset tracked
       | PLen -> if res <> "n" ^ string_of_int (List.length !held) then failf "op#%d Len returned %s with %d elements held" n res (List.length !held)
       | PIsEmpty -> if res <> "b" ^ b01 (!held = []) then failf "op#%d IsEmpty returned %s with %d elements held" n res (List.length !held)
       | PEach k ->
         let want = if k = 0 then !prev else List.filteri (fun i _ -> i < k) !prev in
         if res <> "[" ^ es_str want ^ "]" then failf "op#%d Each visited %s" n res
       | PBad -> ());
      (match p with PAdd _ -> () | _ -> List.iter (fun ((_, pl), i) -> Hashtbl.replace pos pl i) mv);
      (* conservation *)
      if not (same_multiset lay !held) then
        failf "op#%d: the queue holds {%s} but what was put in minus what was taken out is {%s}" n
          (es_str (List.sort compare lay)) (es_str (List.sort compare !held));
      (* position reports *)
      if c06 then List.iteri (fun i (x : e) ->
        if Hashtbl.mem tracked (snd x) then
          match Hashtbl.find_opt pos (snd x) with
          | Some j when j = i -> ()
          | Some j -> failf "op#%d: %s is at offset %d but its last reported position is %d" n (e_str x) i j
          | None -> failf "op#%d: %s is at offset %d but no position was ever reported for it" n (e_str x) i) lay;
      (match p with
       | PNew _ | PNewData _ | PSet _ | PReorder _ | PClear -> taint_f1 := false; taint_f2 := false
       | _ -> ());
      if List.length lay <= 1 then (taint_f1 := false; taint_f2 := false);
      prev := lay;
      go (n+1) ops' outs'
      end in
  go 1 ops outs

(* ---- B lines.  The spec keeps its own bag of held elements (payload -> key; payloads are distinct
   in B lines), fed by the generators of the input and by the values the implementation returned,
   and checks on the implementation's records: every returned element is held (and, C05, minimal
   among the held ones under the current comparison), counts, Len/IsEmpty/Front, the digest of the
   SORTED contents against the bag's (conservation), Each and the Peek sweep digesting to the
   layout's digest, Add's returned index holding the new element and (C06) being its reported
   position, Remove at a reported position removing that very element (C06), no tracked element
   among those with a wrong or no reported position (C06).  fail_rec = index of the failing record. *)
let fail_rec = ref 0

let check_big (prop : string) (rest : string) (out : string) : unit =
  let c05 = (prop <> "C06") and c06 = (prop = "C06") in
  let bag : (int, int) Hashtbl.t = Hashtbl.create 256 in
  let tracked : (int, unit) Hashtbl.t = Hashtbl.create 256 in
  let desc = ref 0 and inst = ref true and nextp = ref 1 in
  let held (k, p) = Hashtbl.find_opt bag p = Some k in
  let take n what (x : e) =
    if not (held x) then failf "op#%d %s returned %s which is not held" n what (e_str x);
    Hashtbl.remove bag (snd x); Hashtbl.remove tracked (snd x) in
  let minimal n what (x : e) =
    if c05 then Hashtbl.iter (fun p k -> if kcmp !desc x (k, p) > 0 then
      failf "op#%d %s returned %s but %s is held" n what (e_str x) (e_str (k, p))) bag in
  let put (x : e) = Hashtbl.replace bag (snd x) (fst x); if !inst then Hashtbl.replace tracked (snd x) () in
  let velem n s =
    if String.length s >= 2 && s.[0] = 'v' then
      (match elem_opt (String.sub s 1 (String.length s - 1)) with Some x -> x | None -> failf "op#%d: result %s" n s)
    else failf "op#%d: result %s where a value was expected" n s in
  let ops = String.split_on_char ';' rest in
  let outs = if out = "" then [] else String.split_on_char ';' out in
  let rec go n ops outs =
    fail_rec := n - 1;
    match ops, outs with
    | [], [] -> ()
    | [], _ -> failf "more records than ops"
    | _ :: _, [] -> failf "op#%d: the history ended early" n
    | o :: ops', s :: outs' ->
      if String.length s >= 5 && String.sub s 0 5 = "PANIC" then failf "op#%d panicked inside the package (%s)" n s;
      if s = "FUEL" then failf "op#%d ran out of fuel" n;
      let p = parse_bop o in
      if p = BBad then (if s <> "?" then failf "op#%d: unreadable op answered" n; go (n+1) ops' outs') else
      if s = "?" then begin
        (* only X<p> with no reported position is skipped by the harness *)
        (match p with
         | BX pl -> if c06 && Hashtbl.mem tracked pl then
             failf "op#%d: no position was ever reported for the tracked payload %d" n pl
         | _ -> failf "op#%d: a readable op was not answered" n);
        go (n+1) ops' outs'
      end else begin
      let (res, mvc, st) =
        match String.index_opt s '@' with
        | None -> failf "op#%d: record %s" n (if String.length s > 40 then String.sub s 0 40 else s)
        | Some i ->
          (match String.index_from_opt s i '#' with
           | None -> failf "op#%d: record without state" n
           | Some j ->
             let mv = String.sub s (i+1) (j-i-1) in
             let mvc = (match String.index_opt mv ':' with
                        | Some c -> (match sint_opt (String.sub mv 0 c) with Some k -> k | None -> failf "op#%d: callback count" n)
                        | None -> failf "op#%d: callback digest" n) in
             (String.sub s 0 i, mvc, String.sub s (j+1) (String.length s - j - 1))) in
      if not !inst && mvc <> 0 && (match p with BNew _ | BNewData _ -> false | _ -> true) then
        failf "op#%d: the update function was called although it had been removed" n;
      let unit_res what = if res <> "u" then failf "op#%d %s: result %s" n what res in
      let len0 = Hashtbl.length bag in
      (match p with
       | BNew d -> unit_res "New"; Hashtbl.reset bag; Hashtbl.reset tracked; inst := true; desc := d
       | BNewData (d, g) -> unit_res "NewWithData";
         Hashtbl.reset bag; Hashtbl.reset tracked; inst := false;
         List.iter put (gelems nextp g); inst := true; desc := d
       | BSet g -> unit_res "Set"; Hashtbl.reset bag; Hashtbl.reset tracked; List.iter put (gelems nextp g)
       | BAdd g ->
         let es = Array.of_list (gelems nextp g) in
         let cnt = Array.length es in
         (match String.split_on_char ':' res with
          | [c; _; samples] when c = "i" ^ string_of_int cnt ->
            let want = List.filter (fun j -> add_sampled j cnt (len0 + j)) (List.init cnt (fun j -> j)) in
            let got = if samples = "" then [] else String.split_on_char ',' samples in
            if List.length got <> List.length want then failf "op#%d Add: %d samples where %d were expected" n (List.length got) (List.length want);
            List.iter2 (fun j smp ->
              match String.index_opt smp '=' with
              | None -> failf "op#%d Add: sample %s" n smp
              | Some eq ->
                if sint_opt (String.sub smp 0 eq) <> Some j then failf "op#%d Add: sample %s where add #%d was expected" n smp j;
                (match String.split_on_char '/' (String.sub smp (eq+1) (String.length smp - eq - 1)) with
                 | [idx; pk; rp] ->
                   let x = es.(j) in
                   (match sint_opt idx with
                    | Some i when i >= 0 && i <= len0 + j -> ()
                    | _ -> failf "op#%d Add #%d returned index %s outside the queue" n j idx);
                   if pk <> e_str x then failf "op#%d Add #%d returned index %s but Peek finds %s there" n j idx pk;
                   if c06 && !inst && rp <> idx then
                     failf "op#%d Add #%d returned index %s but the last reported position of the new element is %s" n j idx rp
                 | _ -> failf "op#%d Add: sample %s" n smp)) want got
          | _ -> failf "op#%d Add: result %s" n (if String.length res > 40 then String.sub res 0 40 else res));
         Array.iter put es
       | BPop k ->
         (match String.index_opt res ':' with
          | Some c when c >= 2 && res.[0] = 'v' ->
            let cnt = (match sint_opt (String.sub res 1 (c-1)) with Some x -> x | None -> failf "op#%d Pop: count" n) in
            let l = must_elems (Printf.sprintf "op#%d Pop results" n) (String.sub res (c+1) (String.length res - c - 1)) in
            if List.length l <> cnt then failf "op#%d Pop: %d results listed, %d counted" n (List.length l) cnt;
            if cnt <> min k len0 then failf "op#%d: %d of %d Pops answered with %d elements held" n cnt k len0;
            List.iter (fun x ->
              if not (held x) then failf "op#%d Pop returned %s which is not held" n (e_str x);
              minimal n "Pop" x; take n "Pop" x) l
          | _ -> failf "op#%d Pop: result %s" n res)
       | BRemove i ->
         if i < 0 then (if res <> "!" then failf "op#%d Remove(%d) did not panic" n i)
         else if i >= len0 then (if res <> "-/-" then failf "op#%d Remove(%d) beyond the end returned %s" n i res)
         else (match String.split_on_char '/' res with
               | [r; pk] ->
                 let x = velem n r in
                 if pk <> r then failf "op#%d Remove(%d) returned %s but Peek(%d) showed %s" n i r i pk;
                 take n "Remove" x
               | _ -> failf "op#%d Remove: result %s" n res)
       | BX pl ->
         if c06 && Hashtbl.mem tracked pl then begin
           let x = velem n res in
           if snd x <> pl then failf "op#%d Remove at the reported position of payload %d removed %s" n pl (e_str x);
           take n "Remove" x
         end else if res <> "-" then take n "Remove" (velem n res)
       | BReorder d -> unit_res "Reorder"; desc := d
       | BClear -> unit_res "Clear"; Hashtbl.reset bag; Hashtbl.reset tracked
       | BUpdate b -> unit_res "Update"; inst := b; if not b then Hashtbl.reset tracked
       | BObs _ | BBad -> ());
      (* the state *)
      let fields = String.split_on_char '/' st in
      (match fields with
       | [len; lf; sf; win; wrong; missing] ->
         let nheld = Hashtbl.length bag in
         if sint_opt len <> Some nheld then failf "op#%d: Len is %s with %d elements held" n len nheld;
         let sorted = List.sort compare (Hashtbl.fold (fun p k acc -> (k, p) :: acc) bag []) in
         if sf <> fnv_elems sorted then
           failf "op#%d: the queue does not hold what was put in minus what was taken out (digest of the sorted contents %s, of the %d elements that should be held %s; offsets 0,1,2 and the last three hold %s)" n sf nheld (fnv_elems sorted) win;
         List.iter (fun x -> if not (held x) then failf "op#%d: the queue holds %s which should not be held" n (e_str x))
           (must_elems (Printf.sprintf "op#%d window" n) win);
         (match p with
          | BObs k ->
            (match String.split_on_char ',' res with
             | [ln; b; f; ea; es; kk; neg; beyond] ->
               if ln <> "n" ^ string_of_int nheld then failf "op#%d Len returned %s with %d elements held" n ln nheld;
               if b <> "b" ^ b01 (nheld = 0) then failf "op#%d IsEmpty returned %s with %d elements held" n b nheld;
               if nheld = 0 then (if f <> "f0.0" then failf "op#%d Front on an empty queue returned %s" n f)
               else begin
                 let x = (match elem_opt (String.sub f 1 (String.length f - 1)) with Some x -> x | None -> failf "op#%d Front: %s" n f) in
                 if not (held x) then failf "op#%d Front returned %s which is not held" n (e_str x);
                 (match elems_opt win with Some (w0 :: _) when w0 <> x -> failf "op#%d Front returned %s but Peek(0) shows %s" n (e_str x) (e_str w0) | _ -> ());
                 minimal n "Front" x
               end;
               if ea <> Printf.sprintf "E%d:%s" nheld lf then failf "op#%d Each visited %s, the layout is %d:%s" n ea nheld lf;
               let stop = if k = 0 || k > nheld then nheld else k in
               if not (String.length es > 1 && String.sub es 0 (min (String.length es) (String.length (string_of_int stop) + 2)) = Printf.sprintf "e%d:" stop) then
                 failf "op#%d Each stopped at call %d visited %s" n k es;
               if nheld <= 1100 && kk <> "K" ^ lf then failf "op#%d the Peek sweep digests to %s, the layout to %s" n kk lf;
               if neg <> "!" then failf "op#%d Peek(-1) did not panic" n;
               if beyond <> "-" then failf "op#%d Peek(Len) returned %s" n beyond
             | _ -> failf "op#%d observers: %s" n res)
          | _ -> ());
         if c06 then begin
           let entries what s =
             match String.split_on_char ':' s with
             | c :: l -> (match sint_opt c with Some k -> (k, l) | None -> failf "op#%d: %s count" n what)
             | [] -> failf "op#%d: %s" n what in
           let elem_of ent = (match String.index_opt ent '@' with
             | Some a -> (match elem_opt (String.sub ent 0 a) with Some x -> (x, String.sub ent (a+1) (String.length ent - a - 1)) | None -> failf "op#%d: entry %s" n ent)
             | None -> failf "op#%d: entry %s" n ent) in
           let (_, wl) = entries "wrong" wrong and (mc, ml) = entries "missing" missing in
           List.iter (fun ent -> let (x, w) = elem_of ent in
             if Hashtbl.mem tracked (snd x) then
               (match String.split_on_char '=' w with
                | [off; rp] -> failf "op#%d: %s is at offset %s but its last reported position is %s" n (e_str x) off rp
                | _ -> failf "op#%d: entry %s" n ent)) wl;
           List.iter (fun ent -> let (x, w) = elem_of ent in
             if Hashtbl.mem tracked (snd x) then failf "op#%d: %s is at offset %s but no position was ever reported for it" n (e_str x) w) ml;
           if mc > nheld - Hashtbl.length tracked then
             failf "op#%d: %d held elements have no reported position, but only %d entered while no update function was installed" n mc (nheld - Hashtbl.length tracked)
         end
       | _ -> failf "op#%d: state %s" n (if String.length st > 60 then String.sub st 0 60 else st));
      go (n+1) ops' outs'
      end in
  go 1 ops outs

let check prop inp out : string option =
  taint_f1 := false; taint_f2 := false;
  try
    (match cut_kind inp with
     | ("B", rest) -> check_big prop rest out
     | ("Z", rest) ->
       if prop <> "C06" && out <> "?" && out <> "ok " ^ rest then
         failf "Set on %s elements of a zero-size type: %s (Set must leave a valid heap of that many elements)" rest out
     | ("S", rest) -> if prop <> "C06" then check_sort rest out
     | ("T", rest) -> if prop <> "C06" then check_sort_digest rest out
     | ("H", rest) -> check_history prop rest out
     | _ -> ());
    None
  with Fail s -> Some s

(* Attribution to the known findings F1 (pushUp's parent index) and F2 (pop never sifts up): only
   when (1) the model with both defects reproduces the implementation's output on this very input,
   (2) a trigger of that finding has occurred, on the implementation's own layouts, since the last
   reset (outside the triggers the pinned code is PROVED to answer minimally: C05_min_since_reset,
   so such a failure is something new), and (3) the model with the defect repaired satisfies the
   property on the input. *)
let known_f1 = ref 0 and known_f2 = ref 0 and suppressed_f1 = ref 0 and suppressed_f2 = ref 0
let known_f14 = ref 0

(* Known finding F14 (pushDown's child index 2*i+1 overflows int beyond 2^62 elements): only when
   the queue is that long, the generated expression evaluated with 64-bit wrap-around reproduces
   the implementation's panic on this very input, and with unbounded integers the model satisfies
   the property on it. *)
let spec_z prop inp rest out reason =
  match z_arg rest with
  | Some n when M.z_above_bound n
                && eval_z M.zset64 rest = out
                && check prop inp (eval_z M.zset_ideal rest) = None ->
    incr known_f14;
    if !known_f14 <= 5 then Some (reason ^ " known=F14") else None
  | _ -> Some reason
let () = at_exit (fun () -> Printf.printf "KNOWN-SUPPRESSED F1=%d F2=%d\n" !suppressed_f1 !suppressed_f2)

let spec prop inp out =
  match check prop inp out with
  | None -> None
  | Some reason when fst (cut_kind inp) = "Z" -> spec_z prop inp (snd (cut_kind inp)) out reason
  | Some reason when fst (cut_kind inp) = "T" -> Some reason      (* Sort is in none of the known findings *)
  | Some reason ->
    let big = (fst (cut_kind inp) = "B") and rec_ = !fail_rec in
    let pinned_out = eval_with M.pinned inp in
    (* H lines: the triggers were evaluated by the check on the implementation's own layouts.  B lines
       carry digests of the layouts only: the triggers are evaluated on the pinned model's layouts,
       which are the implementation's once its records (digests included) are reproduced. *)
    let (t1, t2) =
      if big then (if rec_ >= 0 && rec_ < Array.length !model_taints then !model_taints.(rec_) else (false, false))
      else (!taint_f1, !taint_f2) in
    if pinned_out <> out then Some reason
    else if not (t1 || t2) then Some (reason ^ " [not a known finding: no F1/F2 trigger since the last reset]")
    else if check prop inp (eval_with M.repaired inp) <> None then Some reason
    else if t1 && (not t2 || check prop inp (eval_with (M.mk_variant false true) inp) = None) then begin
      incr known_f1;
      if !known_f1 <= 3 then Some (reason ^ " known=F1") else (incr suppressed_f1; None)
    end else begin
      incr known_f2;
      if !known_f2 <= 3 then Some (reason ^ " known=F2") else (incr suppressed_f2; None)
    end

let () = run_main ~eval ~spec
