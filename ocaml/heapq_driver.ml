(* Replays heapqtrace lines on the extracted model (HeapqModel, instance HeapqInst) and evaluates
   properties C05/C06 on the implementation's own outputs.  Trace syntax: see
   harness/cmd/heapqtrace/main.go. *)

type e = int * int                                     (* key, payload *)
let e_str (k, p) = string_of_int k ^ "." ^ string_of_int p
let es_str l = String.concat "," (List.map e_str l)

let int_opt s =
  if s = "" || String.length s > 9 || String.contains s '+' || String.contains s ' ' then None
  else int_of_string_opt s
let elem_opt s : e option =
  match String.index_opt s '.' with
  | Some i when i > 0 ->
    (match int_opt (String.sub s 0 i), int_opt (String.sub s (i+1) (String.length s - i - 1)) with
     | Some k, Some p -> Some (k, p) | _ -> None)
  | _ -> None
let elems_opt s : e list option =
  if s = "" then Some [] else
  let parts = List.map elem_opt (String.split_on_char ',' s) in
  if List.mem None parts then None else Some (List.map Option.get parts)
(* the comparison function, by code (harness cmpOf / HeapqInst.ccmp) *)
let dir_opt = function
  | "a" -> Some 0 | "d" -> Some 1 | "A" -> Some 2 | "D" -> Some 3
  | "m" -> Some 4 | "M" -> Some 5 | "z" -> Some 6 | "p" -> Some 7 | _ -> None

type pop =
  | PNew of int | PNewData of int * e list | PAdd of e | PPop | PRemove of int | PX of int
  | PPeek of int | PFront | PSet of e list | PReorder of int | PClear | PLen | PIsEmpty | PEach of int
  | PUpdate of bool
  | PBad

let parse_op (s : string) : pop =
  if s = "" then PBad else
  let arg = String.sub s 1 (String.length s - 1) in
  let noarg r = if arg = "" then r else PBad in
  match s.[0] with
  | 'n' -> (match dir_opt arg with Some d -> PNew d | None -> PBad)
  | 'w' -> if arg = "" then PBad else
    (match dir_opt (String.sub arg 0 1), elems_opt (String.sub arg 1 (String.length arg - 1)) with
     | Some d, Some l -> PNewData (d, l) | _ -> PBad)
  | 'a' -> (match elem_opt arg with Some x -> PAdd x | None -> PBad)
  | 'p' -> noarg PPop
  | 'r' -> (match int_opt arg with Some n -> PRemove n | None -> PBad)
  | 'x' -> (match int_opt arg with Some n -> PX n | None -> PBad)
  | 'k' -> (match int_opt arg with Some n -> PPeek n | None -> PBad)
  | 'f' -> noarg PFront
  | 's' -> (match elems_opt arg with Some l -> PSet l | None -> PBad)
  | 'o' -> (match dir_opt arg with Some d -> PReorder d | None -> PBad)
  | 'c' -> noarg PClear
  | 'l' -> noarg PLen
  | 'e' -> noarg PIsEmpty
  | 'E' -> (match int_opt arg with Some k when k >= 0 -> PEach k | _ -> PBad)
  | 'U' -> (match arg with "0" -> PUpdate false | "1" -> PUpdate true | _ -> PBad)
  | _ -> PBad

let cut_kind inp =
  let at i = (String.sub inp 0 i, String.sub inp (i+1) (String.length inp - i - 1)) in
  match String.index_opt inp ' ' with
  | Some i -> at i
  | None -> (match String.index_opt inp '_' with Some i -> at i | None -> (inp, ""))   (* extras print '_' for the blank *)

(* ------------------------------------------------------------------ the model *)
let me (k, p) = (z_of_int k, z_of_int p)
let em (k, p) = (int_of_z k, int_of_z p)

(* Z <n>: Set on heapq.Queue[struct{}] of n elements, the generated child-index expression
   evaluated at Go's int width (M.zset64) or with unbounded integers (M.zset_ideal) *)
let z_arg rest =
  if rest = "" || String.length rest > 19 || not (String.for_all (fun c -> c >= '0' && c <= '9') rest) then None
  else Some (z_of_string rest)
let zres_str = function
  | M.ZOk n -> "ok " ^ string_of_z n
  | M.ZIndexPanic i -> "PANIC:index[" ^ string_of_z i ^ "]"
  | M.ZRefused -> "?"
let eval_z (f : M.z -> M.zres) rest =
  match z_arg rest with
  | None -> "?"
  | Some n ->
    if M.z_refused n then "?" else
    let r = zres_str (f n) in
    (* for small n the list model itself (Set of n equal elements under the all-tie comparison) must agree *)
    if M.z_small n then begin
      let k = int_of_z n in
      let l = List.init k (fun _ -> (z_of_int 0, z_of_int 0)) in
      match M.q_step M.current_variant (M.q_new (z_of_int 6)) (M.OSet l) with
      | M.Ok (q', _) when List.length (M.q_data q') = k -> r
      | _ -> "MODEL-DISAGREES"
    end else r

let eval_with (v : M.variant) (inp : string) : string =
  match cut_kind inp with
  | ("Z", rest) -> eval_z M.zset64 rest
  | ("S", rest) ->
    if rest = "" then "?" else
    (match dir_opt (String.sub rest 0 1), elems_opt (String.sub rest 1 (String.length rest - 1)) with
     | Some d, Some l ->
       (match M.q_sort v (z_of_int d) (List.map me l) with
        | M.Ok r -> es_str (List.map em r)
        | M.IndexPanic -> "PANIC:index"
        | M.OutOfFuel -> "FUEL")
     | _ -> "?")
  | ("H", rest) ->
    let q = ref (M.q_new (z_of_int 0)) in
    let pos : (int, int) Hashtbl.t = Hashtbl.create 16 in
    let outs = ref [] in
    let stop = ref false in
    let rep = ref true in                      (* is an update function installed? *)
    List.iter (fun s ->
      if not !stop then begin
        (match parse_op s with PNew _ | PNewData _ -> rep := true | _ -> ());
        match parse_op s with
        | PUpdate b -> rep := b; outs := ("u@#" ^ es_str (List.map em (M.q_data !q))) :: !outs
        | pop_ ->
        let mop = match pop_ with
          | PBad | PUpdate _ -> None
          | PNew d -> Some (M.ONew (M.ccmp (z_of_int d)))
          | PNewData (d, l) -> Some (M.ONewWithData (M.ccmp (z_of_int d), List.map me l))
          | PAdd x -> Some (M.OAdd (me x))
          | PPop -> Some M.OPop
          | PRemove n -> Some (M.ORemove (z_of_int n))
          | PX p -> (match Hashtbl.find_opt pos p with Some n -> Some (M.ORemove (z_of_int n)) | None -> None)
          | PPeek n -> Some (M.OPeek (z_of_int n))
          | PFront -> Some M.OFront
          | PSet l -> Some (M.OSet (List.map me l))
          | PReorder d -> Some (M.OReorder (M.ccmp (z_of_int d)))
          | PClear -> Some M.OClear
          | PLen -> Some M.OLen
          | PIsEmpty -> Some M.OIsEmpty
          | PEach k -> Some (M.OEach (nat_of_int k)) in
        match mop with
        | None -> outs := "?" :: !outs
        | Some o ->
          (match M.q_step v !q o with
           | M.IndexPanic -> outs := "PANIC:index" :: !outs; stop := true
           | M.OutOfFuel -> outs := "FUEL" :: !outs; stop := true
           | M.Ok (q', (r, mv)) ->
             q := q';
             let mv = if !rep then List.map (fun (x, i) -> (em x, int_of_z i)) mv else [] in
             List.iter (fun ((_, p), i) -> Hashtbl.replace pos p i) mv;
             let res = match r with
               | M.RIdx i -> "i" ^ string_of_int (int_of_z i)
               | M.RVal (Some x) -> "v" ^ e_str (em x)
               | M.RVal None -> (match o with M.OFront -> "v0.0" | _ -> "-")
               | M.RPanic -> "!"
               | M.RUnit -> "u"
               | M.RNum n -> "n" ^ string_of_int (int_of_z n)
               | M.RBool b -> "b" ^ b01 b
               | M.RList l -> "[" ^ es_str (List.map em l) ^ "]" in
             outs := (res ^ "@" ^ String.concat "," (List.map (fun (x, i) -> e_str x ^ ":" ^ string_of_int i) mv)
                      ^ "#" ^ es_str (List.map em (M.q_data q'))) :: !outs)
      end) (String.split_on_char ';' rest);
    String.concat ";" (List.rev !outs)
  | _ -> "?"

let eval = eval_with M.current_variant

(* ------------------------------------------------------------------ the property on an output *)
exception Fail of string
let failf fmt = Printf.ksprintf (fun s -> raise (Fail s)) fmt

(* the comparison functions, written out here independently of the model (OCaml's / truncates
   towards zero like Go's) *)
let kcmp code ((a, pa) : e) ((b, pb) : e) =
  match code with
  | 0 -> compare a b
  | 1 -> - (compare a b)
  | 2 -> 3 * (a - b)
  | 3 -> 7 * (b - a)
  | 4 -> compare (a / 4) (b / 4)
  | 5 -> (b / 4 - a / 4) * 2
  | 6 -> 0
  | _ -> pa - pb

(* Has a trigger of known finding F1 / F2 (coq/Heapq/HeapqTriggerSpec.v, theorem
   C05_min_since_reset) occurred since the queue was last ordered by a reset (New, NewWithData,
   Set, Reorder, Clear, or holding at most one element)?  Computed from the implementation's own
   layouts.  A minimality failure with neither flag set cannot be the known findings. *)
let taint_f1 = ref false and taint_f2 = ref false
let is_pow2 n = n > 0 && n land (n - 1) = 0

let rec remove_one x = function
  | [] -> None
  | y :: r -> if y = x then Some r else (match remove_one x r with Some r' -> Some (y :: r') | None -> None)
let same_multiset a b = List.sort compare a = List.sort compare b

let must_elems what s = match elems_opt s with Some l -> l | None -> failf "%s: unreadable element list" what

(* "<res>@<moves>#<layout>" *)
let split_out n s =
  match String.index_opt s '@', String.rindex_opt s '#' with
  | Some i, Some j when i < j ->
    let res = String.sub s 0 i and mv = String.sub s (i+1) (j-i-1) and lay = String.sub s (j+1) (String.length s - j - 1) in
    let mv = if mv = "" then [] else List.map (fun m ->
      match String.rindex_opt m ':' with
      | Some c -> (match elem_opt (String.sub m 0 c), int_opt (String.sub m (c+1) (String.length m - c - 1)) with
                   | Some x, Some i -> (x, i) | _ -> failf "op#%d: unreadable move" n)
      | None -> failf "op#%d: unreadable move" n) (String.split_on_char ',' mv) in
    (res, mv, must_elems (Printf.sprintf "op#%d layout" n) lay)
  | _ -> failf "op#%d: output %s" n (if String.length s > 40 then String.sub s 0 40 else s)

let check_sort rest out =
  if rest = "" then () else
  match dir_opt (String.sub rest 0 1), elems_opt (String.sub rest 1 (String.length rest - 1)) with
  | Some d, Some l ->
    if String.length out >= 5 && String.sub out 0 5 = "PANIC" then failf "Sort panicked";
    let r = must_elems "Sort output" out in
    if not (same_multiset l r) then failf "Sort output is not a permutation of its argument";
    let rec sorted = function a :: (b :: _ as t) -> kcmp d a b <= 0 && sorted t | _ -> true in
    if not (sorted r) then failf "Sort output is not in non-decreasing order"
  | _ -> ()

let check_history (prop : string) (rest : string) (out : string) : unit =
  let c05 = (prop <> "C06") and c06 = (prop = "C06") in
  let ops = String.split_on_char ';' rest in
  let outs = if out = "" then [] else String.split_on_char ';' out in
  let held = ref [] and desc = ref 0 and prev = ref [] and inst = ref true in
  taint_f1 := false; taint_f2 := false;
  let pos : (int, int) Hashtbl.t = Hashtbl.create 16 in
  let tracked : (int, unit) Hashtbl.t = Hashtbl.create 16 in
  let take n what x =
    match remove_one x !held with
    | Some r -> held := r; Hashtbl.remove tracked (snd x)
    | None -> failf "op#%d %s returned %s which is not held" n what (e_str x) in
  let minimal n what x =
    if c05 then List.iter (fun y -> if kcmp !desc x y > 0 then
      failf "op#%d %s returned %s but %s is held" n what (e_str x) (e_str y)) !held in
  let rec go n ops outs =
    match ops, outs with
    | [], [] -> ()
    | [], _ -> failf "more outputs than ops"
    | _ :: _, [] -> failf "op#%d: the history ended early" n
    | o :: ops', s :: outs' ->
      if String.length s >= 5 && String.sub s 0 5 = "PANIC" then failf "op#%d panicked inside the package (%s)" n s;
      if s = "FUEL" then failf "op#%d ran out of fuel" n;
      let p = parse_op o in
      let p = match p with
        | PX pl -> (match Hashtbl.find_opt pos pl with Some _ -> p | None -> PBad)
        | _ -> p in
      if p = PBad then (if s <> "?" then failf "op#%d: unreadable op answered" n; go (n+1) ops' outs') else begin
      let (res, mv, lay) = split_out n s in
      let len0 = List.length !prev in
      let value () =
        if String.length res >= 1 && res.[0] = 'v' then
          (match elem_opt (String.sub res 1 (String.length res - 1)) with Some x -> x | None -> failf "op#%d: result %s" n res)
        else failf "op#%d: result %s where a value was expected" n res in
      if not !inst && (match p with PNew _ | PNewData _ -> false | _ -> true) && mv <> [] then
        failf "op#%d: the update function was called although it had been removed" n;
      (* triggers, from the layout before the op *)
      (match p with
       | PAdd x ->
         let nn = len0 in
         if not (nn <= 2 || is_pow2 (nn + 1)
                 || (kcmp !desc (List.nth !prev (nn / 2)) x <= 0 && kcmp !desc (List.nth !prev ((nn - 1) / 2)) x <= 0))
         then taint_f1 := true
       | PRemove i | PX i ->
         let i = (match p with PX pl -> Hashtbl.find pos pl | _ -> i) in
         if i > 0 && i < len0 - 1
            && kcmp !desc (List.nth !prev ((i - 1) / 2)) (List.nth !prev (len0 - 1)) > 0
         then taint_f2 := true
       | _ -> ());
      (match p with
       | PNew d -> if res <> "u" then failf "op#%d New: result %s" n res;
         held := []; desc := d; Hashtbl.reset tracked; inst := true
       | PNewData (d, l) -> if res <> "u" then failf "op#%d NewWithData: result %s" n res;
         held := l; desc := d; Hashtbl.reset tracked; inst := true
       | PUpdate b -> if res <> "u" then failf "op#%d Update: result %s" n res;
         (* while no function is installed nothing is tracked; tracking starts again with the
            elements that enter after Update(f) *)
         inst := b; if not b then Hashtbl.reset tracked
       | PAdd x ->
         held := x :: !held;
         if !inst then Hashtbl.replace tracked (snd x) ();
         List.iter (fun ((_, pl), i) -> Hashtbl.replace pos pl i) mv;
         let idx = (if String.length res >= 2 && res.[0] = 'i' then int_opt (String.sub res 1 (String.length res - 1)) else None) in
         (match idx with
          | None -> failf "op#%d Add: result %s" n res
          | Some i ->
            if i < 0 || i >= List.length lay then failf "op#%d Add returned index %d outside the queue" n i;
            if List.nth lay i <> x then failf "op#%d Add returned index %d but Peek finds %s there" n i (e_str (List.nth lay i));
            if c06 && !inst && Hashtbl.find_opt pos (snd x) <> Some i then
              failf "op#%d Add returned index %d but the last reported position of the new element is %s" n i
                (match Hashtbl.find_opt pos (snd x) with Some j -> string_of_int j | None -> "none"))
       | PPop ->
         if !held = [] then (if res <> "-" then failf "op#%d Pop on an empty queue returned %s" n res)
         else begin
           let x = value () in
           if x <> List.hd !prev then failf "op#%d Pop returned %s but Front position held %s" n (e_str x) (e_str (List.hd !prev));
           take n "Pop" x; minimal n "Pop" x
         end
       | PFront ->
         if !held = [] then (if res <> "v0.0" then failf "op#%d Front on an empty queue returned %s" n res)
         else begin
           let x = value () in
           if not (List.mem x !held) then failf "op#%d Front returned %s which is not held" n (e_str x);
           if x <> List.hd !prev then failf "op#%d Front returned %s but Peek(0) showed %s" n (e_str x) (e_str (List.hd !prev));
           minimal n "Front" x
         end
       | PRemove i | PPeek i ->
         let what = (match p with PRemove _ -> "Remove" | _ -> "Peek") in
         if i < 0 then (if res <> "!" then failf "op#%d %s(%d) did not panic" n what i)
         else if i >= len0 then (if res <> "-" then failf "op#%d %s(%d) beyond the end returned %s" n what i res)
         else begin
           let x = value () in
           if x <> List.nth !prev i then failf "op#%d %s(%d) returned %s but Peek(%d) showed %s" n what i (e_str x) i (e_str (List.nth !prev i));
           (match p with PRemove _ -> take n what x | _ -> ())
         end
       | PX pl ->
         let i = Hashtbl.find pos pl in
         let holds = List.exists (fun (_, q) -> q = pl) !held in
         if c06 && holds && Hashtbl.mem tracked pl then begin
           let x = value () in
           if snd x <> pl then failf "op#%d Remove at the reported position %d of payload %d removed %s" n i pl (e_str x);
           take n "Remove" x
         end else begin
           (* stale position: behaves as Remove(i) *)
           if i >= len0 then (if res <> "-" then failf "op#%d Remove(%d) beyond the end returned %s" n i res)
           else begin
             let x = value () in
             if x <> List.nth !prev i then failf "op#%d Remove(%d) returned %s but Peek showed %s" n i (e_str x) (e_str (List.nth !prev i));
             take n "Remove" x
           end
         end
       | PSet l -> if res <> "u" then failf "op#%d Set: result %s" n res;
         held := l; Hashtbl.reset tracked; if !inst then List.iter (fun (_, pl) -> Hashtbl.replace tracked pl ()) l
       | PReorder d -> if res <> "u" then failf "op#%d Reorder: result %s" n res; desc := d
       | PClear -> if res <> "u" then failf "op#%d Clear: result %s" n res; held := []; Hashtbl.reset tracked
       | PLen -> if res <> "n" ^ string_of_int (List.length !held) then failf "op#%d Len returned %s with %d elements held" n res (List.length !held)
       | PIsEmpty -> if res <> "b" ^ b01 (!held = []) then failf "op#%d IsEmpty returned %s with %d elements held" n res (List.length !held)
       | PEach k ->
         let want = if k = 0 then !prev else List.filteri (fun i _ -> i < k) !prev in
         if res <> "[" ^ es_str want ^ "]" then failf "op#%d Each visited %s" n res
       | PBad -> ());
      (match p with PAdd _ -> () | _ -> List.iter (fun ((_, pl), i) -> Hashtbl.replace pos pl i) mv);
      (* conservation *)
      if not (same_multiset lay !held) then
        failf "op#%d: the queue holds {%s} but what was put in minus what was taken out is {%s}" n
          (es_str (List.sort compare lay)) (es_str (List.sort compare !held));
      (* position reports *)
      if c06 then List.iteri (fun i (x : e) ->
        if Hashtbl.mem tracked (snd x) then
          match Hashtbl.find_opt pos (snd x) with
          | Some j when j = i -> ()
          | Some j -> failf "op#%d: %s is at offset %d but its last reported position is %d" n (e_str x) i j
          | None -> failf "op#%d: %s is at offset %d but no position was ever reported for it" n (e_str x) i) lay;
      (match p with
       | PNew _ | PNewData _ | PSet _ | PReorder _ | PClear -> taint_f1 := false; taint_f2 := false
       | _ -> ());
      if List.length lay <= 1 then (taint_f1 := false; taint_f2 := false);
      prev := lay;
      go (n+1) ops' outs'
      end in
  go 1 ops outs

let check prop inp out : string option =
  taint_f1 := false; taint_f2 := false;
  try
    (match cut_kind inp with
     | ("Z", rest) ->
       if prop <> "C06" && out <> "?" && out <> "ok " ^ rest then
         failf "Set on %s elements of a zero-size type: %s (Set must leave a valid heap of that many elements)" rest out
     | ("S", rest) -> if prop <> "C06" then check_sort rest out
     | ("H", rest) -> check_history prop rest out
     | _ -> ());
    None
  with Fail s -> Some s

(* Attribution to the known findings F1 (pushUp's parent index) and F2 (pop never sifts up): only
   when (1) the model with both defects reproduces the implementation's output on this very input,
   (2) a trigger of that finding has occurred, on the implementation's own layouts, since the last
   reset (outside the triggers the pinned code is PROVED to answer minimally: C05_min_since_reset,
   so such a failure is something new), and (3) the model with the defect repaired satisfies the
   property on the input. *)
let known_f1 = ref 0 and known_f2 = ref 0 and suppressed_f1 = ref 0 and suppressed_f2 = ref 0
let known_f14 = ref 0

(* Known finding F14 (pushDown's child index 2*i+1 overflows int beyond 2^62 elements): only when
   the queue is that long, the generated expression evaluated with 64-bit wrap-around reproduces
   the implementation's panic on this very input, and with unbounded integers the model satisfies
   the property on it. *)
let spec_z prop inp rest out reason =
  match z_arg rest with
  | Some n when M.z_above_bound n
                && eval_z M.zset64 rest = out
                && check prop inp (eval_z M.zset_ideal rest) = None ->
    incr known_f14;
    if !known_f14 <= 5 then Some (reason ^ " known=F14") else None
  | _ -> Some reason
let () = at_exit (fun () -> Printf.printf "KNOWN-SUPPRESSED F1=%d F2=%d\n" !suppressed_f1 !suppressed_f2)

let spec prop inp out =
  match check prop inp out with
  | None -> None
  | Some reason when fst (cut_kind inp) = "Z" -> spec_z prop inp (snd (cut_kind inp)) out reason
  | Some reason ->
    let t1 = !taint_f1 and t2 = !taint_f2 in
    if eval_with M.pinned inp <> out then Some reason
    else if not (t1 || t2) then Some (reason ^ " [not a known finding: no F1/F2 trigger since the last reset]")
    else if check prop inp (eval_with M.repaired inp) <> None then Some reason
    else if t1 && (not t2 || check prop inp (eval_with (M.mk_variant false true) inp) = None) then begin
      incr known_f1;
      if !known_f1 <= 3 then Some (reason ^ " known=F1") else (incr suppressed_f1; None)
    end else begin
      incr known_f2;
      if !known_f2 <= 3 then Some (reason ^ " known=F2") else (incr suppressed_f2; None)
    end

let () = run_main ~eval ~spec
