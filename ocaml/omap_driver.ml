(* Replays omaptrace lines on the extracted omap model (eval) and evaluates property C04 on the
   implementation's own outputs (spec) against a reference sorted association list written here in
   plain OCaml (not the extracted model).  Two key/value types: kind M = Map[int,int], kind T =
   Map[string,string] (token "~" = the empty string, the zero value).  fmt's %v of an int is its
   decimal form and of a string the string itself: [raw] below; String() is compared for both. *)

let nat (a : int) (b : int) = compare a b
let big = 1 lsl 61      (* stands for math.MaxInt: only the sign of a comparison is ever used *)

let cmp_of s : int -> int -> int =
  let modk () =
    let k = int_of_string (String.sub s 1 (String.length s - 1)) in
    let k = if k <= 0 then 1 else k in
    fun a -> ((a mod k) + k) mod k in
  let ext a b = if a < b then - big else if a > b then big else 0 in
  if s = "n" then nat
  else if s = "r" then (fun a b -> nat b a)
  else if s = "a" then (fun a b -> a - b)
  else if s = "t" then (fun a b -> 3 * (a - b))
  else if s = "h" then (fun a b -> (a - b) * (1 lsl 32))
  else if s = "A" then (fun a b -> b - a)
  else if s = "D" then (fun a b -> 7 * (b - a))
  else if s = "x" then ext
  else if s = "X" then (fun a b -> ext b a)
  else if String.length s > 1 && s.[0] = 'm' then (let md = modk () in fun a b -> nat (md a) (md b))
  else if String.length s > 1 && s.[0] = 'M' then (let md = modk () in fun a b -> md a - md b)
  else if String.length s > 1 && s.[0] = 'R' then (let md = modk () in fun a b -> md b - md a)
  else failwith "bad comparator"

let str_cmp_of s : string -> string -> int =
  let bytewise a b =
    let n = min (String.length a) (String.length b) in
    let rec go i = if i >= n then String.length a - String.length b
      else if a.[i] <> b.[i] then Char.code a.[i] - Char.code b.[i] else go (i + 1) in
    go 0 in
  let first a = if a = "" then 0 else Char.code a.[0] in
  match s with
  | "n" -> (fun a b -> compare a b)            (* OCaml's string order is byte-wise, like Go's *)
  | "r" -> (fun a b -> compare b a)
  | "l" -> (fun a b -> String.length a - String.length b)
  | "L" -> (fun a b -> String.length b - String.length a)
  | "b" -> bytewise
  | "B" -> (fun a b -> bytewise b a)
  | "f" -> (fun a b -> first a - first b)
  | _ -> failwith "bad string comparator"

(* how keys / values are written: [parse]/[show] in trace items, [raw] as fmt's %v prints them *)
type 'a codec = { parse : string -> 'a; show : 'a -> string; raw : 'a -> string; zero : 'a }
let int_codec = { parse = int_of_string; show = string_of_int; raw = string_of_int; zero = 0 }
let str_codec = { parse = (fun s -> if s = "~" then "" else s); show = (fun s -> if s = "" then "~" else s);
                  raw = (fun s -> s); zero = "" }

let split_on c s = if s = "" then [] else String.split_on_char c s

exception Fail of string
let ok = function M.Ok a -> a | M.Panic -> raise (Fail "PANIC") | M.OutOfFuel -> raise (Fail "FUEL") | M.BadOracle -> raise (Fail "ORACLE")

let key_arg arg = match String.index_opt arg '=' with Some i -> String.sub arg (i + 1) (String.length arg - i - 1) | None -> "0"

(* op -> (letter, argument); a leading '@' (through the copy) is dropped: a copy is the same map *)
let parse_op op =
  let op' = if String.length op > 0 && op.[0] = '@' then String.sub op 1 (String.length op - 1) else op in
  if op' = "" then ('?', "") else (op'.[0], String.sub op' 1 (String.length op' - 1))

(* Map.String: "omap[" k:v k:v ... "]" with %v for keys and values; blanks shown as '_' *)
let fmt_string kc vc = function
  | None -> "omap[]"
  | Some es -> "omap[" ^ String.concat "_" (List.map (fun (k, v) -> kc.raw k ^ ":" ^ vc.raw v) es) ^ "]"

let show_keys kc = function [] -> "empty" | ks -> String.concat "," (List.map kc.show ks)

let eval_gen (kc : 'k codec) (vc : 'v codec) (cf : 'k -> 'k -> int) kind ops =
  let zcmp a b = z_of_int (cf a b) in
  let limit = M.limit_capped in
  let zk = kc.zero and zv = vc.zero in
  let items = ref [] in
  (try
    let m = ref (if kind = "n" then ok (M.new_func zcmp) else M.zero_map) in
    let regs = Array.make 4 None and fresh = Array.make 4 false in
    let used = ref 0 in
    let touch r = if r + 1 > !used then used := r + 1 in
    let state () = String.concat "/" (List.init !used (fun i ->
      match regs.(i) with
      | Some c when fresh.(i) ->
        b01 (M.ivalid c) ^ "," ^ kc.show (ok (M.ikey zk zv !m c)) ^ "," ^ vc.show (ok (M.ivalue zk zv !m c))
      | _ -> "x")) in
    let edited () = Array.fill fresh 0 4 false in
    let push s = items := s :: !items in
    List.iter (fun op ->
      let (c, arg) = parse_op op in
      match c with
      | 's' ->
        (match String.index_opt arg '=' with
         | Some i ->
           let k = kc.parse (String.sub arg 0 i) and v = vc.parse (String.sub arg (i + 1) (String.length arg - i - 1)) in
           (match M.mset zcmp limit !m k v with
            | M.Ok (m', b) -> m := m'; edited (); push (b01 b)
            | M.Panic -> raise (Fail "panic:nil")
            | r -> ignore (ok r))
         | None -> push "?")
      | 'd' -> let (m', b) = ok (M.mdelete zcmp zv !m (kc.parse arg)) in m := m'; edited (); push (b01 b)
      | 'c' -> m := M.mclear !m; edited (); push "-"
      | 'g' -> let (v, okb) = M.mget_ok zcmp zv !m (kc.parse arg) in
        push (vc.show (M.mget zcmp zv !m (kc.parse arg)) ^ "," ^ vc.show v ^ "," ^ b01 okb)
      | 'l' -> push (string_of_int (int_of_z (M.mlen !m)))
      | 'k' -> push (match ok (M.mkeys !m) with None -> "nil" | Some ks -> show_keys kc ks)
      | 't' -> push (fmt_string kc vc (ok (M.mto_string zk zv !m)))
      | 'F' | 'L' | 'S' | 'n' | 'p' | 'e' | 'N' | 'P' ->
        if String.length arg < 1 || arg.[0] < '0' || arg.[0] > '3' then push "?" else begin
          let r = Char.code arg.[0] - 48 in
          let key () = kc.parse (key_arg arg) in
          match c with
          | 'F' -> regs.(r) <- Some (ok (M.mfirst !m)); fresh.(r) <- true; touch r; push (state ())
          | 'L' -> regs.(r) <- Some (ok (M.mlast !m)); fresh.(r) <- true; touch r; push (state ())
          | 'S' -> regs.(r) <- Some (ok (M.mseek zcmp zv !m (key ()))); fresh.(r) <- true; touch r; push (state ())
          | 'e' -> (match regs.(r) with
                    | None -> push "stale"
                    | Some _ -> regs.(r) <- Some (ok (M.iseek zcmp zv !m (key ()))); fresh.(r) <- true; push (state ()))
          | 'n' | 'p' ->
            (match regs.(r) with
             | Some cu when fresh.(r) ->
               regs.(r) <- Some (ok ((if c = 'n' then M.inext else M.iprev) !m cu)); push (state ())
             | _ -> push "stale")
          | _ ->
            (match regs.(r) with
             | Some cu when fresh.(r) ->
               let len = int_of_z (M.mlen !m) in
               let cur = ref cu and es = ref [] and step = ref 0 in
               while M.ivalid !cur && !step < len + 2 do
                 es := (kc.show (ok (M.ikey zk zv !m !cur)) ^ "=" ^ vc.show (ok (M.ivalue zk zv !m !cur))) :: !es;
                 cur := ok ((if c = 'N' then M.inext else M.iprev) !m !cur);
                 incr step
               done;
               regs.(r) <- Some !cur;
               let l = String.concat "," (List.rev !es) in
               push ("s:" ^ (if l = "" then "." else l) ^ ":" ^ b01 (M.ivalid !cur))
             | _ -> push "stale")
        end
      | _ -> push "?") ops
  with Fail s -> items := s :: !items);
  String.concat ";" (List.rev !items)

let eval inp =
  match words inp with
  | "M" :: cs :: kind :: rest ->
    eval_gen int_codec int_codec (cmp_of cs) kind (match rest with [o] -> split_on ';' o | _ -> [])
  | "T" :: cs :: kind :: rest ->
    eval_gen str_codec str_codec (str_cmp_of cs) kind (match rest with [o] -> split_on ';' o | _ -> [])
  | _ -> "?"

(* ------------------------------------------------------------------ the property on the implementation's output *)

let spec_gen (kc : 'k codec) (vc : 'v codec) (cf : 'k -> 'k -> int) kind ops out =
  let zero = (kind <> "n") in
  (try
    let l = ref [] in                                  (* the reference: entries ascending by key *)
    let regs = Array.make 4 None and fresh = Array.make 4 false in  (* Some (Some i) at index i, Some None invalid *)
    let used = ref 0 in
    let touch r = if r + 1 > !used then used := r + 1 in
    let edited () = Array.fill fresh 0 4 false in
    let fail op msg = raise (Fail (Printf.sprintf "op %s: %s" op msg)) in
    let expect op got want = if got <> want then fail op (Printf.sprintf "got %s, the reference map gives %s" got want) in
    let entry i = List.nth !l i in
    let inval = "0," ^ kc.show kc.zero ^ "," ^ vc.show vc.zero in
    let state () = String.concat "/" (List.init !used (fun i ->
      match regs.(i) with
      | Some p when fresh.(i) ->
        (match p with
         | Some j -> let (k, v) = entry j in "1," ^ kc.show k ^ "," ^ vc.show v
         | None -> inval)
      | _ -> "x")) in
    let seek_index k =
      let rec go i = function [] -> None | (k', _) :: r -> if cf k' k >= 0 then Some i else go (i + 1) r in go 0 !l in
    let rec go ops items =
      match ops, items with
      | [], [] -> ()
      | [], it :: _ -> raise (Fail ("extra output " ^ it))
      | op :: _, [] -> raise (Fail ("no output for " ^ op))
      | op :: ops', it :: items' ->
        if it = "hang" then fail op "hang";
        let (c, arg) = parse_op op in
        let n = List.length !l in
        let continue = ref true in
        (match c with
         | 's' ->
           (match String.index_opt arg '=' with
            | Some i ->
              let k = kc.parse (String.sub arg 0 i) and v = vc.parse (String.sub arg (i + 1) (String.length arg - i - 1)) in
              if zero then begin
                (* documented: calling Set on a zero Map will panic *)
                if String.length it < 5 || String.sub it 0 5 <> "panic" then fail op "Set on a zero Map did not panic";
                continue := false
              end else begin
                let present = List.exists (fun (k', _) -> cf k k' = 0) !l in
                expect op it (b01 (not present));
                l := if present then List.map (fun (k', v') -> if cf k k' = 0 then (k, v) else (k', v')) !l
                     else (let (lo, hi) = List.partition (fun (k', _) -> cf k' k < 0) !l in lo @ ((k, v) :: hi));
                edited ()
              end
            | None -> ())
         | 'd' ->
           let k = kc.parse arg in
           let present = List.exists (fun (k', _) -> cf k k' = 0) !l in
           expect op it (b01 present);
           l := List.filter (fun (k', _) -> cf k k' <> 0) !l; edited ()
         | 'c' -> expect op it "-"; l := []; edited ()
         | 'g' ->
           let k = kc.parse arg in
           (match List.find_opt (fun (k', _) -> cf k k' = 0) !l with
            | Some (_, v) -> expect op it (Printf.sprintf "%s,%s,1" (vc.show v) (vc.show v))
            | None -> expect op it (Printf.sprintf "%s,%s,0" (vc.show vc.zero) (vc.show vc.zero)))
         | 'l' -> expect op it (string_of_int n)
         | 'k' -> expect op it (if n = 0 then "nil" else show_keys kc (List.map fst !l))
         | 't' -> expect op it (fmt_string kc vc (Some !l))
         | 'F' | 'L' | 'S' | 'n' | 'p' | 'e' | 'N' | 'P' when String.length arg >= 1 && arg.[0] >= '0' && arg.[0] <= '3' ->
           let r = Char.code arg.[0] - 48 in
           let key () = kc.parse (key_arg arg) in
           if it = "stale" then () else begin
             if String.length it > 0 && it.[String.length it - 1] = '!' then fail op "the method did not return its receiver";
             (match c with
              | 'F' -> regs.(r) <- Some (if n = 0 then None else Some 0); fresh.(r) <- true; touch r; expect op it (state ())
              | 'L' -> regs.(r) <- Some (if n = 0 then None else Some (n - 1)); fresh.(r) <- true; touch r; expect op it (state ())
              | 'S' -> regs.(r) <- Some (seek_index (key ())); fresh.(r) <- true; touch r; expect op it (state ())
              | 'e' -> regs.(r) <- Some (seek_index (key ())); fresh.(r) <- true; expect op it (state ())
              | 'n' | 'p' ->
                (match regs.(r) with
                 | Some p when fresh.(r) ->
                   regs.(r) <- Some (match p with
                     | None -> None
                     | Some j -> if c = 'n' then (if j + 1 < n then Some (j + 1) else None)
                                 else (if j > 0 then Some (j - 1) else None));
                   expect op it (state ())
                 | _ -> fail op "executed on a stale iterator")
              | _ ->
                (match regs.(r) with
                 | Some p when fresh.(r) ->
                   let es = match p with
                     | None -> []
                     | Some j ->
                       let arr = Array.of_list !l in
                       if c = 'N' then Array.to_list (Array.sub arr j (n - j))
                       else List.rev (Array.to_list (Array.sub arr 0 (j + 1))) in
                   let s = String.concat "," (List.map (fun (k, v) -> kc.show k ^ "=" ^ vc.show v) es) in
                   expect op it ("s:" ^ (if s = "" then "." else s) ^ ":0");
                   regs.(r) <- Some None
                 | _ -> fail op "executed on a stale iterator"))
           end
         | _ -> ());
        if !continue then begin
          if String.length it >= 5 && String.sub it 0 5 = "panic" then fail op ("panic: " ^ it);
          go ops' items'
        end in
    go ops (split_on ';' out); None
  with Fail s -> Some s)

let spec prop inp out =
  if prop <> "C04" then None else
  match words inp with
  | "M" :: cs :: kind :: rest ->
    spec_gen int_codec int_codec (cmp_of cs) kind (match rest with [o] -> split_on ';' o | _ -> []) out
  | "T" :: cs :: kind :: rest ->
    spec_gen str_codec str_codec (str_cmp_of cs) kind (match rest with [o] -> split_on ';' o | _ -> []) out
  | _ -> None

let () = run_main ~eval ~spec
