(* Replays omaptrace lines on the extracted omap model (eval) and evaluates property C04 on the
   implementation's own outputs (spec) against a reference sorted association list written here in
   plain OCaml (not the extracted model).  Two key/value types: kind M = Map[int,int], kind T =
   Map[string,string] (token "~" = the empty string, the zero value).  fmt's %v of an int is its
   decimal form and of a string the string itself: [raw] below; String() is compared for both. *)

let nat (a : int) (b : int) = compare a b
let big = 1 lsl 61      (* stands for math.MaxInt: only the sign of a comparison is ever used *)

let rec cmp_of s : int -> int -> int =
  (* q<base>: the harness wraps <base> into a comparator that also READS the map it belongs to
     (round 5); as a comparison it is <base> *)
  if String.length s > 1 && s.[0] = 'q' then cmp_of (String.sub s 1 (String.length s - 1)) else
  let modk () =
    let k = int_of_string (String.sub s 1 (String.length s - 1)) in
    let k = if k <= 0 then 1 else k in
    fun a -> ((a mod k) + k) mod k in
  let ext a b = if a < b then - big else if a > b then big else 0 in
  if s = "n" then nat
  else if s = "r" then (fun a b -> nat b a)
  else if s = "a" then (fun a b -> a - b)
  else if s = "t" then (fun a b -> 3 * (a - b))
  else if s = "h" then (fun a b -> (a - b) * (1 lsl 32))
  else if s = "A" then (fun a b -> b - a)
  else if s = "D" then (fun a b -> 7 * (b - a))
  else if s = "x" then ext
  else if s = "X" then (fun a b -> ext b a)
  else if String.length s > 1 && s.[0] = 'm' then (let md = modk () in fun a b -> nat (md a) (md b))
  else if String.length s > 1 && s.[0] = 'M' then (let md = modk () in fun a b -> md a - md b)
  else if String.length s > 1 && s.[0] = 'R' then (let md = modk () in fun a b -> md b - md a)
  else failwith "bad comparator"

let str_cmp_of s : string -> string -> int =
  let bytewise a b =
    let n = min (String.length a) (String.length b) in
    let rec go i = if i >= n then String.length a - String.length b
      else if a.[i] <> b.[i] then Char.code a.[i] - Char.code b.[i] else go (i + 1) in
    go 0 in
  let first a = if a = "" then 0 else Char.code a.[0] in
  match s with
  | "n" -> (fun a b -> compare a b)            (* OCaml's string order is byte-wise, like Go's *)
  | "r" -> (fun a b -> compare b a)
  | "l" -> (fun a b -> String.length a - String.length b)
  | "L" -> (fun a b -> String.length b - String.length a)
  | "b" -> bytewise
  | "B" -> (fun a b -> bytewise b a)
  | "f" -> (fun a b -> first a - first b)
  | _ -> failwith "bad string comparator"

(* how keys / values are written: [parse]/[show] in trace items, [raw] as fmt's %v prints them *)
type 'a codec = { parse : string -> 'a; show : 'a -> string; raw : 'a -> string; zero : 'a }
let int_codec = { parse = int_of_string; show = string_of_int; raw = string_of_int; zero = 0 }
(* string tokens: "~" = the empty string; %XX (upper-case hex) = that byte; letters and digits as they are *)
let is_alnum c = (c >= 'a' && c <= 'z') || (c >= 'A' && c <= 'Z') || (c >= '0' && c <= '9')
let unhex c = if c >= '0' && c <= '9' then Some (Char.code c - 48) else if c >= 'A' && c <= 'F' then Some (Char.code c - 55) else None
let unesc_token s =
  if not (String.contains s '%') then s else begin
    let b = Buffer.create (String.length s) and i = ref 0 and n = String.length s in
    while !i < n do
      (match (if s.[!i] = '%' && !i + 2 < n then (match unhex s.[!i + 1], unhex s.[!i + 2] with Some h, Some l -> Some (16 * h + l) | _ -> None) else None) with
       | Some v -> Buffer.add_char b (Char.chr v); i := !i + 3
       | None -> Buffer.add_char b s.[!i]; incr i)
    done;
    Buffer.contents b
  end
let esc_with keep s =
  let b = Buffer.create (String.length s) in
  String.iter (fun c -> match keep c with
    | Some c' -> Buffer.add_char b c'
    | None -> Buffer.add_string b (Printf.sprintf "%%%02X" (Char.code c))) s;
  Buffer.contents b
let esc_token = esc_with (fun c -> if is_alnum c then Some c else None)
(* String() as written into the trace: ' ' as '_', letters, digits and [ ] : - as they are, the rest %XX *)
let esc_string = esc_with (fun c -> if c = ' ' then Some '_' else if is_alnum c || c = '[' || c = ']' || c = ':' || c = '-' then Some c else None)
let str_codec = { parse = (fun s -> if s = "~" then "" else unesc_token s); show = (fun s -> if s = "" then "~" else esc_token s);
                  raw = (fun s -> s); zero = "" }

let split_on c s = if s = "" then [] else String.split_on_char c s

(* ---- round 5: typed K lines (harness typed.go).  Keys and values are integer codes; per key type the
   RANK of every code in cmp.Compare's total order (NaN first and equal to every NaN, -0 equal to +0:
   equal ranks = equivalent keys) and its %v text; per value type its %v text. *)
let f64_raw = [| "NaN"; "NaN"; "-Inf"; "-1.7976931348623157e+308"; "-2.5"; "-1"; "-5e-324"; "-0"; "0"; "5e-324";
  "2.2250738585072014e-308"; "0.1"; "0.3"; "0.30000000000000004"; "1"; "1.0000000000000002"; "2.5";
  "9.007199254740992e+15"; "9.007199254740994e+15"; "1e+21"; "1.7976931348623157e+308"; "+Inf" |]
let f32_raw = [| "NaN"; "NaN"; "-Inf"; "-3.4028235e+38"; "-2.5"; "-1"; "-1e-45"; "-0"; "0"; "1e-45";
  "1.1754944e-38"; "0.1"; "0.3"; "0.30000004"; "1"; "1.0000001"; "2.5";
  "1.6777216e+07"; "1.6777218e+07"; "1e+21"; "3.4028235e+38"; "+Inf" |]
(* codes 0,1 the two NaNs; 7,8 the two zeros *)
let float_rank c = if c <= 1 then 0 else if c <= 7 then c - 1 else c - 2
let i64_raw = [| "-9223372036854775808"; "-9223372036854775807"; "-9007199254740993"; "-2"; "-1"; "0"; "1"; "2";
  "9007199254740993"; "9223372036854775806"; "9223372036854775807" |]
let u64_raw = [| "0"; "1"; "2"; "2147483648"; "4294967296"; "9223372036854775807"; "9223372036854775808";
  "9223372036854775809"; "18446744073709551614"; "18446744073709551615" |]
let ns_raw = [| ""; "\000"; " "; "A"; "Z"; "a"; "a\000"; "aa"; "ab"; "b"; "z"; "\127"; "\128"; "\195\169"; "\255" |]
let table_codec (raw : string array) zero =
  { parse = (fun s -> let c = int_of_string s in if c < 0 || c >= Array.length raw then failwith "bad key code" else c);
    show = string_of_int; raw = (fun c -> raw.(c)); zero }
let range_codec lo hi =
  { parse = (fun s -> let c = int_of_string s in if c < lo || c > hi then failwith "bad key code" else c);
    show = string_of_int; raw = string_of_int; zero = 0 }
(* (key codec, rank, value codec) *)
let typed ty : int codec * (int -> int) * int codec =
  let ident c = c in
  let ints = int_codec in
  match ty with
  | "f64" | "nf" -> (table_codec f64_raw 8, float_rank, ints)
  | "f32" -> (table_codec f32_raw 8, float_rank, ints)
  | "i8" -> (range_codec (-128) 127, ident,
             { parse = (fun s -> if int_of_string s <> 0 then 1 else 0); show = string_of_int;
               raw = (fun v -> if v <> 0 then "true" else "false"); zero = 0 })
  | "u8" -> (range_codec 0 255, ident,
             { ints with raw = (fun v -> if v = 0 then "[0 0 0 0 0]" else Printf.sprintf "[%d %d %d %d %d]" v (v + 1) (v + 2) (v + 3) (v + 4)) })
  | "i64" -> (table_codec i64_raw 5, ident, ints)
  | "u64" -> (table_codec u64_raw 0, ident, { ints with raw = (fun _ -> "?") })     (* pointer values: no String op *)
  | "ns" -> (table_codec ns_raw 0, ident, { ints with raw = (fun v -> if v = 0 then "" else "v" ^ string_of_int v) })
  | _ -> failwith "bad key type"
let typed_cmp rank cs : int -> int -> int =
  match cs with
  | "n" | "c" | "w" -> (fun a b -> compare (rank a) (rank b))
  | "r" -> (fun a b -> compare (rank b) (rank a))
  | _ -> failwith "bad constructor"

exception Fail of string
exception Stop_case        (* the documented panic of Set on a zero Map: the case ends here *)
let ok = function M.Ok a -> a | M.Panic -> raise (Fail "PANIC") | M.OutOfFuel -> raise (Fail "FUEL") | M.BadOracle -> raise (Fail "ORACLE")

let key_arg arg = match String.index_opt arg '=' with Some i -> String.sub arg (i + 1) (String.length arg - i - 1) | None -> "0"

(* op -> (letter, argument); a leading '@' (through the copy) is dropped: a copy is the same map *)
let parse_op op =
  let op' = if String.length op > 0 && op.[0] = '@' then String.sub op 1 (String.length op - 1) else op in
  if op' = "" then ('?', "") else (op'.[0], String.sub op' 1 (String.length op' - 1))

(* ------------------------------------------------------------------ big maps: digest, LCG, orders
   (mirrors harness/cmd/omaptrace/scale.go) *)

let dg_p1 = 2147483647 and dg_m1 = 1000003 and dg_p2 = 2147483629 and dg_m2 = 1000033
type dig = { mutable h1 : int; mutable h2 : int }
let dnew () = { h1 = 0; h2 = 0 }
let dadd d x =
  let v1 = ((x mod dg_p1) + dg_p1) mod dg_p1 and v2 = ((x mod dg_p2) + dg_p2) mod dg_p2 in
  d.h1 <- (d.h1 * dg_m1 + v1 + 12345) mod dg_p1;
  d.h2 <- (d.h2 * dg_m2 + v2 + 54321) mod dg_p2
let dadd_str d s = String.iter (fun c -> dadd d (Char.code c)) s; dadd d (-1)
let dstr d = Printf.sprintf "%08x%08x" d.h1 d.h2
let digest_of l = let d = dnew () in List.iter (dadd d) l; dstr d

let plain_max = 200
let zigzag = "npppnnpn"
let fmt_ints l =
  let n = List.length l in
  if n <= plain_max then str_ints l
  else Printf.sprintf "#%d~%d~%d~%s" n (List.hd l) (List.nth l (n - 1)) (digest_of l)

let perm_of n seed =
  let p = Array.init n (fun i -> i) in
  let x = ref (((seed mod 2147483648) + 2147483648) mod 2147483648) in
  for i = n - 1 downto 1 do
    x := (!x * 1103515245 + 12345) mod 2147483648;
    let j = (!x lsr 8) mod (i + 1) in
    let t = p.(i) in p.(i) <- p.(j); p.(j) <- t
  done;
  Array.to_list p

let rec order_idx pat n seed : int list option =
  match pat with
  | 'a' -> Some (List.init n (fun i -> i))
  | 'd' -> Some (List.init n (fun i -> n - 1 - i))
  | 'z' ->
    let out = ref [] and lo = ref 0 and hi = ref (n - 1) in
    while !lo <= !hi do
      out := !lo :: !out;
      if !lo <> !hi then out := !hi :: !out;
      incr lo; decr hi
    done;
    Some (List.rev !out)
  | 'i' -> (match order_idx 'z' n seed with Some l -> Some (List.rev l) | None -> None)
  | 'r' -> Some (perm_of n seed)
  | 'b' ->
    let out = ref [] in
    let q = Queue.create () in
    Queue.add (0, n - 1) q;
    while not (Queue.is_empty q) do
      let (lo, hi) = Queue.pop q in
      if lo <= hi then begin
        let mid = lo + (hi - lo) / 2 in
        out := mid :: !out;
        Queue.add (lo, mid - 1) q; Queue.add (mid + 1, hi) q
      end
    done;
    Some (List.rev !out)
  | 'B' -> (match order_idx 'b' n seed with Some l -> Some (List.rev l) | None -> None)
  | _ -> None

let rec take m l = if m <= 0 then [] else match l with [] -> [] | x :: r -> x :: take (m - 1) r

(* which ranks (of len keys) to remove, in order; metric (depths for s/p, depth + height for P) only for s/p/P *)
let removal_idx ord len keep seed (metric : char -> int array) : int list =
  let m = len - keep in
  if m <= 0 || keep < 0 then [] else
  let first pat = match order_idx pat len seed with Some l -> take m l | None -> [] in
  match ord with
  | 'l' -> first 'a' | 'h' -> first 'd' | 'o' -> first 'z'
  | 'i' | 'b' | 'B' -> first ord
  | 'r' -> take m (perm_of len seed)
  | 'e' | 'E' ->
    let kept = Array.make len false in
    for j = 0 to keep - 1 do kept.(j * len / keep) <- true done;
    let out = List.filter (fun i -> not kept.(i)) (List.init len (fun i -> i)) in
    if ord = 'E' then List.rev out else out
  | 's' | 'p' | 'P' ->
    let d = metric ord in
    let idx = List.init len (fun i -> i) in
    let c = if ord = 'p' then (fun a b -> compare d.(b) d.(a)) else (fun a b -> compare d.(a) d.(b)) in
    take m (List.stable_sort c idx)
  | _ -> []

let max_big_keys = 20000
let int_opt s = try Some (int_of_string s) with _ -> None
let ord_letters = "lhoibBreEspP"
let big_val k seed = ((((k * 7 + seed) mod 1000) + 1000) mod 1000) + 1

type macro = MB of char * int * int * int * int | MD of char * int * int | MQ of int | MBad | MPrim
let parse_macro natural op =
  if op = "" then MPrim else
  match op.[0] with
  | 'B' ->
    (match String.split_on_char ':' (String.sub op 1 (String.length op - 1)) with
     | [p; lo; n; step; seed] when String.length p = 1 ->
       (match int_opt lo, int_opt n, int_opt step, int_opt seed with
        | Some lo, Some n, Some step, Some seed when n >= 0 && n <= max_big_keys && (n = 0 || order_idx p.[0] n seed <> None) ->
          MB (p.[0], lo, n, step, seed)
        | _ -> MBad)
     | _ -> MBad)
  | 'D' ->
    (match String.split_on_char ':' (String.sub op 1 (String.length op - 1)) with
     | [o; keep; seed] when String.length o = 1 && String.contains ord_letters o.[0] && not (natural && (o.[0] = 's' || o.[0] = 'p' || o.[0] = 'P')) ->
       (match int_opt keep, int_opt seed with
        | Some keep, Some seed -> MD (o.[0], keep, seed)
        | _ -> MBad)
     | _ -> MBad)
  | 'Q' ->
    (match int_opt (String.sub op 1 (String.length op - 1)) with
     | Some s when s >= 0 && s <= 64 -> MQ s
     | _ -> MBad)
  | _ -> MPrim

let add_keys pat lo n step seed =
  match order_idx pat n seed with Some idx -> List.map (fun j -> lo + step * j) idx | None -> []

(* the depth limit of the replayed tree: HeightModel.limit_capped (extracted), remembered per
   argument (its fuel is a unary number as large as the tree) *)
let limit_tbl : (int * int, M.z) Hashtbl.t = Hashtbl.create 1024
let limit_memo (b : M.z) (n : M.z) : M.z =
  let key = (int_of_z b, int_of_z n) in
  match Hashtbl.find_opt limit_tbl key with
  | Some v -> v
  | None -> let v = M.limit_capped b n in Hashtbl.add limit_tbl key v; v

(* Map.String: "omap[" k:v k:v ... "]" with %v for keys and values, one blank between entries; written
   into the trace by esc_string *)
let fmt_string kc vc = function
  | None -> "omap[]"
  | Some es -> esc_string ("omap[" ^ String.concat " " (List.map (fun (k, v) -> kc.raw k ^ ":" ^ vc.raw v) es) ^ "]")

let show_keys kc = function [] -> "empty" | ks -> String.concat "," (List.map kc.show ks)

let eval_gen (kc : 'k codec) (vc : 'v codec) (cf : 'k -> 'k -> int) kind ops macro =
  let zcmp a b = z_of_int (cf a b) in
  let limit = limit_memo in
  let zk = kc.zero and zv = vc.zero in
  let items = ref [] in
  (try
    let m = ref (if kind = "n" then ok (M.new_func zcmp) else M.zero_map) in
    let regs = Array.make 4 None and fresh = Array.make 4 false in
    let used = ref 0 in
    let touch r = if r + 1 > !used then used := r + 1 in
    let state () = String.concat "/" (List.init !used (fun i ->
      match regs.(i) with
      | Some c when fresh.(i) ->
        b01 (M.ivalid c) ^ "," ^ kc.show (ok (M.ikey zk zv !m c)) ^ "," ^ vc.show (ok (M.ivalue zk zv !m c))
      | _ -> "x")) in
    let edited () = Array.fill fresh 0 4 false in
    let push s = items := s :: !items in
    List.iter (fun op ->
      let (c, arg) = parse_op op in
      match (match macro with Some f -> f m (String.make 1 c ^ arg) | None -> None) with
      | Some (item, ed) -> if ed then edited (); push item
      | None ->
      match c with
      | 's' ->
        (match String.index_opt arg '=' with
         | Some i ->
           let k = kc.parse (String.sub arg 0 i) and v = vc.parse (String.sub arg (i + 1) (String.length arg - i - 1)) in
           (match M.mset zcmp limit !m k v with
            | M.Ok (m', b) -> m := m'; edited (); push (b01 b)
            | M.Panic -> raise (Fail "panic:nil")
            | r -> ignore (ok r))
         | None -> push "?")
      | 'd' -> let (m', b) = ok (M.mdelete zcmp zv !m (kc.parse arg)) in m := m'; edited (); push (b01 b)
      | 'c' -> m := M.mclear !m; edited (); push "-"
      | 'g' -> let (v, okb) = M.mget_ok zcmp zv !m (kc.parse arg) in
        push (vc.show (M.mget zcmp zv !m (kc.parse arg)) ^ "," ^ vc.show v ^ "," ^ b01 okb)
      | 'l' -> push (string_of_int (int_of_z (M.mlen !m)))
      | 'k' -> push (match ok (M.mkeys !m) with None -> "nil" | Some ks -> show_keys kc ks)
      | 't' -> push (fmt_string kc vc (ok (M.mto_string zk zv !m)))
      | 'F' | 'L' | 'S' | 'n' | 'p' | 'e' | 'N' | 'P' ->
        if String.length arg < 1 || arg.[0] < '0' || arg.[0] > '3' then push "?" else begin
          let r = Char.code arg.[0] - 48 in
          let key () = kc.parse (key_arg arg) in
          match c with
          | 'F' -> regs.(r) <- Some (ok (M.mfirst !m)); fresh.(r) <- true; touch r; push (state ())
          | 'L' -> regs.(r) <- Some (ok (M.mlast !m)); fresh.(r) <- true; touch r; push (state ())
          | 'S' -> regs.(r) <- Some (ok (M.mseek zcmp zv !m (key ()))); fresh.(r) <- true; touch r; push (state ())
          | 'e' -> (match regs.(r) with
                    | None -> push "stale"
                    | Some _ -> regs.(r) <- Some (ok (M.iseek zcmp zv !m (key ()))); fresh.(r) <- true; push (state ()))
          | 'n' | 'p' ->
            (match regs.(r) with
             | Some cu when fresh.(r) ->
               regs.(r) <- Some (ok ((if c = 'n' then M.inext else M.iprev) !m cu)); push (state ())
             | _ -> push "stale")
          | _ ->
            (match regs.(r) with
             | Some cu when fresh.(r) ->
               let len = int_of_z (M.mlen !m) in
               let cur = ref cu and es = ref [] and step = ref 0 in
               while M.ivalid !cur && !step < len + 2 do
                 es := (kc.show (ok (M.ikey zk zv !m !cur)) ^ "=" ^ vc.show (ok (M.ivalue zk zv !m !cur))) :: !es;
                 cur := ok ((if c = 'N' then M.inext else M.iprev) !m !cur);
                 incr step
               done;
               regs.(r) <- Some !cur;
               let l = String.concat "," (List.rev !es) in
               push ("s:" ^ (if l = "" then "." else l) ^ ":" ^ b01 (M.ivalid !cur))
             | _ -> push "stale")
        end
      | _ -> push "?") ops
  with Fail s -> items := s :: !items);
  String.concat ";" (List.rev !items)

(* probe() of scale.go on the model *)
let probe_model zcmp m s =
  let keys = match ok (M.mkeys m) with None -> [] | Some ks -> ks in
  let n = List.length keys in
  let dkey = dnew () and dval = dnew () and dget = dnew () and dabs = dnew () and dnext = dnew () and dprev = dnew ()
  and dzig = dnew () and dre = dnew () in
  let nv = ref 0 and nget = ref 0 and fb = ref "-" in
  let ikey c = ok (M.ikey 0 0 m c) and ival c = ok (M.ivalue 0 0 m c) in
  let key_or c = if M.ivalid c then ikey c else -1 and val_or c = if M.ivalid c then ival c else -1 in
  List.iter (fun k ->
    let it = ok (M.mseek zcmp 0 m k) in
    if M.ivalid it && ikey it = k then incr nv else if !fb = "-" then fb := string_of_int k;
    dadd dkey (ikey it); dadd dval (ival it);
    (let (v, okb) = M.mget_ok zcmp 0 m k in if okb then begin incr nget; dadd dget v end else dadd dget (-1));
    dadd dget (M.mget zcmp 0 m k);
    dadd dabs (key_or (ok (M.mseek zcmp 0 m (k + 1))));
    let c = ref it in
    for _ = 1 to s do c := ok (M.inext m !c); dadd dnext (key_or !c); dadd dnext (val_or !c) done;
    c := ok (M.mseek zcmp 0 m k);
    for _ = 1 to s do c := ok (M.iprev m !c); dadd dprev (key_or !c); dadd dprev (val_or !c) done;
    let cz = ref (ok (M.mseek zcmp 0 m k)) in
    String.iter (fun ch -> cz := ok ((if ch = 'n' then M.inext else M.iprev) m !cz); dadd dzig (key_or !cz); dadd dzig (val_or !cz)) zigzag;
    c := ok (M.iseek zcmp 0 m k);
    dadd dre (key_or !c); dadd dre (val_or !c)) keys;
  let sweep start mv =
    let c = ref start and ks = ref [] and vs = ref [] and step = ref 0 in
    while M.ivalid !c && !step < n + 2 do
      ks := ikey !c :: !ks; vs := ival !c :: !vs; c := ok (mv m !c); incr step
    done; (!ks, !vs) in
  let (fk, fv) = sweep (ok (M.mfirst m)) M.inext in
  let fwd = List.rev fk and vfwd = List.rev fv in
  let (bwd, _) = sweep (ok (M.mlast m)) M.iprev in                  (* collected in reverse = the reversed list *)
  let i = string_of_int in
  "q/" ^ String.concat "/" [
    "n=" ^ i (int_of_z (M.mlen m)); "keys=" ^ fmt_ints keys;
    "nv=" ^ i !nv; "fb=" ^ !fb; "dkey=" ^ dstr dkey; "dval=" ^ dstr dval;
    "nget=" ^ i !nget; "dget=" ^ dstr dget; "dabs=" ^ dstr dabs;
    "dnext=" ^ dstr dnext; "dprev=" ^ dstr dprev; "dzig=" ^ dstr dzig; "dre=" ^ dstr dre;
    "nfwd=" ^ i (List.length fwd); "dfwd=" ^ digest_of fwd; "dvfwd=" ^ digest_of vfwd;
    "nbwd=" ^ i (List.length bwd); "dbwd=" ^ digest_of bwd ]

(* per key in in-order: the number of nodes on the path to it (what the harness measures as the
   comparator calls of GetOK), or for P the largest such number among the keys of its subtree *)
let metric_of_model m ord : int array =
  let out = ref [] in
  let rec go d = function
    | M.Leaf -> 0
    | M.Node (l, _, r) ->
      let hl = go (d + 1) l in
      let cell = ref 0 in
      out := cell :: !out;
      let hr = go (d + 1) r in
      let deepest = max d (max hl hr) in
      cell := (if ord = 'P' then deepest else d); deepest in
  (match m with Some t -> ignore (go 1 t.M.root) | None -> ());
  Array.of_list (List.rev_map (fun c -> !c) !out)

(* B, D, Q on the model of a Map[int,int]: Some (item, edited) *)
let int_macro natural cf m op =
  let zcmp a b = z_of_int (cf a b) in
  match parse_macro natural op with
  | MPrim -> None
  | MBad -> Some ("?", false)
  | MB (pat, lo, n, step, seed) ->
    let cnt = ref 0 in
    List.iter (fun k ->
      match M.mset zcmp limit_memo !m k (big_val k seed) with
      | M.Ok (m', b) -> m := m'; if b then incr cnt
      | M.Panic -> raise (Fail "panic:nil")
      | r -> ignore (ok r)) (add_keys pat lo n step seed);
    Some ("b" ^ string_of_int !cnt, true)
  | MD (ord, keep, seed) ->
    let keys = Array.of_list (match ok (M.mkeys !m) with None -> [] | Some ks -> ks) in
    let cnt = ref 0 in
    List.iter (fun j ->
      let (m', b) = ok (M.mdelete zcmp 0 !m keys.(j)) in m := m'; if b then incr cnt)
      (removal_idx ord (Array.length keys) keep seed (metric_of_model !m));
    Some ("d" ^ string_of_int !cnt, true)
  | MQ s -> Some (probe_model zcmp !m s, false)

let eval inp =
  match words inp with
  | "M" :: cs :: kind :: rest ->
    let cf = cmp_of cs in
    eval_gen int_codec int_codec cf kind (match rest with [o] -> split_on ';' o | _ -> []) (Some (int_macro (cs = "n") cf))
  | "T" :: cs :: kind :: rest ->
    eval_gen str_codec str_codec (str_cmp_of cs) kind (match rest with [o] -> split_on ';' o | _ -> []) None
  | "K" :: ty :: cs :: kind :: rest ->
    let (kc, rank, vc) = typed ty in
    eval_gen kc vc (typed_cmp rank cs) kind (match rest with [o] -> split_on ';' o | _ -> []) None
  | _ -> "?"

(* ------------------------------------------------------------------ the property on the implementation's output *)

let spec_gen (kc : 'k codec) (vc : 'v codec) (cf : 'k -> 'k -> int) kind ops out smacro =
  let zero = (kind <> "n") in
  (try
    let l = ref [] in                                  (* the reference: entries ascending by key *)
    let regs = Array.make 4 None and fresh = Array.make 4 false in  (* Some (Some i) at index i, Some None invalid *)
    let used = ref 0 in
    let touch r = if r + 1 > !used then used := r + 1 in
    let edited () = Array.fill fresh 0 4 false in
    let fail op msg = raise (Fail (Printf.sprintf "op %s: %s" op msg)) in
    let expect op got want = if got <> want then fail op (Printf.sprintf "got %s, the reference map gives %s" got want) in
    let entry i = List.nth !l i in
    let inval = "0," ^ kc.show kc.zero ^ "," ^ vc.show vc.zero in
    let state () = String.concat "/" (List.init !used (fun i ->
      match regs.(i) with
      | Some p when fresh.(i) ->
        (match p with
         | Some j -> let (k, v) = entry j in "1," ^ kc.show k ^ "," ^ vc.show v
         | None -> inval)
      | _ -> "x")) in
    let seek_index k =
      let rec go i = function [] -> None | (k', _) :: r -> if cf k' k >= 0 then Some i else go (i + 1) r in go 0 !l in
    let rec go ops items =
      match ops, items with
      | [], [] -> ()
      | [], it :: _ -> raise (Fail ("extra output " ^ it))
      | op :: _, [] -> raise (Fail ("no output for " ^ op))
      | op :: ops', it :: items' ->
        if it = "hang" then fail op "hang";
        let (c, arg) = parse_op op in
        let n = List.length !l in
        let continue = ref true in
        (* 0: not a macro operation; 1: a macro operation, checked; 2: an operation the reference cannot follow (see int_smacro) *)
        let mres = match smacro with
          | Some f -> (try f zero l (String.make 1 c ^ arg) it with Stop_case -> continue := false; 1)
          | None -> 0 in
        (match c with
         | _ when mres = 1 -> edited ()
         | _ when mres = 2 ->
           (match c with
            | 's' | 'd' | 'c' -> edited ()
            | 'F' | 'L' | 'S' when String.length arg >= 1 && arg.[0] >= '0' && arg.[0] <= '3' ->
              let r = Char.code arg.[0] - 48 in regs.(r) <- Some None; fresh.(r) <- false; touch r
            | _ -> ())
         | 's' ->
           (match String.index_opt arg '=' with
            | Some i ->
              let k = kc.parse (String.sub arg 0 i) and v = vc.parse (String.sub arg (i + 1) (String.length arg - i - 1)) in
              if zero then begin
                (* documented: calling Set on a zero Map will panic *)
                if String.length it < 5 || String.sub it 0 5 <> "panic" then fail op "Set on a zero Map did not panic";
                continue := false
              end else begin
                let present = List.exists (fun (k', _) -> cf k k' = 0) !l in
                expect op it (b01 (not present));
                l := if present then List.map (fun (k', v') -> if cf k k' = 0 then (k, v) else (k', v')) !l
                     else (let (lo, hi) = List.partition (fun (k', _) -> cf k' k < 0) !l in lo @ ((k, v) :: hi));
                edited ()
              end
            | None -> ())
         | 'd' ->
           let k = kc.parse arg in
           let present = List.exists (fun (k', _) -> cf k k' = 0) !l in
           expect op it (b01 present);
           l := List.filter (fun (k', _) -> cf k k' <> 0) !l; edited ()
         | 'c' -> expect op it "-"; l := []; edited ()
         | 'g' ->
           let k = kc.parse arg in
           (match List.find_opt (fun (k', _) -> cf k k' = 0) !l with
            | Some (_, v) -> expect op it (Printf.sprintf "%s,%s,1" (vc.show v) (vc.show v))
            | None -> expect op it (Printf.sprintf "%s,%s,0" (vc.show vc.zero) (vc.show vc.zero)))
         | 'l' -> expect op it (string_of_int n)
         | 'k' -> expect op it (if n = 0 then "nil" else show_keys kc (List.map fst !l))
         | 't' -> expect op it (fmt_string kc vc (Some !l))
         | 'F' | 'L' | 'S' | 'n' | 'p' | 'e' | 'N' | 'P' when String.length arg >= 1 && arg.[0] >= '0' && arg.[0] <= '3' ->
           let r = Char.code arg.[0] - 48 in
           let key () = kc.parse (key_arg arg) in
           if it = "stale" then () else begin
             if String.length it > 0 && it.[String.length it - 1] = '!' then fail op "the method did not return its receiver";
             (match c with
              | 'F' -> regs.(r) <- Some (if n = 0 then None else Some 0); fresh.(r) <- true; touch r; expect op it (state ())
              | 'L' -> regs.(r) <- Some (if n = 0 then None else Some (n - 1)); fresh.(r) <- true; touch r; expect op it (state ())
              | 'S' -> regs.(r) <- Some (seek_index (key ())); fresh.(r) <- true; touch r; expect op it (state ())
              | 'e' -> regs.(r) <- Some (seek_index (key ())); fresh.(r) <- true; expect op it (state ())
              | 'n' | 'p' ->
                (match regs.(r) with
                 | Some p when fresh.(r) ->
                   regs.(r) <- Some (match p with
                     | None -> None
                     | Some j -> if c = 'n' then (if j + 1 < n then Some (j + 1) else None)
                                 else (if j > 0 then Some (j - 1) else None));
                   expect op it (state ())
                 | _ -> fail op "executed on a stale iterator")
              | _ ->
                (match regs.(r) with
                 | Some p when fresh.(r) ->
                   let es = match p with
                     | None -> []
                     | Some j ->
                       let arr = Array.of_list !l in
                       if c = 'N' then Array.to_list (Array.sub arr j (n - j))
                       else List.rev (Array.to_list (Array.sub arr 0 (j + 1))) in
                   let s = String.concat "," (List.map (fun (k, v) -> kc.show k ^ "=" ^ vc.show v) es) in
                   expect op it ("s:" ^ (if s = "" then "." else s) ^ ":0");
                   regs.(r) <- Some None
                 | _ -> fail op "executed on a stale iterator"))
           end
         | _ -> ());
        if !continue then begin
          if String.length it >= 5 && String.sub it 0 5 = "panic" then fail op ("panic: " ^ it);
          go ops' items'
        end in
    go ops (split_on ';' out); None
  with Fail s -> Some s)

(* B, D, Q against the reference association list l (ascending by key), in plain OCaml: true when
   op is one of them (the reference is updated), Fail when the implementation's item is not what the
   reference gives.  Every field of a probe item is decided by the reference.  Exception: after a
   Delete in real-depth order (s/p) the reference knows how many entries remain and that they are
   among the previous ones ([sup]: l is a superset) until a probe prints the keys in full; meanwhile
   a probe is checked for Len and for the agreement of its own parts, other operations are not checked. *)
type sstate = { mutable sup : bool; mutable card : int; mutable lenient : bool }

let int_smacro natural cf (st : sstate) zero (l : (int * int) list ref) op it =
  let module Mp = Map.Make (struct type t = int let compare a b = let c = cf a b in if c < 0 then -1 else if c > 0 then 1 else 0 end) in
  let failop msg = raise (Fail (Printf.sprintf "op %s: %s" op msg)) in
  let to_map () = List.fold_left (fun m (k, v) -> Mp.add k v m) Mp.empty !l in
  let is_panic = String.length it >= 5 && String.sub it 0 5 = "panic" in
  if it = "hang" then failop "hang";
  match parse_macro natural op with
  | MPrim ->
    (* iterators positioned while the reference could not follow stay unchecked until the next edit *)
    let c = if op = "" then '?' else op.[0] in
    if st.sup then (if is_panic then failop ("panic: " ^ it); 2)
    else if st.lenient then begin
      if c = 's' || c = 'd' || c = 'c' then (st.lenient <- false; 0)
      else if String.contains "FLSnpeNP" c then (if is_panic then failop ("panic: " ^ it); 2)
      else 0
    end else 0
  | MBad -> 1
  | MB (_, _, n, _, _) when is_panic -> if zero && n > 0 then raise Stop_case else failop ("panic: " ^ it)
  | _ when is_panic -> failop ("panic: " ^ it)
  | MB (pat, lo, n, step, seed) ->
    if zero && n > 0 then failop "Set on a zero Map did not panic";
    let m = ref (to_map ()) and cnt = ref 0 in
    List.iter (fun k -> if not (Mp.mem k !m) then incr cnt; m := Mp.add k (big_val k seed) (Mp.remove k !m)) (add_keys pat lo n step seed);
    l := Mp.bindings !m;
    if st.sup then st.card <- -1           (* which of the keys were new is not known *)
    else if it <> "b" ^ string_of_int !cnt then failop (Printf.sprintf "Set reported %s new keys, the reference map gives %d" it !cnt);
    st.lenient <- false; 1
  | MD (ord, keep, seed) ->
    let len = if st.sup then st.card else List.length !l in
    if len >= 0 then begin
      let mrem = if keep < 0 then 0 else max 0 (len - keep) in
      if it <> "d" ^ string_of_int mrem then failop (Printf.sprintf "Delete reported %s present keys, the reference map gives %d" it mrem);
      if st.sup || ((ord = 's' || ord = 'p' || ord = 'P') && mrem > 0) then begin st.sup <- true; st.card <- len - mrem end
      else begin
        let keys = Array.of_list (List.map fst !l) in
        let idx = removal_idx ord len keep seed (fun _ -> [||]) in
        l := Mp.bindings (List.fold_left (fun m j -> Mp.remove keys.(j) m) (to_map ()) idx)
      end
    end;
    st.lenient <- false; 1
  | MQ s ->
    let f = match String.split_on_char '/' it with
      | "q" :: fs -> List.filter_map (fun x -> match String.index_opt x '=' with
          | Some i -> Some (String.sub x 0 i, String.sub x (i + 1) (String.length x - i - 1)) | None -> None) fs
      | _ -> failop "bad probe item" in
    let get k = try List.assoc k f with Not_found -> failop ("probe item without " ^ k) in
    let geti k = try int_of_string (get k) with Failure _ -> failop ("bad number in " ^ k) in
    if get "fb" <> "-" then failop (Printf.sprintf "Seek(%s) is not a valid iterator at that key although Keys lists the key" (get "fb"));
    (* a superset: resolved when the probe prints the keys in full *)
    if st.sup then begin
      let n = geti "n" in
      if st.card >= 0 && n <> st.card then failop (Printf.sprintf "Len is %d, the reference map holds %d entries" n st.card);
      st.card <- n;
      let keys_txt = get "keys" in
      if not (String.length keys_txt > 0 && keys_txt.[0] = '#') then begin
        let ks = ints_of keys_txt in
        let m = to_map () in
        l := List.map (fun k -> match Mp.find_opt k m with
          | Some v -> (k, v)
          | None -> failop (Printf.sprintf "Keys lists %d, which the reference map never held at this point" k)) ks;
        let rec asc = function (a, _) :: ((b, _) :: _ as r) -> cf a b < 0 && asc r | _ -> true in
        if not (asc !l) then failop "Keys not strictly ascending";
        st.sup <- false; st.lenient <- true
      end
    end;
    if st.sup then begin
      let n = st.card in
      let same a b msg = if get a <> get b then failop (msg ^ " (" ^ a ^ " and " ^ b ^ " differ)") in
      List.iter (fun k -> if geti k <> n then failop (Printf.sprintf "%s is %d for %d keys" k (geti k) n)) ["nv"; "nget"; "nfwd"; "nbwd"];
      (match String.split_on_char '~' (get "keys") with
       | [len; _; _; dg] ->
         if len <> "#" ^ string_of_int n then failop "Keys yields a number of keys other than Len";
         List.iter (fun k -> if get k <> dg then failop (k ^ " differs from the digest of Keys")) ["dkey"; "dfwd"; "dbwd"]
       | _ -> failop "bad key list");
      same "dval" "dvfwd" "the values at Seek(key) are not those of the First/Next sweep";
      1
    end else begin
    let es = Array.of_list !l in
    let n = Array.length es in
    let keys = List.map fst !l and vals = List.map snd !l in
    let m = to_map () in
    let want k v msg = if get k <> v then failop (Printf.sprintf "%s (%s=%s, the reference map gives %s)" msg k (get k) v) in
    want "n" (string_of_int n) "Len";
    want "keys" (fmt_ints keys) "Keys";
    want "nv" (string_of_int n) "number of keys whose Seek is valid at the key";
    want "dkey" (digest_of keys) "the keys of Seek(key)";
    want "dval" (digest_of vals) "the values of Seek(key)";
    want "nget" (string_of_int n) "number of keys GetOK finds";
    want "dget" (digest_of (List.concat_map (fun v -> [v; v]) vals)) "the values of GetOK and Get";
    let dabs = dnew () and dnext = dnew () and dprev = dnew () and dre = dnew () and dzig = dnew () in
    Array.iteri (fun i (k, v) ->
      (let pos = ref i in
       String.iter (fun ch ->
         if !pos >= 0 then pos := (if ch = 'n' then (if !pos + 1 < n then !pos + 1 else -1) else !pos - 1);
         if !pos >= 0 then begin dadd dzig (fst es.(!pos)); dadd dzig (snd es.(!pos)) end else begin dadd dzig (-1); dadd dzig (-1) end) zigzag);
      dadd dabs (match Mp.find_first_opt (fun x -> cf x (k + 1) >= 0) m with Some (x, _) -> x | None -> -1);
      for j = 1 to s do
        if i + j < n then begin dadd dnext (fst es.(i + j)); dadd dnext (snd es.(i + j)) end else begin dadd dnext (-1); dadd dnext (-1) end
      done;
      for j = 1 to s do
        if i - j >= 0 then begin dadd dprev (fst es.(i - j)); dadd dprev (snd es.(i - j)) end else begin dadd dprev (-1); dadd dprev (-1) end
      done;
      dadd dre k; dadd dre v) es;
    want "dabs" (dstr dabs) "Seek(key+1) is not at the first key not less than it";
    want "dnext" (dstr dnext) "Next from Seek(key) does not visit the following entries in order";
    want "dprev" (dstr dprev) "Prev from Seek(key) does not visit the preceding entries in order";
    want "dzig" (dstr dzig) "Next,Prev,Prev,Prev,Next,Next,Prev,Next from Seek(key) does not visit the neighbouring entries";
    want "dre" (dstr dre) "Iter.Seek(key) on a moved iterator is not at the key";
    want "nfwd" (string_of_int n) "First then Next: number of entries";
    want "dfwd" (digest_of keys) "First then Next: keys";
    want "dvfwd" (digest_of vals) "First then Next: values";
    want "nbwd" (string_of_int n) "Last then Prev: number of entries";
    want "dbwd" (digest_of keys) "Last then Prev: keys";
    1
    end

let spec prop inp out =
  if prop <> "C04" then None else
  match words inp with
  | "M" :: cs :: kind :: rest ->
    let cf = cmp_of cs in
    spec_gen int_codec int_codec cf kind (match rest with [o] -> split_on ';' o | _ -> []) out (Some (int_smacro (cs = "n") cf { sup = false; card = 0; lenient = false }))
  | "T" :: cs :: kind :: rest ->
    spec_gen str_codec str_codec (str_cmp_of cs) kind (match rest with [o] -> split_on ';' o | _ -> []) out None
  | "K" :: ty :: cs :: kind :: rest ->
    (* the reference order of every constructor of a natural-order map is cmp.Compare's (reversed for r) *)
    let (kc, rank, vc) = typed ty in
    spec_gen kc vc (typed_cmp rank cs) kind (match rest with [o] -> split_on ';' o | _ -> []) out None
  | _ -> None

let () = run_main ~eval ~spec
