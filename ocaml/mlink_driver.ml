(* Replays mlinktrace lines (L list+cursor histories, Q queue histories, S stack histories) on
   the extracted heap model (MlinkModel.step / qstep, StackModel.sstep) and evaluates the
   extracted abstract sequence semantics (MlinkSpec.astep / aqstep, StackModel.sastep) on the
   implementation's own outputs.  Elements are OCaml ints (the models are polymorphic in T). *)

let zero = 0
let always _ = true

let show_pk = function M.InvalidCursor -> "Pc" | M.IndexRange -> "Pi" | M.NilDeref -> "Pn"

(* lists of more than 200 values are printed as a digest, by the same rule as the harness:
   #<len>:<FNV-1a-64 over the values>:<first three>~<last three> *)
let digest_above = 200
let fnv l =
  List.fold_left (fun h x -> Int64.mul (Int64.logxor h (Int64.of_int x)) 1099511628211L) (-3750763034362895579L) l
let plain_ints l = String.concat "," (List.map string_of_int l)
let show_ints l =
  if l = [] then "." else
  let n = List.length l in
  if n > digest_above then begin
    let a = Array.of_list l in
    Printf.sprintf "#%d:%016Lx:%s~%s" n (fnv l) (plain_ints [a.(0); a.(1); a.(2)]) (plain_ints [a.(n-3); a.(n-2); a.(n-1)])
  end else plain_ints l

let show_out = function
  | M.RUnit -> "u"
  | M.RVal v -> "v" ^ string_of_int v
  | M.RBool b -> "b" ^ b01 b
  | M.RValBool (v, b) -> "p" ^ string_of_int v ^ ":" ^ b01 b
  | M.RList l -> "l" ^ show_ints l
  | M.RInt n -> "n" ^ string_of_z n
  | M.RPanic k -> show_pk k
  | M.RHang -> "hang"
  | M.RBad -> "BADADDR"
  | M.RNoCursor -> "nocur"

let show_sout = function
  | M.TUnit -> "u"
  | M.TVal v -> "v" ^ string_of_int v
  | M.TBool b -> "b" ^ b01 b
  | M.TValBool (v, b) -> "p" ^ string_of_int v ^ ":" ^ b01 b
  | M.TList l -> "l" ^ show_ints l
  | M.TInt n -> "n" ^ string_of_z n
  | M.TPanic -> "Pi"
  | M.THang -> "hang"

let int_opt s = try Some (int_of_string s) with _ -> None
(* offsets may be any 64-bit int (OCaml ints are 63-bit): straight to Coq's Z *)
let z_opt s =
  let digits = if String.length s > 0 && s.[0] = '-' then String.sub s 1 (String.length s - 1) else s in
  if digits <> "" && String.length digits <= 19 && String.for_all (fun c -> c >= '0' && c <= '9') digits
  then (try Some (z_of_string s) with _ -> None) else None
let nat_opt s = match int_opt s with Some n when n >= 0 -> Some (nat_of_int n) | _ -> None

let pred_of p : (int -> bool) option =
  if p = "t" then Some (fun _ -> true)
  else if p = "f" then Some (fun _ -> false)
  else if String.length p < 2 then None
  else match int_opt (String.sub p 1 (String.length p - 1)) with
    | None -> None
    | Some n ->
      (match p.[0] with
       | 'e' -> Some (fun x -> x = n)
       | 'g' -> Some (fun x -> x > n)
       | 'l' -> Some (fun x -> x < n)
       | _ -> None)

let vals_of s =
  if s = "." then Some [] else
  let parts = String.split_on_char '+' s in
  let vs = List.map int_opt parts in
  if List.mem None vs then None else Some (List.map (function Some v -> v | None -> 0) vs)

let ( >>= ) o f = match o with Some x -> f x | None -> None

let parse_lop (s : string) : int M.op option =
  match String.split_on_char ':' s with
  | ["at"; n] -> z_opt n >>= fun n -> Some (M.OAt n)
  | ["copy"; k] -> nat_opt k >>= fun k -> Some (M.OCopy k)
  | ["assign"; k; j] -> nat_opt k >>= fun k -> nat_opt j >>= fun j -> Some (M.OAssign (k, j))
  | ["nilcur"] | ["zerocur"] -> Some M.ONilCursor
  | ["last"] -> Some M.OLast
  | ["end"] -> Some M.OEnd
  | ["find"; p] -> pred_of p >>= fun p -> Some (M.OFind p)
  | ["get"; k] -> nat_opt k >>= fun k -> Some (M.OGet k)
  | ["set"; k; v] -> nat_opt k >>= fun k -> int_opt v >>= fun v -> Some (M.OSet (k, v))
  | ["atend"; k] -> nat_opt k >>= fun k -> Some (M.OAtEnd k)
  | ["next"; k] -> nat_opt k >>= fun k -> Some (M.ONext k)
  | ["push"; k; v] -> nat_opt k >>= fun k -> int_opt v >>= fun v -> Some (M.OPush (k, v))
  | ["add"; k; vs] -> nat_opt k >>= fun k -> vals_of vs >>= fun vs -> Some (M.OAdd (k, vs))
  | ["rm"; k] -> nat_opt k >>= fun k -> Some (M.ORemove k)
  | ["trunc"; k] -> nat_opt k >>= fun k -> Some (M.OTruncate k)
  | ["clear"] -> Some M.OClear
  | ["peek"; n] -> z_opt n >>= fun n -> Some (M.OPeek n)
  | ["each"; p] -> pred_of p >>= fun p -> Some (M.OEach p)
  | ["len"] -> Some M.OLen
  | ["empty"] -> Some M.OIsEmpty
  | _ -> None

let parse_qop (s : string) : int M.qop option =
  match String.split_on_char ':' s with
  | ["add"; v] -> int_opt v >>= fun v -> Some (M.QAdd v)
  | ["pop"] -> Some M.QPop
  | ["front"] -> Some M.QFront
  | ["peek"; n] -> z_opt n >>= fun n -> Some (M.QPeek n)
  | ["each"; p] -> pred_of p >>= fun p -> Some (M.QEach p)
  | ["clear"] -> Some M.QClear
  | ["len"] -> Some M.QLen
  | ["empty"] -> Some M.QIsEmpty
  | _ -> None

let parse_sop (s : string) : int M.sop option =
  match String.split_on_char ':' s with
  | ["push"; v] -> int_opt v >>= fun v -> Some (M.SPush v)
  | ["addv"; v] -> int_opt v >>= fun v -> Some (M.SAdd v)
  | ["empty"] -> Some M.SIsEmpty
  | ["clear"] -> Some M.SClear
  | ["top"] -> Some M.STop
  | ["peek"; n] -> z_opt n >>= fun n -> Some (M.SPeek n)
  | ["pop"] -> Some M.SPop
  | ["each"; p] -> pred_of p >>= fun p -> Some (M.SEach p)
  | ["len"] -> Some M.SLen
  | ["slice"] -> Some M.SSlice
  | _ -> None

(* Bulk ops: one op of the trace = many steps of the machine, printed as one result (see the
   harness).  [bulk_of tok] gives, for an op, the list of machine ops to run one after the other
   and the way to print their results; the machine's own [step] does all the work. *)
let max_bulk = 1 lsl 20
let count_opt s = match int_opt s with Some n when n >= 0 && n <= max_bulk -> Some n | _ -> None
let seq_vals b n = List.init n (fun i -> b + 1 + i)

(* what a bulk op prints: Unit ("u", or the panic that ended it), Values (q<ints><panic>),
   Trues (n<count><panic>), Peeks (p<v:ok,...><panic>).  [classify] reads one step's printed result. *)
type bulk_kind = BUnit | BValues | BTrues | BPeeks

let is_stop r = r = "Pc" || r = "Pi" || r = "Pn" || r = "hang" || r = "BADADDR" || r = "nocur"

let run_bulk (type st op) (step : st -> op -> st * string) (kind : bulk_kind) (st : st) (ops : op list) (probe : op option) : st * string =
  (* a bulk op of zero calls through a cursor that was never handed out is still "nocur" *)
  let missing = ops = [] && (match probe with Some p -> snd (step st p) = "nocur" | None -> false) in
  if missing then (st, "nocur") else
  let rec go st ops acc =
    match ops with
    | [] -> (st, List.rev acc, "")
    | o :: rest ->
      let (st', r) = step st o in
      if is_stop r then (st', List.rev acc, r) else go st' rest (r :: acc) in
  let (st', rs, stop) = go st ops [] in
  if stop = "nocur" || stop = "hang" then (st', stop) else   (* no such cursor: the harness makes no call at all; a hang ends the history *)   (* no such cursor: the harness makes no call at all *)
  let after c r = String.sub r c (String.length r - c) in
  let res = match kind with
    | BUnit -> if stop = "" then "u" else stop
    | BValues ->
      (* "v5" (Remove) or "p5:1" / "p0:0" (Pop: v when ok, -1-v when not) *)
      let value r =
        if r.[0] = 'v' then int_of_string (after 1 r)
        else match String.split_on_char ':' (after 1 r) with
          | [v; "1"] -> int_of_string v
          | [v; _] -> -1 - int_of_string v
          | _ -> failwith "bulk value" in
      "q" ^ show_ints (List.map value rs) ^ stop
    | BTrues -> "n" ^ string_of_int (List.length (List.filter (fun r -> r = "b1") rs)) ^ stop
    | BPeeks -> "p" ^ String.concat "," (List.map (after 1) rs) ^ stop in
  (st', res)

(* One history on a machine (step, the observation made after every op), printed exactly as the
   harness prints it.  [observe st] returns the tokens after the op's own result.  [parse] gives
   a single machine op, [bulk] a bulk op (tried first). *)
let history (type st op)
    (parse : string -> op option) (bulk : string -> (bulk_kind * op list * op option) option)
    (step : st -> op -> st * string) (observe : st -> string list)
    (init : st) (ops : string list) : string =
  let quiet = ref false in      (* after "quiet" only "obs" prints the observation group *)
  let rec go st ops acc =
    match ops with
    | [] -> List.rev acc
    | "quiet" :: rest -> quiet := true; go st rest ("u" :: acc)
    | o :: rest when !quiet && o <> "obs" ->
      let (st', res) =
        match bulk o with
        | Some (kind, mops, probe) -> run_bulk step kind st mops probe
        | None -> (match parse o with None -> (st, "?") | Some op -> step st op) in
      if res = "hang" then List.rev ("hang" :: acc) else go st' rest (res :: acc)
    | o :: rest ->
      let (st', res) =
        if o = "obs" then (st, "o") else
        match bulk o with
        | Some (kind, mops, probe) -> run_bulk step kind st mops probe
        | None -> (match parse o with None -> (st, "?") | Some op -> step st op) in
      let toks = res :: observe st' in
      if List.mem "hang" toks then List.rev ("hang" :: acc)
      else go st' rest (String.concat "/" toks :: acc) in
  String.concat ";" (go init ops [])

let zs_opt s =
  let parts = String.split_on_char '+' s in
  let zs = List.map z_opt parts in
  if List.mem None zs then None else Some (List.map (function Some z -> z | None -> M.Z0) zs)

let bulk_lop (s : string) : (bulk_kind * int M.op list * int M.op option) option =
  match String.split_on_char ':' s with
  | ["addn"; k; n; b] -> nat_opt k >>= fun k -> count_opt n >>= fun n -> int_opt b >>= fun b ->
    Some (BUnit, [M.OAdd (k, seq_vals b n)], None)
  | ["pushn"; k; n; b] -> nat_opt k >>= fun k -> count_opt n >>= fun n -> int_opt b >>= fun b ->
    Some (BUnit, List.map (fun v -> M.OPush (k, v)) (seq_vals b n), Some (M.OAtEnd k))
  | ["rmn"; k; n] -> nat_opt k >>= fun k -> count_opt n >>= fun n -> Some (BValues, List.init n (fun _ -> M.ORemove k), Some (M.OAtEnd k))
  | ["nextn"; k; n] -> nat_opt k >>= fun k -> count_opt n >>= fun n -> Some (BTrues, List.init n (fun _ -> M.ONext k), Some (M.OAtEnd k))
  | ["peeks"; offs] -> zs_opt offs >>= fun zs -> Some (BPeeks, List.map (fun z -> M.OPeek z) zs, None)
  | _ -> None

let bulk_qop (s : string) : (bulk_kind * int M.qop list * int M.qop option) option =
  match String.split_on_char ':' s with
  | ["addn"; n; b] -> count_opt n >>= fun n -> int_opt b >>= fun b -> Some (BUnit, List.map (fun v -> M.QAdd v) (seq_vals b n), None)
  | ["popn"; n] -> count_opt n >>= fun n -> Some (BValues, List.init n (fun _ -> M.QPop), None)
  | ["peeks"; offs] -> zs_opt offs >>= fun zs -> Some (BPeeks, List.map (fun z -> M.QPeek z) zs, None)
  | _ -> None

(* Stack lines of round 5 (harness/cmd/mlinktrace/stacktyped.go): first word S<t><c>, t = element
   type (i int, b byte, o bool, h int16, t [3]byte, f float32, p *int, s string, w a 40-byte
   struct), c = constructor (n New, z zero value).  Elements travel as integer codes and the model
   is polymorphic in the element type, so such a line is replayed as an S line; the codes of a
   bulk insertion cycle where the type is small.  The machine op type is extended by the
   re-entrant traversal "reach", which is a function of the unchanged state. *)
type xsop = Plain of int M.sop | Reach

(* an uppercase type letter marks a spec-only line (2^15 .. 2^16+1 elements): the extracted model, one
   list traversal per operation, is not run on it; the reference (sastep) gives both the prediction
   and the verdict *)
let stack_kind k =
  if k = "S" then Some (0, false)
  else if String.length k = 3 && k.[0] = 'S' && (k.[2] = 'n' || k.[2] = 'z') && String.contains "ibohtfpsw" (Char.lowercase_ascii k.[1]) then
    Some ((match Char.lowercase_ascii k.[1] with 'b' -> 250 | 'o' -> 1 | 'h' -> 30000 | 't' | 'f' -> 8388608 | 'p' -> 131071 | _ -> 0),
          k.[1] <> Char.lowercase_ascii k.[1])
  else None

let cycled cycle v = if cycle > 0 && v > 0 then 1 + (v - 1) mod cycle else v

let bulk_sop cycle (s : string) : (bulk_kind * xsop list * xsop option) option =
  let vals b n = List.map (cycled cycle) (seq_vals b n) in
  match String.split_on_char ':' s with
  | ["pushn"; n; b] -> count_opt n >>= fun n -> int_opt b >>= fun b -> Some (BUnit, List.map (fun v -> Plain (M.SPush v)) (vals b n), None)
  | ["addn"; n; b] -> count_opt n >>= fun n -> int_opt b >>= fun b -> Some (BUnit, List.map (fun v -> Plain (M.SAdd v)) (vals b n), None)
  | ["popn"; n] -> count_opt n >>= fun n -> Some (BValues, List.init n (fun _ -> Plain M.SPop), None)
  | ["peeks"; offs] -> zs_opt offs >>= fun zs -> Some (BPeeks, List.map (fun z -> Plain (M.SPeek z)) zs, None)
  | _ -> None

let parse_xsop s = if s = "reach" then Some Reach else (match parse_sop s with Some o -> Some (Plain o) | None -> None)

let seq_text l = if l = [] then "." else String.concat "~" (List.map string_of_int l)

let rec iota n = if n <= 0 then [] else iota (n - 1) @ [n - 1]

let list_history (step : 's -> int M.op -> 's * int M.out) (ncur : 's -> int) (init : 's) ops =
  let st s o = let (s', r) = step s o in (s', show_out r) in
  let obs s =
    let one o = show_out (snd (step s o)) in
    [one (M.OEach always); one M.OLen; one M.OIsEmpty]
    @ List.map (fun k -> one (M.OAtEnd (nat_of_int k)) ^ "." ^ one (M.OGet (nat_of_int k))) (iota (ncur s)) in
  history parse_lop bulk_lop st obs init ops

let queue_history (step : 's -> int M.qop -> 's * int M.out) (init : 's) ops =
  let st s o = let (s', r) = step s o in (s', show_out r) in
  let obs s =
    let one o = show_out (snd (step s o)) in
    [one (M.QEach always); one M.QLen; one M.QIsEmpty; one M.QFront; one (M.QPeek (z_of_int 1))] in
  history parse_qop bulk_qop st obs init ops

(* "reach": every traversal (the outer Each, the nested ones at every element, the two pulled ones)
   yields what it yields alone, and the observers called from inside the callback answer as they do
   outside; so the text is rendered from the machine's own observers on the unchanged state *)
let reach_text (obs : int M.sop -> int M.sout) =
  let lst o = match obs o with M.TList l -> l | _ -> failwith "list" in
  let all = lst (M.SEach always) and slice = lst M.SSlice in
  let after1 s = String.sub s 1 (String.length s - 1) in
  let len = after1 (show_sout (obs M.SLen)) and empty = after1 (show_sout (obs M.SIsEmpty)) and top = after1 (show_sout (obs M.STop)) in
  let part i v =
    Printf.sprintf "%d(%s,%s,%s,%s,%s,%s)" v len empty top (after1 (show_sout (obs (M.SPeek (z_of_int i))))) (seq_text all) (seq_text slice) in
  "E" ^ String.concat "+" (List.mapi part all) ^ "|" ^ seq_text all ^ "|" ^ seq_text all

let stack_history cycle (step : 's -> int M.sop -> 's * int M.sout) (init : 's) ops =
  let st s = function
    | Plain o -> let (s', r) = step s o in (s', show_sout r)
    | Reach -> (s, reach_text (fun o -> snd (step s o))) in
  let obs s =
    let one o = show_sout (snd (step s o)) in
    [one M.SSlice; one (M.SEach always); one M.SLen; one M.SIsEmpty; one M.STop; one (M.SPeek (z_of_int 1))] in
  history parse_xsop (bulk_sop cycle) st obs init ops

let ops_of s = String.split_on_char ';' s

let model inp =
  match words inp with
  | ["L"; ops] -> Some (list_history (M.step zero) (fun m -> List.length (snd m)) (M.init zero) (ops_of ops))
  | ["Q"; k; ops] ->
    let init = if k = "z" then M.zero_queue zero else M.new_queue zero in
    Some (queue_history (M.qstep zero) init (ops_of ops))
  | [k; ops] when stack_kind k <> None ->
    let (cycle, spec_only) = (match stack_kind k with Some c -> c | None -> (0, false)) in
    if spec_only then Some (stack_history cycle (M.sastep zero) [] (ops_of ops))
    else Some (stack_history cycle (M.sstep zero) [] (ops_of ops))
  | _ -> None

let reference inp =
  match words inp with
  | ["L"; ops] -> Some (list_history (M.astep zero) (fun a -> List.length (snd a)) M.ainit (ops_of ops))
  | ["Q"; _; ops] -> Some (queue_history (M.aqstep zero) [] (ops_of ops))
  | [k; ops] when stack_kind k <> None ->
    let (cycle, _) = (match stack_kind k with Some c -> c | None -> (0, false)) in
    Some (stack_history cycle (M.sastep zero) [] (ops_of ops))
  | _ -> None

let eval inp = match model inp with Some s -> s | None -> "?"

(* the first op whose group differs *)
let first_diff ops a b =
  let ga = String.split_on_char ';' a and gb = String.split_on_char ';' b in
  let rec go i ops ga gb =
    match ga, gb with
    | x :: ga', y :: gb' ->
      if x = y then go (i + 1) (match ops with _ :: r -> r | [] -> []) ga' gb'
      else Printf.sprintf "op #%d (%s): the sequence semantics gives %s" i (match ops with o :: _ -> o | [] -> "?") y
    | [], y :: _ -> Printf.sprintf "op #%d: output ends early; the sequence semantics gives %s" i y
    | _ :: _, [] -> Printf.sprintf "op #%d: more output than the sequence semantics" i
    | [], [] -> "differs" in
  go 0 ops ga gb

(* The one place where the property text and the documentation leave the behaviour open:
   c.Add() with NO values ("Add inserts one or more new values") through a cursor that is stale
   or was never positioned.  The code returns without touching the cursor; refusing with the
   cursor's own panic would satisfy "refuses every further use" just as well.  Both are accepted:
   where the reference says "u" for such an op and the implementation printed the panic that the
   same group shows for that cursor (Pc.Pc / Pn.Pn), the implementation's token is read as "u". *)
let tolerate_empty_add ops out want =
  let go = String.split_on_char ';' out and gw = String.split_on_char ';' want in
  let rec walk ops go gw =
    match ops, go, gw with
    | op :: ops', o :: go', w :: gw' ->
      let o' =
        match String.split_on_char ':' op, String.split_on_char '/' o, String.split_on_char '/' w with
        | ["add"; k; "."], (ro :: resto), ("u" :: _) when (ro = "Pc" || ro = "Pn") ->
          (match int_opt k with
           | Some k when k >= 0 && List.length resto > 3 + k && List.nth resto (3 + k) = ro ^ "." ^ ro ->
             String.concat "/" ("u" :: resto)
           | _ -> o)
        | _ -> o in
      o' :: walk ops' go' gw'
    | _, go, _ -> go in
  String.concat ";" (walk ops go gw)

let spec _prop inp out =
  match reference inp with
  | None -> None
  | Some want ->
    let opl = match List.rev (words inp) with o :: _ -> ops_of o | [] -> [] in
    let is_list = (match words inp with "L" :: _ -> true | _ -> false) in
    if want = out || (is_list && tolerate_empty_add opl out want = want) then None
    else
      let ops = match List.rev (words inp) with o :: _ -> ops_of o | [] -> [] in
      Some (first_diff ops out want)

let () = run_main ~eval ~spec
