(* Replays lcslistrace lines on the extracted model (LcsModel, LisModel) and evaluates the
   property itself on the implementation's output with the extracted reference definitions
   (LcsSpec, LisSpec): validity by direct checks, optimality against the reference optimum.
   [spec] never calls the model (lcs_func / lis_func / lnds_func), only the reference functions
   subseq_b, lcs_len_ref, ordered_b, lis_len_ref and direct definitions. *)

let key e = e / 100

let eq_of = function
  | "e" -> (fun (a : int) b -> a = b)
  | "k" -> (fun a b -> key a = key b)
  | "c" -> (fun a b -> key a / 2 = key b / 2)
  | "m" -> (fun a b -> key a mod 2 = key b mod 2)
  | "o" -> (fun a b -> key a <= key b)
  | "p" -> (fun a b -> key a = key b && key a <> 2)
  | m -> failwith ("bad eq mode " ^ m)

(* is the test an equivalence (then the symmetric statement of the property applies too)? *)
let is_equivalence = function "e" | "k" | "c" | "m" -> true | _ -> false

let cmp_of mode =
  let c = match mode with
    | "n" | "b" | "h" | "f" | "s" -> (fun (a : int) b -> compare a b)   (* typed modes: codes in value order *)
    | "k" -> (fun a b -> compare (key a) (key b))
    | "r" -> (fun a b -> compare (key b) (key a))
    | "d" -> (fun a b -> key a - key b)
    | "t" -> (fun a b -> 3 * (key a - key b))
    | "q" -> (fun a b -> 7 * (key b - key a))
    | "x" -> (fun a b -> if key a < key b then min_int + 1 else if key a > key b then max_int else 0)
    | "c" -> (fun a b -> key a / 2 - key b / 2)
    | "m" -> (fun a b -> key a mod 3 - key b mod 3)
    | m -> failwith ("bad cmp mode " ^ m) in
  fun a b -> z_of_int (c a b)

(* optional window field w<pre>,<spare> *)
let spare_of = function
  | [] -> 0
  | w :: _ when String.length w > 1 && w.[0] = 'w' ->
    (match ints_of (String.sub w 1 (String.length w - 1)) with [_; sp] -> sp | _ -> 0)
  | _ -> 0

let eval inp =
  match words inp with
  | "L" :: mode :: a :: b :: _ ->
    let a = ints_of a and b = ints_of b in
    (match M.lcs_func (eq_of mode) a b with
     | Some s -> (if M.lcs_is_nil a b then "z " else "s ") ^ str_ints s ^ " m0 a0"
     | None -> "NONE")
  | (("I" | "N") as f) :: mode :: vs :: w ->
    let vs = ints_of vs in
    let r = if f = "I" then M.lis_func (cmp_of mode) vs else M.lnds_func (cmp_of mode) vs in
    (* on an empty input LIS/LNDS return the input slice itself: overwriting the result up to its
       capacity reaches the spare capacity of the input window *)
    let alias = if vs = [] && spare_of w > 0 then " a1" else " a0" in
    (match r with Some s -> str_ints s ^ " m0" ^ alias | None -> "NONE")
  | _ -> "?"

(* exact subsequence: greedy on whole elements *)
let rec exact_subseq s l =
  match s, l with
  | [], _ -> true
  | _, [] -> false
  | x :: s', y :: l' -> if (x : int) = y then exact_subseq s' l' else exact_subseq s l'

let spec prop inp out =
  if prop <> "C12" then None else
  match words inp with
  | "L" :: mode :: a :: b :: _ ->
    let a = ints_of a and b = ints_of b in
    (match words out with
     | [_; s; m; _al] ->
       let s = ints_of s in
       let eq = eq_of mode in
       if m <> "m0" then Some "LCS modified an input slice (or a cell of its backing array)"
       else if is_equivalence mode then begin
         (* the property as stated: a common subsequence (up to eq) of both arguments, elements
            taken from one of them, of the reference optimum length *)
         if not (M.subseq_b eq s a) then Some "result is not a subsequence of the first argument"
         else if not (M.subseq_b eq s b) then Some "result is not a subsequence of the second argument"
         else if not (exact_subseq s a || exact_subseq s b) then Some "result elements are taken from neither argument"
         else
           let opt = int_of_nat (M.lcs_len_ref eq a b) in
           if List.length s <> opt then Some (Printf.sprintf "length %d, reference optimum %d" (List.length s) opt)
           else None
       end else begin
         (* a test without the laws of an equivalence: the code works on (xs, ys) = the shorter
            input first and calls the test as eq x y; the result must be an element-identical
            subsequence of xs that matches a subsequence of ys, of the reference optimum length for
            that orientation *)
         let oriented xs ys =
           if not (exact_subseq s xs) then Some "result is not an element-identical subsequence of the shorter input"
           else if not (M.subseq_b eq s ys) then Some "result does not match a subsequence of the longer input under eq(x, y)"
           else
             let opt = int_of_nat (M.lcs_len_ref eq xs ys) in
             if List.length s <> opt then Some (Printf.sprintf "length %d, reference optimum %d for eq(shorter, longer)" (List.length s) opt)
             else None in
         (* which input the code treats as xs is not part of the property: accept either, reporting
            the reason for the orientation the pinned code uses (shorter first) *)
         let xs, ys = if List.length b < List.length a then b, a else a, b in
         (match oriented xs ys with None -> None | Some r -> (match oriented ys xs with None -> None | Some _ -> Some r))
       end
     | _ -> Some ("unexpected output " ^ out))
  | (("I" | "N") as f) :: mode :: vs :: _ ->
    let vs = ints_of vs in
    let strict = (f = "I") in
    let name = if strict then "LIS" else "LNDS" in
    (match words out with
     | [s; m; _al] ->
       let s = ints_of s in
       let c = cmp_of mode in
       if m <> "m0" then Some (name ^ " modified its input slice (or a cell of its backing array)")
       else if not (exact_subseq s vs) then Some "result is not a subsequence of the input"
       else if not (M.ordered_b c strict s) then Some (if strict then "result is not strictly increasing" else "result is not non-decreasing")
       else
         let opt = int_of_nat (M.lis_len_ref c strict vs) in
         if List.length s <> opt then Some (Printf.sprintf "length %d, reference optimum %d" (List.length s) opt)
         else None
     | _ -> Some ("unexpected output " ^ out))
  | _ -> None

let () = run_main ~eval ~spec
