(* Replays lcslistrace lines on the extracted model (LcsModel, LisModel) and evaluates the
   property itself on the implementation's output with the extracted reference definitions
   (LcsSpec, LisSpec): validity by direct checks, optimality against the reference optimum. *)

let key e = e / 100

let eq_of = function
  | "e" -> (fun (a : int) b -> a = b)
  | _ -> (fun a b -> key a = key b)

let cmp_of mode =
  let c = match mode with
    | "n" -> (fun (a : int) b -> compare a b)
    | "k" -> (fun a b -> compare (key a) (key b))
    | "r" -> (fun a b -> compare (key b) (key a))
    | _ -> (fun a b -> key a - key b) in
  fun a b -> z_of_int (c a b)

let eval inp =
  match words inp with
  | ["L"; mode; a; b] ->
    let a = ints_of a and b = ints_of b in
    (match M.lcs_func (eq_of mode) a b with
     | Some s -> (if M.lcs_is_nil a b then "z " else "s ") ^ str_ints s ^ " m0 a0"
     | None -> "NONE")
  | [("I" | "N") as f; mode; vs] ->
    let vs = ints_of vs in
    let r = if f = "I" then M.lis_func (cmp_of mode) vs else M.lnds_func (cmp_of mode) vs in
    (match r with Some s -> str_ints s ^ " m0 a0" | None -> "NONE")
  | _ -> "?"

(* exact subsequence: greedy on whole elements *)
let rec exact_subseq s l =
  match s, l with
  | [], _ -> true
  | _, [] -> false
  | x :: s', y :: l' -> if (x : int) = y then exact_subseq s' l' else exact_subseq s l'

let spec prop inp out =
  if prop <> "C12" then None else
  match words inp with
  | ["L"; mode; a; b] ->
    let a = ints_of a and b = ints_of b in
    (match words out with
     | [_; s; m; _al] ->
       let s = ints_of s in
       let eq = eq_of mode in
       if m <> "m0" then Some "LCS modified an input slice"
       else if not (M.subseq_b eq s a) then Some "result is not a subsequence of the first argument"
       else if not (M.subseq_b eq s b) then Some "result is not a subsequence of the second argument"
       else if not (exact_subseq s a || exact_subseq s b) then Some "result elements are taken from neither argument"
       else
         let opt = int_of_nat (M.lcs_len_ref eq a b) in
         if List.length s <> opt then Some (Printf.sprintf "length %d, reference optimum %d" (List.length s) opt)
         else None
     | _ -> Some ("unexpected output " ^ out))
  | [("I" | "N") as f; mode; vs] ->
    let vs = ints_of vs in
    let strict = (f = "I") in
    let name = if strict then "LIS" else "LNDS" in
    (match words out with
     | [s; m; _al] ->
       let s = ints_of s in
       let c = cmp_of mode in
       if m <> "m0" then Some (name ^ " modified its input slice")
       else if not (exact_subseq s vs) then Some "result is not a subsequence of the input"
       else if not (M.ordered_b c strict s) then Some (if strict then "result is not strictly increasing" else "result is not non-decreasing")
       else
         let opt = int_of_nat (M.lis_len_ref c strict vs) in
         if List.length s <> opt then Some (Printf.sprintf "length %d, reference optimum %d" (List.length s) opt)
         else None
     | _ -> Some ("unexpected output " ^ out))
  | _ -> None

let () = run_main ~eval ~spec
