(* Replays lcslistrace lines on the extracted model (LcsModel, LisModel) and evaluates the
   property itself on the implementation's output with the extracted reference definitions
   (LcsSpec, LisSpec): validity by direct checks, optimality against the reference optimum.
   [spec] never calls the model (lcs_func / lis_func / lnds_func), only the reference functions
   subseq_b, lcs_len_ref, ordered_b, lis_len_ref and direct definitions (above 150 resp. 100
   elements the two reference optima are computed by the same tables written directly on OCaml
   arrays: the extracted ones count in unary and take a second per line at a thousand elements;
   both are computed and compared on every line up to 60 elements).

   Round 4 line forms (harness/cmd/lcslistrace/round4.go): "P <prelude> <line>" -- calls made before
   the case, without effect on the stateless model: the prelude is dropped;  "V <mode> <lo1> <hi1>
   <lo2> <hi2> <c> <arr>" -- LCS of two views of one array: the model and the property see the
   two value lists;  modes g (strings by rank) and j (uint64 by rank): codes in value order. *)

let key e = e / 100

let eq_of = function
  | "e" | "g" -> (fun (a : int) b -> a = b)
  | "k" -> (fun a b -> key a = key b)
  | "c" -> (fun a b -> key a / 2 = key b / 2)
  | "m" -> (fun a b -> key a mod 2 = key b mod 2)
  | "o" -> (fun a b -> key a <= key b)
  | "p" -> (fun a b -> key a = key b && key a <> 2)
  | m -> failwith ("bad eq mode " ^ m)

(* is the test an equivalence (then the symmetric statement of the property applies too)? *)
let is_equivalence = function "e" | "g" | "k" | "c" | "m" -> true | _ -> false

let cmp_int mode : int -> int -> int =
  match mode with
    | "n" | "b" | "h" | "f" | "s" | "g" | "j" -> (fun (a : int) b -> compare a b)   (* typed modes: codes in value order *)
    | "k" -> (fun a b -> compare (key a) (key b))
    | "r" -> (fun a b -> compare (key b) (key a))
    | "d" -> (fun a b -> key a - key b)
    | "t" -> (fun a b -> 3 * (key a - key b))
    | "q" -> (fun a b -> 7 * (key b - key a))
    | "x" -> (fun a b -> if key a < key b then min_int + 1 else if key a > key b then max_int else 0)
    | "c" -> (fun a b -> key a / 2 - key b / 2)
    | "m" -> (fun a b -> key a mod 3 - key b mod 3)
    | m -> failwith ("bad cmp mode " ^ m)
let cmp_of mode = let c = cmp_int mode in fun a b -> z_of_int (c a b)

(* the reference optima once more, directly: "best chain ending here" / the textbook LCS table *)
let lis_len_direct c strict (vs : int list) =
  let a = Array.of_list vs in
  let n = Array.length a in
  let best = Array.make n 1 and top = ref 0 in
  for i = 0 to n - 1 do
    for j = 0 to i - 1 do
      let r = c a.(j) a.(i) in
      if (if strict then r < 0 else r <= 0) && best.(j) >= best.(i) then best.(i) <- best.(j) + 1
    done;
    if best.(i) > !top then top := best.(i)
  done;
  !top
let lcs_len_direct eq (l : int list) (r : int list) =
  let a = Array.of_list l and b = Array.of_list r in
  let m = Array.length a and n = Array.length b in
  let t = Array.make_matrix (m + 1) (n + 1) 0 in
  for i = 1 to m do
    for j = 1 to n do
      t.(i).(j) <- if eq a.(i-1) b.(j-1) then t.(i-1).(j-1) + 1 else max t.(i-1).(j) t.(i).(j-1)
    done
  done;
  t.(m).(n)
exception Disagree
let lis_opt mode strict vs =
  let n = List.length vs in
  let direct () = lis_len_direct (cmp_int mode) strict vs and extracted () = int_of_nat (M.lis_len_ref (cmp_of mode) strict vs) in
  if n > 150 then direct ()
  else if n > 60 then extracted ()
  else (let d = direct () and e = extracted () in if d <> e then raise Disagree; e)
let lcs_opt eq l r =
  let n = max (List.length l) (List.length r) in
  let direct () = lcs_len_direct eq l r and extracted () = int_of_nat (M.lcs_len_ref eq l r) in
  if n > 100 then direct ()
  else if n > 60 then extracted ()
  else (let d = direct () and e = extracted () in if d <> e then raise Disagree; e)

(* optional window field w<pre>,<spare> *)
let spare_of = function
  | [] -> 0
  | "wn" :: _ -> 0
  | w :: _ when String.length w > 1 && w.[0] = 'w' ->
    (match ints_of (String.sub w 1 (String.length w - 1)) with [_; sp] -> sp | _ -> 0)
  | _ -> 0

let rec drop n l = if n <= 0 then l else match l with [] -> [] | _ :: t -> drop (n - 1) t
let rec take n l = if n <= 0 then [] else match l with [] -> [] | h :: t -> h :: take (n - 1) t

(* V <mode> <lo1> <hi1> <lo2> <hi2> <c> <arr> -> the two value lists, None when the bounds do not fit *)
let views lo1 hi1 lo2 hi2 arr =
  match List.map int_of_string_opt [lo1; hi1; lo2; hi2] with
  | [Some a; Some b; Some c; Some d] ->
    let arr = ints_of arr in
    let n = List.length arr in
    if 0 <= a && a <= b && b <= n && 0 <= c && c <= d && d <= n
    then Some (take (b - a) (drop a arr), take (d - c) (drop c arr)) else None
  | _ -> None

let lcs_line mode a b =
  match M.lcs_func (eq_of mode) a b with
  | Some s -> (if M.lcs_is_nil a b then "z " else "s ") ^ str_ints s ^ " m0 a0"
  | None -> "NONE"

let rec eval inp =
  match words inp with
  | "P" :: _ :: rest -> eval (String.concat " " rest)
  | ["V"; mode; lo1; hi1; lo2; hi2; _; arr] ->
    (match views lo1 hi1 lo2 hi2 arr with Some (a, b) -> lcs_line mode a b | None -> "?")
  | "L" :: mode :: a :: b :: _ ->
    let a = ints_of a and b = ints_of b in
    (match M.lcs_func (eq_of mode) a b with
     | Some s -> (if M.lcs_is_nil a b then "z " else "s ") ^ str_ints s ^ " m0 a0"
     | None -> "NONE")
  | (("I" | "N") as f) :: mode :: vs :: w ->
    let vs = ints_of vs in
    let r = if f = "I" then M.lis_func (cmp_of mode) vs else M.lnds_func (cmp_of mode) vs in
    (* on an empty input LIS/LNDS return the input slice itself: overwriting the result up to its
       capacity reaches the spare capacity of the input window *)
    let alias = if vs = [] && spare_of w > 0 then " a1" else " a0" in
    (match r with Some s -> str_ints s ^ " m0" ^ alias | None -> "NONE")
  | _ -> "?"

(* exact subsequence: greedy on whole elements *)
let rec exact_subseq s l =
  match s, l with
  | [], _ -> true
  | _, [] -> false
  | x :: s', y :: l' -> if (x : int) = y then exact_subseq s' l' else exact_subseq s l'

let rec spec prop inp out =
  if prop <> "C12" then None else
  match words inp with
  | "P" :: _ :: rest -> spec prop (String.concat " " rest) out
  | ["V"; mode; lo1; hi1; lo2; hi2; _; arr] ->
    (match views lo1 hi1 lo2 hi2 arr with
     | Some (a, b) -> if out = "?" then Some "bounds that fit the array were rejected" else spec prop (String.concat " " ["L"; mode; str_ints a; str_ints b]) out
     | None -> None)
  | "L" :: mode :: a :: b :: _ ->
    let a = ints_of a and b = ints_of b in
    (match words out with
     | [_; s; m; _al] ->
       let s = ints_of s in
       let eq = eq_of mode in
       if m <> "m0" then Some "LCS modified an input slice (or a cell of its backing array)"
       else if is_equivalence mode then begin
         (* the property as stated: a common subsequence (up to eq) of both arguments, elements
            taken from one of them, of the reference optimum length *)
         if not (M.subseq_b eq s a) then Some "result is not a subsequence of the first argument"
         else if not (M.subseq_b eq s b) then Some "result is not a subsequence of the second argument"
         else if not (exact_subseq s a || exact_subseq s b) then Some "result elements are taken from neither argument"
         else
           let opt = lcs_opt eq a b in
           if List.length s <> opt then Some (Printf.sprintf "length %d, reference optimum %d" (List.length s) opt)
           else None
       end else begin
         (* a test without the laws of an equivalence: the code works on (xs, ys) = the shorter
            input first and calls the test as eq x y; the result must be an element-identical
            subsequence of xs that matches a subsequence of ys, of the reference optimum length for
            that orientation *)
         let oriented xs ys =
           if not (exact_subseq s xs) then Some "result is not an element-identical subsequence of the shorter input"
           else if not (M.subseq_b eq s ys) then Some "result does not match a subsequence of the longer input under eq(x, y)"
           else
             let opt = lcs_opt eq xs ys in
             if List.length s <> opt then Some (Printf.sprintf "length %d, reference optimum %d for eq(shorter, longer)" (List.length s) opt)
             else None in
         (* which input the code treats as xs is not part of the property: accept either, reporting
            the reason for the orientation the pinned code uses (shorter first) *)
         let xs, ys = if List.length b < List.length a then b, a else a, b in
         (match oriented xs ys with None -> None | Some r -> (match oriented ys xs with None -> None | Some _ -> Some r))
       end
     | _ -> Some ("unexpected output " ^ out))
  | (("I" | "N") as f) :: mode :: vs :: _ ->
    let vs = ints_of vs in
    let strict = (f = "I") in
    let name = if strict then "LIS" else "LNDS" in
    (match words out with
     | [s; m; _al] ->
       let s = ints_of s in
       let c = cmp_of mode in
       if m <> "m0" then Some (name ^ " modified its input slice (or a cell of its backing array)")
       else if not (exact_subseq s vs) then Some "result is not a subsequence of the input"
       else if not (M.ordered_b c strict s) then Some (if strict then "result is not strictly increasing" else "result is not non-decreasing")
       else
         let opt = lis_opt mode strict vs in
         if List.length s <> opt then Some (Printf.sprintf "length %d, reference optimum %d" (List.length s) opt)
         else None
     | _ -> Some ("unexpected output " ^ out))
  | _ -> None

let () = run_main ~eval ~spec
