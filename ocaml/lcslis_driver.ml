(* Replays lcslistrace lines on the extracted model (LcsModel, LisModel) and evaluates the
   property itself on the implementation's output with the extracted reference definitions
   (LcsSpec, LisSpec): validity by direct checks, optimality against the reference optimum.
   [spec] never calls the model (lcs_func / lis_func / lnds_func), only the reference functions
   subseq_b, lcs_len_ref, ordered_b, lis_len_ref and direct definitions (above 150 resp. 100
   elements the two reference optima are computed by the same tables written directly on OCaml
   arrays: the extracted ones count in unary and take a second per line at a thousand elements;
   both are computed and compared on every line up to 60 elements).

   Round 4 line forms (harness/cmd/lcslistrace/round4.go): "P <prelude> <line>" -- calls made before
   the case, without effect on the stateless model: the prelude is dropped;  "V <mode> <lo1> <hi1>
   <lo2> <hi2> <c> <arr>" -- LCS of two views of one array: the model and the property see the
   two value lists;  modes g (strings by rank) and j (uint64 by rank): codes in value order.

   Round 5 line forms (harness/cmd/lcslistrace/round5.go): "S ..." / "T ..." -- the L / V line once
   more, for inputs too long for the extracted model (its lists are indexed by position: the cost
   grows with the cube of the length): above 65 x 130 elements such a line is NOT replayed on the
   model -- [eval] hands back the implementation's own record (read from the trace files before the
   main loop starts), so that the generic loop has nothing to compare -- and [spec] alone judges it,
   with the reference table written on arrays.  "G <I|N> <mode> <n> <recipe>" -- LIS / LNDS of an
   input made by a recipe (up to 2^16 + 1 elements), the record bounded (length, digest, positions
   as runs): replayed on the model up to 200 elements, judged by [spec] alone above, the optimum
   from an O(n log n) reference that is compared with the quadratic ones on every G line of at most
   150 elements.  "P ...@j:call... <line>": a call made from inside the case's callback; dropped
   like every prelude.  Typed modes y w u (I / N) and y z u a r (L): codes; u is float32 with both
   zeros (codes 3, 4: equal, tie) and NaN (code 0: == nothing, first under cmp.Compare). *)

let key e = e / 100

let f32_class c = if c >= 4 then c - 1 else c     (* mode u: -0 (3) and +0 (4) are one value *)
let eq_of = function
  | "e" | "g" | "y" | "z" | "a" | "r" -> (fun (a : int) b -> a = b)
  | "u" -> (fun a b -> a <> 0 && b <> 0 && f32_class a = f32_class b)
  | "k" | "K" | "Q" -> (fun a b -> key a = key b)     (* K, Q: LCSFunc on structs / pointers, key equality *)
  | "c" -> (fun a b -> key a / 2 = key b / 2)
  | "m" -> (fun a b -> key a mod 2 = key b mod 2)
  | "o" -> (fun a b -> key a <= key b)
  | "p" -> (fun a b -> key a = key b && key a <> 2)
  | m -> failwith ("bad eq mode " ^ m)

(* is the test an equivalence (then the symmetric statement of the property applies too)? *)
let is_equivalence = function "e" | "g" | "k" | "K" | "Q" | "c" | "m" | "y" | "z" | "a" | "r" -> true | _ -> false

let cmp_int mode : int -> int -> int =
  match mode with
    | "n" | "b" | "h" | "f" | "s" | "g" | "j" | "y" | "w" -> (fun (a : int) b -> compare a b)   (* typed modes: codes in value order *)
    | "u" -> (fun a b -> compare (f32_class a) (f32_class b))
    | "k" | "K" | "Q" -> (fun a b -> compare (key a) (key b))
    | "r" -> (fun a b -> compare (key b) (key a))
    | "d" -> (fun a b -> key a - key b)
    | "t" -> (fun a b -> 3 * (key a - key b))
    | "q" -> (fun a b -> 7 * (key b - key a))
    | "x" -> (fun a b -> if key a < key b then min_int + 1 else if key a > key b then max_int else 0)
    | "c" -> (fun a b -> key a / 2 - key b / 2)
    | "m" -> (fun a b -> key a mod 3 - key b mod 3)
    | m -> failwith ("bad cmp mode " ^ m)
let cmp_of mode = let c = cmp_int mode in fun a b -> z_of_int (c a b)

(* the reference optima once more, directly: "best chain ending here" / the textbook LCS table *)
let lis_len_direct c strict (vs : int list) =
  let a = Array.of_list vs in
  let n = Array.length a in
  let best = Array.make n 1 and top = ref 0 in
  for i = 0 to n - 1 do
    for j = 0 to i - 1 do
      let r = c a.(j) a.(i) in
      if (if strict then r < 0 else r <= 0) && best.(j) >= best.(i) then best.(i) <- best.(j) + 1
    done;
    if best.(i) > !top then top := best.(i)
  done;
  !top
let lcs_len_direct eq (l : int list) (r : int list) =
  let a = Array.of_list l and b = Array.of_list r in
  let m = Array.length a and n = Array.length b in
  (* the textbook table, row by row (only the previous row is ever read) *)
  let p = ref (Array.make (n + 1) 0) and c = ref (Array.make (n + 1) 0) in
  for i = 1 to m do
    let t = !p in p := !c; c := t;
    let p = !p and c = !c in
    c.(0) <- 0;
    for j = 1 to n do
      c.(j) <- if eq a.(i-1) b.(j-1) then p.(j-1) + 1 else max p.(j) c.(j-1)
    done
  done;
  (!c).(n)
exception Disagree
let lis_opt mode strict vs =
  let n = List.length vs in
  let direct () = lis_len_direct (cmp_int mode) strict vs and extracted () = int_of_nat (M.lis_len_ref (cmp_of mode) strict vs) in
  if n > 150 then direct ()
  else if n > 60 then extracted ()
  else (let d = direct () and e = extracted () in if d <> e then raise Disagree; e)
(* an upper bound of the LCS length under plain equality: the number of elements the two inputs
   share as multisets (sum over the values of the smaller count) *)
let shared_bound (l : int list) (r : int list) =
  let t : (int, int) Hashtbl.t = Hashtbl.create 4096 in
  List.iter (fun v -> Hashtbl.replace t v (1 + (try Hashtbl.find t v with Not_found -> 0))) l;
  List.fold_left (fun n v ->
    match Hashtbl.find_opt t v with
    | Some c when c > 0 -> Hashtbl.replace t v (c - 1); n + 1
    | _ -> n) 0 r
let lcs_opt eq l r =
  let n = max (List.length l) (List.length r) in
  let direct () = lcs_len_direct eq l r and extracted () = int_of_nat (M.lcs_len_ref eq l r) in
  if n > 100 then direct ()
  else if n > 60 then extracted ()
  else (let d = direct () and e = extracted () in if d <> e then raise Disagree; e)

(* ---- round 5 ---- *)

(* the records of the lines that are not replayed on the model: input -> the implementation's output *)
let echo : (string, string) Hashtbl.t = Hashtbl.create 4096
let () =
  Array.iteri (fun i f ->
    if i > 0 && String.length f > 0 && f.[0] <> '-' && Sys.file_exists f && not (Sys.is_directory f) then begin
      let ic = open_in f in
      (try while true do
        let line = input_line ic in
        if String.length line > 2 && (line.[0] = 'S' || line.[0] = 'T' || line.[0] = 'G') && line.[1] = ' ' then begin
          let (inp, out) = split_line line in Hashtbl.replace echo inp out
        end
      done with End_of_file -> ());
      close_in ic
    end) Sys.argv
let echo_of inp = match Hashtbl.find_opt echo inp with Some o -> o | None -> "NOT-REPLAYED"
let model_fits la lb = min la lb <= 65 && max la lb <= 130

(* ints_of with the two abbreviations of round 5 for long inputs: "v*n" (n times v), "a~b" (a .. b) *)
let ints_of5 s =
  if not (String.contains s '*' || String.contains s '~') then ints_of s else
  List.concat_map (fun p ->
    match String.split_on_char '*' p, String.split_on_char '~' p with
    | [v; n], _ -> let v = int_of_string v and n = int_of_string n in
      if n < 0 || n > 131072 then failwith "bad int" else List.init n (fun _ -> v)
    | _, [a; b] -> let a = int_of_string a and b = int_of_string b in
      if b - a > 131072 then failwith "bad int" else List.init (max 0 (b - a + 1)) (fun i -> a + i)
    | _ -> [int_of_string p]) (String.split_on_char ',' s)

let fnv64 s =
  let h = ref 0xcbf29ce484222325L in
  String.iter (fun c -> h := Int64.mul (Int64.logxor !h (Int64.of_int (Char.code c))) 0x100000001b3L) s;
  Printf.sprintf "%Lx" !h

exception Bad_recipe
let recipe_elems n recipe =
  if String.length recipe <> 2 || n < 0 || n > 131072 then raise Bad_recipe;
  let ks = Array.make n 0 in
  let x = ref 12345 in
  for i = 0 to n - 1 do
    ks.(i) <- (match recipe.[0] with
      | 'a' -> i + 1 | 'd' -> n - i | 'p' -> 5 | 's' -> i / 256 + 1 | 'w' -> i mod 256 + 1
      | 'x' -> x := (!x * 1103515245 + 12345) land 0x7fffffff; (!x lsr 8) mod n + 1
      | 't' -> if i mod 2 = 0 then i / 2 + 1 else n + i / 2 + 1
      | _ -> raise Bad_recipe)
  done;
  if n > 0 then (match recipe.[1] with
    | '-' -> () | 'h' -> ks.(n-1) <- 2 * n + 10 | 'l' -> ks.(n-1) <- 0 | 'm' -> ks.(n-1) <- n / 2 + 1
    | _ -> raise Bad_recipe);
  Array.mapi (fun i k -> k * 100 + i mod 100) ks

(* the optimum in O(n log n): the smallest last element of a chain of every length (patience) *)
let lis_len_fast c strict (a : int array) =
  let n = Array.length a in
  let tails = Array.make (n + 1) 0 and len = ref 0 in
  for i = 0 to n - 1 do
    let x = a.(i) in
    let lo = ref 0 and hi = ref !len in
    while !lo < !hi do
      let mid = (!lo + !hi) / 2 in
      let r = c tails.(mid) x in
      if (if strict then r < 0 else r <= 0) then lo := mid + 1 else hi := mid
    done;
    tails.(!lo) <- x;
    if !lo = !len then incr len
  done;
  !len

let runs_of (pos : int list) =
  if pos = [] then "." else begin
    let b = Buffer.create 64 in
    let flush lo hi = (if Buffer.length b > 0 then Buffer.add_char b ',');
      Buffer.add_string b (string_of_int lo); if hi > lo then (Buffer.add_char b '-'; Buffer.add_string b (string_of_int hi)) in
    let rec go lo hi = function
      | [] -> flush lo hi
      | p :: r -> if p = hi + 1 then go lo p r else (flush lo hi; go p p r) in
    (match pos with p :: r -> go p p r | [] -> ());
    Buffer.contents b
  end
let positions_of runs =
  if runs = "." then [] else
  List.concat_map (fun r ->
    match String.split_on_char '-' r with
    | [p] -> [int_of_string p]
    | [lo; hi] -> let lo = int_of_string lo and hi = int_of_string hi in
      if hi < lo || hi - lo > 200000 then failwith "bad run" else List.init (hi - lo + 1) (fun i -> lo + i)
    | _ -> failwith "bad run") (String.split_on_char ',' runs)

(* optional window field w<pre>,<spare> *)
let spare_of = function
  | [] -> 0
  | "wn" :: _ -> 0
  | w :: _ when String.length w > 1 && w.[0] = 'w' ->
    (match ints_of (String.sub w 1 (String.length w - 1)) with [_; sp] -> sp | _ -> 0)
  | _ -> 0

let rec drop n l = if n <= 0 then l else match l with [] -> [] | _ :: t -> drop (n - 1) t
let rec take n l = if n <= 0 then [] else match l with [] -> [] | h :: t -> h :: take (n - 1) t

(* V <mode> <lo1> <hi1> <lo2> <hi2> <c> <arr> -> the two value lists, None when the bounds do not fit *)
let views lo1 hi1 lo2 hi2 arr =
  match List.map int_of_string_opt [lo1; hi1; lo2; hi2] with
  | [Some a; Some b; Some c; Some d] ->
    let arr = ints_of arr in
    let n = List.length arr in
    if 0 <= a && a <= b && b <= n && 0 <= c && c <= d && d <= n
    then Some (take (b - a) (drop a arr), take (d - c) (drop c arr)) else None
  | _ -> None

let lcs_line mode a b =
  match M.lcs_func (eq_of mode) a b with
  | Some s -> (if M.lcs_is_nil a b then "z " else "s ") ^ str_ints s ^ " m0 a0"
  | None -> "NONE"

let rec eval inp =
  match words inp with
  | "P" :: _ :: rest -> eval (String.concat " " rest)
  | [("V" | "T") as kind; mode; lo1; hi1; lo2; hi2; _; arr] ->
    (match views lo1 hi1 lo2 hi2 arr with
     | Some (a, b) -> if kind = "T" && not (model_fits (List.length a) (List.length b)) then echo_of inp else lcs_line mode a b
     | None -> "?")
  | (("L" | "S") as kind) :: mode :: a :: b :: _ ->
    let a = ints_of5 a and b = ints_of5 b in
    if kind = "S" && not (model_fits (List.length a) (List.length b)) then echo_of inp else
    (match M.lcs_func (eq_of mode) a b with
     | Some s -> (if M.lcs_is_nil a b then "z " else "s ") ^ str_ints s ^ " m0 a0"
     | None -> "NONE")
  | "G" :: (("I" | "N") as f) :: mode :: n :: recipe :: w ->
    (match int_of_string_opt n with
     | Some n when n <= 200 ->
       (match (try Some (Array.to_list (recipe_elems n recipe)) with Bad_recipe -> None) with
        | None -> "?"
        | Some vs ->
          let r = if f = "I" then M.lis_func (cmp_of mode) vs else M.lnds_func (cmp_of mode) vs in
          let alias = if vs = [] && spare_of w > 0 then " a1" else " a0" in
          (match r with
           | None -> "NONE"
           | Some s ->
             (* the positions a greedy left-to-right match gives the elements *)
             let rec place i vs s = match s, vs with
               | [], _ -> []
               | _, [] -> [-1]
               | x :: s', y :: vs' -> if (x : int) = y then i :: place (i + 1) vs' s' else place (i + 1) vs' s in
             Printf.sprintf "%d:%s:%s m0%s" (List.length s) (fnv64 (str_ints s)) (runs_of (place 0 vs s)) alias))
     | Some _ -> echo_of inp
     | None -> "?")
  | (("I" | "N") as f) :: mode :: vs :: w ->
    let vs = ints_of vs in
    let r = if f = "I" then M.lis_func (cmp_of mode) vs else M.lnds_func (cmp_of mode) vs in
    (* on an empty input LIS/LNDS return the input slice itself: overwriting the result up to its
       capacity reaches the spare capacity of the input window *)
    let alias = if vs = [] && spare_of w > 0 then " a1" else " a0" in
    (match r with Some s -> str_ints s ^ " m0" ^ alias | None -> "NONE")
  | _ -> "?"

(* exact subsequence: greedy on whole elements *)
let rec exact_subseq s l =
  match s, l with
  | [], _ -> true
  | _, [] -> false
  | x :: s', y :: l' -> if (x : int) = y then exact_subseq s' l' else exact_subseq s l'

let rec spec prop inp out =
  if prop <> "C12" then None else
  match words inp with
  | "P" :: _ :: rest -> spec prop (String.concat " " rest) out
  | "S" :: rest -> spec prop (String.concat " " ("L" :: rest)) out
  | "G" :: (("I" | "N") as f) :: mode :: n :: recipe :: _ ->
    let strict = (f = "I") in
    let name = if strict then "LIS" else "LNDS" in
    (match int_of_string_opt n, words out with
     | None, _ -> None
     | Some n, _ when (try ignore (recipe_elems n recipe); false with Bad_recipe -> true) -> None
     | Some _, ["?"] -> Some "an input the recipe describes was rejected"
     | Some n, [r; m; _al] ->
       let a = recipe_elems n recipe in
       if String.length r >= 7 && String.sub r 0 7 = "nomatch" then Some "result is not a subsequence of the input"
       else if m <> "m0" then Some (name ^ " modified its input slice (or a cell of its backing array)")
       else (match String.split_on_char ':' r with
         | [len; digest; runs] ->
           (match (try Some (positions_of runs) with _ -> None), int_of_string_opt len with
            | Some pos, Some len ->
              let rec increasing prev = function [] -> true | p :: r -> p > prev && p < n && increasing p r in
              if not (increasing (-1) pos) then Some "the positions of the result in the input do not increase"
              else if List.length pos <> len then Some "unexpected output (length and positions disagree)"
              else begin
                let s = List.map (fun p -> a.(p)) pos in
                if fnv64 (str_ints s) <> digest then Some "the elements of the result are not those of the input at the positions it was matched to"
                else if not (M.ordered_b (cmp_of mode) strict s) then Some (if strict then "result is not strictly increasing" else "result is not non-decreasing")
                else begin
                  let opt = lis_len_fast (cmp_int mode) strict a in
                  if n <= 150 && opt <> lis_opt mode strict (Array.to_list a) then raise Disagree;
                  if len <> opt then Some (Printf.sprintf "length %d, reference optimum %d" len opt) else None
                end
              end
            | _ -> Some ("unexpected output " ^ (if String.length out > 200 then String.sub out 0 200 else out)))
         | _ -> Some ("unexpected output " ^ (if String.length out > 200 then String.sub out 0 200 else out)))
     | _ -> Some ("unexpected output " ^ (if String.length out > 200 then String.sub out 0 200 else out)))
  | [("V" | "T"); mode; lo1; hi1; lo2; hi2; _; arr] ->
    (match views lo1 hi1 lo2 hi2 arr with
     | Some (a, b) -> if out = "?" then Some "bounds that fit the array were rejected" else spec prop (String.concat " " ["L"; mode; str_ints a; str_ints b]) out
     | None -> None)
  | "L" :: mode :: a :: b :: _ ->
    let a = ints_of5 a and b = ints_of5 b in
    (match words out with
     | [_; s; m; _al] ->
       let s = ints_of s in
       let eq = eq_of mode in
       if m <> "m0" then Some "LCS modified an input slice (or a cell of its backing array)"
       else if is_equivalence mode then begin
         (* the property as stated: a common subsequence (up to eq) of both arguments, elements
            taken from one of them, of the reference optimum length *)
         if not (M.subseq_b eq s a) then Some "result is not a subsequence of the first argument"
         else if not (M.subseq_b eq s b) then Some "result is not a subsequence of the second argument"
         else if not (exact_subseq s a || exact_subseq s b) then Some "result elements are taken from neither argument"
         else
           (* s IS a common subsequence (checked above): the optimum is at least its length.  Under
              plain equality it is at most what the inputs share as multisets; when s reaches that
              bound (constructed large inputs, round 6) the quadratic table is not needed *)
           let plain = (mode = "e") and k = List.length s in
           let opt = if plain && max (List.length a) (List.length b) > 100 && shared_bound a b = k then k else lcs_opt eq a b in
           if k <> opt then Some (Printf.sprintf "length %d, reference optimum %d" k opt)
           else None
       end else begin
         (* a test without the laws of an equivalence: the code works on (xs, ys) = the shorter
            input first and calls the test as eq x y; the result must be an element-identical
            subsequence of xs that matches a subsequence of ys, of the reference optimum length for
            that orientation *)
         let oriented xs ys =
           if not (exact_subseq s xs) then Some "result is not an element-identical subsequence of the shorter input"
           else if not (M.subseq_b eq s ys) then Some "result does not match a subsequence of the longer input under eq(x, y)"
           else
             let opt = lcs_opt eq xs ys in
             if List.length s <> opt then Some (Printf.sprintf "length %d, reference optimum %d for eq(shorter, longer)" (List.length s) opt)
             else None in
         (* which input the code treats as xs is not part of the property: accept either, reporting
            the reason for the orientation the pinned code uses (shorter first) *)
         let xs, ys = if List.length b < List.length a then b, a else a, b in
         (match oriented xs ys with None -> None | Some r -> (match oriented ys xs with None -> None | Some _ -> Some r))
       end
     | _ -> Some ("unexpected output " ^ out))
  | (("I" | "N") as f) :: mode :: vs :: _ ->
    let vs = ints_of vs in
    let strict = (f = "I") in
    let name = if strict then "LIS" else "LNDS" in
    (match words out with
     | [s; m; _al] ->
       let s = ints_of s in
       let c = cmp_of mode in
       if m <> "m0" then Some (name ^ " modified its input slice (or a cell of its backing array)")
       else if not (exact_subseq s vs) then Some "result is not a subsequence of the input"
       else if not (M.ordered_b c strict s) then Some (if strict then "result is not strictly increasing" else "result is not non-decreasing")
       else
         let opt = lis_opt mode strict vs in
         if List.length s <> opt then Some (Printf.sprintf "length %d, reference optimum %d" (List.length s) opt)
         else None
     | _ -> Some ("unexpected output " ^ out))
  | _ -> None

let () = run_main ~eval ~spec
