(* Replays bytestrace lines on the extracted model (MbitsModel, MstrModel) and evaluates the naive
   definitions / order laws of C20 on the implementation's own outputs.  The naive byte counts,
   the "cleared exactly the window" check, prefix and length checks are written here directly on
   OCaml strings (independent of the model); UTF-8 validity (RFC 3629), the token key order and
   the leading-zero normal form are the extracted MstrSpec definitions.  The order laws of
   CompareNatural (range, antisymmetry, transitivity, congruence, reflexivity) are asserted on the
   implementation's outputs for ALL strings; the numeric reading and "0 iff equal up to leading
   zeros" wherever every digit run is <= MaxInt64 (decided here on the characters). *)

(* supporting runs (checkptr, incoq) report failing inputs with _ for blanks *)
let words s = words (String.map (fun c -> if c = '_' then ' ' else c) s)

let zbytes s = if s = "-" then [] else
  List.init (String.length s / 2) (fun i -> z_of_int (int_of_string ("0x" ^ String.sub s (2*i) 2)))
let hexz l = if l = [] then "-" else String.concat "" (List.map (fun b -> Printf.sprintf "%02x" (int_of_z b)) l)

let show_res f = function
  | M.Ok a -> f a
  | M.PanicIndex -> "panic:index"
  | M.Fault -> "FAULT:access-outside-slice"
  | M.OutOfFuel -> "OUT-OF-FUEL"

let show_strs = function
  | M.Nil -> "nil"
  | M.Strs [] -> "empty"
  | M.Strs l -> String.concat "," (List.map hexz l)

let eval inp =
  match words inp with
  | [("Z" | "z"); off; n; mem] ->
    show_res (fun (m, r) -> string_of_z r ^ " " ^ hexz m) (M.zero (zbytes mem) (z_of_int (int_of_string off)) (z_of_int (int_of_string n)))
  | [("L" | "l"); off; n; mem] ->
    show_res string_of_z (M.leading_zeroes (zbytes mem) (z_of_int (int_of_string off)) (z_of_int (int_of_string n)))
  | [("T" | "t"); off; n; mem] ->
    show_res string_of_z (M.trailing_zeroes (zbytes mem) (z_of_int (int_of_string off)) (z_of_int (int_of_string n)))
  | ["U"; n; s] -> show_res hexz (M.trunc (zbytes s) (z_of_int (int_of_string n)))
  | ["C"; a; b] -> show_res string_of_z (M.compare_natural (zbytes a) (zbytes b))
  | ["X"; a; b; c] ->
    let a = zbytes a and b = zbytes b and c = zbytes c in
    let outs = List.map (fun (x, y) -> M.compare_natural x y) [(a,b); (b,c); (a,c); (b,a); (c,b); (c,a)] in
    (match List.find_opt (function M.Ok _ -> false | _ -> true) outs with
     | Some bad -> show_res string_of_z bad
     | None -> String.concat " " (List.map (show_res string_of_z) outs))
  (* supplementary, outside C20: Lines and Split (correspondence only; [spec] says nothing) *)
  | ["N"; s] -> show_res show_strs (M.lines (zbytes s))
  | ["P"; s; sep] -> show_res show_strs (M.split (zbytes s) (zbytes sep))
  | _ -> "?"

(* ---- the property on the implementation's outputs *)

let raw s = if s = "-" then "" else String.init (String.length s / 2) (fun i -> Char.chr (int_of_string ("0x" ^ String.sub s (2*i) 2)))

let naive_leading w = let n = String.length w in let rec go i = if i < n && w.[i] = '\000' then go (i+1) else i in go 0
let naive_trailing w = let n = String.length w in let rec go k = if k < n && w.[n-1-k] = '\000' then go (k+1) else k in go 0

let is_digit c = c >= '0' && c <= '9'

(* every maximal digit run spells a number <= MaxInt64 (leading zeros do not count): decided on the
   characters, without any arithmetic *)
let max_int64 = "9223372036854775807"
let run_fits r =
  let n = String.length r in
  let rec nz i = if i < n && r.[i] = '0' then nz (i+1) else i in
  let k = nz 0 in
  let d = String.sub r k (n - k) in
  String.length d < 19 || (String.length d = 19 && d <= max_int64)
let runs_fit s =
  let ok = ref true and cur = Buffer.create 16 in
  let flush () = if Buffer.length cur > 0 then (if not (run_fits (Buffer.contents cur)) then ok := false; Buffer.clear cur) in
  String.iter (fun c -> if is_digit c then Buffer.add_char cur c else flush ()) s; flush (); !ok

let zs_of_raw s = List.init (String.length s) (fun i -> z_of_int (Char.code s.[i]))
let key_order a b = int_of_z (M.key_cmp (M.key (zs_of_raw a)) (M.key (zs_of_raw b)))

let sgn x = compare x 0

(* A digit run beyond MaxInt64 overflows parseInt's int accumulator.  CompareNatural's doc comment
   states no bound, but the property text of C20 quantifies over "runs short enough not to
   overflow int": outside that domain nothing is asserted about the VALUE of the result (the lead's
   decision: not a finding against C20; see C20_compare_overflow_refuted and notes/C20.md).  The
   order laws are asserted there like everywhere else, and the model, which wraps like Go's int,
   must still reproduce the implementation's answer (correspondence). *)
let overflow_seen = ref 0
let overflow_case (_ : string) (_ : string) (_ : string) (_ : string) : string option =
  incr overflow_seen; None

(* the order laws on the six recorded comparisons of a triple, for EVERY arrangement (x,y,z) of
   (a,b,c): v.(i).(j) is the recorded cmp of the i-th with the j-th string (the generator therefore
   enumerates multisets {a,b,c}, not ordered triples) *)
let perms3 = [(0,1,2); (0,2,1); (1,0,2); (1,2,0); (2,0,1); (2,1,0)]
let order_laws v =
  let chk (i, j, k) =
    let xy = v.(i).(j) and yz = v.(j).(k) and xz = v.(i).(k) in
    if xy <= 0 && yz <= 0 && xz > 0 then Some "not transitive: x<=y, y<=z but x>z"
    else if xy <= 0 && yz <= 0 && xz = 0 && (xy <> 0 || yz <> 0) then Some "not transitive: x<=y<=z with a strict step but x~z"
    else if xy = 0 && xz <> yz then Some "equivalent strings compare differently against a third"
    else None in
  List.fold_left (fun acc p -> match acc with Some _ -> acc | None -> chk p) None perms3

let spec prop inp out =
  if prop <> "C20" then None else
  let panicked = String.length out >= 6 && String.sub out 0 6 = "panic:" in
  if out = "hang" then Some "the call does not return (no answer within the 2 s watchdog; a call takes microseconds)" else
  if out = "hang-skipped" then Some "not run: three earlier cases of this kind did not return (hang)" else
  match words inp with
  | [("Z" | "L" | "T" | "z" | "l" | "t") as op; off; n; mem] ->
    (* z l t: the same calls on a slice whose capacity is open to the end of the buffer; the
       clauses are the same -- what lies between len and cap is not the function's to read *)
    let op = String.uppercase_ascii op in
    let off = int_of_string off and n = int_of_string n and m = raw mem in
    if panicked then Some "panics on a slice that lies inside its buffer" else
    let w = String.sub m off n in
    (match op, words out with
     | "Z", [r; after] ->
       let a = raw after in
       let want = String.sub m 0 off ^ String.make n '\000' ^ String.sub m (off+n) (String.length m - off - n) in
       if int_of_string r <> n then Some "Zero does not return len(data)"
       else if String.length a <> String.length m then Some "bad output"
       else if String.sub a off n <> String.make n '\000' then Some "Zero left a non-zero byte in the slice"
       else if a <> want then Some "Zero wrote outside the slice (guard bytes changed)"
       else None
     | "L", [r] -> if int_of_string r = naive_leading w then None else Some (Printf.sprintf "byte-by-byte count of leading zeros is %d" (naive_leading w))
     | "T", [r] -> if int_of_string r = naive_trailing w then None else Some (Printf.sprintf "byte-by-byte count of trailing zeros is %d" (naive_trailing w))
     | _, [_; "MEMCHANGED"] -> Some "a counting function wrote to memory"
     | _ -> Some "bad output syntax")
  | ["U"; n; s] ->
    let n = int_of_string n and s = raw s in
    if n < 0 then None else
    if panicked then Some "Trunc panics for n >= 0" else
    let r = raw out in
    let ls = String.length s and lr = String.length r in
    if lr > ls || String.sub s 0 lr <> r then Some "result is not a prefix of s"
    else if lr > n then Some "result is longer than n bytes"
    else if n >= ls && r <> s then Some "n >= len(s) but the result is not s"
    else if M.valid_utf8b (zs_of_raw s) then
      (if not (M.valid_utf8b (zs_of_raw r)) then Some "s is valid UTF-8 but the result is not"
       else if ls > n && lr < n - 4 then Some "result is more than one encoded character (4 bytes) shorter than n"
       else None)
    else None
  | ["C"; a; b] ->
    let a = raw a and b = raw b in
    if panicked then Some "CompareNatural panics" else
    let c = (try int_of_string out with _ -> 99) in
    if c < -1 || c > 1 then Some "result outside {-1,0,1}"
    else if a = b && c <> 0 then Some "a string does not compare equal to itself"
    else begin
      let k = key_order a b in
      let same = M.normal_form (zs_of_raw a) = M.normal_form (zs_of_raw b) in
      let why =
        if c <> k then Some (Printf.sprintf "the token-key order gives %d" k)
        else if (c = 0) <> same then Some "result is 0 but the strings are not equal up to leading zeros of digit runs (or the converse)"
        else None in
      match why with
      | None -> None
      | Some r when runs_fit a && runs_fit b -> Some r
      | Some r -> overflow_case a b out r
    end
  | ["X"; a; b; c] ->
    let a = raw a and b = raw b and c = raw c in
    if panicked then Some "CompareNatural panics" else
    (match List.map int_of_string (words out) with
     | [ab; bc; ac; ba; cb; ca] ->
       (* the order laws are asserted for ALL strings, overflowing digit runs included *)
       let v = [| [| 0; ab; ac |]; [| ba; 0; bc |]; [| ca; cb; 0 |] |] in
       if List.exists (fun x -> x < -1 || x > 1) [ab; bc; ac; ba; cb; ca] then Some "result outside {-1,0,1}"
       else if ab <> -ba || bc <> -cb || ac <> -ca then Some "not antisymmetric: cmp(x,y) <> -cmp(y,x)"
       else (match order_laws v with
       | Some r -> Some r
       | None ->
         if not (runs_fit a && runs_fit b && runs_fit c) then None
         else if ab <> key_order a b || bc <> key_order b c || ac <> key_order a c
              || ba <> key_order b a || cb <> key_order c b || ca <> key_order c a then Some "differs from the token-key order"
         else None)
     | _ -> Some "bad output syntax")
  | _ -> None

let () = run_main ~eval ~spec
