(* Replays bytestrace lines on the extracted model (MbitsModel, MstrModel) and evaluates the naive
   definitions / order laws of C20 on the implementation's own outputs.  The naive byte counts,
   the "cleared exactly the window" check, prefix and length checks are written here directly on
   OCaml strings (independent of the model); UTF-8 validity (RFC 3629), the token key order and
   the leading-zero normal form are the extracted MstrSpec definitions. *)

let zbytes s = if s = "-" then [] else
  List.init (String.length s / 2) (fun i -> z_of_int (int_of_string ("0x" ^ String.sub s (2*i) 2)))
let hexz l = if l = [] then "-" else String.concat "" (List.map (fun b -> Printf.sprintf "%02x" (int_of_z b)) l)

let show_res f = function
  | M.Ok a -> f a
  | M.PanicIndex -> "panic:index"
  | M.Fault -> "FAULT:access-outside-slice"
  | M.OutOfFuel -> "OUT-OF-FUEL"

let eval inp =
  match words inp with
  | ["Z"; off; n; mem] ->
    show_res (fun (m, r) -> string_of_z r ^ " " ^ hexz m) (M.zero (zbytes mem) (z_of_int (int_of_string off)) (z_of_int (int_of_string n)))
  | ["L"; off; n; mem] ->
    show_res string_of_z (M.leading_zeroes (zbytes mem) (z_of_int (int_of_string off)) (z_of_int (int_of_string n)))
  | ["T"; off; n; mem] ->
    show_res string_of_z (M.trailing_zeroes (zbytes mem) (z_of_int (int_of_string off)) (z_of_int (int_of_string n)))
  | ["U"; n; s] -> show_res hexz (M.trunc (zbytes s) (z_of_int (int_of_string n)))
  | ["C"; a; b] -> show_res string_of_z (M.compare_natural (zbytes a) (zbytes b))
  | ["X"; a; b; c] ->
    let a = zbytes a and b = zbytes b and c = zbytes c in
    let outs = List.map (fun (x, y) -> M.compare_natural x y) [(a,b); (b,c); (a,c); (b,a); (c,b); (c,a)] in
    (match List.find_opt (function M.Ok _ -> false | _ -> true) outs with
     | Some bad -> show_res string_of_z bad
     | None -> String.concat " " (List.map (show_res string_of_z) outs))
  | _ -> "?"

(* ---- the property on the implementation's outputs *)

let raw s = if s = "-" then "" else String.init (String.length s / 2) (fun i -> Char.chr (int_of_string ("0x" ^ String.sub s (2*i) 2)))

let naive_leading w = let n = String.length w in let rec go i = if i < n && w.[i] = '\000' then go (i+1) else i in go 0
let naive_trailing w = let n = String.length w in let rec go k = if k < n && w.[n-1-k] = '\000' then go (k+1) else k in go 0

let is_digit c = c >= '0' && c <= '9'
let short_runs s =
  let ok = ref true and k = ref 0 in
  String.iter (fun c -> if is_digit c then (incr k; if !k > 18 then ok := false) else k := 0) s; !ok

let zs_of_raw s = List.init (String.length s) (fun i -> z_of_int (Char.code s.[i]))
let key_order a b = int_of_z (M.key_cmp (M.key (zs_of_raw a)) (M.key (zs_of_raw b)))

let sgn x = compare x 0

let spec prop inp out =
  if prop <> "C20" then None else
  let panicked = String.length out >= 6 && String.sub out 0 6 = "panic:" in
  match words inp with
  | [("Z" | "L" | "T") as op; off; n; mem] ->
    let off = int_of_string off and n = int_of_string n and m = raw mem in
    if panicked then Some "panics on a slice that lies inside its buffer" else
    let w = String.sub m off n in
    (match op, words out with
     | "Z", [r; after] ->
       let a = raw after in
       let want = String.sub m 0 off ^ String.make n '\000' ^ String.sub m (off+n) (String.length m - off - n) in
       if int_of_string r <> n then Some "Zero does not return len(data)"
       else if String.length a <> String.length m then Some "bad output"
       else if String.sub a off n <> String.make n '\000' then Some "Zero left a non-zero byte in the slice"
       else if a <> want then Some "Zero wrote outside the slice (guard bytes changed)"
       else None
     | "L", [r] -> if int_of_string r = naive_leading w then None else Some (Printf.sprintf "byte-by-byte count of leading zeros is %d" (naive_leading w))
     | "T", [r] -> if int_of_string r = naive_trailing w then None else Some (Printf.sprintf "byte-by-byte count of trailing zeros is %d" (naive_trailing w))
     | _, [_; "MEMCHANGED"] -> Some "a counting function wrote to memory"
     | _ -> Some "bad output syntax")
  | ["U"; n; s] ->
    let n = int_of_string n and s = raw s in
    if n < 0 then None else
    if panicked then Some "Trunc panics for n >= 0" else
    let r = raw out in
    let ls = String.length s and lr = String.length r in
    if lr > ls || String.sub s 0 lr <> r then Some "result is not a prefix of s"
    else if lr > n then Some "result is longer than n bytes"
    else if n >= ls && r <> s then Some "n >= len(s) but the result is not s"
    else if M.valid_utf8b (zs_of_raw s) then
      (if not (M.valid_utf8b (zs_of_raw r)) then Some "s is valid UTF-8 but the result is not"
       else if ls > n && lr < n - 4 then Some "result is more than one encoded character (4 bytes) shorter than n"
       else None)
    else None
  | ["C"; a; b] ->
    let a = raw a and b = raw b in
    if panicked then Some "CompareNatural panics" else
    let c = (try int_of_string out with _ -> 99) in
    if c < -1 || c > 1 then Some "result outside {-1,0,1}"
    else if short_runs a && short_runs b then begin
      let k = key_order a b in
      let same = M.normal_form (zs_of_raw a) = M.normal_form (zs_of_raw b) in
      if c <> k then Some (Printf.sprintf "the token-key order gives %d" k)
      else if (c = 0) <> same then Some "result is 0 but the strings are not equal up to leading zeros of digit runs (or the converse)"
      else None
    end else None
  | ["X"; a; b; c] ->
    let a = raw a and b = raw b and c = raw c in
    if panicked then Some "CompareNatural panics" else
    (match List.map int_of_string (words out) with
     | [ab; bc; ac; ba; cb; ca] ->
       if List.exists (fun x -> x < -1 || x > 1) [ab; bc; ac; ba; cb; ca] then Some "result outside {-1,0,1}"
       else if not (short_runs a && short_runs b && short_runs c) then None
       else if ab <> -ba || bc <> -cb || ac <> -ca then Some "not antisymmetric: cmp(x,y) <> -cmp(y,x)"
       else if ab <= 0 && bc <= 0 && ac > 0 then Some "not transitive: a<=b, b<=c but a>c"
       else if ab >= 0 && bc >= 0 && ac < 0 then Some "not transitive: a>=b, b>=c but a<c"
       else if ab <= 0 && bc <= 0 && ac = 0 && (ab <> 0 || bc <> 0) then Some "not transitive: a<=b<=c with a strict step but a~c"
       else if ab = 0 && ac <> bc then Some "equivalent strings compare differently against a third"
       else if ab <> key_order a b || bc <> key_order b c || ac <> key_order a c then Some "differs from the token-key order"
       else None
     | _ -> Some "bad output syntax")
  | _ -> None

let () = run_main ~eval ~spec
