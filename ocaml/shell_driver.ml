(* Replays shelltrace lines on the extracted model (ShellModel) and evaluates the extracted
   reference semantics (ShellSpec) on the implementation's own outputs. *)

(* The scale streams carry byte strings of 8 KB and more.  A larger minor heap keeps the model's
   short-lived list copies (it appends at the end of a list) out of the major heap. *)
let () = Gc.set { (Gc.get ()) with Gc.minor_heap_size = 1 lsl 20 }

(* Trace syntax for byte strings (replaces the glue's plain hex; see harness/cmd/shelltrace/rle.go):
   two hex digits per byte, or r<count>z<hex block>z for <count> copies of a block of 1..64 bytes;
   "-" is the empty string.  The encoder is canonical and is the same algorithm as the harness's:
   at each position the smallest period p <= 64 whose block repeats k >= 2 times over k*p >= 32
   bytes, with the greatest such k; else one byte in hex.  Strings under 32 bytes are plain hex. *)
let byte_tab = Array.init 256 n_of_int
let hexval c = match c with
  | '0'..'9' -> Char.code c - 48 | 'a'..'f' -> Char.code c - 87 | 'A'..'F' -> Char.code c - 55
  | _ -> failwith "bad hex digit"
let unhex s =
  if s = "-" then [] else begin
    let n = String.length s in
    (* decode into a buffer of raw bytes, then build the list back to front *)
    let b = Buffer.create (n / 2 + 16) in
    let plain i j =
      if (j - i) land 1 = 1 then failwith "odd number of hex digits";
      let k = ref i in
      while !k < j do Buffer.add_char b (Char.chr (16 * hexval s.[!k] + hexval s.[!k + 1])); k := !k + 2 done in
    let i = ref 0 in
    while !i < n do
      if s.[!i] = 'r' then begin
        let j = String.index_from s !i 'z' in
        let k = int_of_string (String.sub s (!i + 1) (j - !i - 1)) in
        let e = String.index_from s (j + 1) 'z' in
        if k < 0 || k > 1 lsl 24 then failwith "bad repeat count";
        let before = Buffer.length b in
        plain (j + 1) e;
        let blk = Buffer.sub b before (Buffer.length b - before) in
        for _ = 2 to k do Buffer.add_string b blk done;
        if k = 0 then Buffer.truncate b before;
        i := e + 1
      end else begin
        let j = ref !i in
        while !j < n && s.[!j] <> 'r' do incr j done;
        plain !i !j;
        i := !j
      end
    done;
    let r = ref [] in
    for k = Buffer.length b - 1 downto 0 do r := byte_tab.(Char.code (Buffer.nth b k)) :: !r done;
    !r
  end
let rle_max_p = 64 and rle_min = 32
let hex l = if l = [] then "-" else begin
  let a = Array.of_list (List.map int_of_n l) in
  let n = Array.length a in
  let b = Buffer.create 64 and digits = "0123456789abcdef" in
  let wr i j = for k = i to j - 1 do
      Buffer.add_char b digits.[(a.(k) lsr 4) land 15]; Buffer.add_char b digits.[a.(k) land 15] done in
  let i = ref 0 in
  while !i < n do
    let found = ref false in
    if n - !i >= rle_min then begin
      let p = ref 1 in
      while not !found && !p <= rle_max_p && !i + 2 * !p <= n do
        let same k = (* block k equals block 0 *)
          let rec eq j = j >= !p || (a.(!i + k * !p + j) = a.(!i + j) && eq (j + 1)) in eq 0 in
        let k = ref 1 in
        while !i + (!k + 1) * !p <= n && same !k do incr k done;
        if !k >= 2 && !k * !p >= rle_min then begin
          Buffer.add_char b 'r'; Buffer.add_string b (string_of_int !k); Buffer.add_char b 'z';
          wr !i (!i + !p); Buffer.add_char b 'z';
          i := !i + !k * !p; found := true
        end else incr p
      done
    end;
    if not !found then begin wr !i (!i + 1); incr i end
  done;
  Buffer.contents b end
let unhexs s = if s = "." then [] else List.map unhex (String.split_on_char ',' s)
let hexs l = if l = [] then "." else String.concat "," (List.map hex l)

(* one-slot memo: the sessions of one (input, ops) under all fragmentations are consecutive lines,
   and neither the model nor the reference looks at the fragmentation *)
let memo1 f =
  let last = ref None in
  fun k -> match !last with
    | Some (k', v) when k' = k -> v
    | _ -> let v = f k in last := Some (k, v); v

let show_split = function
  | None -> "PANIC"
  | Some (fs, ok) -> b01 ok ^ " " ^ hexs fs

(* '_' is accepted as a field separator of an input (see shelltrace) *)
let unus inp = String.map (fun c -> if c = '_' then ' ' else c) inp

(* session ops: n Next, r Rest, e Err, z Reset, s Scanner.Split, a Each to the end, b / c Each whose
   callback returns false at the first / second token, x / y Each whose callback panics at the first /
   second token (the harness recovers; for the scanner that is a callback that stopped the loop) *)
let xop_of_char = function
  | 'n' -> Some M.XNext | 'r' -> Some M.XRest | 'e' -> Some M.XErr | 'z' -> Some M.XReset | 's' -> Some M.XSplit
  | 'a' -> Some (M.XEach M.O) | 'b' | 'x' -> Some (M.XEach (nat_of_int 1)) | 'c' | 'y' -> Some (M.XEach (nat_of_int 2))
  | _ -> None
(* the op letters of a session that stand for an op, in order *)
let xchars_of rest =
  let ops = match rest with [o] -> o | _ -> "" in
  List.filter (fun c -> xop_of_char c <> None) (List.init (String.length ops) (String.get ops))
let xops_of rest = List.filter_map xop_of_char (xchars_of rest)

let show_xout each_tag = function
  | M.XRNext (ok, t, c) -> "n" ^ b01 ok ^ ":" ^ hex t ^ ":" ^ b01 c
  | M.XRRest r -> "r" ^ hex r
  | M.XRErr e -> if e then "e1" else "e0"
  | M.XRReset -> "z"
  | M.XRSplit (toks, t, c) -> "s" ^ hexs toks ^ ":" ^ hex t ^ ":" ^ b01 c
  | M.XREach (toks, t, c) -> each_tag ^ hexs toks ^ ":" ^ hex t ^ ":" ^ b01 c
  | M.XRPanic -> "PANIC"

(* the implementation's observations, parsed; anything unreadable becomes XRPanic (never accepted) *)
let parse_xout o =
  let tail () = String.sub o 1 (String.length o - 1) in
  if o = "PANIC" || o = "" then M.XRPanic else
  match o.[0] with
  | 'r' -> M.XRRest (unhex (tail ()))
  | 'e' -> (match o with "e0" -> M.XRErr false | "e1" -> M.XRErr true | _ -> M.XRPanic)
  | 'z' -> if o = "z" then M.XRReset else M.XRPanic
  | 'n' -> (match String.split_on_char ':' (tail ()) with
            | [ok; t; c] -> M.XRNext (ok = "1", unhex t, c = "1") | _ -> M.XRPanic)
  | 's' -> (match String.split_on_char ':' (tail ()) with
            | [toks; t; c] -> M.XRSplit (unhexs toks, unhex t, c = "1") | _ -> M.XRPanic)
  | 'a' | 'b' | 'c' | 'x' | 'y' -> (match String.split_on_char ':' (tail ()) with
            | [toks; t; c] -> M.XREach (unhexs toks, unhex t, c = "1") | _ -> M.XRPanic)
  | _ -> M.XRPanic

(* Round 6 / 8: sessions in which the reader returned by Rest is read only in part.
     p<k>  Rest, and the first k bytes are read from the reader it returns      p<hex of the bytes read>
     q<k>  k more bytes from the reader the last Rest returned                   q<hex> (q- when there is none)
     t     Text and Complete, no call in between                                 t<hex>:<complete>
   Since round 8 these are ops of the Coq session model (coq/Shell/ShellSessionExt.v: ERestPart,
   EReadMore, EText next to the embedded calls of run_opsx); a session with one of them is run by the
   EXTRACTED machine run_ext_st (the function of theorem C16_sessions_ext); this file only turns the
   op letters into its ops and its observations into trace text.  Sessions without these ops go through
   run_opsx as before, and a sample of them through run_ext_st as well (they must agree:
   C16_ext_embeds_model). *)
let optoks ops =
  let n = String.length ops in
  let rec go i acc =
    if i >= n then List.rev acc else
    let c = ops.[i] in
    if c = 'p' || c = 'q' then begin
      let j = ref (i + 1) and k = ref 0 in
      while !j < n && ops.[!j] >= '0' && ops.[!j] <= '9' do
        k := min (!k * 10 + Char.code ops.[!j] - 48) (1 lsl 24); incr j done;
      go !j ((c, !k) :: acc)
    end else if c = 't' || xop_of_char c <> None then go (i + 1) ((c, 0) :: acc)
    else go (i + 1) acc in
  go 0 []
let is_ext toks = List.exists (fun (c, _) -> c = 'p' || c = 'q' || c = 't') toks
let rec take_b k l = if k <= 0 then [] else match l with [] -> [] | x :: t -> x :: take_b (k - 1) t
let rec drop_b k l = if k <= 0 then l else match l with [] -> [] | _ :: t -> drop_b (k - 1) t
let nat_k k = let rec go n acc = if n <= 0 then acc else go (n - 1) (M.S acc) in go k M.O
(* the op of the extended session machine a token stands for (its letter kept for the output tag) *)
let eop_of (c, k) = match c with
  | 'p' -> Some (M.ERestPart (nat_k k)) | 'q' -> Some (M.EReadMore (nat_k k)) | 't' -> Some M.EText
  | _ -> (match xop_of_char c with Some o -> Some (M.EOp o) | None -> None)
let show_eout tag = function
  | M.EROut o -> show_xout tag o
  | M.ERPart b -> "p" ^ hex b
  | M.ERMore b -> "q" ^ hex b
  | M.ERText (t, c) -> "t" ^ hex t ^ ":" ^ b01 c
let etoks toks = List.filter_map (fun (c, k) -> match eop_of (c, k) with Some o -> Some (String.make 1 c, o) | None -> None) toks
let show_eouts tags outs =
  let rec zip ts os = match ts, os with
    | t :: ts', o :: os' -> show_eout t o :: zip ts' os'
    | _, _ -> [] in
  zip tags outs
(* observations (as trace text) and the state afterwards (None: the model panicked): the extracted run_ext_st *)
let run_ext src (x : M.ext) toks =
  let tl = etoks toks in
  let (outs, fin) = M.run_ext_st src x (List.map snd tl) in
  (show_eouts (List.map fst tl) outs, fin)
let ext_of sc = { M.esc = sc; M.ehave = false }

let eval_session = memo1 (fun (s, rest) ->
    let opstr = match rest with [o] -> o | _ -> "" in
    let toks = optoks opstr in
    let src = unhex s in
    if is_ext toks then String.concat ";" (fst (run_ext src (M.new_ext src) toks)) else begin
    let ops = xops_of rest in
    let outs = M.run_opsx src (M.new_scanner src) ops in
    let rec zip cs outs = match cs, outs with
      | c :: cs', o :: outs' -> show_xout (String.make 1 c) o :: zip cs' outs'
      | _, _ -> [] in
    let res = String.concat ";" (zip (xchars_of rest) outs) in
    (* the extended session machine on a sample of the ordinary sessions: it must say what run_opsx says *)
    if (String.length s + 7 * String.length opstr) mod 5 = 0 && String.length s < 400
       && String.concat ";" (fst (run_ext src (M.new_ext src) toks)) <> res
    then "EXC:the extracted run_ext_st and the extracted run_opsx disagree: " ^ res
    else res end)

(* K lines (round 4): a history of Quote / Join / Split(Join) / Split calls in one process over the
   strings of a list; q<i> Quote(ss[i]), j<i>.<n> Join(ss[i:i+n]), r<i>.<n> Split(Join(ss[i:i+n])),
   s<i> Split(ss[i]).  No call may depend on the calls before it: every op is evaluated on its own. *)
let kop o =
  let n = String.length o in
  if n = 0 then ('?', 0, 0) else
  let rest = String.sub o 1 (n - 1) in
  let num s = try int_of_string s with _ -> 0 in
  match String.index_opt rest '.' with
  | Some d -> (o.[0], num (String.sub rest 0 d), num (String.sub rest (d + 1) (String.length rest - d - 1)))
  | None -> (o.[0], num rest, 1)
let rec kdrop k l = if k <= 0 then l else match l with [] -> [] | _ :: t -> kdrop (k - 1) t
let rec ktake k l = if k <= 0 then [] else match l with [] -> [] | x :: t -> x :: ktake (k - 1) t
let ksub l i n =
  let len = List.length l in
  let lo = min (max i 0) len in
  let hi = min (max (i + n) lo) len in
  ktake (hi - lo) (kdrop lo l)
let kelem l i = if i < 0 then [] else match kdrop i l with x :: _ -> x | [] -> []
let show_ksplit = function
  | None -> "PANIC"
  | Some (fs, ok) -> b01 ok ^ ":" ^ hexs fs
(* the same call again in one line is evaluated once (its text is the key) *)
let per_op f =
  let seen = Hashtbl.create 8 in
  fun o -> match Hashtbl.find_opt seen o with
    | Some v -> v
    | None -> let v = f o in Hashtbl.add seen o v; v
let eval_k = memo1 (fun (ss, ops) ->
    let l = unhexs ss in
    String.concat ";" (List.map (per_op (fun o -> match kop o with
      | ('q', i, _) -> "q" ^ hex (M.quote (kelem l i))
      | ('j', i, n) -> "j" ^ hex (M.join (ksub l i n))
      | ('r', i, n) -> "r" ^ show_ksplit (M.split (M.join (ksub l i n)))
      | ('s', i, _) -> "s" ^ show_ksplit (M.split (kelem l i))
      | _ -> "?")) (String.split_on_char ',' ops)))

(* M lines (round 5, harness/cmd/shelltrace/round5.go): ONE scanner, two inputs.
     M <kind1> <src1> <ops1|-> <kind2> <src2> <ops2|->
   NewScanner over src1, the session ops1, Reset onto src2, Text / Complete / Err right after the
   Reset (the Z observation), the session ops2.  The reader kinds are the harness's business: neither
   the model nor the reference looks at how the bytes arrive.  The model is the extracted one all the
   way: run_opsx for the two sessions, reset_sc (whose behaviour comes from Gen) applied to the state
   the first session left.  That state is obtained by stepping the extracted next / rest /
   scanner_split / scanner_each in the order of the ops (run_opsx returns observations only).
   Kind x<k> (the first reader fails after k bytes): the first session is a prelude whose
   observations are not recorded ("P"); for the state it leaves, the model sees the first k bytes. *)
let chars s = List.init (String.length s) (String.get s)
let mops o = if o = "-" then [] else List.filter (fun c -> c <> 'z' && xop_of_char c <> None) (chars o)
let mkind_ok first k =
  let n = String.length k in
  n > 0 &&
  (match k.[0] with
   | 'f' -> (let d = String.sub k 1 (n - 1) in
             let rec strip i = if i < String.length d && (d.[i] = 'e' || d.[i] = 'z') then strip (i + 1) else i in
             let i = strip 0 in true || i >= 0)      (* any frag descriptor: the harness reads it with Atoi, 0 when unreadable *)
   | 's' | 'b' | 'B' | 'u' | 'v' | 'w' | 'o' | 'm' | 'l' | 't' -> n = 1
   | '0' -> first && n = 1
   | 'x' -> first && (match int_of_string_opt (String.sub k 1 (n - 1)) with Some v -> v >= 0 && String.sub k 1 (n - 1) <> "" && k.[1] <> '+' && k.[1] <> '-' | None -> false)
   | _ -> false)
let rec state_after sc = function
  | [] -> Some sc
  | M.XNext :: r -> (match M.next sc with None -> None | Some (sc', _) -> state_after sc' r)
  | M.XRest :: r -> let (sc', _) = M.rest sc in state_after sc' r
  | (M.XErr | M.XReset) :: r -> state_after sc r
  | M.XSplit :: r -> (match M.scanner_split sc with None -> None | Some (sc', _) -> state_after sc' r)
  | M.XEach stop :: r -> (match M.scanner_each sc stop with None -> None | Some (sc', _) -> state_after sc' r)
let rec take_n k l = if k <= 0 then [] else match l with [] -> [] | x :: t -> x :: take_n (k - 1) t
let show_outs cs outs =
  let rec zip cs outs = match cs, outs with
    | c :: cs', o :: outs' -> show_xout (String.make 1 c) o :: zip cs' outs'
    | _, _ -> [] in
  zip cs outs
type mline = { m_pre : bool; m_nil : bool; m_src1 : M.n list; m_c1 : char list; m_src2 : M.n list; m_c2 : char list; m_k : int;
               m_t1 : (char * int) list; m_t2 : (char * int) list }   (* the sessions as tokens (round 6: p<k>, q<k>, t) *)
let mtoks o = if o = "-" then [] else List.filter (fun (c, _) -> c <> 'z') (optoks o)
let parse_m = function
  | ["M"; k1; s1; o1; k2; s2; o2] when mkind_ok true k1 && mkind_ok false k2 ->
    (try
       let c1 = mops o1 in
       if k1 = "0" && (c1 <> [] || mtoks o1 <> []) then None else
       Some { m_pre = (k1.[0] = 'x'); m_nil = (k1 = "0"); m_src1 = unhex s1; m_c1 = c1; m_src2 = unhex s2; m_c2 = mops o2;
              m_t1 = mtoks o1; m_t2 = mtoks o2;
              m_k = (if k1.[0] = 'x' then int_of_string (String.sub k1 1 (String.length k1 - 1)) else 0) }
     with _ -> None)
  | _ -> None
let eval_m_ext m =
  (* a session with round-6 ops: ONE run of the extracted machine run_ext_st over
       ops1 ++ [Reset; Text/Complete; Err] ++ ops2
     with the second input as the input a Reset goes to (ops1 holds no Reset: mtoks).  The three calls in
     the middle are printed as the Z observation. *)
  let start = if m.m_nil then M.pool_new else M.new_scanner (if m.m_pre then take_n m.m_k m.m_src1 else m.m_src1) in
  let t1 = etoks m.m_t1 and t2 = etoks m.m_t2 in
  let mid = [("z", M.EOp M.XReset); ("t", M.EText); ("e", M.EOp M.XErr)] in
  let (outs, _) = M.run_ext_st m.m_src2 (ext_of start) (List.map snd (t1 @ mid @ t2)) in
  let n1 = List.length t1 in
  let o1 = take_n n1 outs and rest = kdrop n1 outs in
  let outs1 = if m.m_pre then ["P"] else show_eouts (List.map fst t1) o1 in
  match rest with
  | M.EROut M.XRReset :: M.ERText (t, c) :: M.EROut (M.XRErr e) :: o2 ->
    let z = "Z" ^ hex t ^ ":" ^ b01 c ^ ":" ^ (if e then "e1" else "e0") in
    String.concat ";" (outs1 @ z :: show_eouts (List.map fst t2) o2)
  | _ -> String.concat ";" outs1          (* the model panics in the first session: its last observation says so *)
let eval_m m =
  if is_ext m.m_t1 || is_ext m.m_t2 then eval_m_ext m else
  let ops1 = List.filter_map xop_of_char m.m_c1 and ops2 = List.filter_map xop_of_char m.m_c2 in
  let start = if m.m_nil then M.pool_new else M.new_scanner (if m.m_pre then take_n m.m_k m.m_src1 else m.m_src1) in
  let outs1 = if m.m_pre then ["P"] else show_outs m.m_c1 (M.run_opsx m.m_src1 start ops1) in
  match state_after start ops1 with
  | None -> String.concat ";" outs1          (* the model panics in the first session: its last observation says so *)
  | Some sc1 ->
    let scz = M.reset_sc sc1 m.m_src2 in
    let z = "Z" ^ hex (M.text scz) ^ ":" ^ b01 (M.complete scz) ^ ":" ^ (if M.err_eof scz then "e1" else "e0") in
    String.concat ";" (outs1 @ z :: show_outs m.m_c2 (M.run_opsx m.m_src2 scz ops2))

let eval inp =
  match words (unus inp) with
  | "M" :: _ as w -> (match parse_m w with Some m -> eval_m m | None -> "?")
  | ["S"; s] -> show_split (M.split (unhex s))
  | ["Q"; s] -> hex (M.quote (unhex s))
  | ["J"; ss] -> hex (M.join (unhexs ss))
  | ["R"; ss] -> show_split (M.split (M.join (unhexs ss)))
  | ["P"; s] ->
    (* not a harness line: bin/dash-shell asks for the transcription's reading of a text, to compare
       it with real shells *)
    (match M.posix_words (unhex s) with None -> "None" | Some ws -> hexs ws)
  | ["H"; ss] ->
    let l = unhexs ss in
    let rec prefixes acc = function [] -> [] | x :: r -> let p = acc @ [x] in p :: prefixes p r in
    hexs (List.map M.quote l) ^ ";" ^ hexs (List.map M.join (prefixes [] l))
  | "N" :: _k :: s :: rest -> eval_session (s, rest)
  | ["K"; ss; ops] -> eval_k (ss, ops)
  | _ -> "?"

(* "<0|1> <list>", decoded (the comparison is on the bytes, not on how the text writes them) *)
let parse_split out =
  match words out with
  | [("0" | "1") as ok; fs] -> (try Some (unhexs fs, ok = "1") with _ -> None)
  | _ -> None

(* wording of a session failure (not the decision, which is M.session_ok) *)
let explain_session s rest out =
    (* tokens returned by successive Next calls (before any Rest) must be the reference fields,
       then false forever; Rest must return a suffix of the input *)
    let (fs, okc) = M.ref_split (unhex s) in
    let ops = match rest with [o] -> o | _ -> "" in
    let outs = if out = "" then [] else String.split_on_char ';' out in
    let rec go i fs outs seen_rest ended =
      match outs with
      | [] -> None
      | o :: outs' ->
        if i >= String.length ops then Some "more outputs than ops" else
        if o = "PANIC" then Some "the scanner panicked" else
        if ops.[i] = 'r' then begin
          let full = unhex s and r' = unhex (String.sub o 1 (String.length o - 1)) in
          let lf = List.length full and lr = List.length r' in
          let rec drop k l = if k <= 0 then l else match l with [] -> [] | _ :: t -> drop (k - 1) t in
          if lr <= lf && drop (lf - lr) full = r' then go (i+1) fs outs' true ended
          else Some "Rest is not a suffix of the input"
        end else begin
          match String.split_on_char ':' (String.sub o 1 (String.length o - 1)) with
          | [ok; t; c] ->
            if seen_rest then (if ok = "1" then Some "Next true after Rest"
                               else if t <> "-" || c <> "0" then Some "Text/Complete not cleared by Rest"
                               else go (i+1) fs outs' seen_rest ended)
            else if ended then (if ok = "1" then Some "Next true after end of input" else go (i+1) fs outs' seen_rest ended)
            else (match fs with
              | f :: fs' ->
                if ok <> "1" then Some "Next false before the reference fields were exhausted"
                else if t <> hex f then Some ("token differs from reference field " ^ hex f)
                else if fs' = [] && c <> b01 okc then Some "Complete wrong for the final token"
                else if fs' <> [] && c <> "1" then Some "Complete false for a token that was closed by a separator"
                else go (i+1) fs' outs' seen_rest false
              | [] -> if ok = "1" then Some "Next true beyond the reference fields"
                      else if c <> b01 okc then Some "Complete wrong after the end of input"
                      else go (i+1) [] outs' seen_rest true)
          | _ -> Some "bad output syntax"
        end in
    go 0 fs outs false false

let only_nr rest = match rest with [o] -> String.for_all (fun c -> c = 'n' || c = 'r') o | _ -> true

(* the property on the implementation's observations: the extracted reference session checker
   (ShellSession.session_okx, the function of theorem C16_sessionx, which reads Next/Rest exactly as
   session_ok of C16_session does); the hand-written walk explain_session only words the reason *)
(* Round 6: the property on a session in which the reader returned by Rest is read in part.  The walk
   is the reference session checker's own step function (ShellSession.ref_stepx, extracted), one
   observation at a time, plus what it has no op for:
     - [unread]: the bytes of the reader handed out by the last Rest that the caller has not read yet.
       "Rest returns exactly the bytes not yet consumed": a Rest that comes after an earlier Rest must
       return exactly [unread] (ref_stepx alone would demand the empty string there, which is the same
       thing whenever the first reader was read to its end); p / q must deliver the next k of them;
     - [tc]: what Text and Complete last were seen or documented to be (no token and Complete after
       NewScanner / Reset, no token and not Complete after Rest, else what the last Next / Split / Each
       observation reported): an observation t must repeat it.
   Independent of the model: only the reference tokenizer (through ref_stepx) is consulted. *)
let spec_ext_walk src toks (outs : string list) : string option =
  let q = ref (M.RActive (src, true)) and unread = ref [] and have = ref false and tc = ref ([], true) in
  let body o = String.sub o 1 (String.length o - 1) in
  let stepx op ob = match M.ref_stepx src !q op ob with Some q' -> q := q'; true | None -> false in
  let generic = "observations rejected by the reference session checker (a token, Text, Complete or Err differs from the reference, Text/Complete changed after the end, or Rest is not exactly the unconsumed input)" in
  let rec go i toks outs =
    match toks, outs with
    | [], [] -> None
    | _, "PANIC" :: _ -> Some "the scanner panicked"
    | [], _ :: _ -> Some "more observations than calls"
    | _ :: _, [] -> Some "fewer observations than calls"
    | (c, k) :: toks', o :: outs' ->
      let at w = Some ("call " ^ string_of_int i ^ " (" ^ String.make 1 c ^ (if c = 'p' || c = 'q' then string_of_int k else "") ^ "): " ^ w) in
      if o = "" then at "bad output syntax" else
      (try match c with
       | 'r' | 'p' ->
         if o.[0] <> c then at "bad output syntax" else
         let b = unhex (body o) in
         let (all, second) = match !q with M.RActive (rem, _) -> (rem, false) | M.REnded (_, _) -> (!unread, true) in
         let want = if c = 'r' then all else take_b k all in
         if b <> want then
           at (if second && List.length b < List.length want then "a Rest after an earlier Rest whose reader was read only in part does not return the bytes that were still unread (input lost): want " ^ hex want
               else if second then "a Rest after an earlier Rest does not return exactly the bytes not yet read: want " ^ hex want
               else "Rest does not return exactly the unconsumed input: want " ^ hex want)
         else if not (stepx M.XRest (M.XRRest (if second then [] else all))) then at generic
         else begin
           unread := (if c = 'r' then [] else drop_b k all); have := true; tc := ([], false);
           go (i + 1) toks' outs' end
       | 'q' ->
         if not !have then (if o = "q-" then go (i + 1) toks' outs' else at "bad output syntax") else
         if o.[0] <> 'q' then at "bad output syntax" else
         let b = unhex (body o) in
         if b <> take_b k !unread then at ("reading on from the reader Rest returned does not deliver the next unread bytes: want " ^ hex (take_b k !unread))
         else begin unread := drop_b k !unread; go (i + 1) toks' outs' end
       | 't' ->
         (match (if o.[0] = 't' then String.split_on_char ':' (body o) else []) with
          | [t; cm] when (cm = "0" || cm = "1") ->
            if (unhex t, cm = "1") = !tc then go (i + 1) toks' outs'
            else at ("Text / Complete are not what the last call left (want " ^ hex (fst !tc) ^ ":" ^ b01 (snd !tc) ^ ")")
          | _ -> at "bad output syntax")
       | _ ->
         (match xop_of_char c with
          | None -> at "bad op"
          | Some op ->
            let ob = parse_xout o in
            if not (stepx op ob) then at generic else begin
              (match ob with
               | M.XRNext (_, t, cm) | M.XRSplit (_, t, cm) | M.XREach (_, t, cm) -> tc := (t, cm)
               | M.XRReset -> tc := ([], true); unread := []; have := false
               | _ -> ());
              go (i + 1) toks' outs' end)
       with _ -> at "bad output syntax") in
  go 1 toks outs

(* Round 8: the same judgement by the reference of theorem C16_sessions_ext, extracted
   (ShellSessionExt.session_ok_ext: ref_stepx for the old calls, the unread part of the handed-out reader,
   the last Text / Complete).  Both must accept: the walk above words the reason, the extracted function is
   the one the theorem speaks about; a disagreement between the two is itself reported. *)
let parse_eout c o =
  let n = String.length o in
  let tail () = String.sub o 1 (n - 1) in
  match c with
  | 'p' -> if n > 1 && o.[0] = 'p' then (try M.ERPart (unhex (tail ())) with _ -> M.EROut M.XRPanic) else M.EROut M.XRPanic
  | 'q' -> if n > 1 && o.[0] = 'q' then (try M.ERMore (unhex (tail ())) with _ -> M.EROut M.XRPanic) else M.EROut M.XRPanic
  | 't' -> (match (if n > 1 && o.[0] = 't' then String.split_on_char ':' (tail ()) else []) with
            | [t; cm] when cm = "0" || cm = "1" -> (try M.ERText (unhex t, cm = "1") with _ -> M.EROut M.XRPanic)
            | _ -> M.EROut M.XRPanic)
  | _ -> (try M.EROut (parse_xout o) with _ -> M.EROut M.XRPanic)
let spec_ext src toks (outs : string list) : string option =
  let tl = List.filter (fun (c, k) -> eop_of (c, k) <> None) toks in
  let thm =
    List.length tl = List.length outs
    && M.session_ok_ext src (List.filter_map eop_of tl) (List.map2 (fun (c, _) o -> parse_eout c o) tl outs) in
  match spec_ext_walk src toks outs, thm with
  | None, true -> None
  | Some r, false -> Some r
  | None, false -> Some "rejected by the extracted reference session_ok_ext of theorem C16_sessions_ext (the driver's own walk accepts: the two readings of the property disagree)"
  | Some r, true -> Some (r ^ " [the extracted session_ok_ext accepts: the two readings of the property disagree]")

(* a session judged: by the extracted session_okx, or (round-6 ops) by the walk above *)
let session_judge src toks (outs : string list) : string option =
  if is_ext toks then spec_ext src toks outs
  else if M.session_okx src (List.filter_map (fun (c, _) -> xop_of_char c) toks) (List.map parse_xout outs) then None
  else Some "rejected"

let spec_session = memo1 (fun (s, rest, out) ->
    let opstr = match rest with [o] -> o | _ -> "" in
    if is_ext (optoks opstr) then spec_ext (unhex s) (optoks opstr) (if out = "" then [] else String.split_on_char ';' out) else
    let outs = if out = "" then [] else List.map parse_xout (String.split_on_char ';' out) in
    if M.session_okx (unhex s) (xops_of rest) outs then None
    else Some (match (if only_nr rest then explain_session s rest out else None) with
               | Some r -> r
               | None -> "observations rejected by the reference session checker (a token, Text, Complete or Err differs from the reference, Text/Complete changed after the end, or Rest is not exactly the unconsumed input)"))

(* Quote writes at most four bytes per byte of its argument (a single quote becomes '\'') plus two
   quotes, Join one separator more per element: a text (the whole output of a Q, J, H or K line,
   run-length groups expanded) longer than that for ALL the line's strings taken once per result is
   wrong without being read -- the transcription of the shell grammar is quadratic in its input, and
   a change that lets results grow from call to call would otherwise stall the driver. *)
let expanded_len s =
  (* length in bytes of what a trace text stands for: hex pairs and r<count>z<block>z groups *)
  let n = String.length s in
  let rec go i acc =
    if i >= n then acc else
    if s.[i] = 'r' then
      (match String.index_from_opt s i 'z' with
       | Some j -> (match String.index_from_opt s (j + 1) 'z' with
           | Some e -> let k = (try int_of_string (String.sub s (i + 1) (j - i - 1)) with _ -> 1) in
             go (e + 1) (acc + k * (e - j - 1))
           | None -> acc)
       | None -> acc)
    else go (i + 1) (acc + 1) in      (* counted in hex digits; punctuation counts as one *)
  (go 0 0 + 1) / 2
let too_long_for l out =
  let total = List.fold_left (fun a x -> a + 4 * List.length x + 3) 0 l in
  let results = 2 * (List.length l + 1) in          (* H: a Quote and a Join per element *)
  expanded_len out > results * (total + 8) + 64

(* "<0|1>:<list>" of a K line, decoded *)
let parse_ksplit o =
  match String.split_on_char ':' o with
  | [("0" | "1") as ok; fs] -> (try Some (unhexs fs, ok = "1") with _ -> None)
  | _ -> None

(* the property on every result of a K line, each judged on its own (by the transcription of the
   shell grammar for C15, by the reference tokenizer for C16) -- what an earlier call of the history
   left behind must not show in any of them *)
let spec_k prop ss ops out =
  let l = unhexs ss in
  let ops = String.split_on_char ',' ops and outs = String.split_on_char ';' out in
  if prop = "C15" && expanded_len out > (List.length ops + 1) * (List.fold_left (fun a x -> a + 4 * List.length x + 3) 0 l + 8) + 64 then
    Some "a result is longer than any quotation of the arguments" else
  if List.length ops <> List.length outs then
    Some (if List.mem "PANIC" outs then "the package panicked" else if List.mem "RUNAWAY" outs then "the scanner never stops"
          else "wrong number of results")
  else begin
    let nul = List.exists (List.mem M.N0) in
    let judge = per_op (fun key ->
        (* key = op ^ " " ^ result: the same call with the same result is judged once *)
        let sp = String.index key ' ' in
        let o = String.sub key 0 sp and r = String.sub key (sp + 1) (String.length key - sp - 1) in
        let (kind, i, n) = kop o in
        let body = if r = "" then "" else String.sub r 1 (String.length r - 1) in
        if r = "" || r.[0] <> kind then Some "bad output syntax" else
          (try match prop, kind with
           | "C15", 'q' -> let x = kelem l i in
             if nul [x] then None else
             (match M.posix_words (unhex body) with
              | Some [w] when w = x -> None
              | Some ws -> Some ("a POSIX shell reads the quoted text as " ^ hexs ws)
              | None -> Some "quoted text leaves a special character unquoted or a quote open")
           | "C15", 'j' -> let xs = ksub l i n in
             if nul xs then None else
             (match M.posix_words (unhex body) with
              | Some ws when ws = xs -> None
              | Some ws -> Some ("a POSIX shell reads the joined text as " ^ hexs ws)
              | None -> Some "joined text leaves a special character unquoted or a quote open")
           | "C15", 'r' -> if parse_ksplit body = Some (ksub l i n, true) then None else Some "Split(Join(ss)) differs from (ss, true)"
           | "C16", 's' -> let (fs, ok) = M.ref_split (kelem l i) in
             if parse_ksplit body = Some (fs, ok) then None else Some ("reference tokenizer gives " ^ b01 ok ^ " " ^ hexs fs)
           | _ -> None
           with _ -> Some "bad output syntax")) in
    let rec go k ops outs = match ops, outs with
      | o :: ops', r :: outs' ->
        (match judge (o ^ " " ^ r) with
         | Some w -> Some ("call " ^ string_of_int k ^ " (" ^ o ^ "): " ^ w)
         | None -> go (k + 1) ops' outs')
      | _, _ -> None in
    go 1 ops outs
  end

(* the property on an M line: the first session is a session on src1 (session_okx, as for N lines);
   right after Reset there is no token, Complete holds and Err is nil -- as for a new scanner; and
   the second session is, observation for observation, a session of a FRESH scanner on src2
   (session_okx src2), whatever the first session was and whatever the readers are *)
let spec_m m out =
  let obs = if out = "" then [] else String.split_on_char ';' out in
  if List.mem "RUNAWAY" obs then Some "the scanner never stops" else
  let rec cut acc = function
    | [] -> None
    | o :: r when String.length o > 0 && o.[0] = 'Z' -> Some (List.rev acc, o, r)
    | o :: r -> cut (o :: acc) r in
  match cut [] obs with
  | None -> Some (if List.mem "PANIC" obs then "the scanner panicked in the first session" else "bad output syntax")
  | Some (o1, z, o2) ->
    let ops1 = List.filter_map xop_of_char m.m_c1 and ops2 = List.filter_map xop_of_char m.m_c2 in
    if m.m_pre && o1 <> ["P"] then Some "bad output syntax" else
    if not m.m_pre && session_judge m.m_src1 m.m_t1 o1 <> None then
      Some ("first session (before Reset): observations rejected by the reference session checker"
            ^ (match session_judge m.m_src1 m.m_t1 o1 with Some w when w <> "rejected" -> ": " ^ w | _ -> "")) else
    if z <> "Z-:1:e0" then
      Some ("right after Reset the scanner is not like a new one (want no token, Complete, Err nil): " ^ z) else
    if List.mem "PANIC" o2 then Some "the scanner panicked after Reset" else
    if session_judge m.m_src2 m.m_t2 o2 = None then None
    else if is_ext m.m_t2 then
      Some ("after Reset onto a second input the scanner does not behave like a fresh scanner on that input: "
            ^ (match session_judge m.m_src2 m.m_t2 o2 with Some w -> w | None -> ""))
    else
      let detail =
        (* wording only: the first Rest of the second session against the unconsumed input *)
        let full = m.m_src2 in
        let rec first_rest cs os = match cs, os with
          | 'r' :: _, o :: _ when String.length o > 0 && o.[0] = 'r' -> Some (unhex (String.sub o 1 (String.length o - 1)))
          | _ :: cs', _ :: os' -> first_rest cs' os'
          | _, _ -> None in
        match (try first_rest m.m_c2 o2 with _ -> None) with
        | Some r ->
          let lf = List.length full and lr = List.length r in
          let rec drop k l = if k <= 0 then l else match l with [] -> [] | _ :: t -> drop (k - 1) t in
          if lr > lf || drop (lf - lr) full <> r then " (Rest is not a suffix of the second input: bytes of an earlier input, or lost bytes)" else ""
        | None -> "" in
      Some ("after Reset onto a second input the scanner does not behave like a fresh scanner on that input: observations rejected by the reference session checker" ^ detail)

let spec prop inp out =
  match prop, words (unus inp) with
  | "C16", ("M" :: _ as w) -> (match parse_m w with Some m -> spec_m m out | None -> None)
  | "C15", (("Q" | "J" | "H") :: _) when too_long_for (match words (unus inp) with [_; ss] -> unhexs ss | _ -> []) out ->
    Some "the result is longer than any quotation of the arguments"
  | _, ["K"; ss; ops] -> spec_k prop ss ops out
  | "C16", ["S"; s] ->
    let (fs, ok) = M.ref_split (unhex s) in
    if parse_split out = Some (fs, ok) then None
    else Some ("reference tokenizer gives " ^ b01 ok ^ " " ^ hexs fs)
  | "C16", ("N" :: _ :: s :: rest) -> spec_session (s, rest, out)
  | "C15", ["R"; ss] ->
    if parse_split out = Some (unhexs ss, true) then None else Some "Split(Join(ss)) differs from (ss, true)"
  | "C15", ["Q"; s] ->
    let sb = unhex s in
    if List.mem M.N0 sb then None else
    (match M.posix_words (unhex out) with
     | Some [w] when w = sb -> None
     | Some ws -> Some ("a POSIX shell reads the quoted text as " ^ hexs ws)
     | None -> Some "quoted text leaves a special character unquoted or a quote open")
  | "C15", ["H"; ss] ->
    (* every held result, read after the last call, must still be what a POSIX shell reads back as
       the argument(s) it was made from *)
    let l = unhexs ss in
    if List.exists (List.mem M.N0) l then None else
    let rec prefixes acc = function [] -> [] | x :: r -> let p = acc @ [x] in p :: prefixes p r in
    (match String.split_on_char ';' out with
     | [qs; js] ->
       let qs = unhexs qs and js = unhexs js in
       if List.length qs <> List.length l || List.length js <> List.length l then Some "wrong number of held results" else
       let badq = List.exists2 (fun q x -> M.posix_words q <> Some [x]) qs l in
       let badj = List.exists2 (fun j p -> M.posix_words j <> Some p) js (prefixes [] l) in
       if badq then Some "a held Quote result no longer reads back as its argument"
       else if badj then Some "a held Join result no longer reads back as its arguments"
       else None
     | _ -> Some "bad output syntax")
  | "C15", ["J"; ss] ->
    let l = unhexs ss in
    if List.exists (List.mem M.N0) l then None else
    (match M.posix_words (unhex out) with
     | Some ws when ws = l -> None
     | Some ws -> Some ("a POSIX shell reads the joined text as " ^ hexs ws)
     | None -> Some "joined text leaves a special character unquoted or a quote open")
  | _ -> None

let () = run_main ~eval ~spec
