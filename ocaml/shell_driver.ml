(* Replays shelltrace lines on the extracted model (ShellModel) and evaluates the extracted
   reference semantics (ShellSpec) on the implementation's own outputs. *)

let show_split = function
  | None -> "PANIC"
  | Some (fs, ok) -> b01 ok ^ " " ^ hexs fs

(* '_' is accepted as a field separator of an input (see shelltrace) *)
let unus inp = String.map (fun c -> if c = '_' then ' ' else c) inp

let eval inp =
  match words (unus inp) with
  | ["S"; s] -> show_split (M.split (unhex s))
  | ["Q"; s] -> hex (M.quote (unhex s))
  | ["J"; ss] -> hex (M.join (unhexs ss))
  | ["R"; ss] -> show_split (M.split (M.join (unhexs ss)))
  | "N" :: _k :: s :: rest ->
    let ops = match rest with [o] -> o | _ -> "" in
    let ops = List.init (String.length ops) (fun i -> if ops.[i] = 'r' then M.ORest else M.ONext) in
    let outs = M.run_ops (M.new_scanner (unhex s)) ops in
    String.concat ";" (List.map (function
      | M.RNext (ok, t, c) -> "n" ^ b01 ok ^ ":" ^ hex t ^ ":" ^ b01 c
      | M.RRest r -> "r" ^ hex r
      | M.RPanic -> "PANIC") outs)
  | _ -> "?"

let parse_split out =
  match words out with
  | [ok; fs] -> Some (unhexs fs, ok = "1")
  | _ -> None

(* wording of a session failure (not the decision, which is M.session_ok) *)
let explain_session s rest out =
    (* tokens returned by successive Next calls (before any Rest) must be the reference fields,
       then false forever; Rest must return a suffix of the input *)
    let (fs, okc) = M.ref_split (unhex s) in
    let ops = match rest with [o] -> o | _ -> "" in
    let outs = if out = "" then [] else String.split_on_char ';' out in
    let rec go i fs outs seen_rest ended =
      match outs with
      | [] -> None
      | o :: outs' ->
        if i >= String.length ops then Some "more outputs than ops" else
        if o = "PANIC" then Some "the scanner panicked" else
        if ops.[i] = 'r' then begin
          let r = String.sub o 1 (String.length o - 1) in
          let full = (match s with "-" -> "" | x -> x) and r' = (match r with "-" -> "" | x -> x) in
          let lf = String.length full and lr = String.length r' in
          if lr <= lf && String.sub full (lf - lr) lr = r' then go (i+1) fs outs' true ended
          else Some "Rest is not a suffix of the input"
        end else begin
          match String.split_on_char ':' (String.sub o 1 (String.length o - 1)) with
          | [ok; t; c] ->
            if seen_rest then (if ok = "1" then Some "Next true after Rest"
                               else if t <> "-" || c <> "0" then Some "Text/Complete not cleared by Rest"
                               else go (i+1) fs outs' seen_rest ended)
            else if ended then (if ok = "1" then Some "Next true after end of input" else go (i+1) fs outs' seen_rest ended)
            else (match fs with
              | f :: fs' ->
                if ok <> "1" then Some "Next false before the reference fields were exhausted"
                else if t <> hex f then Some ("token differs from reference field " ^ hex f)
                else if fs' = [] && c <> b01 okc then Some "Complete wrong for the final token"
                else if fs' <> [] && c <> "1" then Some "Complete false for a token that was closed by a separator"
                else go (i+1) fs' outs' seen_rest false
              | [] -> if ok = "1" then Some "Next true beyond the reference fields"
                      else if c <> b01 okc then Some "Complete wrong after the end of input"
                      else go (i+1) [] outs' seen_rest true)
          | _ -> Some "bad output syntax"
        end in
    go 0 fs outs false false

let spec prop inp out =
  match prop, words (unus inp) with
  | "C16", ["S"; s] ->
    let (fs, ok) = M.ref_split (unhex s) in
    if out = b01 ok ^ " " ^ hexs fs then None
    else Some ("reference tokenizer gives " ^ b01 ok ^ " " ^ hexs fs)
  | "C16", ("N" :: _ :: s :: rest) ->
    (* the property on the implementation's observations: the extracted reference session checker
       (ShellSession.session_ok, the function of theorem C16_session); the hand-written walk explain_session above
       only words the reason *)
    let opstr = match rest with [o] -> o | _ -> "" in
    let ops = List.init (String.length opstr) (fun i -> if opstr.[i] = 'r' then M.ORest else M.ONext) in
    let parse o =
      if o = "PANIC" then M.RPanic
      else if o.[0] = 'r' then M.RRest (unhex (String.sub o 1 (String.length o - 1)))
      else match String.split_on_char ':' (String.sub o 1 (String.length o - 1)) with
        | [ok; t; c] -> M.RNext (ok = "1", unhex t, c = "1")
        | _ -> M.RPanic in
    let outs = if out = "" then [] else List.map parse (String.split_on_char ';' out) in
    if M.session_ok (unhex s) ops outs then None
    else Some (match explain_session s rest out with
               | Some r -> r
               | None -> "observations rejected by the reference session checker (Text/Complete changed after the end, or Rest is not exactly the unconsumed input)")
  | "C15", ["R"; ss] ->
    if out = "1 " ^ hexs (unhexs ss) then None else Some "Split(Join(ss)) differs from (ss, true)"
  | "C15", ["Q"; s] ->
    let sb = unhex s in
    if List.mem M.N0 sb then None else
    (match M.posix_words (unhex out) with
     | Some [w] when w = sb -> None
     | Some ws -> Some ("a POSIX shell reads the quoted text as " ^ hexs ws)
     | None -> Some "quoted text leaves a special character unquoted or a quote open")
  | "C15", ["J"; ss] ->
    let l = unhexs ss in
    if List.exists (List.mem M.N0) l then None else
    (match M.posix_words (unhex out) with
     | Some ws when ws = l -> None
     | Some ws -> Some ("a POSIX shell reads the joined text as " ^ hexs ws)
     | None -> Some "joined text leaves a special character unquoted or a quote open")
  | _ -> None

let () = run_main ~eval ~spec
