(* Replays distincttrace lines on the extracted model (DistinctModel, bit-reader instance) and
   evaluates property C19 on the implementation's own outputs.

   input   H <cap> <words> <oracles> <ops>        (see harness/cmd/distincttrace)
   output  <len>:<count>:<p>;...  B=<sorted buffer> | ERR=<kind> *)

let fuel = nat_of_int 300

let parse_words s = if s = "." || s = "" then [] else List.map z_of_string (String.split_on_char ',' s)

(* op index -> oracle buffer *)
let parse_oracles s =
  let tbl = Hashtbl.create 16 in
  if s <> "." && s <> "" then
    List.iter (fun item ->
      match String.index_opt item ':' with
      | Some i ->
        let idx = int_of_string (String.sub item 0 i) in
        let l = String.sub item (i + 1) (String.length item - i - 1) in
        Hashtbl.replace tbl idx (if l = "-" then [] else List.map z_of_int (ints_of l))
      | None -> failwith "bad oracle") (String.split_on_char ';' s);
  tbl

type pop = PAdd of int | PReset

let parse_ops s =
  if s = "." || s = "" then [] else
  List.map (fun f -> if f = "r" then PReset else PAdd (int_of_string (String.sub f 1 (String.length f - 1))))
    (List.filter (fun x -> x <> "") (String.split_on_char ',' s))

let model_ops ops orc =
  List.mapi (fun i o -> match o with
    | PReset -> M.OReset
    | PAdd v -> M.OAdd (z_of_int v, (try Some (Hashtbl.find orc i) with Not_found -> None))) ops

let err_name = function
  | M.NoWords -> "nowords" | M.BadWord -> "badword" | M.BadOracle -> "badoracle" | M.OutOfFuel -> "outoffuel"

let show (obs, fin) =
  let o = String.concat ";" (List.map (fun ((l, c), p) -> string_of_z l ^ ":" ^ string_of_z c ^ ":" ^ string_of_z p) obs) in
  let o = if o = "" then "-" else o in
  match fin with
  | M.ROk (s, _) ->
    let b = List.sort compare (List.map int_of_z s.M.buf) in
    o ^ " B=" ^ (if b = [] then "-" else str_ints b)
  | M.RErr e -> o ^ " ERR=" ^ err_name e

let run_model ?(fuel = fuel) single cap words ops = M.zrun_obs single fuel (z_of_int cap) M.zinit words ops
let big_fuel = nat_of_int 6000

let eval_with single inp =
  match words inp with
  | ["H"; cap; ws; orc; ops] ->
    show (run_model single (int_of_string cap) (parse_words ws) (model_ops (parse_ops ops) (parse_oracles orc)))
  | _ -> "?"

(* the variant the code currently is comes from Gen (the if/for form of the halving statement) *)
let eval inp = eval_with M.cvm_single_halving_pass inp

(* ---- the property on the implementation's output, in native unsigned 64-bit arithmetic,
   independent of the model *)
let u64 s = Int64.of_string ("0u" ^ s)
let lz64 (x : int64) = let rec go i = if i = 64 then 64 else if Int64.logand (Int64.shift_right_logical x (63 - i)) 1L = 1L then i else go (i + 1) in go 0
let shl1 j = if j >= 64 then 0L else Int64.shift_left 1L j

let parse_obs out =
  let body = match String.index_opt out ' ' with Some i -> String.sub out 0 i | None -> out in
  if body = "-" || body = "" then [] else
  List.map (fun o -> match String.split_on_char ':' o with
    | [l; c; p] -> (int_of_string l, u64 c, u64 p)
    | _ -> failwith "bad observation") (String.split_on_char ';' body)

(* alternating words appended for the repaired-variant run, so that its loop terminates *)
let ext_words = List.init 4096 (fun i -> z_of_string (if i mod 2 = 0 then "12297829382473034410" else "6148914691236517205"))

let known_f8 = ref 0
let () = at_exit (fun () ->
  if !known_f8 > 3 then Printf.printf "NOTE known finding F8 (Len exceeds the size, reproduced by the pinned model, absent in the repaired model) on %d cases; only the first 3 are listed as SPECFAIL\n" !known_f8)

let spec prop inp out =
  match prop, words inp with
  | "C19", ["H"; cap; ws; _orc; ops] ->
    let cap = int_of_string cap in
    let ops = parse_ops ops in
    let obs = parse_obs out in
    let seen = Hashtbl.create 16 in
    let jprev = ref 0 in
    let fail = ref None in
    let set i msg = if !fail = None then fail := Some (Printf.sprintf "op#%d: %s" i msg) in
    let len_exceeded = ref false in
    (* F8's trigger: since the last Reset some halving (threshold moved) left the buffer full *)
    let still_full_after_pass = ref false and pprev = ref (-1L) in
    let rec go i ops obs =
      match ops, obs with
      | _, [] -> ()
      | [], _ -> set i "more observations than operations"
      | o :: ops', (l, c, p) :: obs' ->
        (match o with
         | PReset ->
           Hashtbl.reset seen; jprev := 0; still_full_after_pass := false;
           if l <> 0 || c <> 0L then set i "Reset leaves a non-empty counter";
           if p <> (-1L) then set i "Reset does not restore the threshold"
         | PAdd v -> Hashtbl.replace seen v ());
        let d = Hashtbl.length seen in
        let j = lz64 p in
        if not (if j = 64 then p = 0L else Int64.shift_right_logical (-1L) j = p) then set i "threshold is not MaxUint64 >> j";
        if c <> Int64.mul (Int64.of_int l) (shl1 j) then set i (Printf.sprintf "Count %Lu is not Len %d times 2^%d" c l j);
        if j < !jprev then set i "the power of two decreased without Reset";
        jprev := j;
        if d < cap && (c <> Int64.of_int d || l <> d) then
          set i (Printf.sprintf "exact regime: %d distinct values < size %d but Count=%Lu Len=%d" d cap c l);
        (* the property is stated for sizes >= 2; the bound is checked from size 1 on; NewCounter(0)
           or a negative size makes every successful Add halve and has no bound to keep *)
        if !fail = None && cap >= 1 && l > cap then begin
          len_exceeded := !still_full_after_pass;   (* set by an EARLIER operation only *)
          set i (Printf.sprintf "Len %d exceeds the buffer size %d" l cap)
        end;
        if p <> !pprev && (match o with PAdd _ -> true | PReset -> false) && l >= cap then still_full_after_pass := true;
        pprev := p;
        if !fail = None then go (i + 1) ops' obs' in
    go 0 ops obs;
    (match !fail with
     | None -> None
     | Some msg when !len_exceeded ->
       (* known finding F8 only if (a) the code is the pinned single-pass variant and its model
          reproduces this very output, and (b) the repaired (loop) variant of the model keeps
          Len <= size on the same history *)
       let pinned_ok = M.cvm_single_halving_pass && eval_with true inp = out in
       let repaired_ok =
         let mops = List.map (function PReset -> M.OReset | PAdd v -> M.OAdd (z_of_int v, None)) ops in
         let (robs, fin) = run_model ~fuel:big_fuel false cap (parse_words ws @ ext_words) mops in
         (match fin with M.ROk _ -> true | M.RErr _ -> false)
         && List.for_all (fun ((l, _), _) -> int_of_z l <= cap) robs in
       if pinned_ok && repaired_ok then begin
         (* run_main prints only the first 20 failures of a file: report the known finding a few
            times, count the rest, so that a NEW failure is never crowded out of the report *)
         incr known_f8;
         if !known_f8 <= 3 then Some (msg ^ " known=F8") else None
       end else Some msg
     | Some msg -> Some msg)
  | _ -> None

let () = run_main ~eval ~spec
