(* Replays distincttrace lines on the extracted model (DistinctModel, bit-reader instance) and
   evaluates property C19 on the implementation's own outputs.

   input   H <cap> <words> <oracles> <ops>        (see harness/cmd/distincttrace)
   output  <len>:<count>:<p>:<words drawn>;...  B=<sorted buffer> | ERR=<kind> *)

let fuel = nat_of_int 300

(* ---- round 3: the compact syntax of the scale lines (kind S), see harness/cmd/distincttrace/main.go *)
(* lists of 10^5 words/operations: no recursion as deep as the list *)
let map_tr f l = List.rev (List.rev_map f l)
let mapi_tr f l = let i = ref (-1) in map_tr (fun x -> incr i; f !i x) l
let append_tr a b = List.rev_append (List.rev a) b
let u64 s = Int64.of_string ("0u" ^ s)
let rec i64_of_pos = function M.XH -> 1L | M.XO p -> Int64.shift_left (i64_of_pos p) 1 | M.XI p -> Int64.logor (Int64.shift_left (i64_of_pos p) 1) 1L
let i64_of_z = function M.Z0 -> 0L | M.Zpos p -> i64_of_pos p | M.Zneg p -> Int64.neg (i64_of_pos p)
let z_of_u64 (x : int64) =
  if x = 0L then M.Z0 else
  let rec go x = if x = 1L then M.XH else
    let r = go (Int64.shift_right_logical x 1) in if Int64.logand x 1L = 1L then M.XI r else M.XO r in
  M.Zpos (go x)
(* the i-th word of the generator g<seed>: splitmix64's output function on a counter *)
let gen_word (seed : int64) (i : int) : int64 =
  let ( * ) = Int64.mul and ( + ) = Int64.add and ( ^^ ) = Int64.logxor and ( >> ) = Int64.shift_right_logical in
  let z = seed * 0x9E3779B97F4A7C15L + (Int64.of_int i + 1L) * 0xD1B54A32D192ED03L in
  let z = (z ^^ (z >> 30)) * 0xBF58476D1CE4E5B9L in
  let z = (z ^^ (z >> 27)) * 0x94D049BB133111EBL in
  z ^^ (z >> 31)
(* words: decimal items; the last one may be g<seed>:<n> = n generated words *)
let word_items s = if s = "." || s = "" then [] else String.split_on_char ',' s
let expand_gen item =
  match String.split_on_char ':' (String.sub item 1 (String.length item - 1)) with
  | [seed; n] -> let seed = u64 seed in List.init (int_of_string n) (gen_word seed)
  | [_] -> []
  | _ -> failwith "bad word generator"
(* a decimal word: through Int64 when it is a 64-bit value (fast), else by the arbitrary-size conversion of the glue *)
let z_of_word it = match Int64.of_string_opt ("0u" ^ it) with Some x -> z_of_u64 x | None -> z_of_string it
let parse_words s =
  List.concat_map (fun it -> if it <> "" && it.[0] = 'g' then map_tr z_of_u64 (expand_gen it) else [z_of_word it]) (word_items s)
let parse_words64 s =
  List.concat_map (fun it -> if it <> "" && it.[0] = 'g' then expand_gen it else [u64 it]) (word_items s)
let digest (xs : int list) =
  let m1 = 2147483647 and p1 = 1000003 and m2 = 2147483629 and p2 = 1000033 in
  let (h1, h2) = List.fold_left (fun (h1, h2) x ->
    let a = ((x mod m1) + m1) mod m1 and b = ((x mod m2) + m2) mod m2 in
    ((h1 * p1 + a) mod m1, (h2 * p2 + b) mod m2)) (7, 7) xs in
  Printf.sprintf "%08x%08x" h1 h2
let digest_over = 64
let show_buf compact (b : int list) =
  if b = [] then "-" else
  if compact && List.length b > digest_over then "#" ^ string_of_int (List.length b) ^ ":" ^ digest b else str_ints b

(* op index -> oracle buffer *)
let parse_oracles s =
  let tbl = Hashtbl.create 16 in
  if s <> "." && s <> "" then
    List.iter (fun item ->
      match String.index_opt item ':' with
      | Some i ->
        let idx = int_of_string (String.sub item 0 i) in
        let l = String.sub item (i + 1) (String.length item - i - 1) in
        Hashtbl.replace tbl idx (if l = "-" then [] else List.map z_of_int (ints_of l))
      | None -> failwith "bad oracle") (String.split_on_char ';' s);
  tbl

type pop = PAdd of int | PReset

(* a<v> | r | a<lo>~<hi> (Add lo .. hi-1) | z<seed>~<count>~<U>[~<base>] (count pseudo-random Adds in [base, base+U)) *)
let parse_ops s =
  if s = "." || s = "" then [] else
  List.concat_map (fun f ->
    if f = "r" then [PReset]
    else if String.contains f '~' then begin
      let n = List.map int_of_string (String.split_on_char '~' (String.sub f 1 (String.length f - 1))) in
      match f.[0], n with
      | 'a', [lo; hi] when hi - lo <= 1 lsl 22 -> List.init (max 0 (hi - lo)) (fun i -> PAdd (lo + i))
      | 'z', (seed :: count :: u :: rest) when count <= 1 lsl 22 && u >= 1 && seed >= 0 && List.length rest <= 1 ->
        let base = (match rest with [b] -> b | _ -> 0) in
        let x = ref (seed land 0x7FFFFFFF) in
        List.init (max 0 count) (fun _ -> x := (!x * 1103515245 + 12345) land 0x7FFFFFFF; PAdd (base + (!x lsr 4) mod u))
      | _ -> failwith "bad op"
    end
    else [PAdd (int_of_string (String.sub f 1 (String.length f - 1)))])
    (List.filter (fun x -> x <> "") (String.split_on_char ',' s))

(* ---- records (Len, Count, threshold, words drawn) and their compact form *)
let lz64 (x : int64) = let rec go i = if i = 64 then 64 else if Int64.logand (Int64.shift_right_logical x (63 - i)) 1L = 1L then i else go (i + 1) in go 0
let shl_len l j = if j >= 64 then 0L else Int64.shift_left (Int64.of_int l) j
let full_record (l, c, p, nw) = Printf.sprintf "%d:%Lu:%Lu:%d" l c p nw
let fmt_records compact recs =
  if recs = [] then "-" else begin
    let toks = ref [] and run = Buffer.create 64 in
    let flush () =
      if Buffer.length run > 0 then begin
        let r = Buffer.contents run and b = Buffer.create 64 in
        Buffer.add_char b '*';
        let n = String.length r in
        let i = ref 0 in
        while !i < n do
          let j = ref !i in
          while !j < n && r.[!j] = r.[!i] do incr j done;
          Buffer.add_char b r.[!i];
          (match !j - !i with 1 -> () | 2 -> Buffer.add_char b r.[!i] | k -> Buffer.add_string b (string_of_int k));
          i := !j
        done;
        toks := Buffer.contents b :: !toks;
        Buffer.clear run
      end in
    let prev = ref None in
    List.iter (fun ((l, c, p, nw) as r) ->
      let compacted =
        match !prev with
        | Some (pl, _, pp, _) when compact ->
          let d = l - pl in
          if p = pp && (nw = 0 || nw = 1) && d >= -1 && d <= 1 && l >= 0 && c = shl_len l (lz64 p)
          then (Buffer.add_char run (Char.chr (Char.code 'a' + 2 * (d + 1) + nw)); true) else false
        | _ -> false in
      if not compacted then (flush (); toks := full_record r :: !toks);
      prev := Some r) recs;
    flush ();
    String.concat ";" (List.rev !toks)
  end
(* the inverse: one record per operation *)
let decode_records body =
  if body = "-" || body = "" then [] else begin
    let out = ref [] in
    let prev = ref None in
    List.iter (fun tok ->
      if tok <> "" && tok.[0] = '*' then begin
        let n = String.length tok in
        let i = ref 1 in
        while !i < n do
          let ch = tok.[!i] in
          if ch < 'a' || ch > 'f' then failwith "bad observation";
          incr i;
          let j = ref !i in
          while !j < n && tok.[!j] >= '0' && tok.[!j] <= '9' do incr j done;
          let k = if !j > !i then int_of_string (String.sub tok !i (!j - !i)) else 1 in
          i := !j;
          let code = Char.code ch - Char.code 'a' in
          for _ = 1 to k do
            match !prev with
            | None -> failwith "bad observation"
            | Some (pl, _, pp, _) ->
              let l = pl + code / 2 - 1 in
              let r = (l, shl_len l (lz64 pp), pp, code mod 2) in
              out := r :: !out; prev := Some r
          done
        done
      end else begin
        match String.split_on_char ':' tok with
        | [l; c; p; nw] -> let r = (int_of_string l, u64 c, u64 p, int_of_string nw) in out := r :: !out; prev := Some r
        | _ -> failwith "bad observation"
      end) (String.split_on_char ';' body);
    List.rev !out
  end

let model_ops ops orc =
  mapi_tr (fun i o -> match o with
    | PReset -> M.OReset
    | PAdd v -> M.OAdd (z_of_int v, (try Some (Hashtbl.find orc i) with Not_found -> None))) ops

let err_name = function
  | M.NoWords -> "nowords" | M.BadWord -> "badword" | M.BadOracle -> "badoracle" | M.OutOfFuel -> "outoffuel"

let show (obs, fin) =
  let o = String.concat ";" (List.map (fun (((l, c), p), nw) ->
    string_of_z l ^ ":" ^ string_of_z c ^ ":" ^ string_of_z p ^ ":" ^ string_of_z nw) obs) in
  let o = if o = "" then "-" else o in
  match fin with
  | M.ROk (s, _) ->
    let b = List.sort compare (List.map int_of_z s.M.buf) in
    o ^ " B=" ^ (if b = [] then "-" else str_ints b)
  | M.RErr e -> o ^ " ERR=" ^ err_name e

(* scale lines: the same run, one M.step per operation (M.run_obs is this fold, but it measures the
   words an operation drew as length ws - length ws', which is quadratic in the length of the script;
   here the cells between ws and ws' are counted).  The model is generic in the element type (a
   section variable with its equality): the scale lines instantiate it with OCaml's ints instead of
   Coq's binary Z, which makes a membership test on a buffer of thousands of elements ten times cheaper. *)
let ieqb (a : int) = let f (b : int) = a = b in f
let model_ops_int ops orc =
  mapi_tr (fun i o -> match o with
    | PReset -> M.OReset
    | PAdd v -> M.OAdd (v, (try Some (List.map int_of_z (Hashtbl.find orc i)) with Not_found -> None))) ops
let run_steps single fuel cap words ops =
  let rec dist a b n = if a == b then n else match a with [] -> n | _ :: t -> dist t b (n + 1) in
  let rec go s ws ops acc =
    match ops with
    | [] -> (List.rev acc, M.ROk (s, ws))
    | o :: r ->
      (match M.step ieqb single fuel cap s ws o with
       | M.ROk (s', ws') -> go s' ws' r ((int_of_z (M.len s'), i64_of_z (M.count s'), i64_of_z s'.M.p, dist ws ws' 0) :: acc)
       | M.RErr e -> (List.rev acc, M.RErr e)) in
  go M.init words ops []
let show_steps (recs, fin) =
  let o = fmt_records true recs in
  match fin with
  | M.ROk (s, _) -> o ^ " B=" ^ show_buf true (List.sort compare s.M.buf)
  | M.RErr e -> o ^ " ERR=" ^ err_name e

(* the size is a Go int: kept exact (a Z) for the model; for the native spec, which only compares it
   with Len, a size beyond OCaml's 63-bit int is clamped *)
let cap_of_string s = try int_of_string s with Failure _ -> if String.length s > 0 && s.[0] = '-' then min_int else max_int
let run_model ?(fuel = fuel) single (cap : string) words ops = M.zrun_obs single fuel (z_of_string cap) M.zinit words ops
let big_fuel = nat_of_int 6000


(* ---- Z lines (round 7): distinct.BufferSize(ε, δ, expSize) (harness/cmd/distincttrace/bufsize.go).
   ε and δ arrive as the hex digits of their IEEE-754 bits; OCaml's floats are the same doubles with
   the same +, *, /, so the formula is evaluated in the order the code evaluates it.  The one
   operation that may differ in the last place between two correct libraries is the logarithm
   (Go: Log2 by Frexp and an assembly Log; here libm's log2; both exact on powers of two), which
   is why the harness prints values of 2^26 and more with 7 digits only. ---- *)
let z_float s = if s = "nan" then Float.nan else Int64.float_of_bits (Int64.of_string ("0x" ^ s))
let z_bits x = if Float.is_nan x then "nan" else Printf.sprintf "%016Lx" (Int64.bits_of_float x)
let z_min_int = "-9223372036854775808"
let z_show v =                        (* v = the float handed to int(); Go on amd64: MinInt64 when not representable *)
  if Float.is_nan v || v >= 9223372036854775808. || v < -9223372036854775808. then z_min_int
  else if Float.abs v < 67108864. then Printf.sprintf "%.0f" v
  else Printf.sprintf "~%.6e" v
let z_n s = Int64.of_string s
let eval_z e d n =
  (* the checks in the order of distinct.go; NaN passes both range checks there (every comparison is false) *)
  let e = z_float e and d = z_float d and n = z_n n in
  if e < 0. || e > 1. then "panic:error bound out of range: " ^ z_bits e
  else if d < 0. || d > 1. then "panic:error rate out of range: " ^ z_bits d
  else if Int64.compare n 0L <= 0 then Printf.sprintf "panic:expected size must be positive: %Ld" n
  else z_show (Float.ceil ((12. /. (e *. e)) *. Float.log2 ((8. *. Int64.to_float n) /. d)))

(* The contract, stated on its own: ε and δ are a relative error and a probability, expSize a
   positive count; outside [0, 1] / below 1 the call panics and the message names the FIRST
   offending argument in the order (ε, δ, expSize) with its value; otherwise the result is
   ceil(12/ε² · log2(8·expSize/δ)).  The reference is computed differently (natural logarithms, the
   division last) and the result must lie between the ceilings of the reference scaled by
   (1 -+ 1e-9): for all but astronomically few arguments that is ONE integer (exact comparison);
   where the reference is an integer itself (ε = δ = 1: 36, 37 both pass) or above 2^26 (7 digits
   printed) the comparison is within +-1 resp. 1e-6 relative.  Not judged: NaN arguments (the doc is
   silent; the code lets them through), and ε = 0 or δ = 0 or a result beyond int (int(+Inf) is
   implementation-defined; audit note "Findings about /repo"): there only "no hang, an int comes
   back" is required. *)
let spec_z e d n out =
  let e = z_float e and d = z_float d and n = z_n n in
  let is_panic = String.length out >= 6 && String.sub out 0 6 = "panic:" in
  if Float.is_nan e || Float.is_nan d then None else
  let expect_panic =
    if not (e >= 0. && e <= 1.) then Some ("panic:error bound out of range: " ^ z_bits e)
    else if not (d >= 0. && d <= 1.) then Some ("panic:error rate out of range: " ^ z_bits d)
    else if Int64.compare n 1L < 0 then Some (Printf.sprintf "panic:expected size must be positive: %Ld" n)
    else None in
  match expect_panic with
  | Some m -> if out = m then None else Some (Printf.sprintf "BufferSize: an argument is out of range, expected %s" m)
  | None ->
    if is_panic then Some "BufferSize panics on arguments in range" else
    let x = 12. *. (log (8. *. Int64.to_float n /. d) /. log 2.) /. e /. e in
    if e = 0. || d = 0. || Float.is_nan x || x >= 9.2e18 then None else begin
      let lo = Float.ceil (x *. (1. -. 1e-9)) and hi = Float.ceil (x *. (1. +. 1e-9)) in
      let got, slack =
        if String.length out > 0 && out.[0] = '~' then (float_of_string (String.sub out 1 (String.length out - 1)), 1e-6)
        else (float_of_string out, 0.) in
      if got >= lo *. (1. -. slack) && got <= hi *. (1. +. slack) then None
      else Some (Printf.sprintf "BufferSize: returned %s, ceil(12/eps^2 * log2(8n/delta)) is %.0f%s" out lo (if hi <> lo then Printf.sprintf "..%.0f" hi else ""))
    end

let eval_with single inp =
  match words inp with
  | ["Z"; e; d; n] -> eval_z e d n
  | ["H"; cap; ws; orc; ops] ->
    show (run_model single cap (parse_words ws) (model_ops (parse_ops ops) (parse_oracles orc)))
  | ["S"; cap; ws; orc; ops] ->
    show_steps (run_steps single fuel (z_of_string cap) (parse_words ws) (model_ops_int (parse_ops ops) (parse_oracles orc)))
  | _ -> "?"

(* the variant the code currently is comes from Gen (the if/for form of the halving statement) *)
let eval inp = eval_with M.cvm_single_halving_pass inp

(* ---- the property on the implementation's output, in native unsigned 64-bit arithmetic,
   independent of the model.  Besides the clauses of the property text (exact regime, Len <= size,
   Count = Len * 2^k, k not decreasing, Reset) the spec follows the algorithm's defining rules on
   what was OBSERVED, with a reference buffer of its own:
   - the threshold is MaxUint64 >> k, k = the number of halving passes the spec itself counted
     since the last Reset (a pass is seen by the words it draws: every word an Add draws beyond its
     coin word feeds a pass over the buffer) -- a threshold that moves by anything else than one
     bit per pass (a biased estimate) fails here on the first pass;
   - the coin: drawn exactly when the threshold is below MaxUint64, lost when the word is
     > the threshold, won when it is < (unsigned; either at equality: 2^-64 apart); a value that loses its coin leaves the buffer, nothing else
     changes; a value that wins is buffered;
   - a pass runs exactly when the buffer has reached the size after the insertion, draws at
     least n fresh bits for n elements, and only removes elements (the survivors recorded by the
     harness are a subset of the buffer);
   - Len is the size of the reference buffer after every operation and the final dump equals it. *)
let shl1 j = if j >= 64 then 0L else Int64.shift_left 1L j
let shr x j = if j >= 64 then 0L else Int64.shift_right_logical x j
let maxu = -1L

let out_body out = match String.index_opt out ' ' with Some i -> String.sub out 0 i | None -> out
let out_tail out = match String.index_opt out ' ' with Some i -> String.sub out (i + 1) (String.length out - i - 1) | None -> ""

let parse_obs out = decode_records (out_body out)

(* alternating words appended for the repaired-variant run, so that its loop terminates *)
let ext_words = List.init 4096 (fun i -> z_of_string (if i mod 2 = 0 then "12297829382473034410" else "6148914691236517205"))

let known_f8 = ref 0
let () = at_exit (fun () ->
  if !known_f8 > 3 then Printf.printf "NOTE known finding F8 (Len exceeds the size, reproduced by the pinned model, absent in the repaired model) on %d cases; only the first 3 are listed as SPECFAIL\n" !known_f8)

module IS = Set.Make (Int)

let spec prop inp out =
  match prop, words inp with
  | "C19", ["Z"; e; d; n] -> (try spec_z e d n out with Failure m -> Some ("bad Z line: " ^ m))
  | "C19", [("H" | "S") as kind; cap; ws; orc; ops] ->
    let compact = kind = "S" in
    let cap_s = cap in
    let cap = cap_of_string cap in
    let ops = parse_ops ops in
    let obs = parse_obs out in
    let script = Array.of_list (parse_words64 ws) in
    let orc = parse_oracles orc in
    let single = M.cvm_single_halving_pass in     (* the if/for form of the halving statement, from Gen *)
    let seen = Hashtbl.create 16 in
    let jprev = ref 0 in
    (* [fail]: the first failure other than the buffer bound; [lenfail]: the first Len > size *)
    let fail = ref None and lenfail = ref None in
    let set i msg = if !fail = None then fail := Some (Printf.sprintf "op#%d: %s" i msg) in
    let len_exceeded = ref false in
    (* F8's trigger: since the last Reset some halving (threshold moved) left the buffer full *)
    let still_full_after_pass = ref false in
    let pprev = ref maxu and kobs = ref 0 and pos = ref 0 and refbuf = ref IS.empty in
    let rec go i ops obs =
      match ops, obs with
      | _, [] -> ()
      | [], _ -> set i "more observations than operations"
      | o :: ops', (l, c, p, nw) :: obs' ->
        (match o with
         | PReset ->
           Hashtbl.reset seen; jprev := 0; still_full_after_pass := false;
           refbuf := IS.empty; kobs := 0;
           if l <> 0 || c <> 0L then set i "Reset leaves a non-empty counter";
           if p <> maxu then set i "Reset does not restore the threshold";
           if nw <> 0 then set i "Reset draws random words"
         | PAdd v ->
           Hashtbl.replace seen v ();
           if !pos + nw > Array.length script then set i "more words drawn than the script holds"
           else begin
             let drawn = !pprev <> maxu in
             let cmp = if drawn && nw >= 1 then Int64.unsigned_compare script.(!pos) !pprev else -1 in
             let lost =
               if not drawn then false
               else if nw < 1 then (set i "no coin word drawn although the threshold is below MaxUint64"; false)
               else if cmp = 0 then
                 (* word = threshold: the code's >= loses (pass probability 2^-k - 2^-64), a > would
                    win (exactly 2^-k); the property allows both, so the outcome is read off Len *)
                 nw = 1 && l = IS.cardinal (IS.remove v !refbuf)
               else cmp > 0 in
             if lost then begin
               refbuf := IS.remove v !refbuf;
               if nw <> 1 then set i (Printf.sprintf "a lost coin draws 1 word, %d were drawn" nw);
               if p <> !pprev then set i "the threshold moved although the coin was lost";
               if l <> IS.cardinal !refbuf then
                 set i (Printf.sprintf "value %d lost its coin (word >= threshold) and must not be buffered afterwards: Len %d, reference buffer %d" v l (IS.cardinal !refbuf))
             end else begin
               refbuf := IS.add v !refbuf;
               let n0 = IS.cardinal !refbuf in
               let extra = nw - (if drawn then 1 else 0) in
               if extra = 0 then begin
                 if n0 >= cap then set i (Printf.sprintf "the buffer reached the size (%d >= %d) but no halving pass ran" n0 cap);
                 if p <> !pprev then set i "the threshold moved without a halving pass";
                 if l <> n0 then set i (Printf.sprintf "value %d won its coin and must be buffered: Len %d, reference buffer %d" v l n0)
               end else begin
                 if n0 < cap then set i (Printf.sprintf "a halving pass ran although the buffer (%d) is below the size %d" n0 cap);
                 (* the number of passes: one in the pinned form; in the loop form every pass draws at
                    least one word, and the threshold tells how many there were *)
                 let j =
                   if single then begin
                     (* every element needs a fresh bit of its own *)
                     if extra * 64 < n0 then set i (Printf.sprintf "a pass over %d elements needs %d fresh bits, only %d words were drawn" n0 n0 extra);
                     1
                   end else begin
                     let rec find j = if j > extra then (set i "no number of passes between 1 and the words drawn explains the threshold"; 1)
                       else if shr !pprev j = p then j else find (j + 1) in find 1
                   end in
                 kobs := !kobs + j;
                 if p <> shr !pprev j then
                   set i (Printf.sprintf "%d halving pass(es) ran, the threshold must go from %Lu to %Lu (one bit per pass), it is %Lu" j !pprev (shr !pprev j) p);
                 (match Hashtbl.find_opt orc i with
                  | Some sv ->
                    let sv = IS.of_list (List.map int_of_z sv) in
                    if not (IS.subset sv !refbuf) then set i "a halving pass added elements to the buffer";
                    refbuf := sv
                  | None -> set i "no survivor record for a pass (harness)");
                 if l <> IS.cardinal !refbuf then set i (Printf.sprintf "Len %d but %d elements survived the pass" l (IS.cardinal !refbuf))
               end
             end;
             pos := !pos + nw
           end);
        let d = Hashtbl.length seen in
        let j = lz64 p in
        if p <> shr maxu !kobs then
          set i (Printf.sprintf "threshold %Lu is not MaxUint64 >> %d, %d being the number of halving passes since construction/Reset" p !kobs !kobs);
        if not (if j = 64 then p = 0L else Int64.shift_right_logical (-1L) j = p) then set i "threshold is not MaxUint64 >> j";
        if c <> Int64.mul (Int64.of_int l) (shl1 j) then set i (Printf.sprintf "Count %Lu is not Len %d times 2^%d" c l j);
        if j < !jprev then set i "the power of two decreased without Reset";
        jprev := j;
        if d < cap && (c <> Int64.of_int d || l <> d) then
          set i (Printf.sprintf "exact regime: %d distinct values < size %d but Count=%Lu Len=%d" d cap c l);
        (* the property is stated for sizes >= 2; the bound is checked from size 1 on; NewCounter(0)
           or a negative size makes every successful Add halve and has no bound to keep *)
        if !lenfail = None && cap >= 1 && l > cap then begin
          len_exceeded := !still_full_after_pass;   (* set by an EARLIER operation only *)
          lenfail := Some (Printf.sprintf "op#%d: Len %d exceeds the buffer size %d" i l cap)
        end;
        if p <> !pprev && (match o with PAdd _ -> true | PReset -> false) && l >= cap then still_full_after_pass := true;
        pprev := p;
        if !fail = None then go (i + 1) ops' obs' in
    go 0 ops obs;
    let tail = out_tail out in
    if !fail = None then begin
      let n = String.length tail in
      if n >= 9 && String.sub tail 0 9 = "ERR=panic" then set (List.length obs) ("the operation panicked: " ^ tail)
      else if n >= 2 && String.sub tail 0 2 = "B=" && List.length obs = List.length ops then begin
        let b = String.sub tail 2 (n - 2) in
        let want = IS.elements !refbuf in
        if b <> show_buf compact want then set (List.length obs) "the final buffer is not the reference buffer"
      end
    end;
    (* a failure of any other clause is reported first: it is never a known finding *)
    (match !fail, !lenfail with
     | Some msg, _ -> Some msg
     | None, None -> None
     | None, Some msg when !len_exceeded ->
       (* known finding F8 only if (a) the code is the pinned single-pass variant and its model
          reproduces this very output, and (b) the repaired (loop) variant of the model keeps
          Len <= size on the same history *)
       let pinned_ok = M.cvm_single_halving_pass && eval_with true inp = out in
       let repaired_ok =
         (* the same fold as M.run_obs, one M.step per operation (run_steps): linear in the 4096 words appended *)
         let mops = map_tr (function PReset -> M.OReset | PAdd v -> M.OAdd (v, None)) ops in
         let (robs, fin) = run_steps false big_fuel (z_of_string cap_s) (append_tr (parse_words ws) ext_words) mops in
         (match fin with M.ROk _ -> true | M.RErr _ -> false) && List.for_all (fun (l, _, _, _) -> l <= cap) robs in
       if pinned_ok && repaired_ok then begin
         (* run_main prints only the first 20 failures of a file: report the known finding a few
            times, count the rest, so that a NEW failure is never crowded out of the report *)
         incr known_f8;
         if !known_f8 <= 3 then Some (msg ^ " known=F8") else None
       end else Some msg
     | None, Some msg -> Some msg)
  | _ -> None

let () = run_main ~eval ~spec
