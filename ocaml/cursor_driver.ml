(* Replays cursortrace lines on the extracted cursor model (eval) and evaluates property C03 on
   the implementation's own outputs (spec): the latter uses only the key list the implementation
   printed (Tree.Inorder), plain OCaml arithmetic on indices into it, and the comparator — not the
   extracted model. *)

let nat (a : int) (b : int) = compare a b
let big = 1 lsl 61      (* stands for math.MaxInt: only the sign of a comparison is ever used *)

let cmp_of s : int -> int -> int =
  let modk () =
    let k = int_of_string (String.sub s 1 (String.length s - 1)) in
    let k = if k <= 0 then 1 else k in
    fun a -> ((a mod k) + k) mod k in
  let ext a b = if a < b then - big else if a > b then big else 0 in
  if s = "n" then nat
  else if s = "r" then (fun a b -> nat b a)
  else if s = "a" then (fun a b -> a - b)
  else if s = "t" then (fun a b -> 3 * (a - b))
  else if s = "h" then (fun a b -> (a - b) * (1 lsl 32))
  else if s = "A" then (fun a b -> b - a)
  else if s = "D" then (fun a b -> 7 * (b - a))
  else if s = "x" then ext
  else if s = "X" then (fun a b -> ext b a)
  else if String.length s > 1 && s.[0] = 'm' then (let md = modk () in fun a b -> nat (md a) (md b))
  else if String.length s > 1 && s.[0] = 'M' then (let md = modk () in fun a b -> md a - md b)
  else if String.length s > 1 && s.[0] = 'R' then (let md = modk () in fun a b -> md b - md a)
  else failwith "bad comparator"

let split_on c s = if s = "" then [] else String.split_on_char c s

(* preorder, "." = nil *)
let parse_shape s : int M.tree =
  let toks = ref (String.split_on_char ',' s) in
  let rec go () =
    match !toks with
    | [] -> failwith "short shape"
    | "." :: r -> toks := r; M.Leaf
    | k :: r -> toks := r; let x = int_of_string k in let l = go () in let rt = go () in M.Node (l, x, rt) in
  let t = go () in
  if !toks <> [] then failwith "long shape"; t

let rec ml_inorder = function M.Leaf -> [] | M.Node (l, x, r) -> ml_inorder l @ (x :: ml_inorder r)

exception Fail of string
let ok = function M.Ok a -> a | M.Panic -> raise (Fail "PANIC") | M.OutOfFuel -> raise (Fail "FUEL") | M.BadOracle -> raise (Fail "ORACLE")

let path_str = function
  | M.CNil -> "nil" | M.CEmpty -> "-"
  | M.CAt p -> "^" ^ String.concat "" (List.map (function M.L -> "L" | M.R -> "R") p)

let obs_str t c =
  path_str c ^ ":" ^ string_of_int (ok (M.key 0 t c)) ^ ":" ^
  b01 (M.valid c) ^ b01 (ok (M.has_next t c)) ^ b01 (ok (M.has_prev t c)) ^ b01 (ok (M.has_left t c)) ^
  b01 (ok (M.has_right t c)) ^ b01 (M.has_parent c)

let move_of = function
  | 'n' -> M.MNext | 'p' -> M.MPrev | 'l' -> M.MLeft | 'r' -> M.MRight | 'u' -> M.MUp | 'm' -> M.MMin | 'x' -> M.MMax
  | _ -> failwith "move"

let reg_of op = let r = Char.code op.[1] - 48 in if r < 0 || r > 3 then failwith "reg" else r

let eval inp =
  match words inp with
  | ["W"; cs; _build; shape; ops] | ["W"; cs; _build; shape; ops; _] ->
    let cf = cmp_of cs in
    let zcmp a b = z_of_int (cf a b) in
    let t = parse_shape shape in
    let items = ref ["t:" ^ str_ints (M.inorder t)] in
    let regs = Array.make 4 M.CNil in
    let used = ref 0 in
    let touch r = if r + 1 > !used then used := r + 1 in
    let state () = String.concat "/" (List.init !used (fun i -> obs_str t regs.(i))) in
    (try
      List.iter (fun op ->
        if String.length op < 2 then items := "?" :: !items else begin
        let r = reg_of op in
        match op.[0] with
        | 'K' -> let k = int_of_string (String.sub op 3 (String.length op - 3)) in
          regs.(r) <- ok (M.tree_cursor zcmp t k); touch r; items := state () :: !items
        | 'G' -> let k = int_of_string (String.sub op 3 (String.length op - 3)) in
          items := (match M.get zcmp k t with Some x -> "g:" ^ string_of_int x ^ ",1" | None -> "g:0,0") :: !items
        | 'O' -> regs.(r) <- M.tree_root t; touch r; items := state () :: !items
        | 'Z' -> regs.(r) <- M.CNil; touch r; items := state () :: !items
        | 'E' -> regs.(r) <- M.CEmpty; touch r; items := state () :: !items
        | 'C' -> let b = Char.code op.[2] - 48 in
          touch r; regs.(b) <- M.clone regs.(r); touch b; items := state () :: !items
        | 'n' | 'p' | 'l' | 'r' | 'u' | 'm' | 'x' ->
          touch r; regs.(r) <- ok (M.step t regs.(r) (move_of op.[0])); items := state () :: !items
        | 'i' -> touch r; items := ("i:" ^ str_ints (ok (M.cinorder_all t regs.(r)))) :: !items
        | 'j' -> touch r;
          let lim = int_of_string (String.sub op 3 (String.length op - 3)) in
          (* ks = append(ks, k); return len(ks) < lim *)
          let (acc, _) = ok (M.cinorder t regs.(r) (fun (acc, n) x -> ((x :: acc, n + 1), n + 1 < lim)) ([], 0)) in
          items := ("i:" ^ str_ints (List.rev acc)) :: !items
        | 'N' | 'P' ->
          touch r;
          let len = List.length (M.inorder t) in
          let mv = if op.[0] = 'N' then M.MNext else M.MPrev in
          let ks = ref [] and step = ref 0 in
          while M.valid regs.(r) && !step < len + 2 do
            ks := ok (M.key 0 t regs.(r)) :: !ks;
            regs.(r) <- ok (M.step t regs.(r) mv);
            incr step
          done;
          items := ("s:" ^ str_ints (List.rev !ks) ^ ":" ^ b01 (M.valid regs.(r))) :: !items
        | _ -> items := "?" :: !items end) (split_on ';' ops)
    with Fail s -> items := s :: !items);
    String.concat ";" (List.rev !items)
  | _ -> "?"

(* ------------------------------------------------------------------ the property on the implementation's output *)

type st = Inv | At of { i : int; lo : int option; hi : int option; bits : string }

let spec prop inp out =
  if prop <> "C03" then None else
  match words inp with
  | "W" :: cs :: _build :: shape :: rest ->
    let ops = match rest with [o] -> split_on ';' o | _ -> [] in
    let cf = cmp_of cs in
    (try
      let items = split_on ';' out in
      let (hd, items) = match items with h :: r -> (h, r) | [] -> raise (Fail "no output") in
      if String.length hd < 2 || String.sub hd 0 2 <> "t:" then raise (Fail ("tree not as recorded: " ^ hd));
      let l = Array.of_list (ints_of (String.sub hd 2 (String.length hd - 2))) in
      let n = Array.length l in
      for k = 0 to n - 2 do if cf l.(k) l.(k+1) >= 0 then raise (Fail "Tree.Inorder not strictly ascending") done;
      if Array.to_list l <> ml_inorder (parse_shape shape) then raise (Fail "shape read from the nodes disagrees with Tree.Inorder");
      let index k = let r = ref (-1) in Array.iteri (fun j x -> if x = k then r := j) l; !r in
      let find_equiv k = let r = ref (-1) in Array.iteri (fun j x -> if cf k x = 0 then r := j) l; !r in
      let regs = Array.make 4 Inv in
      let last = Array.make 4 "" in          (* last observation string of each register *)
      let used = ref 0 in
      let touch r = if r + 1 > !used then used := r + 1 in
      let fail r op msg = raise (Fail (Printf.sprintf "op %s reg %d: %s" op r msg)) in
      (* check one observation against the abstract state, learning range ends from HasLeft/HasRight *)
      let check r op o =
        match String.split_on_char ':' o with
        | [path; key; bits] when String.length bits = 6 ->
          (match regs.(r) with
           | Inv ->
             if bits <> "000000" then fail r op "an invalid cursor reports Valid or a Has* flag";
             if key <> "0" then fail r op "an invalid cursor reports a non-zero key";
             if path <> "nil" && path <> "-" then fail r op "an invalid cursor has a non-empty path"
           | At a ->
             if bits.[0] <> '1' then fail r op "cursor should be valid";
             if int_of_string key <> l.(a.i) then fail r op (Printf.sprintf "key %s, expected %d (index %d)" key l.(a.i) a.i);
             if (bits.[1] = '1') <> (a.i + 1 < n) then fail r op "HasNext wrong";
             if (bits.[2] = '1') <> (a.i > 0) then fail r op "HasPrev wrong";
             if String.length path = 0 || path.[0] <> '^' || String.contains path '?' then fail r op ("path left the tree: " ^ path);
             if (bits.[5] = '1') <> (String.length path > 1) then fail r op "HasParent disagrees with the path";
             let lo = if bits.[3] = '0' then (match a.lo with Some x when x <> a.i -> fail r op "HasLeft false but the subtree starts earlier" | _ -> Some a.i)
                      else (match a.lo with Some x when x >= a.i -> fail r op "HasLeft true but nothing smaller in the subtree" | v -> v) in
             let hi = if bits.[4] = '0' then (match a.hi with Some x when x <> a.i + 1 -> fail r op "HasRight false but the subtree ends later" | _ -> Some (a.i + 1))
                      else (match a.hi with Some x when x <= a.i + 1 -> fail r op "HasRight true but nothing larger in the subtree" | v -> v) in
             (match lo, hi with
              | Some x, Some y -> if (bits.[5] = '1') = (x = 0 && y = n) then fail r op "HasParent wrong for the subtree's range"
              | _ -> ());
             regs.(r) <- At { a with lo; hi; bits })
        | _ -> fail r op ("bad observation " ^ o) in
      let key_index r op o =
        match String.split_on_char ':' o with
        | [_; key; bits] when String.length bits = 6 && bits.[0] = '1' ->
          let j = index (int_of_string key) in if j < 0 then fail r op "key not in the tree" else j
        | _ -> fail r op "cursor should be valid" in
      let rec go ops items =
        match ops, items with
        | [], [] -> ()
        | [], it :: _ -> raise (Fail ("extra output " ^ it))
        | op :: _, [] -> raise (Fail ("no output for " ^ op))
        | op :: ops', it :: items' ->
          if String.length it >= 5 && String.sub it 0 5 = "panic" then raise (Fail ("panic at " ^ op));
          if it = "hang" then raise (Fail ("hang at " ^ op));
          let r = reg_of op in
          let c = op.[0] in
          if c <> 'G' then touch r;
          (match c with
           | 'G' ->
             (* Tree.Get(k): the stored key equivalent to k and true, or the zero key and false *)
             let k = int_of_string (String.sub op 3 (String.length op - 3)) in
             let j = find_equiv k in
             let want = if j < 0 then "g:0,0" else "g:" ^ string_of_int l.(j) ^ ",1" in
             if it <> want then fail r op (Printf.sprintf "Get: got %s, the key list gives %s" it want)
           | 'i' | 'j' ->
             if String.length it < 2 || String.sub it 0 2 <> "i:" then fail r op "bad item";
             let ks = ints_of (String.sub it 2 (String.length it - 2)) in
             (match regs.(r) with
              | Inv -> if ks <> [] then fail r op "Inorder of an invalid cursor yields keys"
              | At a ->
                let m = List.length ks in
                if m = 0 then fail r op "Inorder of a valid cursor yields nothing";
                let s = index (List.hd ks) in
                if s < 0 || s + m > n || ks <> Array.to_list (Array.sub l s m) then fail r op "Inorder is not a run of consecutive keys of the tree";
                (match a.lo with Some x when x <> s -> fail r op "Inorder does not start at the least key of the subtree" | _ -> ());
                if c = 'i' then begin
                  if not (s <= a.i && a.i < s + m) then fail r op "Inorder does not contain the cursor's key";
                  (match a.hi with Some y when y <> s + m -> fail r op "Inorder does not end at the greatest key of the subtree" | _ -> ());
                  regs.(r) <- At { a with lo = Some s; hi = Some (s + m) }
                end else begin
                  let lim = int_of_string (String.sub op 3 (String.length op - 3)) in
                  if m > lim then fail r op "Inorder went on after yield returned false";
                  (match a.hi with Some y when m <> min lim (y - s) -> fail r op "stopped Inorder has the wrong length" | _ -> ());
                  if m < lim then begin
                    if not (s <= a.i && a.i < s + m) then fail r op "Inorder does not contain the cursor's key";
                    regs.(r) <- At { a with lo = Some s; hi = Some (s + m) }
                  end else regs.(r) <- At { a with lo = Some s }
                end)
           | 'N' | 'P' ->
             (match String.split_on_char ':' it with
              | ["s"; ks; v] ->
                let ks = ints_of ks in
                if v <> "0" then fail r op "still valid after Len+2 steps";
                let want = match regs.(r) with
                  | Inv -> []
                  | At a -> if c = 'N' then Array.to_list (Array.sub l a.i (n - a.i))
                            else List.rev (Array.to_list (Array.sub l 0 (a.i + 1))) in
                if ks <> want then fail r op "sweep does not visit exactly the keys from the cursor to the end in order";
                regs.(r) <- Inv;
                last.(r) <- ""            (* the sweep moved this register; its state is printed by the next op *)
              | _ -> fail r op "bad item")
           | _ ->
             let bang = String.length it > 0 && it.[String.length it - 1] = '!' in
             if bang then fail r op "the method did not return its receiver";
             let obs = Array.of_list (String.split_on_char '/' it) in
             let target = if c = 'C' then Char.code op.[2] - 48 else r in
             touch target;
             if Array.length obs <> !used then fail r op "wrong number of registers";
             (* a move of one cursor leaves every other cursor (clones included) where it was *)
             Array.iteri (fun q o -> if q <> target && last.(q) <> "" && o <> last.(q) then fail q op "a cursor changed although another one was moved") obs;
             let o = obs.(target) in
             let prev = regs.(target) in
             let idx () = key_index target op o in
             let nxt =
               match c, prev with
               | 'K', _ ->
                 let k = int_of_string (String.sub op 3 (String.length op - 3)) in
                 let j = find_equiv k in
                 if j < 0 then (if String.sub o 0 3 <> "nil" then fail r op "Cursor(absent key) is not nil"; Inv)
                 else At { i = j; lo = None; hi = None; bits = "" }
               | 'O', _ -> if n = 0 then (if String.sub o 0 3 <> "nil" then fail r op "Root of an empty tree is not nil"; Inv)
                           else At { i = idx (); lo = Some 0; hi = Some n; bits = "" }
               | ('Z' | 'E'), _ -> Inv
               | 'C', _ -> regs.(r)
               | _, Inv -> Inv
               | 'n', At a -> if a.i + 1 < n then At { i = a.i + 1; lo = None; hi = None; bits = "" } else Inv
               | 'p', At a -> if a.i > 0 then At { i = a.i - 1; lo = None; hi = None; bits = "" } else Inv
               | 'l', At a ->
                 if a.bits.[3] = '1' then begin
                   let j = idx () in
                   if j >= a.i then fail r op "Left moved to a key that is not smaller";
                   (match a.lo with Some x when j < x -> fail r op "Left left the subtree" | _ -> ());
                   At { i = j; lo = a.lo; hi = Some a.i; bits = "" }
                 end else Inv
               | 'r', At a ->
                 if a.bits.[4] = '1' then begin
                   let j = idx () in
                   if j <= a.i then fail r op "Right moved to a key that is not larger";
                   (match a.hi with Some y when j >= y -> fail r op "Right left the subtree" | _ -> ());
                   At { i = j; lo = Some (a.i + 1); hi = a.hi; bits = "" }
                 end else Inv
               | 'u', At a ->
                 if a.bits.[5] = '1' then begin
                   let j = idx () in
                   if j = a.i then fail r op "Up did not move";
                   (match a.lo, a.hi with
                    | Some x, Some y -> if j <> y && j <> x - 1 then fail r op "Up did not reach the key adjacent to the subtree's range"
                    | Some x, None -> if j < a.i && j <> x - 1 then fail r op "Up reached a smaller key that is not the one just below the subtree"
                    | None, Some y -> if j > a.i && j <> y then fail r op "Up reached a larger key that is not the one just above the subtree"
                    | None, None -> ());
                   At { i = j; lo = (if j > a.i then a.lo else None); hi = (if j < a.i then a.hi else None); bits = "" }
                 end else Inv
               | 'm', At a ->
                 let j = idx () in
                 if j > a.i then fail r op "Min moved to a larger key";
                 (match a.lo with Some x when j <> x -> fail r op "Min is not the least key of the subtree" | _ -> ());
                 At { i = j; lo = Some j; hi = None; bits = "" }
               | 'x', At a ->
                 let j = idx () in
                 if j < a.i then fail r op "Max moved to a smaller key";
                 (match a.hi with Some y when j + 1 <> y -> fail r op "Max is not the greatest key of the subtree" | _ -> ());
                 At { i = j; lo = None; hi = Some (j + 1); bits = "" }
               | _ -> fail r op "unknown op" in
             regs.(target) <- nxt;
             check target op o;
             Array.iteri (fun q o -> last.(q) <- o) obs);
          go ops' items' in
      go ops items; None
    with Fail s -> Some s)
  | _ -> None

let () = run_main ~eval ~spec
