(* Replays cursortrace lines on the extracted cursor model (eval) and evaluates property C03 on
   the implementation's own outputs (spec): the latter uses only the key list the implementation
   printed (Tree.Inorder), plain OCaml arithmetic on indices into it, and the comparator — not the
   extracted model. *)

let nat (a : int) (b : int) = compare a b
let big = 1 lsl 61      (* stands for math.MaxInt: only the sign of a comparison is ever used *)

let rec cmp_of s : int -> int -> int =
  (* q<base>: the harness's comparator also reads its tree (round 5); as a comparison it is <base> *)
  if String.length s > 1 && s.[0] = 'q' then cmp_of (String.sub s 1 (String.length s - 1)) else
  let modk () =
    let k = int_of_string (String.sub s 1 (String.length s - 1)) in
    let k = if k <= 0 then 1 else k in
    fun a -> ((a mod k) + k) mod k in
  let ext a b = if a < b then - big else if a > b then big else 0 in
  if s = "n" then nat
  else if s = "r" then (fun a b -> nat b a)
  else if s = "a" then (fun a b -> a - b)
  else if s = "t" then (fun a b -> 3 * (a - b))
  else if s = "h" then (fun a b -> (a - b) * (1 lsl 32))
  else if s = "A" then (fun a b -> b - a)
  else if s = "D" then (fun a b -> 7 * (b - a))
  else if s = "x" then ext
  else if s = "X" then (fun a b -> ext b a)
  else if String.length s > 1 && s.[0] = 'm' then (let md = modk () in fun a b -> nat (md a) (md b))
  else if String.length s > 1 && s.[0] = 'M' then (let md = modk () in fun a b -> md a - md b)
  else if String.length s > 1 && s.[0] = 'R' then (let md = modk () in fun a b -> md b - md a)
  else failwith "bad comparator"

let split_on c s = if s = "" then [] else String.split_on_char c s

(* preorder, "." = nil *)
let parse_shape s : int M.tree =
  let toks = ref (String.split_on_char ',' s) in
  let rec go () =
    match !toks with
    | [] -> failwith "short shape"
    | "." :: r -> toks := r; M.Leaf
    | k :: r -> toks := r; let x = int_of_string k in let l = go () in let rt = go () in M.Node (l, x, rt) in
  let t = go () in
  if !toks <> [] then failwith "long shape"; t

let rec ml_inorder = function M.Leaf -> [] | M.Node (l, x, r) -> ml_inorder l @ (x :: ml_inorder r)

exception Fail of string
let ok = function M.Ok a -> a | M.Panic -> raise (Fail "PANIC") | M.OutOfFuel -> raise (Fail "FUEL") | M.BadOracle -> raise (Fail "ORACLE")

let path_str = function
  | M.CNil -> "nil" | M.CEmpty -> "-"
  | M.CAt p -> "^" ^ String.concat "" (List.map (function M.L -> "L" | M.R -> "R") p)

let obs_str t c =
  path_str c ^ ":" ^ string_of_int (ok (M.key 0 t c)) ^ ":" ^
  b01 (M.valid c) ^ b01 (ok (M.has_next t c)) ^ b01 (ok (M.has_prev t c)) ^ b01 (ok (M.has_left t c)) ^
  b01 (ok (M.has_right t c)) ^ b01 (M.has_parent c)

let move_of = function
  | 'n' -> M.MNext | 'p' -> M.MPrev | 'l' -> M.MLeft | 'r' -> M.MRight | 'u' -> M.MUp | 'm' -> M.MMin | 'x' -> M.MMax
  | _ -> failwith "move"

let reg_of op = let r = Char.code op.[1] - 48 in if r < 0 || r > 3 then failwith "reg" else r

(* ------------------------------------------------------------------ big trees: digest, LCG, orders
   (mirrors harness/cmd/cursortrace/scale.go) *)

let dg_p1 = 2147483647 and dg_m1 = 1000003 and dg_p2 = 2147483629 and dg_m2 = 1000033
type dig = { mutable h1 : int; mutable h2 : int }
let dnew () = { h1 = 0; h2 = 0 }
let dadd d x =
  let v1 = ((x mod dg_p1) + dg_p1) mod dg_p1 and v2 = ((x mod dg_p2) + dg_p2) mod dg_p2 in
  d.h1 <- (d.h1 * dg_m1 + v1 + 12345) mod dg_p1;
  d.h2 <- (d.h2 * dg_m2 + v2 + 54321) mod dg_p2
let dadd_str d s = String.iter (fun c -> dadd d (Char.code c)) s; dadd d (-1)
let dstr d = Printf.sprintf "%08x%08x" d.h1 d.h2
let digest_of l = let d = dnew () in List.iter (dadd d) l; dstr d

let plain_max = 200
let zigzag = "npppnnpn"
let fmt_ints l =
  let n = List.length l in
  if n <= plain_max then str_ints l
  else Printf.sprintf "#%d~%d~%d~%s" n (List.hd l) (List.nth l (n - 1)) (digest_of l)

let perm_of n seed =
  let p = Array.init n (fun i -> i) in
  let x = ref (((seed mod 2147483648) + 2147483648) mod 2147483648) in
  for i = n - 1 downto 1 do
    x := (!x * 1103515245 + 12345) mod 2147483648;
    let j = (!x lsr 8) mod (i + 1) in
    let t = p.(i) in p.(i) <- p.(j); p.(j) <- t
  done;
  Array.to_list p

let rec order_idx pat n seed : int list option =
  match pat with
  | 'a' -> Some (List.init n (fun i -> i))
  | 'd' -> Some (List.init n (fun i -> n - 1 - i))
  | 'z' ->
    let out = ref [] and lo = ref 0 and hi = ref (n - 1) in
    while !lo <= !hi do
      out := !lo :: !out;
      if !lo <> !hi then out := !hi :: !out;
      incr lo; decr hi
    done;
    Some (List.rev !out)
  | 'i' -> (match order_idx 'z' n seed with Some l -> Some (List.rev l) | None -> None)
  | 'r' -> Some (perm_of n seed)
  | 'b' ->
    let out = ref [] in
    let q = Queue.create () in
    Queue.add (0, n - 1) q;
    while not (Queue.is_empty q) do
      let (lo, hi) = Queue.pop q in
      if lo <= hi then begin
        let mid = lo + (hi - lo) / 2 in
        out := mid :: !out;
        Queue.add (lo, mid - 1) q; Queue.add (mid + 1, hi) q
      end
    done;
    Some (List.rev !out)
  | 'B' -> (match order_idx 'b' n seed with Some l -> Some (List.rev l) | None -> None)
  | _ -> None

let rec take m l = if m <= 0 then [] else match l with [] -> [] | x :: r -> x :: take (m - 1) r

(* which ranks (of len keys) to remove, in order; metric (depths for s/p, depth + height for P) only for s/p/P *)
let removal_idx ord len keep seed (metric : char -> int array) : int list =
  let m = len - keep in
  if m <= 0 || keep < 0 then [] else
  let first pat = match order_idx pat len seed with Some l -> take m l | None -> [] in
  match ord with
  | 'l' -> first 'a' | 'h' -> first 'd' | 'o' -> first 'z'
  | 'i' | 'b' | 'B' -> first ord
  | 'r' -> take m (perm_of len seed)
  | 'e' | 'E' ->
    let kept = Array.make len false in
    for j = 0 to keep - 1 do kept.(j * len / keep) <- true done;
    let out = List.filter (fun i -> not kept.(i)) (List.init len (fun i -> i)) in
    if ord = 'E' then List.rev out else out
  | 's' | 'p' | 'P' ->
    let d = metric ord in
    let idx = List.init len (fun i -> i) in
    let c = if ord = 'p' then (fun a b -> compare d.(b) d.(a)) else (fun a b -> compare d.(a) d.(b)) in
    take m (List.stable_sort c idx)
  | _ -> []

(* ---- the depth limit: largest k with 2000^k <= n * (1000+b)^k, exactly, capped at n (the value of
   HeightModel.limit_capped: close to b = 1000 the exact limit is about 2000 ln n, far beyond any
   depth a tree of n keys can have, and HeightLimit.v shows no comparison of Tree.insert can tell
   the capped value from the exact one); n+1 at b = 1000.  As ocaml/stree_driver.ml: naturals-only
   bignum, base 2^30, one incremental table per beta. *)
let bbits = 30
let bmask = (1 lsl bbits) - 1
let big_trim (a : int array) =
  let n = ref (Array.length a) in
  while !n > 0 && a.(!n - 1) = 0 do decr n done;
  if !n = Array.length a then a else Array.sub a 0 !n
let big_mul_small (a : int array) (m : int) =
  let n = Array.length a in
  let r = Array.make (n + 2) 0 in
  let carry = ref 0 in
  for i = 0 to n - 1 do
    let v = a.(i) * m + !carry in
    r.(i) <- v land bmask; carry := v lsr bbits
  done;
  r.(n) <- !carry land bmask; r.(n + 1) <- !carry lsr bbits;
  big_trim r
let big_cmp (a : int array) (b : int array) =
  let la = Array.length a and lb = Array.length b in
  if la <> lb then compare la lb else begin
    let i = ref (la - 1) in
    while !i >= 0 && a.(!i) = b.(!i) do decr i done;
    if !i < 0 then 0 else compare a.(!i) b.(!i)
  end
type ltab = { mutable k : int; mutable pa : int array; mutable pb : int array; mutable vals : int array; mutable upto : int }
let ltabs : (int, ltab) Hashtbl.t = Hashtbl.create 16
let limit_exact (b : int) (n : int) : int =
  if b >= 1000 then n + 1
  else if n < 1 then 0
  else begin
    let t = match Hashtbl.find_opt ltabs b with
      | Some t -> t
      | None -> let t = { k = 0; pa = [|1|]; pb = [|1|]; vals = Array.make 64 0; upto = 0 } in Hashtbl.add ltabs b t; t in
    while t.upto < n do
      let m = t.upto + 1 in
      let continue = ref true in
      while !continue && t.k < m do
        let a2 = big_mul_small t.pa 2000 and b2 = big_mul_small t.pb (1000 + b) in
        if big_cmp a2 (big_mul_small b2 m) <= 0 then begin t.pa <- a2; t.pb <- b2; t.k <- t.k + 1 end
        else continue := false
      done;
      if m >= Array.length t.vals then begin
        let v = Array.make (2 * m) 0 in Array.blit t.vals 0 v 0 (Array.length t.vals); t.vals <- v end;
      t.vals.(m) <- t.k; t.upto <- m
    done;
    t.vals.(n)
  end
let limit_z (b : M.z) (n : M.z) : M.z = z_of_int (limit_exact (int_of_z b) (int_of_z n))

(* ------------------------------------------------------------------ the register machine on the model *)

type mach = { mutable t : int M.tree; regs : M.cursor array; mutable used : int; big : bool;
              zcmp : int -> int -> M.z }

let mach_reset m = Array.fill m.regs 0 4 M.CNil; m.used <- 0

(* ---- round 5 (harness round5.go): a cursor used while its own Inorder runs, traversals alive together.
   A traversal is evaluated by itself, from the cursor's position at the moment it starts. *)
let body_letters = "nplrumxhHvki123456789"
let all_in set str = String.for_all (fun ch -> String.contains set ch) str
let rec take_n n l = if n <= 0 then [] else match l with [] -> [] | x :: r -> x :: take_n (n - 1) r
let reg_ch c = let v = Char.code c - 48 in if v >= 0 && v <= 3 then Some v else None
let nat_opt s = match int_of_string_opt s with
  | Some v when v >= 0 && s <> "" && String.for_all (fun c -> c >= '0' && c <= '9') s -> Some v | _ -> None

let run_seq (t : int M.tree) (c : M.cursor ref) (seq : string) (res : Buffer.t) =
  String.iter (fun ch ->
    match ch with
    | 'h' -> Buffer.add_string res (b01 (ok (M.has_next t !c)))
    | 'H' -> Buffer.add_string res (b01 (ok (M.has_prev t !c)))
    | 'v' -> Buffer.add_string res (b01 (M.valid !c))
    | 'k' -> Buffer.add_string res ("(" ^ string_of_int (ok (M.key 0 t !c)) ^ ")")
    | 'n' | 'p' | 'l' | 'r' | 'u' | 'm' | 'x' -> c := ok (M.step t !c (move_of ch))
    | _ ->
      let lim = if ch = 'i' then 0 else Char.code ch - 48 in
      let (acc, _) = ok (M.cinorder t !c (fun (acc, n) x -> ((x :: acc, n + 1), lim = 0 || n + 1 < lim)) ([], 0)) in
      Buffer.add_string res ("[" ^ str_ints (List.rev acc) ^ "]")) seq

let mach_op5 (m : mach) op : string =
  let t = m.t in
  let touch r = if r + 1 > m.used then m.used <- r + 1 in
  let state () = String.concat "/" (List.init m.used (fun i -> obs_str t m.regs.(i))) in
  let n = String.length op in
  match op.[0], String.split_on_char ':' op with
  | 'y', [h; lim; every; seq] when String.length h = 3 && all_in body_letters seq ->
    (match reg_ch op.[1], reg_ch op.[2], nat_opt lim, nat_opt every with
     | Some r, Some s, Some lim, Some every when every >= 1 ->
       touch r; touch s;
       let all = ok (M.cinorder_all t m.regs.(r)) in
       let outer = if lim = 0 then all else take_n lim all in
       let res = Buffer.create 64 in
       let c = ref m.regs.(s) in
       List.iteri (fun j _ -> if j mod every = 0 then begin Buffer.add_char res '_'; run_seq t c seq res end) outer;
       m.regs.(s) <- !c;
       "z" ^ Buffer.contents res ^ "=" ^ state () ^ "=" ^ str_ints outer
     | _ -> "?")
  | 't', [h; lim; seq] when String.length h = 2 && all_in body_letters seq ->
    (match reg_ch op.[1], nat_opt lim with
     | Some r, Some lim ->
       touch r;
       let all = M.inorder t in
       let outer = if lim = 0 then all else take_n lim all in
       let res = Buffer.create 64 in
       List.iter (fun k ->
         Buffer.add_char res '_';
         let c = ref (ok (M.tree_cursor m.zcmp t k)) in
         run_seq t c seq res;
         m.regs.(r) <- !c) outer;
       "z" ^ Buffer.contents res ^ "=" ^ state () ^ "=" ^ str_ints outer
     | _ -> "?")
  | 'z', _ when n >= 4 && op.[3] = ':' && all_in "abnplrumx" (String.sub op 4 (n - 4)) ->
    (match reg_ch op.[1], reg_ch op.[2] with
     | Some a, Some b ->
       touch a; touch b;
       let regs = [| a; b |] in
       let lists = [| None; None |] and pulls = [| 0; 0 |] in
       String.iter (fun ch ->
         if ch = 'a' || ch = 'b' then begin
           let i = Char.code ch - 97 in
           (* the traversal starts at its first pull, from where its cursor is then *)
           if lists.(i) = None then lists.(i) <- Some (ok (M.cinorder_all t m.regs.(regs.(i))));
           pulls.(i) <- pulls.(i) + 1
         end else m.regs.(a) <- ok (M.step t m.regs.(a) (move_of ch))) (String.sub op 4 (n - 4));
       let part i = match lists.(i) with
         | None -> "."
         | Some l -> str_ints (take_n pulls.(i) l) ^ (if pulls.(i) > List.length l then "$" else "") in
       "Z" ^ part 0 ^ "/" ^ part 1 ^ "=" ^ state ()
     | _ -> "?")
  | _ -> "?"

let mach_op (m : mach) op : string =
  let t = m.t in
  let ints l = if m.big then fmt_ints l else str_ints l in
  let touch r = if r + 1 > m.used then m.used <- r + 1 in
  let state () = String.concat "/" (List.init m.used (fun i -> obs_str t m.regs.(i))) in
  if String.length op < 2 then "?" else begin
    let r = Char.code op.[1] - 48 in
    if r < 0 || r > 3 then "?" else
    match op.[0] with
    | ('K' | 'G' | 'j') when String.length op < 4 -> "?"
    | 'C' when String.length op < 3 -> "?"
    | 'K' -> let k = int_of_string (String.sub op 3 (String.length op - 3)) in
      m.regs.(r) <- ok (M.tree_cursor m.zcmp t k); touch r; state ()
    | 'G' -> let k = int_of_string (String.sub op 3 (String.length op - 3)) in
      (match M.get m.zcmp k t with Some x -> "g:" ^ string_of_int x ^ ",1" | None -> "g:0,0")
    | 'O' -> m.regs.(r) <- M.tree_root t; touch r; state ()
    | 'Z' -> m.regs.(r) <- M.CNil; touch r; state ()
    | 'E' -> m.regs.(r) <- M.CEmpty; touch r; state ()
    | 'C' -> let b = Char.code op.[2] - 48 in
      if b < 0 || b > 3 then "?" else begin
        touch r; m.regs.(b) <- M.big_cursor_clone m.regs.(r); touch b; state () end
    | 'n' | 'p' | 'l' | 'r' | 'u' | 'm' | 'x' ->
      touch r; m.regs.(r) <- ok (M.step t m.regs.(r) (move_of op.[0])); state ()
    | 'w' ->
      let n = String.length op in
      if n < 4 || op.[2] <> ':' || not (String.for_all (fun ch -> String.contains "nplrumxhHvk" ch) (String.sub op 3 (n - 3))) then "?"
      else begin
        touch r;
        let c = ref m.regs.(r) and res = Buffer.create 16 in
        String.iter (fun ch ->
          match ch with
          | 'h' -> Buffer.add_string res (b01 (ok (M.has_next t !c)))
          | 'H' -> Buffer.add_string res (b01 (ok (M.has_prev t !c)))
          | 'v' -> Buffer.add_string res (b01 (M.valid !c))
          | 'k' -> Buffer.add_string res ("(" ^ string_of_int (ok (M.key 0 t !c)) ^ ")")
          | mv -> c := ok (M.step t !c (move_of mv))) (String.sub op 3 (n - 3));
        m.regs.(r) <- !c;
        "y" ^ Buffer.contents res ^ "=" ^ state ()
      end
    | 'y' | 't' | 'z' -> mach_op5 m op
    | 'i' -> touch r; "i:" ^ ints (ok (M.cinorder_all t m.regs.(r)))
    | 'j' when op.[String.length op - 1] = '!' &&
               (op.[2] <> ':' || (match int_of_string_opt (String.sub op 3 (String.length op - 4)) with Some l -> l < 1 | None -> true)) -> "?"
    | 'j' -> touch r;
      (* j<r>:<lim>! : the callback panics where the other one returns false - the same keys *)
      let bang = op.[String.length op - 1] = '!' in
      let lim = int_of_string (String.sub op 3 (String.length op - 3 - (if bang then 1 else 0))) in
      (* ks = append(ks, k); return len(ks) < lim *)
      let (acc, _) = ok (M.cinorder t m.regs.(r) (fun (acc, n) x -> ((x :: acc, n + 1), n + 1 < lim)) ([], 0)) in
      "i:" ^ ints (List.rev acc)
    | 'N' | 'P' ->
      touch r;
      let len = List.length (M.inorder t) in
      let mv = if op.[0] = 'N' then M.MNext else M.MPrev in
      let ks = ref [] and step = ref 0 in
      while M.valid m.regs.(r) && !step < len + 2 do
        ks := ok (M.key 0 t m.regs.(r)) :: !ks;
        m.regs.(r) <- ok (M.step t m.regs.(r) mv);
        incr step
      done;
      "s:" ^ ints (List.rev !ks) ^ ":" ^ b01 (M.valid m.regs.(r))
    | _ -> "?"
  end

(* the depth of every node, in in-order *)
let depths_inorder (t : int M.tree) : int array =
  let out = ref [] in
  let rec go d = function
    | M.Leaf -> ()
    | M.Node (l, _, r) -> go (d + 1) l; out := d :: !out; go (d + 1) r in
  go 0 t; Array.of_list (List.rev !out)

(* depth + height of the subtree, per node in in-order *)
let through_inorder (t : int M.tree) : int array =
  let out = ref [] in
  let rec go d = function
    | M.Leaf -> -1
    | M.Node (l, _, r) ->
      let hl = go (d + 1) l in
      let cell = ref 0 in
      out := cell :: !out;
      let hr = go (d + 1) r in
      let h = 1 + max hl hr in
      cell := d + h; h in
  ignore (go 0 t); Array.of_list (List.rev_map (fun c -> !c) !out)

let shape_metric t ord = if ord = 'P' then through_inorder t else depths_inorder t

let key_or t c = if M.valid c then ok (M.key 0 t c) else -1

(* probe() of scale.go on the model *)
let probe (zcmp : int -> int -> M.z) (tr : int M.tree0) s : string =
  let t = M.big_root tr in
  let keys = Array.of_list (M.inorder t) in
  let n = Array.length keys in
  let rank = Hashtbl.create (2 * n + 1) in
  Array.iteri (fun i k -> Hashtbl.replace rank k i) keys;
  let depths = depths_inorder t in
  let root_key = ok (M.key 0 t (M.tree_root t)) in
  let dd = dnew () and dkey = dnew () and dfl = dnew () and dpath = dnew () and dget = dnew () and dabs = dnew ()
  and dnext = dnew () and dprev = dnew () and dzig = dnew () and dup = dnew () and dmin = dnew () and dmax = dnew () and dino = dnew ()
  and dkeep = dnew () in
  let maxd = ref 0 and sd = ref 0 and nv = ref 0 and nget = ref 0 and sup = ref 0 and nroot = ref 0
  and sspan = ref 0 and sino = ref 0 and fb = ref "-" in
  Array.iteri (fun i k ->
    if i < Array.length depths then begin
      let d = depths.(i) in dadd dd d; sd := !sd + d; if d > !maxd then maxd := d end;
    let c = ok (M.tree_cursor zcmp t k) in
    let ck = ok (M.key 0 t c) in
    if M.valid c then incr nv;
    if (not (M.valid c) || ck <> k) && !fb = "-" then fb := string_of_int k;
    dadd dkey ck;
    let bits = List.fold_left (fun v b -> 2 * v + (if b then 1 else 0)) 0
      [M.valid c; ok (M.has_next t c); ok (M.has_prev t c); ok (M.has_left t c); ok (M.has_right t c); M.has_parent c] in
    dadd dfl bits;
    dadd_str dpath (path_str c);
    (match M.get zcmp k t with Some v -> incr nget; dadd dget v | None -> dadd dget (-1));
    dadd dabs (key_or t (ok (M.tree_cursor zcmp t (k + 1))));
    let cn = ref (M.big_cursor_clone c) in
    for _ = 1 to s do cn := ok (M.step t !cn M.MNext); dadd dnext (key_or t !cn) done;
    let cp = ref (M.big_cursor_clone c) in
    for _ = 1 to s do cp := ok (M.step t !cp M.MPrev); dadd dprev (key_or t !cp) done;
    let cz = ref (M.big_cursor_clone c) in
    String.iter (fun ch -> cz := ok (M.step t !cz (if ch = 'n' then M.MNext else M.MPrev)); dadd dzig (key_or t !cz)) zigzag;
    let cu = ref (M.big_cursor_clone c) and steps = ref 0 in
    while M.has_parent !cu && !steps < n + 2 do
      cu := ok (M.step t !cu M.MUp); dadd dup (key_or t !cu); incr sup; incr steps
    done;
    if M.valid !cu && ok (M.key 0 t !cu) = root_key then incr nroot;
    let mn = key_or t (ok (M.step t (M.big_cursor_clone c) M.MMin)) and mx = key_or t (ok (M.step t (M.big_cursor_clone c) M.MMax)) in
    dadd dmin mn; dadd dmax mx;
    (match Hashtbl.find_opt rank mn, Hashtbl.find_opt rank mx with
     | Some a, Some b -> sspan := !sspan + b - a + 1
     | _ -> ());
    let sub = dnew () and cnt = ref 0 in
    List.iter (fun x -> incr cnt; dadd sub x) (ok (M.cinorder_all t c));
    sino := !sino + !cnt;
    dadd dino !cnt; dadd dino sub.h1;
    dadd dkeep (ok (M.key 0 t c))) keys;
  let sweep start mv =
    let c = ref start and ks = ref [] and step = ref 0 in
    while M.valid !c && !step < n + 2 do
      ks := ok (M.key 0 t !c) :: !ks; c := ok (M.step t !c mv); incr step
    done; !ks in
  let fwd = List.rev (sweep (ok (M.step t (M.tree_root t) M.MMin)) M.MNext) in
  let bwd = sweep (ok (M.step t (M.tree_root t) M.MMax)) M.MPrev in     (* collected in reverse = reversed list *)
  let i = string_of_int in
  "q/" ^ String.concat "/" [
    "n=" ^ i (int_of_z (M.big_len tr)); "keys=" ^ fmt_ints (Array.to_list keys); "root=" ^ i root_key;
    "maxd=" ^ i !maxd; "sd=" ^ i !sd; "dd=" ^ dstr dd;
    "nv=" ^ i !nv; "fb=" ^ !fb; "dkey=" ^ dstr dkey; "dfl=" ^ dstr dfl; "dpath=" ^ dstr dpath;
    "nget=" ^ i !nget; "dget=" ^ dstr dget; "dabs=" ^ dstr dabs;
    "dnext=" ^ dstr dnext; "dprev=" ^ dstr dprev; "dzig=" ^ dstr dzig;
    "sup=" ^ i !sup; "nroot=" ^ i !nroot; "dup=" ^ dstr dup;
    "dmin=" ^ dstr dmin; "dmax=" ^ dstr dmax; "sspan=" ^ i !sspan;
    "sino=" ^ i !sino; "dino=" ^ dstr dino; "dkeep=" ^ dstr dkeep;
    "nfwd=" ^ i (List.length fwd); "dfwd=" ^ digest_of fwd; "nbwd=" ^ i (List.length bwd); "dbwd=" ^ digest_of bwd ]

let max_big_keys = 20000
let int_opt s = try Some (int_of_string s) with _ -> None
let ord_letters = "lhoibBreEspP"

(* a macro op parsed: the harness answers "?" for anything else *)
type macro = MA of char * int * int * int * int | MR of char * int * int | MQ of int | MBad | MPrim
  (* round 4, session.go: single edits, clones into other slots, the rest of the Tree API *)
  | MEdit of char * int | MClear | MClone of int * int | MSlot of int
  | MAfter of int * int | MInorder of int | MMin | MMax | MLen | MFuse
let n_slots = 3
(* strconv.Atoi: an optional sign and decimal digits only *)
let atoi_opt s =
  let n = String.length s in
  let st = if n > 0 && (s.[0] = '-' || s.[0] = '+') then 1 else 0 in
  if n = st then None else begin
    let ok = ref true in
    for i = st to n - 1 do if s.[i] < '0' || s.[i] > '9' then ok := false done;
    if !ok then int_of_string_opt (if s.[0] = '+' then String.sub s 1 (n - 1) else s) else None
  end
(* <lim> or <lim>! (lim >= 1): the loop body panics instead of breaking - the same keys either way *)
let lim_opt s =
  let n = String.length s in
  if n > 0 && s.[n - 1] = '!' then (match atoi_opt (String.sub s 0 (n - 1)) with Some l when l >= 1 -> Some l | _ -> None)
  else (match atoi_opt s with Some l when l >= 0 -> Some l | _ -> None)
let slot_of c = let v = Char.code c - 48 in if v >= 0 && v < n_slots then Some v else None
let parse_macro op =
  if op = "" then MBad else
  let rest = String.sub op 1 (String.length op - 1) in
  match op.[0] with
  | '+' | '=' | '-' -> (match atoi_opt rest with Some k -> MEdit (op.[0], k) | None -> MBad)
  | '~' -> if op = "~" then MClear else MBad
  | 'Y' ->
    if String.length op <> 3 then MBad else
    (match slot_of op.[1], slot_of op.[2] with
     | Some a, Some b when a <> b -> MClone (a, b)
     | _ -> MBad)
  | '@' -> if String.length op <> 2 then MBad else (match slot_of op.[1] with Some a -> MSlot a | None -> MBad)
  | 'F' ->
    (match String.split_on_char ':' rest with
     | [k; lim] -> (match atoi_opt k, lim_opt lim with Some k, Some lim -> MAfter (k, lim) | _ -> MBad)
     | _ -> MBad)
  | 'I' -> (match lim_opt rest with Some lim -> MInorder lim | _ -> MBad)
  | '!' ->
    (match String.split_on_char ':' rest with
     | [n; c] when String.length c >= 2 && String.contains "gcfF" c.[0] ->
       (match atoi_opt n, atoi_opt (String.sub c 1 (String.length c - 1)) with
        | Some n, Some _ when n >= 1 -> MFuse
        | _ -> MBad)
     | _ -> MBad)
  | 'T' -> if String.length op <> 2 then MBad else (match op.[1] with 'm' -> MMin | 'x' -> MMax | 'l' -> MLen | _ -> MBad)
  | 'A' ->
    (match String.split_on_char ':' (String.sub op 1 (String.length op - 1)) with
     | [p; lo; n; step; seed] when String.length p = 1 ->
       (match int_opt lo, int_opt n, int_opt step, int_opt seed with
        | Some lo, Some n, Some step, Some seed when n >= 0 && n <= max_big_keys && (n = 0 || order_idx p.[0] n seed <> None) ->
          MA (p.[0], lo, n, step, seed)
        | _ -> MBad)
     | _ -> MBad)
  | 'R' ->
    (match String.split_on_char ':' (String.sub op 1 (String.length op - 1)) with
     | [o; keep; seed] when String.length o = 1 && String.contains ord_letters o.[0] ->
       (match int_opt keep, int_opt seed with
        | Some keep, Some seed -> MR (o.[0], keep, seed)
        | _ -> MBad)
     | _ -> MBad)
  | 'Q' ->
    (match int_opt (String.sub op 1 (String.length op - 1)) with
     | Some s when s >= 0 && s <= 64 -> MQ s
     | _ -> MBad)
  | _ -> MPrim

let add_keys pat lo n step seed =
  match order_idx pat n seed with Some idx -> List.map (fun j -> lo + step * j) idx | None -> []

let eval_big cs beta ops =
  let cf = cmp_of cs in
  let zcmp a b = z_of_int (cf a b) in
  let items = ref [] in
  let push s = items := s :: !items in
  (try
    match int_opt beta with
    | None -> push "?"
    | Some beta ->
      let tr0 = match M.big_new zcmp (z_of_int beta) with M.Ok t -> t | _ -> raise (Fail "panic:other") in
      let new_mach t = { t = M.big_root t; regs = Array.make 4 M.CNil; used = 0; big = true; zcmp } in
      (* the tree slots of the line: the Tree of the C01 model and the cursor registers over it *)
      let trees = Array.make n_slots None in
      trees.(0) <- Some (ref tr0, new_mach tr0);
      let cur = ref 0 in
      (* the consumer of Tree.Inorder / InorderAfter: every key is recorded, the loop ends after lim keys *)
      let collect lim (acc, n) x = ((x :: acc, n + 1), lim = 0 || n + 1 < lim) in
      List.iter (fun op ->
        let (tr, m) = match trees.(!cur) with Some p -> p | None -> raise (Fail "no tree") in
        let edited () = mach_reset m; m.t <- M.big_root !tr in
        match parse_macro op with
        | MBad -> push "?"
        | MA (pat, lo, n, step, seed) ->
          let cnt = ref 0 in
          List.iter (fun k ->
            let (t', b) = ok (M.big_add zcmp limit_z !tr k) in
            tr := t'; if b then incr cnt) (add_keys pat lo n step seed);
          edited ();
          push ("a" ^ string_of_int !cnt)
        | MR (ord, keep, seed) ->
          let keys = Array.of_list (M.inorder (M.big_root !tr)) in
          let idx = removal_idx ord (Array.length keys) keep seed (shape_metric (M.big_root !tr)) in
          let cnt = ref 0 in
          List.iter (fun j ->
            let (t', b) = ok (M.big_remove zcmp !tr keys.(j)) in
            tr := t'; if b then incr cnt) idx;
          edited ();
          push ("r" ^ string_of_int !cnt)
        | MQ s -> push (probe zcmp !tr s)
        | MEdit (c, k) ->
          let (t', b) = ok (match c with
            | '+' -> M.big_add zcmp limit_z !tr k
            | '=' -> M.big_replace zcmp limit_z !tr k
            | _ -> M.big_remove zcmp !tr k) in
          tr := t'; edited ();
          push ("e" ^ b01 b)
        | MClear -> tr := M.big_clear !tr; edited (); push "e-"
        | MClone (a, b) ->
          (match trees.(a) with
           | None -> push "?"
           | Some (ta, _) ->
             let c = M.big_clone !ta in
             trees.(b) <- Some (ref c, new_mach c);
             push ("y" ^ string_of_int (int_of_z (M.big_len c))))
        | MSlot a -> (match trees.(a) with None -> push "?" | Some _ -> cur := a; push op)
        | MAfter (k, lim) ->
          let ((acc, _), _) = ok (M.big_inorder_after zcmp !tr k (collect lim) ([], 0)) in
          push ("f:" ^ fmt_ints (List.rev acc))
        | MInorder lim ->
          let ((acc, _), _) = M.big_inorder !tr (collect lim) ([], 0) in
          push ("f:" ^ fmt_ints (List.rev acc))
        | MMin -> push ("v:" ^ string_of_int (match M.big_min !tr with Some x -> x | None -> 0))
        | MMax -> push ("v:" ^ string_of_int (match M.big_max !tr with Some x -> x | None -> 0))
        | MLen -> push ("l:" ^ string_of_int (int_of_z (M.big_len !tr)) ^ "," ^ b01 (M.big_is_empty !tr))
        | MFuse -> push "x"     (* an observer under a comparator that panics: no effect on anything *)
        | MPrim -> push (mach_op m op)) (split_on ';' ops)
  with Fail s -> items := s :: !items);
  String.concat ";" (List.rev !items)

let eval inp =
  match words inp with
  | ["B"; cs; beta; ops] -> eval_big cs beta ops
  | ["W"; cs; _build; shape; ops] | ["W"; cs; _build; shape; ops; _] ->
    let cf = cmp_of cs in
    let zcmp a b = z_of_int (cf a b) in
    let t = parse_shape shape in
    let items = ref ["t:" ^ str_ints (M.inorder t)] in
    let m = { t; regs = Array.make 4 M.CNil; used = 0; big = false; zcmp } in
    (try
      List.iter (fun op -> items := mach_op m op :: !items) (split_on ';' ops)
    with Fail s -> items := s :: !items);
    String.concat ";" (List.rev !items)
  | _ -> "?"

(* ------------------------------------------------------------------ the property on the implementation's output *)

type st = Inv | At of { i : int; lo : int option; hi : int option; bits : string }

(* the reference machine: the key list l (ascending in the comparator's order) and, per register,
   the index of its key in l and what is known of its subtree's range *)
(* per in-order rank of the recorded shape: rank of the parent, of the left and of the right child
   (-1: none) and the range lo..hi-1 of ranks of its subtree *)
type rank_tbl = { par : int array; lc : int array; rc : int array; tlo : int array; thi : int array }

let rank_table (t : int M.tree) : rank_tbl =
  let n = List.length (ml_inorder t) in
  let tb = { par = Array.make n (-1); lc = Array.make n (-1); rc = Array.make n (-1); tlo = Array.make n 0; thi = Array.make n 0 } in
  (* go t lo parent: the subtree t holds the ranks lo..; returns (rank of its root or -1, first rank after it) *)
  let rec go t lo parent =
    match t with
    | M.Leaf -> (-1, lo)
    | M.Node (l, _, r) ->
      let rec size = function M.Leaf -> 0 | M.Node (a, _, b) -> size a + 1 + size b in
      let me = lo + size l in
      let (lr, _) = go l lo me in
      let (rr, hi) = go r (me + 1) me in
      tb.par.(me) <- parent; tb.lc.(me) <- lr; tb.rc.(me) <- rr; tb.tlo.(me) <- lo; tb.thi.(me) <- hi;
      (me, hi) in
  ignore (go t 0 (-1)); tb

type sm = { mutable l : int array; sregs : st array; last : string array; mutable sused : int;
            cf : int -> int -> int; sbig : bool; tbl : rank_tbl option }

let sm_reset m = Array.fill m.sregs 0 4 Inv; Array.fill m.last 0 4 ""; m.sused <- 0

(* one register op and the implementation's item for it *)
let sm_op (m : sm) op it =
  let l = m.l and cf = m.cf and regs = m.sregs and last = m.last in
  let n = Array.length l in
  let ints x = if m.sbig then fmt_ints x else str_ints x in
  let index k = let r = ref (-1) in Array.iteri (fun j x -> if x = k then r := j) l; !r in
  let find_equiv k = let r = ref (-1) in Array.iteri (fun j x -> if cf k x = 0 then r := j) l; !r in
  let touch r = if r + 1 > m.sused then m.sused <- r + 1 in
  let fail r op msg = raise (Fail (Printf.sprintf "op %s reg %d: %s" op r msg)) in
  (* check one observation against the abstract state, learning range ends from HasLeft/HasRight *)
  let check r op o =
    match String.split_on_char ':' o with
    | [path; key; bits] when String.length bits = 6 ->
      (match regs.(r) with
       | Inv ->
         if bits <> "000000" then fail r op "an invalid cursor reports Valid or a Has* flag";
         if key <> "0" then fail r op "an invalid cursor reports a non-zero key";
         if path <> "nil" && path <> "-" then fail r op "an invalid cursor has a non-empty path"
       | At a ->
         if bits.[0] <> '1' then fail r op "cursor should be valid";
         if int_of_string key <> l.(a.i) then fail r op (Printf.sprintf "key %s, expected %d (index %d)" key l.(a.i) a.i);
         if (bits.[1] = '1') <> (a.i + 1 < n) then fail r op "HasNext wrong";
         if (bits.[2] = '1') <> (a.i > 0) then fail r op "HasPrev wrong";
         if String.length path = 0 || path.[0] <> '^' || String.contains path '?' then fail r op ("path left the tree: " ^ path);
         if (bits.[5] = '1') <> (String.length path > 1) then fail r op "HasParent disagrees with the path";
         let lo = if bits.[3] = '0' then (match a.lo with Some x when x <> a.i -> fail r op "HasLeft false but the subtree starts earlier" | _ -> Some a.i)
                  else (match a.lo with Some x when x >= a.i -> fail r op "HasLeft true but nothing smaller in the subtree" | v -> v) in
         let hi = if bits.[4] = '0' then (match a.hi with Some x when x <> a.i + 1 -> fail r op "HasRight false but the subtree ends later" | _ -> Some (a.i + 1))
                  else (match a.hi with Some x when x <= a.i + 1 -> fail r op "HasRight true but nothing larger in the subtree" | v -> v) in
         (match lo, hi with
          | Some x, Some y -> if (bits.[5] = '1') = (x = 0 && y = n) then fail r op "HasParent wrong for the subtree's range"
          | _ -> ());
         regs.(r) <- At { a with lo; hi; bits })
    | _ -> fail r op ("bad observation " ^ o) in
  let key_index r op o =
    match String.split_on_char ':' o with
    | [_; key; bits] when String.length bits = 6 && bits.[0] = '1' ->
      let j = index (int_of_string key) in if j < 0 then fail r op "key not in the tree" else j
    | _ -> fail r op "cursor should be valid" in
  (* a printed key list: its length and first key (the list itself is compared through its printed form) *)
  let list_head r op txt =
    if String.length txt > 0 && txt.[0] = '#' then
      (match String.split_on_char '~' (String.sub txt 1 (String.length txt - 1)) with
       | [len; first; _; _] -> (int_of_string len, int_of_string first)
       | _ -> fail r op "bad key list")
    else (match ints_of txt with [] -> (0, 0) | x :: _ as ks -> (List.length ks, x)) in
  if String.length it >= 5 && String.sub it 0 5 = "panic" then raise (Fail ("panic at " ^ op));
  if it = "hang" then raise (Fail ("hang at " ^ op));
  let r = reg_of op in
  let c = op.[0] in
  if c <> 'G' then touch r;
  (match c with
   | 'G' ->
     (* Tree.Get(k): the stored key equivalent to k and true, or the zero key and false *)
     let k = int_of_string (String.sub op 3 (String.length op - 3)) in
     let j = find_equiv k in
     let want = if j < 0 then "g:0,0" else "g:" ^ string_of_int l.(j) ^ ",1" in
     if it <> want then fail r op (Printf.sprintf "Get: got %s, the key list gives %s" it want)
   | 'i' | 'j' ->
     if String.length it < 2 || String.sub it 0 2 <> "i:" then fail r op "bad item";
     let txt = String.sub it 2 (String.length it - 2) in
     let (mlen, first) = list_head r op txt in
     (match regs.(r) with
      | Inv -> if mlen <> 0 then fail r op "Inorder of an invalid cursor yields keys"
      | At a ->
        if mlen = 0 then fail r op "Inorder of a valid cursor yields nothing";
        let s = index first in
        if s < 0 || s + mlen > n || txt <> ints (Array.to_list (Array.sub l s mlen)) then fail r op "Inorder is not a run of consecutive keys of the tree";
        (match a.lo with Some x when x <> s -> fail r op "Inorder does not start at the least key of the subtree" | _ -> ());
        if c = 'i' then begin
          if not (s <= a.i && a.i < s + mlen) then fail r op "Inorder does not contain the cursor's key";
          (match a.hi with Some y when y <> s + mlen -> fail r op "Inorder does not end at the greatest key of the subtree" | _ -> ());
          regs.(r) <- At { a with lo = Some s; hi = Some (s + mlen) }
        end else begin
          let bang = op.[String.length op - 1] = '!' in
          let lim = int_of_string (String.sub op 3 (String.length op - 3 - (if bang then 1 else 0))) in
          if mlen > lim then fail r op "Inorder went on after yield returned false";
          (match a.hi with Some y when mlen <> min lim (y - s) -> fail r op "stopped Inorder has the wrong length" | _ -> ());
          if mlen < lim then begin
            if not (s <= a.i && a.i < s + mlen) then fail r op "Inorder does not contain the cursor's key";
            regs.(r) <- At { a with lo = Some s; hi = Some (s + mlen) }
          end else regs.(r) <- At { a with lo = Some s }
        end)
   | 'y' | 't' | 'z' ->
     (* round 5: every traversal is the ascending run of the keys of the subtree its cursor was at when it
        started (ranks of the recorded shape), whatever else happens while it is suspended; the moves
        from inside the loop body are followed on the ranks as in a compound walk *)
     let tb = match m.tbl with Some tb -> tb | None -> fail r op "the line has no shape" in
     let range i = if i < 0 then [] else Array.to_list (Array.sub l tb.tlo.(i) (tb.thi.(i) - tb.tlo.(i))) in
     let pos_of q = match regs.(q) with Inv -> -1 | At a -> a.i in
     let sim (pos : int ref) seq (want : Buffer.t) =
       String.iter (fun ch ->
         let i = !pos in
         match ch with
         | 'h' -> Buffer.add_string want (b01 (i >= 0 && i + 1 < n))
         | 'H' -> Buffer.add_string want (b01 (i > 0))
         | 'v' -> Buffer.add_string want (b01 (i >= 0))
         | 'k' -> Buffer.add_string want ("(" ^ string_of_int (if i >= 0 then l.(i) else 0) ^ ")")
         | 'i' -> Buffer.add_string want ("[" ^ str_ints (range i) ^ "]")
         | '1' .. '9' -> Buffer.add_string want ("[" ^ str_ints (take_n (Char.code ch - 48) (range i)) ^ "]")
         | _ when i < 0 -> ()
         | 'n' -> pos := if i + 1 < n then i + 1 else -1
         | 'p' -> pos := i - 1
         | 'l' -> pos := tb.lc.(i)
         | 'r' -> pos := tb.rc.(i)
         | 'u' -> pos := tb.par.(i)
         | 'm' -> pos := tb.tlo.(i)
         | 'x' -> pos := tb.thi.(i) - 1
         | _ -> fail r op "bad op") seq in
     let settle moved obs_txt =
       let obs = Array.of_list (String.split_on_char '/' obs_txt) in
       if Array.length obs <> m.sused then fail r op "wrong number of registers";
       Array.iteri (fun q o -> if not (List.mem_assoc q moved) && last.(q) <> "" && o <> last.(q) then
         fail q op "a cursor changed although only another one was used") obs;
       List.iter (fun (q, p) ->
         regs.(q) <- (if p < 0 then Inv else At { i = p; lo = Some tb.tlo.(p); hi = Some tb.thi.(p); bits = "" });
         check q op obs.(q)) moved;
       Array.iteri (fun q o -> last.(q) <- o) obs in
     let parts = String.split_on_char '=' it in
     (match c, String.split_on_char ':' op, parts with
      | 'y', [_; lim; every; seq], [answers; obs_txt; outer] when String.length answers >= 1 && answers.[0] = 'z' ->
        let s = (match reg_ch op.[2] with Some s -> s | None -> fail r op "bad register") in
        touch s;
        let lim = int_of_string lim and every = int_of_string every in
        let all = range (pos_of r) in
        let want_outer = if lim = 0 then all else take_n lim all in
        if outer <> str_ints want_outer then
          fail r op (Printf.sprintf "Inorder delivers %s while the cursor is used from the loop body; the subtree it started at holds %s" outer (str_ints want_outer));
        let pos = ref (pos_of s) and want = Buffer.create 64 in
        List.iteri (fun j _ -> if j mod every = 0 then begin Buffer.add_char want '_'; sim pos seq want end) want_outer;
        let answers = String.sub answers 1 (String.length answers - 1) in
        if answers <> Buffer.contents want then
          fail s op (Printf.sprintf "inside the loop body the cursor answers %s, the ranks of the shape give %s" answers (Buffer.contents want));
        settle [(s, !pos)] obs_txt
      | 't', [_; lim; seq], [answers; obs_txt; outer] when String.length answers >= 1 && answers.[0] = 'z' ->
        let lim = int_of_string lim in
        let all = Array.to_list l in
        let want_outer = if lim = 0 then all else take_n lim all in
        if outer <> str_ints want_outer then fail r op (Printf.sprintf "Tree.Inorder delivers %s while cursors are taken from the loop body, the tree holds %s" outer (str_ints all));
        let pos = ref (pos_of r) and want = Buffer.create 64 in
        List.iteri (fun j _ -> Buffer.add_char want '_'; pos := j; sim pos seq want) want_outer;
        let answers = String.sub answers 1 (String.length answers - 1) in
        if answers <> Buffer.contents want then
          fail r op (Printf.sprintf "cursors taken inside the loop body answer %s, the ranks of the shape give %s" answers (Buffer.contents want));
        settle [(r, !pos)] obs_txt
      | 'z', _, [lists; obs_txt] when String.length lists >= 1 && lists.[0] = 'Z' && String.length op >= 4 ->
        let b = (match reg_ch op.[2] with Some b -> b | None -> fail r op "bad register") in
        touch b;
        let qs = [| r; b |] in
        let started = [| None; None |] and pulls = [| 0; 0 |] in
        let pos = ref (pos_of r) in
        let cur q = if q = r then !pos else pos_of q in
        String.iter (fun ch ->
          if ch = 'a' || ch = 'b' then begin
            let i = Char.code ch - 97 in
            if started.(i) = None then started.(i) <- Some (range (cur qs.(i)));
            pulls.(i) <- pulls.(i) + 1
          end else sim pos (String.make 1 ch) (Buffer.create 1)) (String.sub op 4 (String.length op - 4));
        let part i = match started.(i) with
          | None -> "."
          | Some ks -> str_ints (take_n pulls.(i) ks) ^ (if pulls.(i) > List.length ks then "$" else "") in
        let want = "Z" ^ part 0 ^ "/" ^ part 1 in
        if lists <> want then
          fail r op (Printf.sprintf "two traversals alive together deliver %s, each alone delivers %s" lists want);
        settle [(r, !pos)] obs_txt
      | _ -> fail r op "bad item")
   | 'w' ->
     (* moves with nothing observed in between: followed on the ranks of the recorded shape (an
        independent reading of the moves: Next/Prev rank +-1, Left/Right/Up the child/parent rank,
        Min/Max the ends of the subtree's range; invalid stays invalid) *)
     let seq = if String.length op >= 4 && op.[2] = ':' then String.sub op 3 (String.length op - 3) else fail r op "bad compound op" in
     let (answers, obs_txt) =
       if String.length it > 0 && it.[0] = 'y' then
         (match String.index_opt it '=' with
          | Some i -> (String.sub it 1 (i - 1), String.sub it (i + 1) (String.length it - i - 1))
          | None -> fail r op "bad item")
       else fail r op "bad item" in
     let pos = ref (match regs.(r) with Inv -> -1 | At a -> a.i) in
     let want = Buffer.create 16 in
     let need_tbl () = match m.tbl with Some tb -> tb | None -> fail r op "a compound move through the shape, but the line has no shape" in
     String.iter (fun ch ->
       let i = !pos in
       match ch with
       | 'h' -> Buffer.add_string want (b01 (i >= 0 && i + 1 < n))
       | 'H' -> Buffer.add_string want (b01 (i > 0))
       | 'v' -> Buffer.add_string want (b01 (i >= 0))
       | 'k' -> Buffer.add_string want ("(" ^ string_of_int (if i >= 0 then l.(i) else 0) ^ ")")
       | _ when i < 0 -> ()
       | 'n' -> pos := if i + 1 < n then i + 1 else -1
       | 'p' -> pos := i - 1
       | 'l' -> pos := (need_tbl ()).lc.(i)
       | 'r' -> pos := (need_tbl ()).rc.(i)
       | 'u' -> pos := (need_tbl ()).par.(i)
       | 'm' -> pos := (need_tbl ()).tlo.(i)
       | 'x' -> pos := (need_tbl ()).thi.(i) - 1
       | _ -> fail r op "bad compound op") seq;
     if answers <> Buffer.contents want then fail r op (Printf.sprintf "answers inside the walk are %s, the ranks give %s" answers (Buffer.contents want));
     let obs = Array.of_list (String.split_on_char '/' obs_txt) in
     if Array.length obs <> m.sused then fail r op "wrong number of registers";
     Array.iteri (fun q o -> if q <> r && last.(q) <> "" && o <> last.(q) then fail q op "a cursor changed although another one was moved") obs;
     regs.(r) <- (if !pos < 0 then Inv
                  else match m.tbl with
                    | Some tb -> At { i = !pos; lo = Some tb.tlo.(!pos); hi = Some tb.thi.(!pos); bits = "" }
                    | None -> At { i = !pos; lo = None; hi = None; bits = "" });
     check r op obs.(r);
     Array.iteri (fun q o -> last.(q) <- o) obs
   | 'N' | 'P' ->
     (match String.split_on_char ':' it with
      | ["s"; ks; v] ->
        if v <> "0" then fail r op "still valid after Len+2 steps";
        let want = match regs.(r) with
          | Inv -> []
          | At a -> if c = 'N' then Array.to_list (Array.sub l a.i (n - a.i))
                    else List.rev (Array.to_list (Array.sub l 0 (a.i + 1))) in
        if ks <> ints want then fail r op "sweep does not visit exactly the keys from the cursor to the end in order";
        regs.(r) <- Inv;
        last.(r) <- ""            (* the sweep moved this register; its state is printed by the next op *)
      | _ -> fail r op "bad item")
   | _ ->
     let bang = String.length it > 0 && it.[String.length it - 1] = '!' in
     if bang then fail r op "the method did not return its receiver";
     let obs = Array.of_list (String.split_on_char '/' it) in
     let target = if c = 'C' then Char.code op.[2] - 48 else r in
     if target < 0 || target > 3 then fail r op "bad register";
     touch target;
     if Array.length obs <> m.sused then fail r op "wrong number of registers";
     (* a move of one cursor leaves every other cursor (clones included) where it was *)
     Array.iteri (fun q o -> if q <> target && last.(q) <> "" && o <> last.(q) then fail q op "a cursor changed although another one was moved") obs;
     let o = obs.(target) in
     let prev = regs.(target) in
     let idx () = key_index target op o in
     let nxt =
       match c, prev with
       | 'K', _ ->
         let k = int_of_string (String.sub op 3 (String.length op - 3)) in
         let j = find_equiv k in
         if j < 0 then (if String.length o < 3 || String.sub o 0 3 <> "nil" then fail r op "Cursor(absent key) is not nil"; Inv)
         else At { i = j; lo = None; hi = None; bits = "" }
       | 'O', _ -> if n = 0 then (if String.length o < 3 || String.sub o 0 3 <> "nil" then fail r op "Root of an empty tree is not nil"; Inv)
                   else At { i = idx (); lo = Some 0; hi = Some n; bits = "" }
       | ('Z' | 'E'), _ -> Inv
       | 'C', _ -> regs.(r)
       | _, Inv -> Inv
       | 'n', At a -> if a.i + 1 < n then At { i = a.i + 1; lo = None; hi = None; bits = "" } else Inv
       | 'p', At a -> if a.i > 0 then At { i = a.i - 1; lo = None; hi = None; bits = "" } else Inv
       | 'l', At a ->
         if a.bits.[3] = '1' then begin
           let j = idx () in
           if j >= a.i then fail r op "Left moved to a key that is not smaller";
           (match a.lo with Some x when j < x -> fail r op "Left left the subtree" | _ -> ());
           At { i = j; lo = a.lo; hi = Some a.i; bits = "" }
         end else Inv
       | 'r', At a ->
         if a.bits.[4] = '1' then begin
           let j = idx () in
           if j <= a.i then fail r op "Right moved to a key that is not larger";
           (match a.hi with Some y when j >= y -> fail r op "Right left the subtree" | _ -> ());
           At { i = j; lo = Some (a.i + 1); hi = a.hi; bits = "" }
         end else Inv
       | 'u', At a ->
         if a.bits.[5] = '1' then begin
           let j = idx () in
           if j = a.i then fail r op "Up did not move";
           (match a.lo, a.hi with
            | Some x, Some y -> if j <> y && j <> x - 1 then fail r op "Up did not reach the key adjacent to the subtree's range"
            | Some x, None -> if j < a.i && j <> x - 1 then fail r op "Up reached a smaller key that is not the one just below the subtree"
            | None, Some y -> if j > a.i && j <> y then fail r op "Up reached a larger key that is not the one just above the subtree"
            | None, None -> ());
           At { i = j; lo = (if j > a.i then a.lo else None); hi = (if j < a.i then a.hi else None); bits = "" }
         end else Inv
       | 'm', At a ->
         let j = idx () in
         if j > a.i then fail r op "Min moved to a larger key";
         (match a.lo with Some x when j <> x -> fail r op "Min is not the least key of the subtree" | _ -> ());
         At { i = j; lo = Some j; hi = None; bits = "" }
       | 'x', At a ->
         let j = idx () in
         if j < a.i then fail r op "Max moved to a smaller key";
         (match a.hi with Some y when j + 1 <> y -> fail r op "Max is not the greatest key of the subtree" | _ -> ());
         At { i = j; lo = None; hi = Some (j + 1); bits = "" }
       | _ -> fail r op "unknown op" in
     regs.(target) <- nxt;
     check target op o;
     Array.iteri (fun q o -> last.(q) <- o) obs)

let sm_run m ops items =
  let rec go ops items =
    match ops, items with
    | [], [] -> ()
    | [], it :: _ -> raise (Fail ("extra output " ^ it))
    | op :: _, [] -> raise (Fail ("no output for " ^ op))
    | op :: ops', it :: items' -> sm_op m op it; go ops' items' in
  go ops items

(* ---- B lines.  The reference is the set of keys the macro operations leave (plain OCaml, from the
   arithmetic of the line alone); after a removal in real-depth order (s/p) only its size is known
   until a probe prints the keys in full.  Of a probe item the reference decides: n, keys, nv, fb,
   dkey, nget, dget, dabs, dnext, dprev, dkeep, nroot, nfwd, dfwd, nbwd, dbwd; the identities
   sup = sd, sino = sspan = sd + n tie the cursor walks to the depths read by the hook; the
   remaining digests (dd, dfl, dpath, dup, dmin, dmax, dino) are shape-dependent and are compared
   with the model's only (correspondence). *)
let spec_big cs ops out =
  let cf = cmp_of cs in
  let module S = Set.Make (struct type t = int let compare a b = let c = cf a b in if c < 0 then -1 else if c > 0 then 1 else 0 end) in
  (* one reference per tree slot: the key set (None: unknown until a probe prints it), its size (-1: unknown)
     and the register machine over it; a Clone copies the reference of its source, an edit changes only
     the reference of the current slot *)
  let new_sm () = { l = [||]; sregs = Array.make 4 Inv; last = Array.make 4 ""; sused = 0; cf; sbig = true; tbl = None } in
  let slots = Array.init n_slots (fun _ -> (ref (Some S.empty), ref 0, ref (new_sm ()))) in
  let live = Array.make n_slots false in
  live.(0) <- true;
  let cur = ref 0 in
  let failop op msg = raise (Fail (Printf.sprintf "op %s: %s" op msg)) in
  let rec go ops items =
    match ops, items with
    | [], [] -> ()
    | [], it :: _ -> raise (Fail ("extra output " ^ it))
    | op :: _, [] -> raise (Fail ("no output for " ^ op))
    | op :: ops', it :: items' ->
      if String.length it >= 5 && String.sub it 0 5 = "panic" then raise (Fail ("panic at " ^ op));
      if it = "hang" then raise (Fail ("hang at " ^ op));
      let (known, card, mref) = slots.(!cur) in
      let m = !mref in
      let sync () = match !known with Some s -> m.l <- Array.of_list (S.elements s) | None -> m.l <- [||] in
      (* the keys not below k, ascending: what InorderAfter(k) must yield *)
      let from_key s k = List.filter (fun x -> cf x k >= 0) (S.elements s) in
      let first_n lim l = if lim = 0 then l else take lim l in
      (match parse_macro op with
       | MBad -> ()
       | MEdit (c, k) ->
         sm_reset m;
         (match !known with
          | Some s ->
            let present = S.mem k s in
            let (want, s') = match c with
              | '+' -> (not present, if present then s else S.add k s)
              | '=' -> (not present, S.add k (S.remove k s))         (* the stored key becomes k itself *)
              | _ -> (present, S.remove k s) in
            known := Some s'; card := S.cardinal s'; sync ();
            if it <> "e" ^ b01 want then
              failop op (Printf.sprintf "returned %s, the key is %s in the reference" it (if present then "present" else "absent"))
          | None -> card := -1)
       | MClear ->
         sm_reset m; known := Some S.empty; card := 0; sync ();
         if it <> "e-" then failop op "bad item"
       | MClone (a, b) ->
         if live.(a) then begin
           let (ka, ca, _) = slots.(a) in
           let nm = new_sm () in
           slots.(b) <- (ref !ka, ref !ca, ref nm);
           live.(b) <- true;
           (match !ka with Some s -> nm.l <- Array.of_list (S.elements s) | None -> ());
           if !ca >= 0 && it <> "y" ^ string_of_int !ca then failop op (Printf.sprintf "the clone has Len %s, the original holds %d keys" it !ca)
         end
       | MSlot a -> if live.(a) then cur := a
       | MAfter (k, lim) ->
         (match !known with
          | Some s ->
            let want = "f:" ^ fmt_ints (first_n lim (from_key s k)) in
            if it <> want then failop op (Printf.sprintf "InorderAfter yields %s, the keys of the tree not below %d are %s" it k want)
          | None -> ())
       | MInorder lim ->
         (match !known with
          | Some s ->
            let want = "f:" ^ fmt_ints (first_n lim (S.elements s)) in
            if it <> want then failop op (Printf.sprintf "Tree.Inorder yields %s, the keys of the tree are %s" it want)
          | None -> ())
       | MMin | MMax ->
         (match !known with
          | Some s ->
            let want = "v:" ^ string_of_int (if S.is_empty s then 0 else if parse_macro op = MMin then S.min_elt s else S.max_elt s) in
            if it <> want then failop op (Printf.sprintf "Tree.Min/Max is %s, the reference gives %s" it want)
          | None -> ())
       | MFuse -> if it <> "x" then failop op "bad item"
       | MLen ->
         if !card >= 0 && it <> Printf.sprintf "l:%d,%s" !card (b01 (!card = 0)) then
           failop op (Printf.sprintf "Len/IsEmpty are %s, the reference holds %d keys" it !card)
       | MA (pat, lo, n, step, seed) ->
         sm_reset m;
         (match !known with
          | Some s ->
            let s = ref s and cnt = ref 0 in
            List.iter (fun k -> if not (S.mem k !s) then begin s := S.add k !s; incr cnt end) (add_keys pat lo n step seed);
            known := Some !s; card := S.cardinal !s; sync ();
            if it <> "a" ^ string_of_int !cnt then failop op (Printf.sprintf "Add reported %s, %d of the keys are new" it !cnt)
          | None ->
            (* size unknown from here until the next probe *)
            card := -1)
       | MR (ord, keep, seed) ->
         sm_reset m;
         if !card >= 0 then begin
           let len = !card in
           let mrem = if keep < 0 then 0 else max 0 (len - keep) in
           if it <> "r" ^ string_of_int mrem then failop op (Printf.sprintf "Remove reported %s for %d distinct present keys" it mrem);
           card := len - mrem;
           (match !known with
            | Some s when mrem > 0 ->
              if ord = 's' || ord = 'p' || ord = 'P' then known := None
              else begin
                let keys = Array.of_list (S.elements s) in
                let idx = removal_idx ord len keep seed (fun _ -> [||]) in
                known := Some (List.fold_left (fun s j -> S.remove keys.(j) s) s idx)
              end
            | _ -> ());
           sync ()
         end
       | MQ sw ->
         let f = match String.split_on_char '/' it with
           | "q" :: fs -> List.filter_map (fun x -> match String.index_opt x '=' with
               | Some i -> Some (String.sub x 0 i, String.sub x (i + 1) (String.length x - i - 1)) | None -> None) fs
           | _ -> failop op "bad probe item" in
         let get k = try List.assoc k f with Not_found -> failop op ("probe item without " ^ k) in
         let geti k = try int_of_string (get k) with Failure _ -> failop op ("bad number in " ^ k) in
         let n = geti "n" in
         if !card >= 0 && n <> !card then failop op (Printf.sprintf "Len is %d, the reference holds %d keys" n !card);
         card := n;
         let keys_txt = get "keys" in
         (* the key list: in full, or length/first/last/digest *)
         let dk =
           if String.length keys_txt > 0 && keys_txt.[0] = '#' then begin
             match String.split_on_char '~' (String.sub keys_txt 1 (String.length keys_txt - 1)) with
             | [len; _; _; dg] ->
               if int_of_string len <> n then failop op "Tree.Inorder yields a number of keys other than Len";
               (match !known with
                | Some s -> if keys_txt <> fmt_ints (S.elements s) then failop op "Tree.Inorder differs from the reference key set"
                | None -> ());
               dg
             | _ -> failop op "bad key list"
           end else begin
             let ks = ints_of keys_txt in
             if List.length ks <> n then failop op "Tree.Inorder yields a number of keys other than Len";
             let rec asc = function a :: (b :: _ as r) -> cf a b < 0 && asc r | _ -> true in
             if not (asc ks) then failop op "Tree.Inorder not strictly ascending";
             (match !known with
              | Some s -> if ks <> S.elements s then failop op "Tree.Inorder differs from the reference key set"
              | None -> known := Some (S.of_list ks); sync ());
             digest_of ks
           end in
         if get "fb" <> "-" then failop op (Printf.sprintf "Tree.Cursor(%s) is not a valid cursor at that key although Tree.Inorder lists the key" (get "fb"));
         let want_n k what = if geti k <> n then failop op (Printf.sprintf "%s: %d of %d keys" what (geti k) n) in
         want_n "nv" "Tree.Cursor(key) valid";
         want_n "nget" "Tree.Get(key) found";
         want_n "nroot" "Up while HasParent ends at Root().Key()";
         want_n "nfwd" "Root().Min() then Next visits";
         want_n "nbwd" "Root().Max() then Prev visits";
         let want_dk k what = if get k <> dk then failop op (what ^ " differ from Tree.Inorder") in
         want_dk "dkey" "the keys of Tree.Cursor(key)";
         want_dk "dget" "the keys Tree.Get returns";
         want_dk "dkeep" "the keys of the cursors after their clones moved";
         want_dk "dfwd" "the keys of the forward sweep";
         want_dk "dbwd" "the keys of the backward sweep";
         let sd = geti "sd" in
         if geti "sup" <> sd then failop op "the Up steps to the root do not add up to the depths of the nodes";
         if geti "sino" <> sd + n then failop op "the sizes of the cursors' Inorder do not add up to the sizes of the subtrees (sum of depths + n)";
         if geti "sspan" <> sd + n then failop op "the ranges Min..Max of the cursors do not add up to the sizes of the subtrees";
         if n > 0 && geti "maxd" >= n then failop op "depth beyond the number of keys";
         (match !known with
          | Some s ->
            let keys = Array.of_list (S.elements s) in
            if n > 0 && not (S.mem (geti "root") s) then failop op "Root().Key() is not a key of the tree";
            let dabs = dnew () and dnext = dnew () and dprev = dnew () and dzig = dnew () in
            Array.iteri (fun i k ->
              dadd dabs (match S.find_opt (k + 1) s with Some x -> x | None -> -1);
              for j = 1 to sw do dadd dnext (if i + j < n then keys.(i + j) else -1) done;
              for j = 1 to sw do dadd dprev (if i - j >= 0 then keys.(i - j) else -1) done;
              let pos = ref i in
              String.iter (fun ch ->
                if !pos >= 0 then pos := (if ch = 'n' then (if !pos + 1 < n then !pos + 1 else -1) else !pos - 1);
                dadd dzig (if !pos >= 0 then keys.(!pos) else -1)) zigzag) keys;
            if get "dzig" <> dstr dzig then failop op "a walk Next,Prev,Prev,Prev,Next,Next,Prev,Next from some key does not visit the neighbouring keys";
            if get "dabs" <> dstr dabs then failop op "Tree.Cursor(key+1) is not the cursor of that key / nil for an absent key";
            if get "dnext" <> dstr dnext then failop op "Next from some key does not visit the following keys in order";
            if get "dprev" <> dstr dprev then failop op "Prev from some key does not visit the preceding keys in order"
          | None -> ())
       | MPrim ->
         (match !known with
          | Some _ -> sm_op m op it
          | None -> ()));
      go ops' items' in
  (try go ops (split_on ';' out); None with Fail s -> Some s)

let spec prop inp out =
  if prop <> "C03" then None else
  match words inp with
  | ["B"; cs; _beta; ops] -> spec_big cs (split_on ';' ops) out
  | "W" :: cs :: _build :: shape :: rest ->
    let ops = match rest with [o] -> split_on ';' o | _ -> [] in
    let cf = cmp_of cs in
    (try
      let items = split_on ';' out in
      let (hd, items) = match items with h :: r -> (h, r) | [] -> raise (Fail "no output") in
      if String.length hd < 2 || String.sub hd 0 2 <> "t:" then raise (Fail ("tree not as recorded: " ^ hd));
      let l = Array.of_list (ints_of (String.sub hd 2 (String.length hd - 2))) in
      let n = Array.length l in
      for k = 0 to n - 2 do if cf l.(k) l.(k+1) >= 0 then raise (Fail "Tree.Inorder not strictly ascending") done;
      if Array.to_list l <> ml_inorder (parse_shape shape) then raise (Fail "shape read from the nodes disagrees with Tree.Inorder");
      let m = { l; sregs = Array.make 4 Inv; last = Array.make 4 ""; sused = 0; cf; sbig = false; tbl = Some (rank_table (parse_shape shape)) } in
      sm_run m ops items; None
    with Fail s -> Some s)
  | _ -> None

let () = run_main ~eval ~spec
