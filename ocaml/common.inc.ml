(* Shared glue, textually appended after `module M = struct <extracted model> end`.
   Conversions between OCaml ints/strings and the extracted Coq datatypes (which stay Coq
   datatypes: nat, positive, N, Z), the trace-line syntax, and the main loop. *)

let rec pos_of_int n = if n <= 1 then M.XH else if n land 1 = 0 then M.XO (pos_of_int (n lsr 1)) else M.XI (pos_of_int (n lsr 1))
let n_of_int n = if n = 0 then M.N0 else M.Npos (pos_of_int n)
let z_of_int n = if n = 0 then M.Z0 else if n > 0 then M.Zpos (pos_of_int n) else M.Zneg (pos_of_int (-n))
let rec int_of_pos = function M.XH -> 1 | M.XO p -> 2 * int_of_pos p | M.XI p -> 2 * int_of_pos p + 1
let int_of_n = function M.N0 -> 0 | M.Npos p -> int_of_pos p
let int_of_z = function M.Z0 -> 0 | M.Zpos p -> int_of_pos p | M.Zneg p -> - (int_of_pos p)
let rec nat_of_int n = if n <= 0 then M.O else M.S (nat_of_int (n - 1))
let int_of_nat n = let rec go acc = function M.O -> acc | M.S m -> go (acc + 1) m in go 0 n

(* arbitrary-size decimal <-> Z, for values beyond OCaml's 63-bit ints *)
let z_of_string s =
  let neg = String.length s > 0 && s.[0] = '-' in
  let digits = if neg then String.sub s 1 (String.length s - 1) else s in
  if String.length digits <= 17 then z_of_int (int_of_string s) else begin
    (* Horner in Z using extracted arithmetic would need Z.add/Z.mul; build bits by repeated division of the decimal string *)
    let d = Array.init (String.length digits) (fun i -> Char.code digits.[i] - 48) in
    let len = Array.length d in
    let is_zero () = Array.for_all (fun x -> x = 0) d in
    let bits = ref [] in
    while not (is_zero ()) do
      let carry = ref 0 in
      for i = 0 to len - 1 do
        let v = !carry * 10 + d.(i) in
        d.(i) <- v / 2; carry := v mod 2
      done;
      bits := !carry :: !bits
    done;
    (* bits: most significant first *)
    let rec build acc = function
      | [] -> acc
      | b :: r -> build (match acc with None -> if b = 1 then Some M.XH else None
                                       | Some p -> Some (if b = 1 then M.XI p else M.XO p)) r in
    match build None !bits with
    | None -> M.Z0
    | Some p -> if neg then M.Zneg p else M.Zpos p
  end

let string_of_pos p =
  (* decimal string of a positive of any size: double-and-add on a decimal digit array *)
  let rec bits acc = function M.XH -> 1 :: acc | M.XO q -> bits (0 :: acc) q | M.XI q -> bits (1 :: acc) q in
  let bs = bits [] p in (* most significant first *)
  let digits = ref [0] in (* least significant first *)
  List.iter (fun b ->
    let carry = ref b in
    digits := List.map (fun d -> let v = 2 * d + !carry in carry := v / 10; v mod 10) !digits;
    if !carry > 0 then digits := !digits @ [!carry]) bs;
  String.concat "" (List.rev_map string_of_int !digits)
let string_of_z = function M.Z0 -> "0" | M.Zpos p -> string_of_pos p | M.Zneg p -> "-" ^ string_of_pos p
let string_of_n = function M.N0 -> "0" | M.Npos p -> string_of_pos p
let n_of_string s = match z_of_string s with M.Z0 -> M.N0 | M.Zpos p -> M.Npos p | M.Zneg _ -> failwith "negative N"

let unhex s =
  if s = "-" then [] else
  let n = String.length s / 2 in
  List.init n (fun i -> n_of_int (int_of_string ("0x" ^ String.sub s (2*i) 2)))
let hex l = if l = [] then "-" else String.concat "" (List.map (fun b -> Printf.sprintf "%02x" (int_of_n b)) l)
let unhexs s = if s = "." then [] else List.map unhex (String.split_on_char ',' s)
let hexs l = if l = [] then "." else String.concat "," (List.map hex l)
let ints_of s = if s = "." || s = "" then [] else List.map int_of_string (String.split_on_char ',' s)
let zs_of s = List.map z_of_int (ints_of s)
let str_ints l = if l = [] then "." else String.concat "," (List.map string_of_int l)
let str_zs l = str_ints (List.map int_of_z l)
let b01 b = if b then "1" else "0"
let words s = List.filter (fun x -> x <> "") (String.split_on_char ' ' s)

let split_line line =
  (* "input | output" *)
  let n = String.length line in
  let rec find i = if i + 2 >= n then None else if line.[i] = ' ' && line.[i+1] = '|' && line.[i+2] = ' ' then Some i else find (i + 1) in
  match find 0 with
  | Some i -> (String.sub line 0 i, String.sub line (i + 3) (n - i - 3))
  | None -> if n >= 2 && String.sub line (n - 2) 2 = " |" then (String.sub line 0 (n - 2), "") else (line, "")

(* eval  : input -> the model's prediction of the implementation's output
   spec  : prop -> input -> impl output -> Some reason when the property itself fails on the
           implementation's output (independent of the model) *)
let run_main ~(eval : string -> string) ~(spec : string -> string -> string -> string option) =
  let prop = ref "" and files = ref [] and maxrep = ref 20 in
  let args = Array.to_list Sys.argv |> List.tl in
  let rec parse = function
    | "--prop" :: p :: r -> prop := p; parse r
    | "--max-report" :: n :: r -> maxrep := int_of_string n; parse r
    | f :: r -> files := f :: !files; parse r
    | [] -> () in
  parse args;
  let cases = ref 0 and mism = ref 0 and sfail = ref 0 and kfail = ref 0 and ufail = ref 0 in
  let known_seen : (string, int) Hashtbl.t = Hashtbl.create 8 in
  (* a failure is attributed to a known finding when its reason carries " known=<id>" *)
  let known_id reason =
    let key = " known=" in
    let n = String.length reason and k = String.length key in
    let rec find i = if i + k > n then None else if String.sub reason i k = key then Some (i + k) else find (i + 1) in
    match find 0 with
    | None -> None
    | Some j -> let e = (try String.index_from reason j ' ' with Not_found -> n) in Some (String.sub reason j (e - j)) in
  let kinds = Hashtbl.create 16 in
  List.iter (fun file ->
    let ic = open_in file in
    let ln = ref 0 in
    (try while true do
      let line = input_line ic in
      incr ln;
      if line <> "" && line.[0] <> '#' then begin
        incr cases;
        let (inp, out) = split_line line in
        let kind = match String.index_opt inp ' ' with Some i -> String.sub inp 0 i | None -> inp in
        Hashtbl.replace kinds kind (1 + (try Hashtbl.find kinds kind with Not_found -> 0));
        let m = try eval inp with Stack_overflow -> "EXC:stack" | e -> "EXC:" ^ Printexc.to_string e in
        if m <> out then begin
          incr mism;
          if !mism <= !maxrep then Printf.printf "MISMATCH file=%s line=%d input=%s impl=%s model=%s\n" file !ln inp out m
        end;
        (match (try spec !prop inp out with e -> Some ("EXC:" ^ Printexc.to_string e)) with
         | Some reason ->
           incr sfail;
           (* untagged failures are never crowded out by tagged ones: each known finding is printed
              at most three times, every other failure up to the report limit; all are counted *)
           (match known_id reason with
            | Some id ->
              incr kfail;
              let c = 1 + (try Hashtbl.find known_seen id with Not_found -> 0) in
              Hashtbl.replace known_seen id c;
              if c <= 3 then Printf.printf "SPECFAIL file=%s line=%d input=%s impl=%s reason=%s\n" file !ln inp out reason
            | None ->
              incr ufail;
              if !ufail <= !maxrep then Printf.printf "SPECFAIL file=%s line=%d input=%s impl=%s reason=%s\n" file !ln inp out reason)
         | None -> ())
      end
    done with End_of_file -> ());
    close_in ic) (List.rev !files);
  Hashtbl.iter (fun k v -> Printf.printf "KIND %s %d\n" k v) kinds;
  Hashtbl.iter (fun id c -> Printf.printf "KNOWNCOUNT %s %d\n" id c) known_seen;
  Printf.printf "SUMMARY cases=%d mismatches=%d specfails=%d knownfails=%d\n" !cases !mism !sfail !kfail
