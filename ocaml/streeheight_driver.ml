(* Replays streeheighttrace lines on the extracted model (StreeModel.step with the exact depth
   limit, HeightModel) and evaluates property C02 on the implementation's own outputs.

   eval: H lines: StreeModel.step on a one-tree-at-a-time history; after every op the model's
         Len and height, Get probes through get_count; the final shape in preorder.
         LP, LR: the hint is checked as a certificate with lim_ok's arithmetic (model constants)
         (every segment [n_i, n_{i+1}-1] with value f: f >= 0, P(f, n_i), not P(f+1, n_{i+1}-1),
         which by limit_exact_unique and monotonicity in n pins limit_exact on the whole segment);
         a valid certificate is echoed in canonical form, otherwise the exact values at the
         offending segment are printed.
   spec: the inequality of the property text (Bound, literal constants 2000 and 1000+beta) on the
         implementation's Len/height after every op, with P tracked from the Len outputs; a Get
         never uses more comparisons than bound+1 (nor than height+1); New gives floor(log2 n);
         H1 and H2 on the float limit values themselves.  All arithmetic in the extracted Z. *)

(* big trees allocate gigabytes of short-lived Z digits: a roomy minor heap halves the run time *)
let () = Gc.set { (Gc.get ()) with Gc.minor_heap_size = 4 * 1024 * 1024; Gc.space_overhead = 200 }

let zi = z_of_int
let ( <=! ) a b = M.Z.leb a b

(* The limit function the replay uses: min(limit_exact b n, n) = HeightModel.limit_capped b n
   (the cap is never a value a comparison of Tree.insert depends on: depths stay below n).
   Calling limit_capped afresh costs ~120 k^2 bit operations per call (k ~ 200 at beta 950,
   n 300), so the values are produced in increasing n by stepping k upwards with the extracted
   Z.mul/Z.leb: the k reported satisfies  k = n  or  P(k,n) and not P(k+1,n), which is what
   HeightLimit.limit_exact_unique / limit_capped_spec say pins the value.  Cross-checked against
   the extracted limit_capped itself for every n <= 48. *)
type ltab = { mutable vals : int array; mutable filled : int; (* vals.(n) valid for 1 <= n <= filled *)
              mutable lk : int; mutable la : M.z; mutable lc : M.z; mutable la1 : M.z; mutable lc1 : M.z }
let ltabs : (int, ltab) Hashtbl.t = Hashtbl.create 64
let limit b n =
  if M.lim_degenerate b then M.Z.add n (z_of_int 1) else
  let bi = int_of_z b and ni = int_of_z n in
  if ni < 1 then M.limit_capped b n else begin
    let t = match Hashtbl.find_opt ltabs bi with
      | Some t -> t
      | None ->
        let t = { vals = Array.make 256 0; filled = 0; lk = 0; la = z_of_int 1; lc = z_of_int 1;
                  la1 = M.fracLimit; lc1 = M.lim_num b } in
        Hashtbl.replace ltabs bi t; t in
    if ni >= Array.length t.vals then begin
      let v = Array.make (max (2 * Array.length t.vals) (ni + 1)) 0 in
      Array.blit t.vals 0 v 0 (t.filled + 1); t.vals <- v
    end;
    while t.filled < ni do
      let m = t.filled + 1 in
      let zm = z_of_int m in
      while t.lk < m && M.Z.leb t.la1 (M.Z.mul zm t.lc1) do
        t.la <- t.la1; t.lc <- t.lc1;
        t.la1 <- M.Z.mul M.fracLimit t.la; t.lc1 <- M.Z.mul (M.lim_num b) t.lc;
        t.lk <- t.lk + 1
      done;
      if m <= 48 && int_of_z (M.limit_capped b zm) <> t.lk then failwith "stepped limit differs from limit_capped";
      t.vals.(m) <- t.lk;
      t.filled <- m
    done;
    z_of_int t.vals.(ni)
  end

let step s o = M.step M.zcmp limit s o

let rec nth l i = match l with [] -> failwith "nth" | x :: r -> if i = 0 then x else nth r (i - 1)

let shape t =
  let b = Buffer.create 256 in
  let first = ref true in
  let put s = if !first then first := false else Buffer.add_char b ','; Buffer.add_string b s in
  let rec go = function
    | M.Leaf -> put "."
    | M.Node (l, x, r) -> put (string_of_z x); go l; go r in
  (match t with M.Leaf -> put "." | _ -> go t);
  Buffer.contents b

let fail_str = function
  | M.RPanic -> "PANIC" | M.RFuel -> "FUEL" | M.RBadOracle -> "BADORACLE" | M.RNoTree -> "NOTREE"
  | _ -> "?"

(* New's oracle: first occurrence of every distinct key, in ascending key order *)
let picks_for keys =
  let idx = List.mapi (fun i k -> (k, i)) keys in
  let sorted = List.stable_sort (fun (a, _) (b, _) -> compare a b) idx in
  let rec dedup = function
    | (a, i) :: ((b, _) :: _ as r) when a = b -> dedup ((a, i) :: List.tl r)
    | x :: r -> x :: dedup r
    | [] -> [] in
  List.map (fun (_, i) -> nat_of_int i) (dedup sorted)

exception Bad

let parse_ops s = String.split_on_char ';' s

(* how a Clone is taken (harness/cmd/streeheighttrace/round7.go): "" plainly, or from inside a
   traversal callback of the tree: i<j> b<j> n<j> (j >= 0), f<k> g<k>; decimal, canonical *)
let valid_how (s : string) : bool =
  s = "" ||
  (String.contains "ibnfg" s.[0] &&
   (let d = String.sub s 1 (String.length s - 1) in
    match int_of_string_opt d with
    | Some v -> string_of_int v = d && abs v <= 1 lsl 40 && (v >= 0 || s.[0] = 'f' || s.[0] = 'g')
    | None -> false))

let eval_history beta ops =
  let b = zi beta in
  (* state: all trees ever made; cur: index of the tree under test *)
  let s0, _ = step [] (M.ONew (b, [], [])) in
  let st = ref s0 and cur = ref 0 in
  let items = ref [] in
  let cur_tree () = nth !st !cur in
  let lh () = let t = cur_tree () in string_of_z (M.len t) ^ ":" ^ string_of_z (M.height t.M.root) in
  let ci () = nat_of_int !cur in
  (try
    List.iter (fun op ->
      if op = "" then raise Bad;
      let arg = String.sub op 1 (String.length op - 1) in
      let key () = match int_of_string_opt arg with Some k -> zi k | None -> raise Bad in
      let mut o =
        let (s', out) = step !st o in
        st := s';
        (match out with
         | M.RBool r -> items := (b01 r ^ ":" ^ lh ()) :: !items
         | o -> items := fail_str o :: !items) in
      match op.[0] with
      | 'a' -> mut (M.OAdd (ci (), key ()))
      | 'p' -> mut (M.OReplace (ci (), key ()))
      | 'r' -> mut (M.ORemove (ci (), key ()))
      | 'g' ->
        let (o, n) = M.get_count M.zcmp (key ()) (cur_tree ()).M.root in
        items := (b01 (o <> None) ^ ":" ^ string_of_z n) :: !items
      | 'c' ->
        if arg <> "" then raise Bad;
        let (s', _) = step !st (M.OClear (ci ())) in
        st := s'; items := lh () :: !items
      | 'C' ->
        (* C<how>: the Clone is taken inside a traversal callback of the tree, which only reads it:
           for the model a Clone taken just before the traversal *)
        if not (valid_how arg) then raise Bad;
        let (s', _) = step !st (M.OClone (ci ())) in
        let old = ci () in
        st := s'; cur := List.length s' - 1;
        let (s'', _) = step !st (M.OClear old) in
        st := s''; items := lh () :: !items
      | 'n' ->
        let keys = if arg = "" then [] else
          List.map (fun f -> match int_of_string_opt f with Some k -> k | None -> raise Bad)
            (String.split_on_char '.' arg) in
        let (s', out) = step !st (M.ONew (b, List.map zi keys, picks_for keys)) in
        (match out with
         | M.RUnit -> st := s'; cur := List.length s' - 1; items := lh () :: !items
         | o -> items := fail_str o :: !items)
      | _ -> raise Bad) ops;
    String.concat ";" (List.rev !items) ^ "#" ^ shape (cur_tree ()).M.root
  with Bad -> "?")

(* ---- powers with memo: p2000.(i) = 2000^i etc., built by extracted Z.mul *)
let pow_tables : (int, M.z array ref * int ref) Hashtbl.t = Hashtbl.create 16
let pow base i =
  let (arr, filled) =
    match Hashtbl.find_opt pow_tables base with
    | Some x -> x
    | None -> let x = (ref (Array.make 64 (zi 1)), ref 1) in Hashtbl.replace pow_tables base x; x in
  if i < 0 then M.Z0 else begin
    if i >= Array.length !arr then begin
      let n = Array.make (max (2 * Array.length !arr) (i + 1)) (zi 1) in
      Array.blit !arr 0 n 0 !filled; arr := n
    end;
    while !filled <= i do
      !arr.(!filled) <- M.Z.mul (zi base) !arr.(!filled - 1);
      incr filled
    done;
    !arr.(i)
  end

(* ---- stepping cursor over k for one balance factor: a = A^k, c = C^k and the same at k+1,
   advanced by extracted Z.mul (segments and points arrive with increasing limit values) *)
type pcur = { mutable cb : int; mutable k : int; mutable a : M.z; mutable c : M.z; mutable a1 : M.z; mutable c1 : M.z }
let mk_cursor (base_a : M.z) (base_c : int -> M.z) =
  let cur = { cb = -1; k = 0; a = zi 1; c = zi 1; a1 = zi 1; c1 = zi 1 } in
  let goto beta k =
    if cur.cb <> beta || k < cur.k then begin
      cur.cb <- beta; cur.k <- 0; cur.a <- zi 1; cur.c <- zi 1; cur.a1 <- base_a; cur.c1 <- base_c beta
    end;
    while cur.k < k do
      cur.a <- cur.a1; cur.c <- cur.c1;
      cur.a1 <- M.Z.mul base_a cur.a; cur.c1 <- M.Z.mul (base_c beta) cur.c;
      cur.k <- cur.k + 1
    done in
  (* (P(k,n), P(k+1,n)) *)
  fun beta k n -> goto beta k; (cur.a <=! M.Z.mul n cur.c, cur.a1 <=! M.Z.mul n cur.c1)

(* the model's constants (Gen/StreeConst through HeightModel.lim_num) for eval ... *)
let model_pp = mk_cursor M.fracLimit (fun beta -> M.lim_num (zi beta))
(* ... and the literal ones of the property text for spec *)
let text_pp = mk_cursor (zi 2000) (fun beta -> zi (1000 + beta))

let parse_rle s =
  if s = "" then [] else
  List.map (fun it -> match String.split_on_char ':' it with
    | [n; f] -> (int_of_string n, int_of_string f)
    | _ -> raise Bad) (String.split_on_char ',' s)

(* segments (n_lo, n_hi, f) of an rle over [n0, n1] *)
let segments n0 n1 r =
  let rec go = function
    | [] -> []
    | [(n, f)] -> [(n, n1, f)]
    | (n, f) :: (((n', _) :: _) as rest) -> (n, n' - 1, f) :: go rest in
  match r with
  | (n, _) :: _ when n = n0 -> go r
  | _ -> raise Bad

let degenerate beta = M.lim_degenerate (zi beta)

let eval_range beta n0 n1 hint =
  try
    let segs = segments n0 n1 (parse_rle hint) in
    let ok = ref true and prev = ref (n0 - 1, min_int) and bad = ref "" in
    List.iter (fun (lo, hi, f) ->
      if !ok then begin
        let (plo, pf) = !prev in
        let fine = lo > plo && lo <= hi && hi <= n1 && f > pf && f >= 0 && not (degenerate beta)
                   && fst (model_pp beta f (zi lo)) && not (snd (model_pp beta f (zi hi))) in
        if not fine then begin
          ok := false;
          bad := Printf.sprintf "HINT-REJECTED[%d,%d]=%d exact:%s..%s" lo hi f
                   (string_of_z (M.limit_exact (zi beta) (zi lo))) (string_of_z (M.limit_exact (zi beta) (zi (max lo hi))))
        end;
        prev := (lo, f)
      end) segs;
    if !ok then String.concat "," (List.map (fun (lo, _, f) -> Printf.sprintf "%d:%d" lo f) segs)
    else !bad
  with Bad | Failure _ -> "?"

let eval_point beta n hint =
  if hint >= 0 && n >= 1 && not (degenerate beta)
     && (let (p, p1) = model_pp beta hint (zi n) in p && not p1) then string_of_int hint
  else string_of_z (M.limit_exact (zi beta) (zi n))

(* ================================================================== big trees (B lines, harness scale.go) *)

(* ---- key sequences, seq and digest, exactly as in the harness *)
let perm_of n seed =
  let p = Array.init n (fun i -> i) in
  let x = ref (((seed mod 2147483648) + 2147483648) mod 2147483648) in
  for i = n - 1 downto 1 do
    x := (!x * 1103515245 + 12345) mod 2147483648;
    let j = (!x lsr 8) mod (i + 1) in
    let t = p.(i) in p.(i) <- p.(j); p.(j) <- t
  done;
  p

let order_idx pat n seed : int array =
  match pat with
  | 'a' -> Array.init n (fun i -> i)
  | 'd' -> Array.init n (fun i -> n - 1 - i)
  | 'z' | 'i' ->
    let out = Array.make n 0 in
    let lo = ref 0 and hi = ref (n - 1) and w = ref 0 in
    while !lo <= !hi do
      out.(!w) <- !lo; incr w;
      if !lo <> !hi then begin out.(!w) <- !hi; incr w end;
      incr lo; decr hi
    done;
    if pat = 'i' then Array.init n (fun i -> out.(n - 1 - i)) else out
  | 'r' -> perm_of n seed
  | _ -> raise Bad

let max_seq = 1 lsl 16
let keys_of_ks (s : string) : int list =
  match String.split_on_char ',' s with
  | "e" :: rest ->
    if List.length rest > max_seq then raise Bad;
    List.map (fun x -> match int_of_string_opt x with Some v -> v | None -> raise Bad) rest
  | [pat; lo; step; n; rep; take; seed] when String.length pat = 1 ->
    let iv x = match int_of_string_opt x with Some v -> v | None -> raise Bad in
    let lo = iv lo and step = iv step and n = iv n and rep = iv rep and take = iv take and seed = iv seed in
    if n < 0 || n > max_seq || rep < 1 || take < 0 || take > n || abs lo > 1 lsl 40 || abs step > 1 lsl 20 then raise Bad;
    let idx = order_idx pat.[0] n seed in
    List.init take (fun j -> lo + step * (idx.(j) / rep))
  | _ -> raise Bad

let enc_seq (xs : int list) : string =
  let a = Array.of_list xs in
  let n = Array.length a in
  if n = 0 then "." else begin
    let num v = if v < 0 then "~" ^ string_of_int (- v) else string_of_int v in
    let toks = ref [] in
    let i = ref 0 in
    while !i < n do
      if !i > 0 && (a.(!i) = a.(!i - 1) + 1 || a.(!i) = a.(!i - 1) - 1) then begin
        let d = a.(!i) - a.(!i - 1) in
        let j = ref !i in
        while !j < n && a.(!j) = a.(!j - 1) + d do incr j done;
        toks := ((if d < 0 then "-" else "+") ^ string_of_int (!j - !i)) :: !toks;
        i := !j
      end else begin
        let j = ref !i in
        while !j < n && a.(!j) = a.(!i) do incr j done;
        toks := (if !j - !i = 1 then num a.(!i) else num a.(!i) ^ "x" ^ string_of_int (!j - !i)) :: !toks;
        i := !j
      end
    done;
    String.concat "." (List.rev !toks)
  end

let dec_seq (s : string) : int list =
  if s = "." || s = "" then [] else begin
    let out = ref [] and prev = ref 0 and total = ref 0 in
    let put v = incr total; if !total > 4 * max_seq then raise Bad; out := v :: !out; prev := v in
    let nat x = match int_of_string_opt x with Some v when v >= 0 -> v | _ -> raise Bad in
    List.iter (fun tok ->
      let l = String.length tok in
      if l = 0 then raise Bad;
      match tok.[0] with
      | '+' -> if !out = [] then raise Bad; for _ = 1 to nat (String.sub tok 1 (l - 1)) do put (!prev + 1) done
      | '-' -> if !out = [] then raise Bad; for _ = 1 to nat (String.sub tok 1 (l - 1)) do put (!prev - 1) done
      | _ ->
        let (vs, c) = match String.index_opt tok 'x' with
          | Some i -> (String.sub tok 0 i, nat (String.sub tok (i + 1) (l - i - 1)))
          | None -> (tok, 1) in
        let v = if String.length vs > 0 && vs.[0] = '~' then - (nat (String.sub vs 1 (String.length vs - 1))) else nat vs in
        for _ = 1 to c do put v done) (String.split_on_char '.' s);
    List.rev !out
  end

let feed (a, b) v =
  let x = if v < 0 then (-v) + (1 lsl 20) else v in
  let x = x mod (1 lsl 30) in
  ((a * 31337 + x + 7) mod 2147483647, (b * 65599 + x + 13) mod 2147483629)
let show_hash (a, b) = Printf.sprintf "%x.%x" a b

(* ---- floor-log tables with small native bignums (naturals, little endian, base 2^30):
   tab a c n = min(n, largest k with a^k <= n * c^k), built for increasing n by stepping k upwards.
   The extracted Z arithmetic needs seconds per balance factor for trees of thousands of keys (numbers
   of thousands of bits, one multiplication per size); what the tables deliver is cross-checked
   against the extracted limit_capped / bound_okb on small arguments. *)
let bbits = 30
let bmask = (1 lsl bbits) - 1
let big_trim (a : int array) =
  let n = ref (Array.length a) in
  while !n > 0 && a.(!n - 1) = 0 do decr n done;
  if !n = Array.length a then a else Array.sub a 0 !n
let big_mul_small (a : int array) (m : int) =
  let n = Array.length a in
  let r = Array.make (n + 2) 0 in
  let carry = ref 0 in
  for i = 0 to n - 1 do
    let v = a.(i) * m + !carry in
    r.(i) <- v land bmask; carry := v lsr bbits
  done;
  r.(n) <- !carry land bmask; r.(n + 1) <- !carry lsr bbits;
  big_trim r
let big_cmp (a : int array) (b : int array) =
  let la = Array.length a and lb = Array.length b in
  if la <> lb then compare la lb else begin
    let i = ref (la - 1) in
    while !i >= 0 && a.(!i) = b.(!i) do decr i done;
    if !i < 0 then 0 else compare a.(!i) b.(!i)
  end

type ntab = { na : int; nc : int; mutable nk : int; mutable npa : int array; mutable npc : int array;
              mutable nvals : int array; mutable nupto : int }
let ntabs : (int * int, ntab) Hashtbl.t = Hashtbl.create 32
let floor_log_capped (a : int) (c : int) (n : int) : int =
  if n < 1 || a < 2 || c < 1 || c >= a || a >= 1 lsl 20 then raise Bad;
  let t = match Hashtbl.find_opt ntabs (a, c) with
    | Some t -> t
    | None -> let t = { na = a; nc = c; nk = 0; npa = [|1|]; npc = [|1|]; nvals = Array.make 64 0; nupto = 0 } in
      Hashtbl.add ntabs (a, c) t; t in
  while t.nupto < n do
    let m = t.nupto + 1 in
    let continue = ref true in
    while !continue && t.nk < m do
      let a2 = big_mul_small t.npa a and c2 = big_mul_small t.npc c in
      if big_cmp a2 (big_mul_small c2 m) <= 0 then begin t.npa <- a2; t.npc <- c2; t.nk <- t.nk + 1 end
      else continue := false
    done;
    if m >= Array.length t.nvals then begin
      let v = Array.make (2 * m) 0 in Array.blit t.nvals 0 v 0 (Array.length t.nvals); t.nvals <- v end;
    t.nvals.(m) <- t.nk; t.nupto <- m
  done;
  t.nvals.(n)

(* the depth limit for B lines: limit_capped of the model's constants *)
let limit_checked : (int * int, unit) Hashtbl.t = Hashtbl.create 64
let limit_big (b : M.z) (n : M.z) : M.z =
  if M.lim_degenerate b then M.Z.add n (zi 1) else
  let ni = int_of_z n in
  if ni < 1 then M.limit_capped b n else begin
    let v = floor_log_capped (int_of_z M.fracLimit) (int_of_z (M.lim_num b)) ni in
    if ni <= 48 && not (Hashtbl.mem limit_checked (int_of_z b, ni)) then begin
      Hashtbl.replace limit_checked (int_of_z b, ni) ();
      if int_of_z (M.limit_capped b n) <> v then failwith "native limit table differs from limit_capped"
    end;
    zi v
  end

(* ---- macros *)
type macro =
  | MNew
  | MBulk of int list
  | MClone of int
  | MClear of int
  | MMut of char * int * int list
  | MGet of int * int list

let parse_macro (m : string) : macro =
  if m = "" then raise Bad;
  let f = String.split_on_char ':' (String.sub m 1 (String.length m - 1)) in
  let tree x = match int_of_string_opt x with Some t when t >= 0 -> t | _ -> raise Bad in
  match m.[0], f with
  | 'N', [""] -> MNew
  | 'K', [""; ks] -> MBulk (keys_of_ks ks)
  | 'C', [t] -> MClone (tree t)
  | 'C', [t; how] when how <> "" && valid_how how -> MClone (tree t)   (* read-only callback: a plain Clone *)
  | 'X', [t] -> MClear (tree t)
  | ('A' | 'P' | 'D'), [t; ks] -> MMut (m.[0], tree t, keys_of_ks ks)
  | 'G', [t; ks] -> MGet (tree t, keys_of_ks ks)
  | _ -> raise Bad

let checkpoint_every m = max 4 ((m + 7) / 8)

(* the depth of the deepest key (-1: empty) and the first key at that depth in preorder, by one
   pass over the model's tree *)
let height_deepest (t : M.z M.tree) : int * M.z option =
  let best = ref (-1) and key = ref None in
  let rec go t d = match t with
    | M.Leaf -> ()
    | M.Node (l, x, r) ->
      if d > !best then begin best := d; key := Some x end;
      go l (d + 1); go r (d + 1) in
  go t 0; (!best, !key)

let rec hash_shape h (t : M.z M.tree) =
  match t with
  | M.Leaf -> feed h 0
  | M.Node (l, x, r) -> hash_shape (hash_shape (feed (feed h 1) (int_of_z x)) l) r

let eval_big beta prog =
  let b = zi beta in
  let st = ref [] in
  let stepb o = let (s', out) = M.step M.zcmp limit_big !st o in st := s'; out in
  let outs = ref [] in
  let push s = outs := s :: !outs in
  let ix t = if t >= List.length !st then raise Bad else nat_of_int t in
  let tree_at t = nth !st t in
  let cp () =
    String.concat "+" (List.map (fun t ->
      let (h, _) = height_deepest t.M.root in
      Printf.sprintf "%d:%d:%d:%s" (int_of_z (M.len t)) h h (show_hash (hash_shape (0, 0) t.M.root))) !st) in
  let unit_item t =
    let tr = tree_at t in
    push (Printf.sprintf "%d,%d/%s" (int_of_z (M.len tr)) (fst (height_deepest tr.M.root)) (cp ())) in
  let fail o = push (fail_str o); raise Exit in
  (try
    List.iter (fun m ->
      match parse_macro m with
      | MNew -> (match stepb (M.ONew (b, [], [])) with M.RUnit -> unit_item (List.length !st - 1) | o -> fail o)
      | MBulk keys ->
        (match stepb (M.ONew (b, List.map zi keys, picks_for keys)) with M.RUnit -> unit_item (List.length !st - 1) | o -> fail o)
      | MClone t -> (match stepb (M.OClone (ix t)) with M.RUnit -> unit_item (List.length !st - 1) | o -> fail o)
      | MClear t -> (match stepb (M.OClear (ix t)) with M.RUnit -> unit_item t | o -> fail o)
      | MMut (c, t, ks) ->
        let i = ix t in
        let m = List.length ks in
        let every = checkpoint_every m in
        let res = ref [] and lens = ref [] and hs = ref [] and cs = ref [] and dcs = ref [] and cps = ref [] in
        List.iteri (fun j k ->
          let zk = zi k in
          (match stepb (match c with 'A' -> M.OAdd (i, zk) | 'P' -> M.OReplace (i, zk) | _ -> M.ORemove (i, zk)) with
           | M.RBool r -> res := (if r then 1 else 0) :: !res
           | o -> fail o);
          let tr = tree_at t in
          lens := int_of_z (M.len tr) :: !lens;
          let (h, deep) = height_deepest tr.M.root in
          hs := h :: !hs;
          cs := int_of_z (snd (M.get_count M.zcmp zk tr.M.root)) :: !cs;
          dcs := (match deep with Some d -> int_of_z (snd (M.get_count M.zcmp d tr.M.root)) | None -> 0) :: !dcs;
          if (j + 1) mod every = 0 || j = m - 1 then cps := cp () :: !cps) ks;
        let sq l = enc_seq (List.rev !l) in
        push (String.concat "/" (String.concat "," [sq res; sq lens; sq hs; sq cs; sq dcs] :: List.rev !cps))
      | MGet (t, ks) ->
        ignore (ix t);
        let tr = tree_at t in
        let fs = ref [] and cs = ref [] in
        List.iter (fun k ->
          let (o, n) = M.get_count M.zcmp (zi k) tr.M.root in
          fs := (if o <> None then 1 else 0) :: !fs; cs := int_of_z n :: !cs) ks;
        push (enc_seq (List.rev !fs) ^ "," ^ enc_seq (List.rev !cs))) (String.split_on_char ';' prog)
  with Exit -> ());
  String.concat ";" (List.rev !outs)

let eval inp =
  match words inp with
  | ["H"; beta; ops] ->
    (match int_of_string_opt beta with
     | Some b -> eval_history b (parse_ops ops)
     | None -> "?")
  | ["B"; beta; prog] ->
    (match int_of_string_opt beta with
     | Some b when b >= 0 && b <= 1000 -> (try eval_big b prog with Bad -> "?")
     | _ -> "?")
  | ["LP"; beta; n; hint] ->
    (match int_of_string_opt beta, int_of_string_opt n, int_of_string_opt hint with
     | Some b, Some n, Some h -> eval_point b n h
     | _ -> "?")
  | ["LR"; beta; n0; n1; hint] ->
    (match int_of_string_opt beta, int_of_string_opt n0, int_of_string_opt n1 with
     | Some b, Some n0, Some n1 -> eval_range b n0 n1 hint
     | _ -> "?")
  | _ -> "?"

(* ------------------------------------------------------------------ the property on the code *)

(* Bound with the powers memoised; cross-checked against the extracted bound_okb where cheap *)
let bound_ok beta p h =
  let r = h <= 1 || (pow 2000 (h - 1) <=! M.Z.mul (zi p) (pow (1000 + beta) (h - 1))) in
  if (h <= 12 || (h <= 64 && p land 7 = 0)) && M.bound_okb (zi beta) (zi p) (zi h) <> r then failwith "bound_okb disagrees with the memoised form";
  r

(* the largest h allowed at peak p: used to bound Get's comparisons *)
let log2i n = int_of_z (M.Z.log2 (zi n))

let spec_history beta ops out =
  let body, _shape = match String.index_opt out '#' with
    | Some i -> String.sub out 0 i, String.sub out (i + 1) (String.length out - i - 1)
    | None -> out, "" in
  let items = if body = "" then [] else String.split_on_char ';' body in
  if List.length items <> List.length ops then Some "output does not have one item per op" else
  let peak = ref 0 and height = ref (-1) and len = ref 0 in
  let res = ref None in
  let fail i op msg = if !res = None then res := Some (Printf.sprintf "op %d (%s): %s" i op msg) in
  let observe i op l h =
    if l = 0 then peak := 0 else peak := max !peak l;
    len := l; height := h;
    if beta < 1000 then begin
      if not (bound_ok beta !peak h) then
        fail i op (Printf.sprintf "height %d exceeds log_{2000/%d}(P)+1 at peak Len P=%d (Len %d)" h (1000 + beta) !peak l)
    end in
  List.iteri (fun i (op, it) ->
    let f = String.split_on_char ':' it in
    match op.[0], f with
    | ('a' | 'p' | 'r'), [_; l; h] -> observe i op (int_of_string l) (int_of_string h)
    | 'c', [l; h] ->
      let l = int_of_string l and h = int_of_string h in
      if l <> 0 || h <> -1 then fail i op "Clear left a non-empty tree";
      observe i op l h
    | 'C', [l; h] ->
      (* a clone inherits the history (and the peak) of its original *)
      let l = int_of_string l and h = int_of_string h in
      if l <> !len || h <> !height then fail i op "Clone has a different Len or height";
      observe i op l h
    | 'n', [l; h] ->
      let l = int_of_string l and h = int_of_string h in
      peak := 0;
      observe i op l h;
      if l >= 1 && h <> log2i l then fail i op (Printf.sprintf "New built height %d from %d distinct keys, minimum is %d" h l (log2i l))
      else if l = 0 && h <> -1 then fail i op "New without keys is not empty"
    | 'g', [_; c] ->
      let c = int_of_string c in
      if c > !height + 1 then fail i op (Printf.sprintf "Get made %d comparisons in a tree of height %d" c !height)
      else if beta < 1000 && c >= 3 && not (bound_ok beta !peak (c - 1)) then
        fail i op (Printf.sprintf "Get made %d comparisons, more than bound+1 at peak %d" c !peak)
    | _ -> fail i op ("malformed item " ^ it)) (List.combine ops items);
  !res

(* ---- C02 on the implementation's output of a B line.  The inequality of the property text,
   2000^(h-1) <= P * (1000+beta)^(h-1) or h <= 1, is decided through the table
   K(P) = min(P, largest k with 2000^k <= P * (1000+beta)^k)  (literal constants of the text):
   h - 1 <= K(P) implies it; when K(P) < P it is equivalent; a height above P + 1 (more levels than the
   tree ever had keys) is reported as a violation outright.  Cross-checked against the extracted
   bound_okb on small arguments (every peak up to 32, every 256th call beyond; heights up to 40). *)
let bound_calls = ref 0
let bound_ok_big beta p h =
  incr bound_calls;
  if h <= 1 then true
  else if p < 1 then false
  else begin
    let k = floor_log_capped 2000 (1000 + beta) p in
    let r = h - 1 <= k in
    if h <= 40 && (p <= 32 || !bound_calls land 255 = 0) && (k < p || r) && M.bound_okb (zi beta) (zi p) (zi h) <> r then
      failwith "bound_okb disagrees with the table";
    r
  end

let spec_big beta prog out : string option =
  let macros = List.map (fun m -> (m, parse_macro m)) (String.split_on_char ';' prog) in
  let items = if out = "" then [] else String.split_on_char ';' out in
  let peaks = ref [||] and lens = ref [||] and heights = ref [||] in
  let push_tree p l h = peaks := Array.append !peaks [| p |]; lens := Array.append !lens [| l |]; heights := Array.append !heights [| h |] in
  let res = ref None in
  let short m = if String.length m > 60 then String.sub m 0 60 ^ "..." else m in
  let fail i m msg = if !res = None then res := Some (Printf.sprintf "macro#%d %s: %s" i (short m) msg) in
  let observe i m t l h =
    !peaks.(t) <- (if l = 0 then 0 else max !peaks.(t) l);
    !lens.(t) <- l; !heights.(t) <- h;
    if beta < 1000 && not (bound_ok_big beta !peaks.(t) h) then
      fail i m (Printf.sprintf "height %d exceeds log_{2000/%d}(P)+1 at peak Len P=%d (Len %d)" h (1000 + beta) !peaks.(t) l) in
  let lookup i m t what c =
    if c > !heights.(t) + 1 then fail i m (Printf.sprintf "%s made %d comparisons in a tree of height %d" what c !heights.(t))
    else if beta < 1000 && c >= 3 && not (bound_ok_big beta !peaks.(t) (c - 1)) then
      fail i m (Printf.sprintf "%s made %d comparisons, more than bound+1 at peak %d" what c !peaks.(t)) in
  let int_of s = match int_of_string_opt s with Some v -> v | None -> raise Bad in
  let check_cp i m s =
    let parts = String.split_on_char '+' s in
    if List.length parts <> Array.length !peaks then fail i m "number of live trees"
    else List.iteri (fun t part ->
      match String.split_on_char ':' part with
      | [l; hh; ch; _dg] ->
        let l = int_of l and hh = int_of hh and ch = int_of ch in
        if l <> !lens.(t) then fail i m (Printf.sprintf "tree %d changed its Len without being operated on" t)
        else if hh <> ch then fail i m (Printf.sprintf "tree %d: height %d through Root/Left/Right cursors, %d along the node pointers" t ch hh)
        else if hh <> !heights.(t) then fail i m (Printf.sprintf "tree %d changed its height without being operated on" t)
        else if beta < 1000 && not (bound_ok_big beta !peaks.(t) ch) then
          fail i m (Printf.sprintf "tree %d: height %d exceeds the bound at peak %d" t ch !peaks.(t))
      | _ -> fail i m "malformed checkpoint") parts in
  let unit_parts x = match String.split_on_char '/' x with
    | [head; cp] -> (match String.split_on_char ',' head with [l; h] -> (int_of l, int_of h, cp) | _ -> raise Bad)
    | _ -> raise Bad in
  let tree t = if t >= Array.length !peaks then raise Bad else t in
  let rec go i macros items =
    if !res <> None then () else
    match macros, items with
    | [], [] -> ()
    | [], _ -> res := Some "more items than macros"
    | (m, _) :: _, [] -> fail i m "no output (the history stopped early)"
    | (m, mm) :: macros', x :: items' ->
      if String.length x >= 4 && (String.sub x 0 4 = "hang" || String.sub x 0 4 = "pani") then fail i m ("the implementation did not return: " ^ x)
      else begin
        (match mm with
         | MNew ->
           let (l, h, cp) = unit_parts x in
           push_tree 0 l h;
           if l <> 0 || h <> -1 then fail i m "New without keys is not empty";
           check_cp i m cp
         | MBulk keys ->
           let (l, h, cp) = unit_parts x in
           push_tree l l h;
           let t = Array.length !peaks - 1 in
           observe i m t l h;
           if l >= 1 && h <> log2i l then fail i m (Printf.sprintf "New built height %d from %d distinct keys, minimum is %d" h l (log2i l))
           else if l = 0 && h <> -1 then fail i m "New built a non-empty tree of Len 0"
           else if l > List.length keys then fail i m "New holds more keys than it was given";
           check_cp i m cp
         | MClone t ->
           let t = tree t in
           let (l, h, cp) = unit_parts x in
           push_tree !peaks.(t) l h;
           if l <> !lens.(t) || h <> !heights.(t) then fail i m "Clone has a different Len or height";
           observe i m (Array.length !peaks - 1) l h;
           check_cp i m cp
         | MClear t ->
           let t = tree t in
           let (l, h, cp) = unit_parts x in
           if l <> 0 || h <> -1 then fail i m "Clear left a non-empty tree";
           observe i m t l h;
           check_cp i m cp
         | MMut (_, t, ks) ->
           let t = tree t in
           (match String.split_on_char '/' x with
            | [] -> fail i m "malformed item"
            | head :: cps ->
              (match String.split_on_char ',' head with
               | [rs; ls; hs; cs; dcs] ->
                 let n = List.length ks in
                 let a s = Array.of_list (dec_seq s) in
                 let rs = a rs and ls = a ls and hs = a hs and cs = a cs and dcs = a dcs in
                 if Array.length rs <> n || Array.length ls <> n || Array.length hs <> n || Array.length cs <> n || Array.length dcs <> n then
                   fail i m "the item does not have one entry per call"
                 else begin
                   let every = checkpoint_every n in
                   let cps = ref cps in
                   for j = 0 to n - 1 do
                     if !res = None then begin
                       let at = Printf.sprintf "%s call %d of %d" (short m) (j + 1) n in
                       observe i at t ls.(j) hs.(j);
                       lookup i at t "Get(the key just used)" cs.(j);
                       lookup i at t "Get(the deepest key)" dcs.(j);
                       if (j + 1) mod every = 0 || j = n - 1 then
                         (match !cps with
                          | [] -> fail i at "no checkpoint"
                          | s :: rest -> cps := rest; check_cp i at s)
                     end
                   done;
                   if !res = None && !cps <> [] then fail i m "more checkpoints than expected"
                 end
               | _ -> fail i m "malformed item"))
         | MGet (t, ks) ->
           let t = tree t in
           (match String.split_on_char ',' x with
            | [fs; cs] ->
              let cs = dec_seq cs in
              if List.length cs <> List.length ks || List.length (dec_seq fs) <> List.length ks then fail i m "the item does not have one entry per call"
              else List.iter (fun c -> lookup i m t "Get" c) cs
            | _ -> fail i m "malformed item"));
        go (i + 1) macros' items'
      end in
  go 0 macros items;
  !res

let spec_point beta n f =
  (* H1: floor(log2 n) <= f;  H2: 2000^f <= n * (1000+beta)^f *)
  if beta >= 1000 || n < 1 then None
  else if log2i n > f then Some (Printf.sprintf "H1 fails: float limit(%d,%d)=%d < floor(log2 n)=%d" beta n f (log2i n))
  else if f < 0 || not (fst (text_pp beta f (zi n))) then Some (Printf.sprintf "H2 fails: float limit(%d,%d)=%d but 2000^%d > %d*%d^%d" beta n f f n (1000 + beta) f)
  else None

let spec prop inp out =
  if prop <> "C02" then None else
  match words inp with
  | ["H"; beta; ops] ->
    if out = "?" then None else
    if String.length out >= 4 && (String.sub out 0 4 = "hang" || String.sub out 0 4 = "pani") then Some ("the implementation did not return: " ^ out) else
    spec_history (int_of_string beta) (parse_ops ops) out
  | ["B"; beta; prog] ->
    if out = "?" then None else
    (try spec_big (int_of_string beta) prog out with Bad -> Some "malformed output")
  | ["LP"; beta; n; _hint] ->
    (match int_of_string_opt out with
     | Some f -> spec_point (int_of_string beta) (int_of_string n) f
     | None -> if out = "?" then None else Some "no limit value")
  | ["LR"; beta; n0; n1; _hint] ->
    if out = "?" then None else
    (try
      let beta = int_of_string beta and n0 = int_of_string n0 and n1 = int_of_string n1 in
      let segs = segments n0 n1 (parse_rle out) in
      (* H2 at the left end of a segment and H1 at its right end imply both on the whole segment *)
      List.fold_left (fun acc (lo, hi, f) ->
        match acc with
        | Some _ -> acc
        | None ->
          (match spec_point beta lo f with
           | Some r -> Some r
           | None -> if log2i hi > f then spec_point beta hi f else None)) None segs
    with Bad | Failure _ -> Some "malformed run-length output")
  | _ -> None

let () = run_main ~eval ~spec
