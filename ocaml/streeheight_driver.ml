(* Replays streeheighttrace lines on the extracted model (StreeModel.step with the exact depth
   limit, HeightModel) and evaluates property C02 on the implementation's own outputs.

   eval: H lines: StreeModel.step on a one-tree-at-a-time history; after every op the model's
         Len and height, Get probes through get_count; the final shape in preorder.
         LP, LR: the hint is checked as a certificate with lim_ok's arithmetic (model constants)
         (every segment [n_i, n_{i+1}-1] with value f: f >= 0, P(f, n_i), not P(f+1, n_{i+1}-1),
         which by limit_exact_unique and monotonicity in n pins limit_exact on the whole segment);
         a valid certificate is echoed in canonical form, otherwise the exact values at the
         offending segment are printed.
   spec: the inequality of the property text (Bound, literal constants 2000 and 1000+beta) on the
         implementation's Len/height after every op, with P tracked from the Len outputs; a Get
         never uses more comparisons than bound+1 (nor than height+1); New gives floor(log2 n);
         H1 and H2 on the float limit values themselves.  All arithmetic in the extracted Z. *)

let zi = z_of_int
let ( <=! ) a b = M.Z.leb a b

(* The limit function the replay uses: min(limit_exact b n, n) = HeightModel.limit_capped b n
   (the cap is never a value a comparison of Tree.insert depends on: depths stay below n).
   Calling limit_capped afresh costs ~120 k^2 bit operations per call (k ~ 200 at beta 950,
   n 300), so the values are produced in increasing n by stepping k upwards with the extracted
   Z.mul/Z.leb: the k reported satisfies  k = n  or  P(k,n) and not P(k+1,n), which is what
   HeightLimit.limit_exact_unique / limit_capped_spec say pins the value.  Cross-checked against
   the extracted limit_capped itself for every n <= 48. *)
type ltab = { mutable vals : int array; mutable filled : int; (* vals.(n) valid for 1 <= n <= filled *)
              mutable lk : int; mutable la : M.z; mutable lc : M.z; mutable la1 : M.z; mutable lc1 : M.z }
let ltabs : (int, ltab) Hashtbl.t = Hashtbl.create 64
let limit b n =
  if M.lim_degenerate b then M.Z.add n (z_of_int 1) else
  let bi = int_of_z b and ni = int_of_z n in
  if ni < 1 then M.limit_capped b n else begin
    let t = match Hashtbl.find_opt ltabs bi with
      | Some t -> t
      | None ->
        let t = { vals = Array.make 256 0; filled = 0; lk = 0; la = z_of_int 1; lc = z_of_int 1;
                  la1 = M.fracLimit; lc1 = M.lim_num b } in
        Hashtbl.replace ltabs bi t; t in
    if ni >= Array.length t.vals then begin
      let v = Array.make (max (2 * Array.length t.vals) (ni + 1)) 0 in
      Array.blit t.vals 0 v 0 (t.filled + 1); t.vals <- v
    end;
    while t.filled < ni do
      let m = t.filled + 1 in
      let zm = z_of_int m in
      while t.lk < m && M.Z.leb t.la1 (M.Z.mul zm t.lc1) do
        t.la <- t.la1; t.lc <- t.lc1;
        t.la1 <- M.Z.mul M.fracLimit t.la; t.lc1 <- M.Z.mul (M.lim_num b) t.lc;
        t.lk <- t.lk + 1
      done;
      if m <= 48 && int_of_z (M.limit_capped b zm) <> t.lk then failwith "stepped limit differs from limit_capped";
      t.vals.(m) <- t.lk;
      t.filled <- m
    done;
    z_of_int t.vals.(ni)
  end

let step s o = M.step M.zcmp limit s o

let rec nth l i = match l with [] -> failwith "nth" | x :: r -> if i = 0 then x else nth r (i - 1)

let shape t =
  let b = Buffer.create 256 in
  let first = ref true in
  let put s = if !first then first := false else Buffer.add_char b ','; Buffer.add_string b s in
  let rec go = function
    | M.Leaf -> put "."
    | M.Node (l, x, r) -> put (string_of_z x); go l; go r in
  (match t with M.Leaf -> put "." | _ -> go t);
  Buffer.contents b

let fail_str = function
  | M.RPanic -> "PANIC" | M.RFuel -> "FUEL" | M.RBadOracle -> "BADORACLE" | M.RNoTree -> "NOTREE"
  | _ -> "?"

(* New's oracle: first occurrence of every distinct key, in ascending key order *)
let picks_for keys =
  let idx = List.mapi (fun i k -> (k, i)) keys in
  let sorted = List.stable_sort (fun (a, _) (b, _) -> compare a b) idx in
  let rec dedup = function
    | (a, i) :: ((b, _) :: _ as r) when a = b -> dedup ((a, i) :: List.tl r)
    | x :: r -> x :: dedup r
    | [] -> [] in
  List.map (fun (_, i) -> nat_of_int i) (dedup sorted)

exception Bad

let parse_ops s = String.split_on_char ';' s

let eval_history beta ops =
  let b = zi beta in
  (* state: all trees ever made; cur: index of the tree under test *)
  let s0, _ = step [] (M.ONew (b, [], [])) in
  let st = ref s0 and cur = ref 0 in
  let items = ref [] in
  let cur_tree () = nth !st !cur in
  let lh () = let t = cur_tree () in string_of_z (M.len t) ^ ":" ^ string_of_z (M.height t.M.root) in
  let ci () = nat_of_int !cur in
  (try
    List.iter (fun op ->
      if op = "" then raise Bad;
      let arg = String.sub op 1 (String.length op - 1) in
      let key () = match int_of_string_opt arg with Some k -> zi k | None -> raise Bad in
      let mut o =
        let (s', out) = step !st o in
        st := s';
        (match out with
         | M.RBool r -> items := (b01 r ^ ":" ^ lh ()) :: !items
         | o -> items := fail_str o :: !items) in
      match op.[0] with
      | 'a' -> mut (M.OAdd (ci (), key ()))
      | 'p' -> mut (M.OReplace (ci (), key ()))
      | 'r' -> mut (M.ORemove (ci (), key ()))
      | 'g' ->
        let (o, n) = M.get_count M.zcmp (key ()) (cur_tree ()).M.root in
        items := (b01 (o <> None) ^ ":" ^ string_of_z n) :: !items
      | 'c' ->
        if arg <> "" then raise Bad;
        let (s', _) = step !st (M.OClear (ci ())) in
        st := s'; items := lh () :: !items
      | 'C' ->
        if arg <> "" then raise Bad;
        let (s', _) = step !st (M.OClone (ci ())) in
        let old = ci () in
        st := s'; cur := List.length s' - 1;
        let (s'', _) = step !st (M.OClear old) in
        st := s''; items := lh () :: !items
      | 'n' ->
        let keys = if arg = "" then [] else
          List.map (fun f -> match int_of_string_opt f with Some k -> k | None -> raise Bad)
            (String.split_on_char '.' arg) in
        let (s', out) = step !st (M.ONew (b, List.map zi keys, picks_for keys)) in
        (match out with
         | M.RUnit -> st := s'; cur := List.length s' - 1; items := lh () :: !items
         | o -> items := fail_str o :: !items)
      | _ -> raise Bad) ops;
    String.concat ";" (List.rev !items) ^ "#" ^ shape (cur_tree ()).M.root
  with Bad -> "?")

(* ---- powers with memo: p2000.(i) = 2000^i etc., built by extracted Z.mul *)
let pow_tables : (int, M.z array ref * int ref) Hashtbl.t = Hashtbl.create 16
let pow base i =
  let (arr, filled) =
    match Hashtbl.find_opt pow_tables base with
    | Some x -> x
    | None -> let x = (ref (Array.make 64 (zi 1)), ref 1) in Hashtbl.replace pow_tables base x; x in
  if i < 0 then M.Z0 else begin
    if i >= Array.length !arr then begin
      let n = Array.make (max (2 * Array.length !arr) (i + 1)) (zi 1) in
      Array.blit !arr 0 n 0 !filled; arr := n
    end;
    while !filled <= i do
      !arr.(!filled) <- M.Z.mul (zi base) !arr.(!filled - 1);
      incr filled
    done;
    !arr.(i)
  end

(* ---- stepping cursor over k for one balance factor: a = A^k, c = C^k and the same at k+1,
   advanced by extracted Z.mul (segments and points arrive with increasing limit values) *)
type pcur = { mutable cb : int; mutable k : int; mutable a : M.z; mutable c : M.z; mutable a1 : M.z; mutable c1 : M.z }
let mk_cursor (base_a : M.z) (base_c : int -> M.z) =
  let cur = { cb = -1; k = 0; a = zi 1; c = zi 1; a1 = zi 1; c1 = zi 1 } in
  let goto beta k =
    if cur.cb <> beta || k < cur.k then begin
      cur.cb <- beta; cur.k <- 0; cur.a <- zi 1; cur.c <- zi 1; cur.a1 <- base_a; cur.c1 <- base_c beta
    end;
    while cur.k < k do
      cur.a <- cur.a1; cur.c <- cur.c1;
      cur.a1 <- M.Z.mul base_a cur.a; cur.c1 <- M.Z.mul (base_c beta) cur.c;
      cur.k <- cur.k + 1
    done in
  (* (P(k,n), P(k+1,n)) *)
  fun beta k n -> goto beta k; (cur.a <=! M.Z.mul n cur.c, cur.a1 <=! M.Z.mul n cur.c1)

(* the model's constants (Gen/StreeConst through HeightModel.lim_num) for eval ... *)
let model_pp = mk_cursor M.fracLimit (fun beta -> M.lim_num (zi beta))
(* ... and the literal ones of the property text for spec *)
let text_pp = mk_cursor (zi 2000) (fun beta -> zi (1000 + beta))

let parse_rle s =
  if s = "" then [] else
  List.map (fun it -> match String.split_on_char ':' it with
    | [n; f] -> (int_of_string n, int_of_string f)
    | _ -> raise Bad) (String.split_on_char ',' s)

(* segments (n_lo, n_hi, f) of an rle over [n0, n1] *)
let segments n0 n1 r =
  let rec go = function
    | [] -> []
    | [(n, f)] -> [(n, n1, f)]
    | (n, f) :: (((n', _) :: _) as rest) -> (n, n' - 1, f) :: go rest in
  match r with
  | (n, _) :: _ when n = n0 -> go r
  | _ -> raise Bad

let degenerate beta = M.lim_degenerate (zi beta)

let eval_range beta n0 n1 hint =
  try
    let segs = segments n0 n1 (parse_rle hint) in
    let ok = ref true and prev = ref (n0 - 1, min_int) and bad = ref "" in
    List.iter (fun (lo, hi, f) ->
      if !ok then begin
        let (plo, pf) = !prev in
        let fine = lo > plo && lo <= hi && hi <= n1 && f > pf && f >= 0 && not (degenerate beta)
                   && fst (model_pp beta f (zi lo)) && not (snd (model_pp beta f (zi hi))) in
        if not fine then begin
          ok := false;
          bad := Printf.sprintf "HINT-REJECTED[%d,%d]=%d exact:%s..%s" lo hi f
                   (string_of_z (M.limit_exact (zi beta) (zi lo))) (string_of_z (M.limit_exact (zi beta) (zi (max lo hi))))
        end;
        prev := (lo, f)
      end) segs;
    if !ok then String.concat "," (List.map (fun (lo, _, f) -> Printf.sprintf "%d:%d" lo f) segs)
    else !bad
  with Bad | Failure _ -> "?"

let eval_point beta n hint =
  if hint >= 0 && n >= 1 && not (degenerate beta)
     && (let (p, p1) = model_pp beta hint (zi n) in p && not p1) then string_of_int hint
  else string_of_z (M.limit_exact (zi beta) (zi n))

let eval inp =
  match words inp with
  | ["H"; beta; ops] ->
    (match int_of_string_opt beta with
     | Some b -> eval_history b (parse_ops ops)
     | None -> "?")
  | ["LP"; beta; n; hint] ->
    (match int_of_string_opt beta, int_of_string_opt n, int_of_string_opt hint with
     | Some b, Some n, Some h -> eval_point b n h
     | _ -> "?")
  | ["LR"; beta; n0; n1; hint] ->
    (match int_of_string_opt beta, int_of_string_opt n0, int_of_string_opt n1 with
     | Some b, Some n0, Some n1 -> eval_range b n0 n1 hint
     | _ -> "?")
  | _ -> "?"

(* ------------------------------------------------------------------ the property on the code *)

(* Bound with the powers memoised; cross-checked against the extracted bound_okb where cheap *)
let bound_ok beta p h =
  let r = h <= 1 || (pow 2000 (h - 1) <=! M.Z.mul (zi p) (pow (1000 + beta) (h - 1))) in
  if (h <= 12 || (h <= 64 && p land 7 = 0)) && M.bound_okb (zi beta) (zi p) (zi h) <> r then failwith "bound_okb disagrees with the memoised form";
  r

(* the largest h allowed at peak p: used to bound Get's comparisons *)
let log2i n = int_of_z (M.Z.log2 (zi n))

let spec_history beta ops out =
  let body, _shape = match String.index_opt out '#' with
    | Some i -> String.sub out 0 i, String.sub out (i + 1) (String.length out - i - 1)
    | None -> out, "" in
  let items = if body = "" then [] else String.split_on_char ';' body in
  if List.length items <> List.length ops then Some "output does not have one item per op" else
  let peak = ref 0 and height = ref (-1) and len = ref 0 in
  let res = ref None in
  let fail i op msg = if !res = None then res := Some (Printf.sprintf "op %d (%s): %s" i op msg) in
  let observe i op l h =
    if l = 0 then peak := 0 else peak := max !peak l;
    len := l; height := h;
    if beta < 1000 then begin
      if not (bound_ok beta !peak h) then
        fail i op (Printf.sprintf "height %d exceeds log_{2000/%d}(P)+1 at peak Len P=%d (Len %d)" h (1000 + beta) !peak l)
    end in
  List.iteri (fun i (op, it) ->
    let f = String.split_on_char ':' it in
    match op.[0], f with
    | ('a' | 'p' | 'r'), [_; l; h] -> observe i op (int_of_string l) (int_of_string h)
    | 'c', [l; h] ->
      let l = int_of_string l and h = int_of_string h in
      if l <> 0 || h <> -1 then fail i op "Clear left a non-empty tree";
      observe i op l h
    | 'C', [l; h] ->
      (* a clone inherits the history (and the peak) of its original *)
      let l = int_of_string l and h = int_of_string h in
      if l <> !len || h <> !height then fail i op "Clone has a different Len or height";
      observe i op l h
    | 'n', [l; h] ->
      let l = int_of_string l and h = int_of_string h in
      peak := 0;
      observe i op l h;
      if l >= 1 && h <> log2i l then fail i op (Printf.sprintf "New built height %d from %d distinct keys, minimum is %d" h l (log2i l))
      else if l = 0 && h <> -1 then fail i op "New without keys is not empty"
    | 'g', [_; c] ->
      let c = int_of_string c in
      if c > !height + 1 then fail i op (Printf.sprintf "Get made %d comparisons in a tree of height %d" c !height)
      else if beta < 1000 && c >= 3 && not (bound_ok beta !peak (c - 1)) then
        fail i op (Printf.sprintf "Get made %d comparisons, more than bound+1 at peak %d" c !peak)
    | _ -> fail i op ("malformed item " ^ it)) (List.combine ops items);
  !res

let spec_point beta n f =
  (* H1: floor(log2 n) <= f;  H2: 2000^f <= n * (1000+beta)^f *)
  if beta >= 1000 || n < 1 then None
  else if log2i n > f then Some (Printf.sprintf "H1 fails: float limit(%d,%d)=%d < floor(log2 n)=%d" beta n f (log2i n))
  else if f < 0 || not (fst (text_pp beta f (zi n))) then Some (Printf.sprintf "H2 fails: float limit(%d,%d)=%d but 2000^%d > %d*%d^%d" beta n f f n (1000 + beta) f)
  else None

let spec prop inp out =
  if prop <> "C02" then None else
  match words inp with
  | ["H"; beta; ops] ->
    if out = "?" then None else
    if String.length out >= 4 && (String.sub out 0 4 = "hang" || String.sub out 0 4 = "pani") then Some ("the implementation did not return: " ^ out) else
    spec_history (int_of_string beta) (parse_ops ops) out
  | ["LP"; beta; n; _hint] ->
    (match int_of_string_opt out with
     | Some f -> spec_point (int_of_string beta) (int_of_string n) f
     | None -> if out = "?" then None else Some "no limit value")
  | ["LR"; beta; n0; n1; _hint] ->
    if out = "?" then None else
    (try
      let beta = int_of_string beta and n0 = int_of_string n0 and n1 = int_of_string n1 in
      let segs = segments n0 n1 (parse_rle out) in
      (* H2 at the left end of a segment and H1 at its right end imply both on the whole segment *)
      List.fold_left (fun acc (lo, hi, f) ->
        match acc with
        | Some _ -> acc
        | None ->
          (match spec_point beta lo f with
           | Some r -> Some r
           | None -> if log2i hi > f then spec_point beta hi f else None)) None segs
    with Bad | Failure _ -> Some "malformed run-length output")
  | _ -> None

let () = run_main ~eval ~spec
