// S lines: the "scale" stream (round 3).  The exhaustive and random streams of main.go stay below
// ~40 lines per input; a change that only shows when a gap between two changes is exactly n+1 or
// 2n lines for a context size of 64 or 256, when a diff has more than a thousand chunks, or when
// the first chunk sits at line 1 in front of a long equal run is invisible to them.  Here the
// inputs have 2^k-1, 2^k, 2^k+1 lines for k up to 12 with 1, 2, 3 and many (up to 1025) separated
// changes, the gaps between changes are exactly n-1, n, n+1, 2n-1, 2n, 2n+1 unchanged lines for
// every context size n in {0,1,2,3,5,8,64,255,256,257,5000}, and the texts are NAMED by a recipe
// instead of listed, so that a trace line stays short however long the text is:
//
//	S  <ops> <oracle> <recipe> | E=<count>:<dg> N=<stage> H=<stage>!<stage>... K=<flags> P=<verdict>
//	SC <ops> <recipe>          | (same output; no oracle: the composed model computes the script)
//
// ops     as in H lines: a<n> = d.AddContext(n), u = d.Unify(), comma separated ("." none).
// recipe  comma-separated groups  item/item/...[*reps]; an item is
//
//	<kind><count>.<period>.<offset>[.<runlen>]       (runlen 1 when omitted)
//
//	e  count lines present in BOTH inputs, d  lines only in lhs, c  lines only in rhs;
//	line j of the item (j = 0..count-1) is the number  offset + ((j / runlen) mod period), as
//	text its decimal spelling, the number 0 is the empty line.  period 1: all lines equal;
//	period >= count: all different; runlen 33, period >= count/33: runs of 33 equal lines, every
//	run another line.  The whole group is repeated reps times.
//
// oracle  the edit script by LENGTHS only: E<k> D<k> C<k> R<kx>.<ky> joined by '/', periodic
//
//	stretches as group*reps, groups joined by ',' ("." empty script).  slice.EditScript is
//	quadratic, so for S lines it is not called a second time: the oracle is d.Edits as New
//	returned it (New stores what slice.EditScript gave it), spelled before any other call.  The
//	driver rebuilds the edits from the texts at the running offsets, validates the script
//	(script_okb: it must consume lhs and produce rhs), builds the chunks from it and compares
//	the digest of its spelling with that of d.Edits: a script with wrong lengths, or chunks
//	that are not the chunks of d.Edits, both show.  D/H lines keep the independent call.  When a
//	line is replayed the oracle field is ignored and written afresh.
//
// <count>:<dg>  d.Edits after New: number of edits and FNV-1a 64 of its fmtEdits spelling.
// <stage>       <chunks>:<edits>:<context lines>:<FNV-1a 64 of the fmtChunks spelling of d.Chunks>
//
//	after New (N) and after every call (H) -- the same spelling D/H lines print in full; model
//	and implementation digest the same byte string.
//
// K  three flags as in H lines, taken AFTER the poisoning described below.
// P  the property C13 itself, decided HERE on the implementation's own chunks by direct definition
//
//	(the driver cannot see the chunks behind a digest): "ok", or the first clause that failed,
//	e.g. call2:chunk17-edits-do-not-consume-Left[5,9).  Clauses, after New and after every call:
//	 - every chunk: 1 <= LStart <= LEnd <= len(Left)+1 (same on the right), and walking its
//	   edits from LStart/RStart consumes exactly the lines Left[LStart,LEnd) and produces exactly
//	   Right[RStart,REnd) -- line TEXTS compared at those offsets, context edits against both
//	   sides, not only counts;
//	 - the non-Emit edits of all chunks, in order, are the non-Emit edits of the script;
//	 - whenever the chunks are ascending and disjoint, substituting them in Left gives Right;
//	 - after New: d.Edits consumes Left and produces Right; no Emit edit in a chunk; chunks
//	   ascending, disjoint and not adjacent;
//	 - after AddContext(n): same number of chunks, chunk i is chunk i before plus at most
//	   max(n,0) context lines before and after (one Emit edit each, ranges moved by exactly
//	   those lines), nothing else changed;
//	 - after Unify: ascending, disjoint, not adjacent; substituting gives Right; the ranges are
//	   the maximal runs of touching chunks of the list before.
//
// Aliasing: d.Edits and both inputs are compared with deep copies after every call.  After the
// last call every slot of every Chunks[i].Edits (up to its CAPACITY) is overwritten and the line
// texts of the context edits are overwritten too; d.Edits and the inputs must still be what they
// were (a chunk whose Edits is a window of d.Edits, or a context edit that is a window of Left,
// shows here whatever n was).  D and H lines poison in the same way.
//
// Cost: slice.EditScript takes ~10 ns per pair of lines and ~400 ns per pair of EQUAL lines (one
// allocation each): two texts of 4097 lines cost 0.15 s when all lines differ and 6 s when all
// are equal.  Long texts therefore use different lines or runs of 33 equal lines; texts where
// every second or third line or every line is the same stay below ~1000 lines in the quick tier.
// The model of slice.EditScript is quadratic too (~15 us per pair of lines in the driver): the
// composed kind SC is limited to short texts, the longest of 257 lines.
package main

import (
	"fmt"
	"strconv"
	"strings"

	"github.com/creachadair/mds/mdiff"
	"github.com/creachadair/mds/slice"
	"verif/harness/internal/tr"
)

// ---- recipes

type rItem struct {
	kind                          byte
	count, period, offset, runlen int
}
type rGroup struct {
	items []rItem
	reps  int
}

const maxScaleLines = 40000

func parseRecipe(s string) ([]rGroup, bool) {
	if s == "." {
		return nil, true
	}
	var out []rGroup
	total := 0
	for _, gs := range strings.Split(s, ",") {
		g := rGroup{reps: 1}
		if i := strings.IndexByte(gs, '*'); i >= 0 {
			r, err := strconv.Atoi(gs[i+1:])
			if err != nil || r < 0 || r > maxScaleLines {
				return nil, false
			}
			g.reps, gs = r, gs[:i]
		}
		for _, is := range strings.Split(gs, "/") {
			if len(is) < 2 || strings.IndexByte("edc", is[0]) < 0 {
				return nil, false
			}
			p := strings.Split(is[1:], ".")
			if len(p) != 3 && len(p) != 4 {
				return nil, false
			}
			v := [4]int{0, 0, 0, 1}
			for i := range p {
				x, err := strconv.Atoi(p[i])
				if err != nil || x < 0 || x > 1<<40 {
					return nil, false
				}
				v[i] = x
			}
			if v[1] < 1 || v[3] < 1 {
				return nil, false
			}
			total += v[0] * g.reps
			if v[0] > maxScaleLines || total > maxScaleLines {
				return nil, false
			}
			g.items = append(g.items, rItem{is[0], v[0], v[1], v[2], v[3]})
		}
		out = append(out, g)
	}
	return out, true
}

func lineText(v int) string {
	if v == 0 {
		return ""
	}
	return strconv.Itoa(v)
}

func buildTexts(gs []rGroup) (lhs, rhs []string) {
	for _, g := range gs {
		for r := 0; r < g.reps; r++ {
			for _, it := range g.items {
				for j := 0; j < it.count; j++ {
					t := lineText(it.offset + (j/it.runlen)%it.period)
					if it.kind != 'c' {
						lhs = append(lhs, t)
					}
					if it.kind != 'd' {
						rhs = append(rhs, t)
					}
				}
			}
		}
	}
	return
}

// ---- the oracle by lengths

func rleTokens(t []string) string {
	if len(t) == 0 {
		return "."
	}
	var groups, lit []string
	flush := func() {
		if len(lit) > 0 {
			groups = append(groups, strings.Join(lit, "/"))
			lit = nil
		}
	}
	same := func(a, b []string) bool {
		for i := range a {
			if a[i] != b[i] {
				return false
			}
		}
		return true
	}
	for i := 0; i < len(t); {
		bestP, bestR := 0, 0
		for p := 1; p <= 16 && i+2*p <= len(t); p++ {
			r := 1
			for i+(r+1)*p <= len(t) && same(t[i:i+p], t[i+r*p:i+(r+1)*p]) {
				r++
			}
			if r >= 2 && p*r > bestP*bestR {
				bestP, bestR = p, r
			}
		}
		if bestR >= 2 && bestP*(bestR-1) >= 3 {
			flush()
			groups = append(groups, strings.Join(t[i:i+bestP], "/")+"*"+strconv.Itoa(bestR))
			i += bestP * bestR
		} else {
			lit = append(lit, t[i])
			i++
		}
	}
	flush()
	return strings.Join(groups, ",")
}

func lenScript(es []mdiff.Edit) string {
	toks := make([]string, len(es))
	for i, e := range es {
		switch e.Op {
		case slice.OpDrop:
			toks[i] = "D" + strconv.Itoa(len(e.X))
		case slice.OpEmit:
			toks[i] = "E" + strconv.Itoa(len(e.X))
		case slice.OpCopy:
			toks[i] = "C" + strconv.Itoa(len(e.Y))
		case slice.OpReplace:
			toks[i] = "R" + strconv.Itoa(len(e.X)) + "." + strconv.Itoa(len(e.Y))
		default:
			toks[i] = "X" + strconv.Itoa(int(e.Op))
		}
	}
	return rleTokens(toks)
}

// ---- digests

func fnv64(s string) string {
	h := uint64(0xcbf29ce484222325)
	for i := 0; i < len(s); i++ {
		h ^= uint64(s[i])
		h *= 0x100000001b3
	}
	return fmt.Sprintf("%016x", h)
}

func editsDigest(es []mdiff.Edit) string { return strconv.Itoa(len(es)) + ":" + fnv64(fmtEdits(es)) }

func stageDigest(cs []*mdiff.Chunk) string {
	ne, ctx := 0, 0
	for _, c := range cs {
		if c == nil {
			continue
		}
		ne += len(c.Edits)
		for _, e := range c.Edits {
			if e.Op == slice.OpEmit {
				ctx += len(e.X)
			}
		}
	}
	return strconv.Itoa(len(cs)) + ":" + strconv.Itoa(ne) + ":" + strconv.Itoa(ctx) + ":" + fnv64(fmtChunks(cs))
}

// ---- the property, by direct definition, on the implementation's chunks

type chunkSnap struct {
	ls, le, rs, re int
	edits          []mdiff.Edit
}

func snapChunks(cs []*mdiff.Chunk) []chunkSnap {
	out := make([]chunkSnap, len(cs))
	for i, c := range cs {
		if c != nil {
			out[i] = chunkSnap{c.LStart, c.LEnd, c.RStart, c.REnd, copyEdits(c.Edits)}
		}
	}
	return out
}

func sameEdit(a, b mdiff.Edit) bool {
	return a.Op == b.Op && sameLines(a.X, b.X) && sameLines(a.Y, b.Y)
}

// chunkRight: "" when c's edits consume exactly L[LStart,LEnd) and produce exactly R[RStart,REnd)
func chunkRight(L, R []string, c *mdiff.Chunk) string {
	if c == nil {
		return "is-nil"
	}
	if !(1 <= c.LStart && c.LStart <= c.LEnd && c.LEnd <= len(L)+1) {
		return fmt.Sprintf("left-range-[%d,%d)-outside-Left-of-%d-lines", c.LStart, c.LEnd, len(L))
	}
	if !(1 <= c.RStart && c.RStart <= c.REnd && c.REnd <= len(R)+1) {
		return fmt.Sprintf("right-range-[%d,%d)-outside-Right-of-%d-lines", c.RStart, c.REnd, len(R))
	}
	lp, rp := c.LStart-1, c.RStart-1
	eat := func(src []string, pos *int, end int, want []string) bool {
		if *pos+len(want) > end-1 {
			return false
		}
		for i, w := range want {
			if src[*pos+i] != w {
				return false
			}
		}
		*pos += len(want)
		return true
	}
	okL, okR := true, true
	for _, e := range c.Edits {
		switch e.Op {
		case slice.OpDrop:
			okL = okL && eat(L, &lp, c.LEnd, e.X)
		case slice.OpEmit:
			okL = okL && eat(L, &lp, c.LEnd, e.X)
			okR = okR && eat(R, &rp, c.REnd, e.X)
		case slice.OpCopy:
			okR = okR && eat(R, &rp, c.REnd, e.Y)
		case slice.OpReplace:
			okL = okL && eat(L, &lp, c.LEnd, e.X)
			okR = okR && eat(R, &rp, c.REnd, e.Y)
		default:
			return "has-an-edit-with-an-unknown-op"
		}
		if !okL || !okR {
			break
		}
	}
	if !okL || lp != c.LEnd-1 {
		return fmt.Sprintf("edits-do-not-consume-Left[%d,%d)", c.LStart, c.LEnd)
	}
	if !okR || rp != c.REnd-1 {
		return fmt.Sprintf("edits-do-not-produce-Right[%d,%d)", c.RStart, c.REnd)
	}
	return ""
}

func separatedBy(cs []*mdiff.Chunk, g int) bool {
	for i := 0; i+1 < len(cs); i++ {
		if cs[i].LEnd+g > cs[i+1].LStart || cs[i].REnd+g > cs[i+1].RStart {
			return false
		}
	}
	return true
}

// substituting the chunks (ascending, disjoint, each one right) in L
func appliesTo(L, R []string, cs []*mdiff.Chunk) bool {
	var out []string
	pos := 1
	for _, c := range cs {
		if c.LStart < pos || c.LStart > len(L)+1 {
			return false
		}
		out = append(out, L[pos-1:c.LStart-1]...)
		for _, e := range c.Edits {
			switch e.Op {
			case slice.OpEmit:
				out = append(out, e.X...)
			case slice.OpCopy, slice.OpReplace:
				out = append(out, e.Y...)
			}
		}
		pos = c.LEnd
	}
	if pos < 1 || pos > len(L)+1 {
		return false
	}
	out = append(out, L[pos-1:]...)
	return sameLines(out, R)
}

func changesOf(es []mdiff.Edit) []mdiff.Edit {
	var out []mdiff.Edit
	for _, e := range es {
		if e.Op != slice.OpEmit {
			out = append(out, e)
		}
	}
	return out
}

// after is before plus at most n context lines (one Emit edit) before and after
func ctxStep(n int, before chunkSnap, after *mdiff.Chunk) bool {
	n = max(n, 0)
	try := func(pre, post bool) bool {
		es := after.Edits
		np, nq := 0, 0
		if pre {
			if len(es) == 0 || es[0].Op != slice.OpEmit || len(es[0].X) == 0 || len(es[0].X) > n || len(es[0].Y) != 0 {
				return false
			}
			np, es = len(es[0].X), es[1:]
		}
		if post {
			k := len(es) - 1
			if k < 0 || es[k].Op != slice.OpEmit || len(es[k].X) == 0 || len(es[k].X) > n || len(es[k].Y) != 0 {
				return false
			}
			nq, es = len(es[k].X), es[:k]
		}
		if len(es) != len(before.edits) {
			return false
		}
		for i := range es {
			if !sameEdit(es[i], before.edits[i]) {
				return false
			}
		}
		return after.LStart == before.ls-np && after.RStart == before.rs-np &&
			after.LEnd == before.le+nq && after.REnd == before.re+nq
	}
	return try(false, false) || try(true, false) || try(false, true) || try(true, true)
}

// the ranges Unify must produce: maximal runs of chunks each starting at or before the end of
// the one before
func unifiedSpans(prev []chunkSnap) [][4]int {
	var out [][4]int
	for i, c := range prev {
		if i > 0 && c.ls <= out[len(out)-1][1] {
			out[len(out)-1][1], out[len(out)-1][3] = c.le, c.re
			continue
		}
		out = append(out, [4]int{c.ls, c.le, c.rs, c.re})
	}
	return out
}

// checkStage: the clauses that hold after New and after every call
func checkStage(L, R []string, cs []*mdiff.Chunk, script []mdiff.Edit) string {
	for i, c := range cs {
		if why := chunkRight(L, R, c); why != "" {
			return fmt.Sprintf("chunk%d-%s", i, why)
		}
	}
	var got []mdiff.Edit
	for _, c := range cs {
		got = append(got, changesOf(c.Edits)...)
	}
	if !sameEdits(got, changesOf(script)) {
		return "the-non-context-edits-of-the-chunks-are-not-those-of-the-script"
	}
	if separatedBy(cs, 0) && !appliesTo(L, R, cs) {
		return "chunks-ascending-and-disjoint-but-substituting-them-in-Left-does-not-give-Right"
	}
	return ""
}

func checkNew(L, R []string, cs []*mdiff.Chunk, script []mdiff.Edit) string {
	if why := checkStage(L, R, cs, script); why != "" {
		return why
	}
	for i, c := range cs {
		for _, e := range c.Edits {
			if e.Op == slice.OpEmit {
				return fmt.Sprintf("chunk%d-contains-an-Emit-edit", i)
			}
		}
	}
	if !separatedBy(cs, 1) {
		return "chunks-not-ascending-disjoint-and-non-adjacent"
	}
	if !appliesTo(L, R, cs) {
		return "substituting-the-chunks-in-Left-does-not-give-Right"
	}
	return ""
}

func checkCall(L, R []string, unify bool, n int, prev []chunkSnap, cs []*mdiff.Chunk, script []mdiff.Edit) string {
	if why := checkStage(L, R, cs, script); why != "" {
		return why
	}
	if unify {
		if !separatedBy(cs, 1) {
			return "Unify:chunks-not-ascending-disjoint-and-non-adjacent"
		}
		if !appliesTo(L, R, cs) {
			return "Unify:substituting-the-chunks-in-Left-does-not-give-Right"
		}
		want := unifiedSpans(prev)
		if len(want) != len(cs) {
			return "Unify:the-chunks-are-not-the-runs-of-touching-chunks-of-the-list-before"
		}
		for i, c := range cs {
			if want[i] != [4]int{c.LStart, c.LEnd, c.RStart, c.REnd} {
				return fmt.Sprintf("Unify:chunk%d-is-not-a-run-of-touching-chunks-of-the-list-before", i)
			}
		}
		return ""
	}
	if len(cs) != len(prev) {
		return "AddContext:number-of-chunks-changed"
	}
	for i, c := range cs {
		if !ctxStep(n, prev[i], c) {
			return fmt.Sprintf("AddContext:chunk%d-is-not-the-chunk-before-plus-at-most-n-context-lines-each-side", i)
		}
	}
	return ""
}

// poisonChunks overwrites what the caller of AddContext/Unify may overwrite without touching the
// script or the inputs: every slot of every chunk's Edits slice up to its capacity, and (first)
// the line texts of the context edits, which AddContext built itself.
func poisonChunks(cs []*mdiff.Chunk) {
	for _, c := range cs {
		if c == nil {
			continue
		}
		for _, e := range c.Edits {
			if e.Op == slice.OpEmit {
				x := e.X[:cap(e.X)]
				for i := range x {
					x[i] = "POISON"
				}
			}
		}
		es := c.Edits[:cap(c.Edits)]
		for i := range es {
			es[i] = mdiff.Edit{Op: 'P', X: []string{"POISON"}, Y: []string{"POISON"}}
		}
	}
}

func inputsIntact(d *mdiff.Diff, lhs, rhs, lhs0, rhs0 []string) bool {
	return sameLines(lhs, lhs0) && sameLines(rhs, rhs0) && sameLines(d.Left, lhs0) && sameLines(d.Right, rhs0) &&
		lhs[:cap(lhs)][len(lhs)] == "SENTINEL" && rhs[:cap(rhs)][len(rhs)] == "SENTINEL"
}

func execScale(opsS, recipe string) (result, oracle string) {
	ops, isUnify, ok := parseOps(opsS)
	gs, ok2 := parseRecipe(recipe)
	if !ok || !ok2 {
		return "?", "?"
	}
	lhs0, rhs0 := buildTexts(gs)
	lhs, rhs := padded(lhs0), padded(rhs0)
	var d *mdiff.Diff
	if p := tr.Catch(func() { d = mdiff.New(lhs, rhs) }); p != "" {
		return "E=- N=" + p + " H=- K=- P=-", p
	}
	snap := copyEdits(d.Edits)
	oracle = lenScript(snap)
	out := "E=" + editsDigest(d.Edits) + " N=" + stageDigest(d.Chunks)
	prop := ""
	note := func(stage, why string) {
		if prop == "" && why != "" {
			prop = stage + ":" + why
		}
	}
	if !(len(snap) == 0 && sameLines(lhs0, rhs0)) {
		// the script itself: executing it consumes Left and produces Right
		c := &mdiff.Chunk{Edits: snap, LStart: 1, LEnd: len(lhs0) + 1, RStart: 1, REnd: len(rhs0) + 1}
		if chunkRight(lhs0, rhs0, c) != "" {
			note("New", "d.Edits-does-not-transform-Left-into-Right")
		}
	}
	note("New", checkNew(lhs0, rhs0, d.Chunks, snap))
	prev := snapChunks(d.Chunks)
	same, ret := true, true
	var stages []string
	for i := range ops {
		var d2 *mdiff.Diff
		p := tr.Catch(func() {
			if isUnify[i] {
				d2 = d.Unify()
			} else {
				d2 = d.AddContext(ops[i])
			}
		})
		if p != "" {
			stages = append(stages, p)
			return out + " H=" + strings.Join(stages, "!") + " K=- P=-", oracle
		}
		ret = ret && d2 == d
		same = same && sameEdits(snap, d.Edits) && inputsIntact(d, lhs, rhs, lhs0, rhs0)
		stages = append(stages, stageDigest(d.Chunks))
		note("call"+strconv.Itoa(i+1), checkCall(lhs0, rhs0, isUnify[i], ops[i], prev, d.Chunks, snap))
		prev = snapChunks(d.Chunks)
	}
	poisonChunks(d.Chunks)
	hs := "none"
	if len(stages) > 0 {
		hs = strings.Join(stages, "!")
	}
	k := tr.B(same && sameEdits(snap, d.Edits)) + tr.B(inputsIntact(d, lhs, rhs, lhs0, rhs0)) + tr.B(ret)
	if prop == "" {
		prop = "ok"
	}
	return out + " H=" + hs + " K=" + k + " P=" + prop, oracle
}

// ---- generation

func it(kind byte, count, period, offset int) string {
	return string(kind) + strconv.Itoa(count) + "." + strconv.Itoa(max(period, 1)) + "." + strconv.Itoa(offset)
}

const nStyles = 5

// a common run of count lines in one of the styles the streams use:
//
//	0  all lines different
//	1  period 2        2  period 3      (not all identical, but every line has equals nearby)
//	3  all identical (one run of equal lines)
//	4  runs of 33 equal lines, every run another line
func run(count, style, offset int) string {
	switch style {
	case 0:
		return it('e', count, count, offset)
	case 1:
		return it('e', count, 2, offset)
	case 2:
		return it('e', count, 3, offset)
	case 3:
		return it('e', count, 1, offset)
	}
	return it('e', count, count/33+1, offset) + ".33"
}

// the dearest pair of texts of n lines in that style, in pairs of equal lines
func styleCost(style, n int) int {
	switch style {
	case 1:
		return n * n / 2
	case 2:
		return n * n / 3
	case 3:
		return n * n
	case 4:
		return n * 33
	}
	return n
}

// change number k of a text, of rotating shape: one line dropped, one inserted, one replaced,
// two dropped, three inserted.  near > 0: the changed lines EQUAL that neighbouring common line
// (a dropped or inserted copy of a repeated line: context search and the LCS see equal lines on
// both sides of the change); near = 0: lines that occur nowhere else.
func change(k, near int) string {
	dv, cv := 100000+k, 200000+k
	if near > 0 {
		dv, cv = near, near
	}
	switch k % 5 {
	case 0:
		return it('d', 1, 1, dv)
	case 1:
		return it('c', 1, 1, cv)
	case 2:
		return it('d', 1, 1, dv) + "," + it('c', 1, 1, 200000+k)
	case 3:
		return it('d', 2, 1, dv)
	}
	return it('c', 3, 1, cv)
}

// joinItems: one group per item (the shrinker of bin/check drops ','-separated parts of the last
// field); groupItems: the items of one group, to be repeated
func joinItems(xs ...string) string  { return joinWith(",", xs) }
func groupItems(xs ...string) string { return joinWith("/", xs) }

func joinWith(sep string, xs []string) string {
	var out []string
	for _, x := range xs {
		if x != "" && !strings.HasPrefix(x[1:], "0.") { // no empty items
			out = append(out, x)
		}
	}
	return strings.Join(out, sep)
}

type scaleGen struct {
	g *tr.G
}

func (s *scaleGen) emit(ops, recipe, tag string, composed bool, more ...string) (chunksAfterNew int) {
	g := s.g
	out, orc := execScale(ops, recipe)
	in := "S " + ops + " " + orc + " " + recipe
	if composed {
		in = "SC " + ops + " " + recipe
		g.W.Count("composed-no-oracle", 1)
	}
	g.W.Case(in, out, false)
	g.W.Count(tag, 1)
	g.W.Count("scale", 1)
	for _, t := range more {
		g.W.Count(t, 1)
	}
	// what the case reached, from the stage summaries chunks:edits:context:digest
	f := map[string]string{}
	for _, w := range strings.Fields(out) {
		if i := strings.IndexByte(w, '='); i > 0 {
			f[w[:i]] = w[i+1:]
		}
	}
	num := func(stage string, i int) int {
		p := strings.Split(stage, ":")
		if i >= len(p) {
			return 0
		}
		n, _ := strconv.Atoi(p[i])
		return n
	}
	nN := num(f["N"], 0)
	if nN >= 1 && ops != "." {
		g.W.NonTriv++
	}
	switch {
	case nN >= 1000:
		g.W.Count("scale-chunks>=1000", 1)
	case nN >= 256:
		g.W.Count("scale-chunks>=256", 1)
	case nN >= 33:
		g.W.Count("scale-chunks>=33", 1)
	}
	if f["H"] != "" && f["H"] != "none" {
		maxCtx, merged := 0, false
		prevN := nN
		for _, st := range strings.Split(f["H"], "!") {
			maxCtx = max(maxCtx, num(st, 2))
			if c := num(st, 0); c < prevN {
				merged = true
				prevN = c
			}
		}
		if merged {
			g.W.Count("scale-unify-merged", 1)
		}
		switch {
		case maxCtx >= 4096:
			g.W.Count("scale-context-lines>=4096", 1)
		case maxCtx >= 512:
			g.W.Count("scale-context-lines>=512", 1)
		case maxCtx >= 64:
			g.W.Count("scale-context-lines>=64", 1)
		}
	}
	if f["P"] != "ok" {
		g.W.Count("scale-property-violated", 1)
	}
	return nN
}

// the call histories a text is run under, for context size n
func scaleHists(n int) []string {
	a := "a" + strconv.Itoa(n)
	return []string{
		a + ",u",             // the documented pipeline
		a + "," + a + ",u",   // AddContext applied twice
		"u," + a + ",u,u",    // Unify without AddContext, Unify twice
		"a0," + a + ",u",     // AddContext(0) first
		a + ",u," + a + ",u", // context added again after unifying
	}
}

var scaleNs = []int{0, 1, 2, 3, 5, 8, 64, 255, 256, 257, 5000}

func genScale(g *tr.G) {
	s := &scaleGen{g: g}
	thorough := g.Thorough()
	rot := int(g.Seed % 1000) // rotates the variants that a run can afford only one of

	// ---- stream G: exact gaps.  lead / change / gap / change [/ gap2 / change] / tail for every
	// context size n and every gap from {n-1, n, n+1, 2n-1, 2n, 2n+1}: the whole context of one
	// side removed (gap <= n), contexts overlapping each other (n < gap < 2n), abutting (2n), one
	// line apart (2n+1).  Gap lines in five styles; where lines repeat (styles 1-4) every second
	// text has changes that are copies of the neighbouring line.
	tx := 0
	for _, n := range scaleNs {
		var gaps []int
		if n == 5000 { // n larger than the whole file
			gaps = []int{1, 7, 64, 700}
		} else {
			for _, gap := range []int{n - 1, n, n + 1, 2*n - 1, 2 * n, 2*n + 1} {
				dup := gap < 1
				for _, h := range gaps {
					dup = dup || h == gap
				}
				if !dup {
					gaps = append(gaps, gap)
				}
			}
		}
		ends := []int{0, 1, max(n-1, 0), n, n + 1}
		if n == 5000 {
			ends = []int{0, 1, 3, 50, 300}
		}
		long := n >= 255
		for gi, gap := range gaps {
			for style := 0; style < nStyles; style++ {
				tx++
				// quick, long texts: every gap with different lines and with runs of 33; the
				// dear styles (a pair of equal lines costs 40 times a pair of different ones)
				// once per n, which gap rotates with the seed
				if !thorough && long && style >= 1 && style <= 3 && (gi+n+rot)%len(gaps) != style-1 {
					continue
				}
				lead, tail := ends[(tx+gi)%len(ends)], ends[(tx+2*gi+style)%len(ends)]
				near1, near2, near3 := 0, 0, 0
				if style >= 1 && tx%2 == 0 {
					near1, near2, near3 = 7, 8, 7
				}
				var parts []string
				parts = append(parts, run(lead, style, 7), change(tx, near1), run(gap, style, 7+tx%2), change(tx+1, near2))
				if !long {
					gap2 := gaps[(gi+1+style)%len(gaps)]
					parts = append(parts, run(gap2, style, 8-tx%2), change(tx+2, near3))
				}
				parts = append(parts, run(tail, style, 7))
				recipe := joinItems(parts...)
				hs := scaleHists(n)
				tag := "scale-gaps"
				if n >= 64 {
					tag = "scale-gaps-n>=64"
				}
				class := "scale-gap>2n:stay-apart"
				switch {
				case n == 0 || n == 5000:
					class = "scale-gap:n=0-or-n-beyond-the-file"
				case gap <= n:
					class = "scale-gap<=n:whole-context-removed"
				case gap < 2*n:
					class = "scale-n<gap<2n:contexts-overlap"
				case gap == 2*n:
					class = "scale-gap=2n:contexts-abut"
				}
				if style != 3 && n > 0 && n < 5000 && gap > n && gap < 2*n {
					class += "(lines-not-all-equal)"
				}
				s.emit(hs[0], recipe, tag, false, class)
				if !long || thorough || style == 0 {
					s.emit(hs[1+(tx+rot)%(len(hs)-1)], recipe, tag, false)
				}
				if thorough {
					for _, h := range hs[1:] {
						s.emit(h, recipe, tag, false)
					}
				}
				if n <= 8 && tx%3 == 0 {
					s.emit(hs[(tx/3)%len(hs)], recipe, "scale-gaps", true)
				}
			}
		}
		// the six gaps in one text, repeated: many chunks with every kind of neighbourhood
		if n <= 64 && len(gaps) > 0 {
			var cyc []string
			per := 0
			for gi, gap := range gaps {
				cyc = append(cyc, run(gap, []int{0, 4, 2}[gi%3], 7), change(gi, 0))
				per += gap + 1
			}
			reps := max(1, min(1025/len(gaps), g.Scale(1500, 4000)/per))
			recipe := strings.ReplaceAll(groupItems(cyc...), ",", "/") + "*" + strconv.Itoa(reps)
			s.emit(scaleHists(n)[0], recipe, "scale-gap-cycle", false)
			s.emit(scaleHists(n)[1+(n+rot)%4], recipe, "scale-gap-cycle", false)
		}
	}

	// ---- stream Z: sizes.  Left has exactly 2^k-1, 2^k, 2^k+1 lines, k = 1..12, with 1, 2, 3 or
	// many separated changes: at line 1 of both inputs followed by equal lines, in the middle,
	// at the very end.
	for k := 1; k <= 12; k++ {
		for _, size := range []int{1<<k - 1, 1 << k, 1<<k + 1} {
			if size < 2 {
				continue
			}
			type variant struct {
				recipe, tag string
				style       int
				many        bool
			}
			var vs []variant
			for style := 0; style < nStyles; style++ {
				near := 0
				if style == 3 {
					near = 7
				}
				text := func(recipe, tag string) { vs = append(vs, variant{recipe, tag, style, false}) }
				// one change: first line, middle, last line (a dropped line counts for the size)
				one := it('d', 1, 1, 100000)
				if near > 0 {
					one = it('d', 1, 1, near)
				}
				text(joinItems(one, run(size-1, style, 7)), "scale-size-1-change")
				text(joinItems(run(size/2, style, 7), one, run(size-1-size/2, style, 7)), "scale-size-1-change")
				text(joinItems(run(size-1, style, 7), one), "scale-size-1-change")
				// an insertion at line 1 / at the very end (Left is all common lines)
				text(joinItems(it('c', 2, 1, 200000), run(size, style, 7)), "scale-size-1-change")
				text(joinItems(run(size, style, 7), it('c', 1, 1, 200001)), "scale-size-1-change")
				if size >= 4 {
					// two changes: at both ends; three: ends and middle
					text(joinItems(one, run(size-2, style, 7), it('d', 1, 1, 100001)), "scale-size-2-changes")
					m := (size - 3) / 2
					text(joinItems(one, run(m, style, 7), it('d', 1, 1, 100001), it('c', 1, 1, 200001),
						run(size-3-m, style, 8), it('d', 1, 1, 100002)), "scale-size-3-changes")
				}
			}
			// many changes: one change every 3 (4, 2, 3) lines of Left; 1025 changes from 4095 lines on
			if size >= 8 {
				for v, per := range []int{3, 4, 2, 3} {
					// a group: per-1 common lines and a dropped one (per lines of Left, one change)
					grp, lper, cper := groupItems(run(per-1, 0, 7), it('d', 1, 1, 100000)), per, 1
					if v == 1 { // changes alternate between a dropped and an inserted line
						grp = groupItems(run(per-1, 0, 7), it('d', 1, 1, 100000), run(per, 0, 17), it('c', 1, 1, 200000))
						lper, cper = 2*per, 2
					}
					if v == 3 { // insertions 3 lines apart: with n = 1 all chunks get context and stay apart
						grp = groupItems(run(per, 0, 7), it('c', 1, 1, 200000))
					}
					reps := min((1025+cper-1)/cper, (size-1)/lper)
					if reps < 1 {
						continue
					}
					rest := size - reps*lper
					recipe := grp + "*" + strconv.Itoa(reps) + "," + run(rest, 0, 99)
					if v == 2 { // the last change at the very end of both inputs
						recipe = run(rest, 0, 99) + "," + grp + "*" + strconv.Itoa(reps)
					}
					vs = append(vs, variant{recipe, "scale-size-many-changes", 0, true})
				}
			}
			// Quick tier: every variant up to 129 lines; from 255 lines on the dear styles 1-3
			// only in one variant per size (none from 2047 lines on); a third of the others
			// around 1024; from 2047 lines on three per size: different lines, runs of 33, many
			// changes.  Which ones rotates with the seed.  Thorough: everything up to 1025
			// lines, above that all variants of the cheap styles and a few of the dear ones.
			pick := make([]bool, len(vs))
			var cheap, dear, many []int
			for i, v := range vs {
				switch {
				case v.many:
					many = append(many, i)
				case v.style >= 1 && v.style <= 3:
					dear = append(dear, i)
				default:
					cheap = append(cheap, i)
				}
			}
			switch {
			case size < 200 || (thorough && size < 1100):
				for i := range pick {
					pick[i] = true
				}
			case thorough: // all but the dear styles: three of those around 2048, one around 4096
				for _, i := range append(cheap, many...) {
					pick[i] = true
				}
				for j := 0; j < 3 && (j == 0 || size < 2100); j++ {
					pick[dear[(size*7+rot+j*8)%len(dear)]] = true
				}
			case size < 600:
				for _, i := range append(cheap, many...) {
					pick[i] = true
				}
				pick[dear[(size*7+rot)%len(dear)]] = true
			case size < 1100:
				for _, i := range append(cheap, many...) {
					pick[i] = (i+size+rot)%3 == 0
				}
				if (size+rot)%3 == 0 {
					pick[dear[(size*7+rot)%len(dear)]] = true
				}
			default:
				pick[cheap[(size+rot)%len(cheap)]] = true
				pick[cheap[(size+rot+len(cheap)/2)%len(cheap)]] = true
				pick[many[(size+rot)%len(many)]] = true
				if size == 1<<12+1 {
					pick[many[3]] = true // every run: 1025 chunks that are still 1025 after AddContext(1) and Unify
				}
			}
			for i, v := range vs {
				if !pick[i] {
					continue
				}
				n := scaleNs[(i+size+rot)%len(scaleNs)]
				if v.many && size >= 600 {
					// so small that most chunks stay apart: Unify walks a long list, and up to
					// 1025 chunks are left at the end
					n = (i + size + rot) % 2
				}
				hs := scaleHists(n)
				h := hs[(i+rot)%len(hs)]
				if v.many && size >= 600 && i == many[3] {
					h = "a1,u" // every chunk gets context, none touches its neighbour
				}
				s.emit(h, v.recipe, v.tag, false)
				if (size < 200 && (i+rot)%2 == 0) || (thorough && (size < 1100 || v.style == 0 || v.style == 4)) {
					n2 := scaleNs[(i+size+rot+5)%len(scaleNs)]
					s.emit(scaleHists(n2)[0], v.recipe, v.tag, false)
				}
				// the composed model costs ~15 us per pair of lines
				if (size <= 33 && i%2 == 0) || (size <= 65 && (i+rot)%8 == 0) {
					s.emit(hs[0], v.recipe, v.tag, true)
				}
			}
		}
	}
	// the composed model on a few longer texts (its LCS is quadratic)
	for i, size := range []int{129, 257} {
		n := []int{64, 5}[i]
		recipe := joinItems(change(i, 0), run(size/2, 4, 7), change(i+1, 0), run(size/2, 0, 7), change(i+2, 0))
		s.emit(scaleHists(n)[0], recipe, "scale-composed", true)
	}

	// ---- a few random large texts: random gaps around a random n, random styles
	for i := 0; i < g.Scale(40, 600); i++ {
		n := tr.Pick(g.R, scaleNs[:9])
		if n >= 255 && !thorough && i%4 != 0 {
			n = tr.Pick(g.R, scaleNs[:7])
		}
		var parts []string
		total := 0
		if g.R.Chance(1, 2) {
			parts = append(parts, run(g.R.Intn(2*n+3), g.R.Intn(nStyles), 7))
		}
		for c := 2 + g.R.Intn(6); c > 0 && total < 3000; c-- {
			style := g.R.Intn(nStyles)
			gap := max(1, []int{n - 1, n, n + 1, 2*n - 1, 2 * n, 2*n + 1, g.R.Intn(2*n + 3)}[g.R.Intn(7)])
			if styleCost(style, gap) > g.Scale(20000, 100000) {
				style = []int{0, 4}[g.R.Intn(2)]
			}
			near := 0
			if style >= 1 && g.R.Chance(2, 3) {
				near = 7 + g.R.Intn(2)
			}
			parts = append(parts, change(g.R.Intn(1000), near), run(gap, style, 7+g.R.Intn(2)))
			total += gap
		}
		if g.R.Chance(1, 2) {
			parts = append(parts, change(g.R.Intn(1000), 0))
		}
		nops := 2 + g.R.Intn(4)
		ops := make([]string, nops)
		for j := range ops {
			switch {
			case g.R.Chance(1, 3):
				ops[j] = "u"
			case g.R.Chance(1, 4):
				ops[j] = "a" + strconv.Itoa(tr.Pick(g.R, []int{0, 1, n / 2, n + 1, -1}))
			default:
				ops[j] = "a" + strconv.Itoa(n)
			}
		}
		s.emit(strings.Join(ops, ","), joinItems(parts...), "scale-random", i%8 == 0 && total < 150)
	}
}
