// Command mdifftrace drives mdiff.New(lhs, rhs).AddContext(n).Unify() of the working tree and
// records the input, the ORACLE (the edit script slice.EditScript returned) and every observable
// after each stage, one case per line:
//
//	D <n> <script> <lhs> <rhs> | E=<script> N=<chunks> A=<chunks> U=<chunks> K=<flags>
//
// lhs, rhs: comma-separated hex lines ("." empty list, "-" empty line).
// script:   "." or '/'-joined edits  <op>:<X>:<Y>  (op D E C R = Drop Emit Copy Replace; X, Y hex
//
//	line lists).  In the INPUT it is the oracle: slice.EditScript(lhs, rhs) as observed when the
//	line was generated (recomputed when an input file is replayed: a replay file may give "?").
//	The model validates it (it must consume lhs and produce rhs) and builds the chunks from it.
//
//	C <n> <lhs> <rhs> | (same output)
//
// the same run without an oracle: the driver computes the script with the model of
// slice.EditScript (C11) and predicts everything from lhs and rhs.
//
// E: d.Edits after New.  N / A / U: d.Chunks after New, after AddContext(n), after Unify:
// "." or '_'-joined chunks  LStart;LEnd;RStart;REnd;<edits>.  A panic is "panic:<kind>" (later
// stages then print "-").
// HISTORIES: any sequence of the exported chunk operations after New:
//
//	H <ops> <script> <lhs> <rhs> | E=<script> N=<chunks> H=<chunks>!<chunks>!... K=<flags>
//	HC <ops> <lhs> <rhs>         | (same output; no oracle, composed model)
//
// ops: comma-separated calls, a<n> = d.AddContext(n) (any int64 n, also negative), u = d.Unify().
// H: d.Chunks after every call, '!'-separated (a panic ends the list with "panic:<kind>").
// K: three flags: d.Edits unchanged after every call and after the caller has overwritten every slot
// of every Chunks[i].Edits (up to its capacity) and the line texts of the context edits; lhs, rhs,
// d.Left, d.Right unchanged at the end (after that overwriting); every call returned its receiver.
//
// ARBITRARY CHUNK LISTS for the exported UnifyChunks (chunks that need not come from a Diff):
//
//	U <chunks> | U=<chunks>      (or U=panic:<kind>)
//
// K: four flags: d.Edits unchanged (deep comparison with a copy taken after New) after
// AddContext; the same after Unify and after the chunks' edit slices were overwritten; lhs and rhs
// unchanged at the end; AddContext and Unify returned their receiver.
//
// S / SC lines (the scale stream: long texts named by a recipe, digested outputs): see scale.go.
//
// PD / PU lines (the history case of an H line AFTER an earlier call in the same process, whose result
// the caller still holds and compares afterwards: output of the H line plus Q=<flag>): see round4.go.
package main

import (
	"math"
	"os"
	"strconv"
	"strings"

	"github.com/creachadair/mds/mdiff"
	"github.com/creachadair/mds/slice"
	"verif/harness/internal/tr"
)

var opName = map[slice.EditOp]string{slice.OpDrop: "D", slice.OpEmit: "E", slice.OpCopy: "C", slice.OpReplace: "R"}

func fmtEdits(es []mdiff.Edit) string {
	if len(es) == 0 {
		return "."
	}
	out := make([]string, len(es))
	for i, e := range es {
		op, ok := opName[e.Op]
		if !ok {
			op = "X" + strconv.Itoa(int(e.Op))
		}
		out[i] = op + ":" + tr.HexList(e.X) + ":" + tr.HexList(e.Y)
	}
	return strings.Join(out, "/")
}

func fmtChunks(cs []*mdiff.Chunk) string {
	if len(cs) == 0 {
		return "."
	}
	out := make([]string, len(cs))
	for i, c := range cs {
		if c == nil {
			out[i] = "nil"
			continue
		}
		out[i] = strconv.Itoa(c.LStart) + ";" + strconv.Itoa(c.LEnd) + ";" + strconv.Itoa(c.RStart) + ";" +
			strconv.Itoa(c.REnd) + ";" + fmtEdits(c.Edits)
	}
	return strings.Join(out, "_")
}

func copyEdits(es []mdiff.Edit) []mdiff.Edit {
	out := make([]mdiff.Edit, len(es))
	for i, e := range es {
		out[i] = mdiff.Edit{Op: e.Op, X: append([]string(nil), e.X...), Y: append([]string(nil), e.Y...)}
	}
	return out
}

func sameLines(a, b []string) bool {
	if len(a) != len(b) {
		return false
	}
	for i := range a {
		if a[i] != b[i] {
			return false
		}
	}
	return true
}

func sameEdits(a, b []mdiff.Edit) bool {
	if len(a) != len(b) {
		return false
	}
	for i := range a {
		if a[i].Op != b[i].Op || !sameLines(a[i].X, b[i].X) || !sameLines(a[i].Y, b[i].Y) {
			return false
		}
	}
	return true
}

// spare capacity filled with a sentinel, so that a read or an append past len() shows
func padded(ss []string) []string {
	out := append(make([]string, 0, len(ss)+3), ss...)
	for i := 0; i < 3; i++ {
		out[:cap(out)][len(ss)+i] = "SENTINEL"
	}
	return out
}

func oracle(lhs, rhs []string) string {
	var es []mdiff.Edit
	if p := tr.Catch(func() { es = slice.EditScript(lhs, rhs) }); p != "" {
		return p
	}
	return fmtEdits(es)
}

func input(n int, lhs, rhs []string) string {
	return "D " + strconv.Itoa(n) + " " + oracle(lhs, rhs) + " " + tr.HexList(lhs) + " " + tr.HexList(rhs)
}

func parseOps(s string) (ops []int, isUnify []bool, ok bool) {
	if s == "." || s == "" {
		return nil, nil, true
	}
	for _, w := range strings.Split(s, ",") {
		switch {
		case w == "u":
			ops, isUnify = append(ops, 0), append(isUnify, true)
		case strings.HasPrefix(w, "a"):
			n, err := strconv.Atoi(w[1:])
			if err != nil {
				return nil, nil, false
			}
			ops, isUnify = append(ops, n), append(isUnify, false)
		default:
			return nil, nil, false
		}
	}
	return ops, isUnify, true
}

func fmtOps(ops []int, isUnify []bool) string {
	if len(ops) == 0 {
		return "."
	}
	out := make([]string, len(ops))
	for i := range ops {
		if isUnify[i] {
			out[i] = "u"
		} else {
			out[i] = "a" + strconv.Itoa(ops[i])
		}
	}
	return strings.Join(out, ",")
}

func execHist(opsS, lhsS, rhsS string) string {
	ops, isUnify, ok := parseOps(opsS)
	if !ok {
		return "?"
	}
	lhs0, rhs0 := tr.UnHexList(lhsS), tr.UnHexList(rhsS)
	lhs, rhs := padded(lhs0), padded(rhs0)
	var d *mdiff.Diff
	if p := tr.Catch(func() { d = mdiff.New(lhs, rhs) }); p != "" {
		return "E=- N=" + p + " H=- K=-"
	}
	out := "E=" + fmtEdits(d.Edits) + " N=" + fmtChunks(d.Chunks)
	snap := copyEdits(d.Edits)
	same, ret := true, true
	var stages []string
	for i := range ops {
		var d2 *mdiff.Diff
		p := tr.Catch(func() {
			if isUnify[i] {
				d2 = d.Unify()
			} else {
				d2 = d.AddContext(ops[i])
			}
		})
		if p != "" {
			stages = append(stages, p)
			return out + " H=" + strings.Join(stages, "!") + " K=-"
		}
		ret = ret && d2 == d
		same = same && sameEdits(snap, d.Edits)
		stages = append(stages, fmtChunks(d.Chunks))
	}
	hs := "none"
	if len(stages) > 0 {
		hs = strings.Join(stages, "!")
	}
	// overwrite every slot of every chunk's Edits (up to its capacity) and the texts of the context
	// edits: neither d.Edits nor the inputs may notice (scale.go)
	poisonChunks(d.Chunks)
	same = same && sameEdits(snap, d.Edits)
	k := tr.B(same)
	k += tr.B(sameLines(lhs, lhs0) && sameLines(rhs, rhs0) && sameLines(d.Left, lhs0) && sameLines(d.Right, rhs0) &&
		lhs[:cap(lhs)][len(lhs)] == "SENTINEL" && rhs[:cap(rhs)][len(rhs)] == "SENTINEL")
	k += tr.B(ret)
	return out + " H=" + hs + " K=" + k
}

var opCode = map[string]slice.EditOp{"D": slice.OpDrop, "E": slice.OpEmit, "C": slice.OpCopy, "R": slice.OpReplace}

func parseChunks(s string) ([]*mdiff.Chunk, bool) {
	if s == "." {
		return nil, true
	}
	var out []*mdiff.Chunk
	for _, cs := range strings.Split(s, "_") {
		p := strings.Split(cs, ";")
		if len(p) != 5 {
			return nil, false
		}
		c := new(mdiff.Chunk)
		var err [4]error
		c.LStart, err[0] = strconv.Atoi(p[0])
		c.LEnd, err[1] = strconv.Atoi(p[1])
		c.RStart, err[2] = strconv.Atoi(p[2])
		c.REnd, err[3] = strconv.Atoi(p[3])
		for _, e := range err {
			if e != nil {
				return nil, false
			}
		}
		if p[4] != "." {
			for _, es := range strings.Split(p[4], "/") {
				q := strings.Split(es, ":")
				op, ok := opCode[q[0]]
				if len(q) != 3 || !ok {
					return nil, false
				}
				// spare capacity with a sentinel behind every line list
				c.Edits = append(c.Edits, mdiff.Edit{Op: op, X: padded(tr.UnHexList(q[1])), Y: padded(tr.UnHexList(q[2]))})
			}
		}
		out = append(out, c)
	}
	return out, true
}

func execUnify(s string) string {
	cs, ok := parseChunks(s)
	if !ok {
		return "?"
	}
	var out []*mdiff.Chunk
	if p := tr.Catch(func() { out = mdiff.UnifyChunks(cs) }); p != "" {
		return "U=" + p
	}
	return "U=" + fmtChunks(out)
}

func exec(in string) string {
	f := strings.Fields(in)
	if len(f) == 2 && f[0] == "U" {
		return execUnify(f[1])
	}
	if len(f) == 4 && f[0] == "S" {
		out, _ := execScale(f[1], f[3])
		return out
	}
	if len(f) == 3 && f[0] == "SC" {
		out, _ := execScale(f[1], f[2])
		return out
	}
	if len(f) == 6 && f[0] == "V" { // two windows of one array (round5.go)
		return execShared(f[1], f[2], f[4], f[5])
	}
	if len(f) == 5 && f[0] == "VC" {
		return execShared(f[1], f[2], f[3], f[4])
	}
	if len(f) > 0 && (f[0] == "PD" || f[0] == "PU") { // an earlier call first (round4.go)
		return execPrelude(f)
	}
	if len(f) == 5 && f[0] == "H" {
		return execHist(f[1], f[3], f[4])
	}
	if len(f) == 4 && f[0] == "HC" {
		return execHist(f[1], f[2], f[3])
	}
	if len(f) == 4 && f[0] == "C" {
		f = []string{"D", f[1], "", f[2], f[3]}
	}
	if len(f) != 5 || f[0] != "D" {
		return "?"
	}
	n, _ := strconv.Atoi(f[1])
	lhs0, rhs0 := tr.UnHexList(f[3]), tr.UnHexList(f[4])
	lhs, rhs := padded(lhs0), padded(rhs0)
	var d *mdiff.Diff
	if p := tr.Catch(func() { d = mdiff.New(lhs, rhs) }); p != "" {
		return "E=- N=" + p + " A=- U=- K=-"
	}
	out := "E=" + fmtEdits(d.Edits) + " N=" + fmtChunks(d.Chunks)
	snap := copyEdits(d.Edits)
	k := ""
	ret := true
	var d2 *mdiff.Diff
	if p := tr.Catch(func() { d2 = d.AddContext(n) }); p != "" {
		return out + " A=" + p + " U=- K=-"
	}
	ret = ret && d2 == d
	out += " A=" + fmtChunks(d.Chunks)
	k += tr.B(sameEdits(snap, d.Edits))
	if p := tr.Catch(func() { d2 = d.Unify() }); p != "" {
		return out + " U=" + p + " K=-"
	}
	ret = ret && d2 == d
	out += " U=" + fmtChunks(d.Chunks)
	poisonChunks(d.Chunks) // as in execHist
	k += tr.B(sameEdits(snap, d.Edits))
	k += tr.B(sameLines(lhs, lhs0) && sameLines(rhs, rhs0) && sameLines(d.Left, lhs0) && sameLines(d.Right, rhs0) &&
		lhs[:cap(lhs)][len(lhs)] == "SENTINEL" && rhs[:cap(rhs)][len(rhs)] == "SENTINEL")
	k += tr.B(ret)
	return out + " K=" + k
}

// ---- generation

func allSeqs(alpha []string, maxLen int) [][]string {
	out := [][]string{nil}
	for lo := 0; lo < len(out); lo++ {
		if len(out[lo]) == maxLen {
			continue
		}
		for _, a := range alpha {
			out = append(out, append(append([]string(nil), out[lo]...), a))
		}
	}
	return out
}

func tagsFor(n int, out string) (bool, []string) {
	var tags []string
	get := func(key string) string {
		for _, w := range strings.Fields(out) {
			if strings.HasPrefix(w, key+"=") {
				return w[len(key)+1:]
			}
		}
		return ""
	}
	nc := func(s string) int {
		if s == "." || s == "" || s == "-" {
			return 0
		}
		return strings.Count(s, "_") + 1
	}
	nN, nA, nU := nc(get("N")), nc(get("A")), nc(get("U"))
	if nN == 0 {
		tags = append(tags, "no-chunks")
	}
	if nN >= 2 {
		tags = append(tags, "multi-chunk")
	}
	if nU < nA {
		tags = append(tags, "unify-merged")
	}
	if nU >= 2 && n > 0 {
		tags = append(tags, "unify-kept-apart")
	}
	if n == 0 {
		tags = append(tags, "n=0")
	}
	// overlapping / adjacent chunks after AddContext
	if a := get("A"); nA >= 2 {
		cs := strings.Split(a, "_")
		for i := 0; i+1 < len(cs); i++ {
			p, q := strings.Split(cs[i], ";"), strings.Split(cs[i+1], ";")
			if len(p) < 5 || len(q) < 5 {
				continue
			}
			le, _ := strconv.Atoi(p[1])
			ls, _ := strconv.Atoi(q[0])
			if le > ls {
				tags = append(tags, "overlap-after-context")
				break
			}
			if le == ls {
				tags = append(tags, "adjacent-after-context")
			}
		}
	}
	return nN >= 1 && n > 0, tags
}

// tags of a history case: which situations the sequence of calls went through
func histTags(ops []int, isUnify []bool, out string) (bool, []string) {
	var tags []string
	get := func(key string) string {
		for _, w := range strings.Fields(out) {
			if strings.HasPrefix(w, key+"=") {
				return w[len(key)+1:]
			}
		}
		return ""
	}
	type ed struct {
		op   string
		xlen int
	}
	type rng struct {
		ls, le int
		es     []ed
	}
	parse := func(s string) []rng {
		if s == "." || s == "" || s == "-" || strings.HasPrefix(s, "panic:") {
			return nil
		}
		var out []rng
		for _, c := range strings.Split(s, "_") {
			p := strings.Split(c, ";")
			if len(p) < 5 {
				continue
			}
			a, _ := strconv.Atoi(p[0])
			b, _ := strconv.Atoi(p[1])
			var es []ed
			if p[4] != "." {
				for _, e := range strings.Split(p[4], "/") {
					q := strings.Split(e, ":")
					if len(q) != 3 {
						continue
					}
					n := 0
					if q[1] != "." {
						n = strings.Count(q[1], ",") + 1
					}
					es = append(es, ed{q[0], n})
				}
			}
			out = append(out, rng{a, b, es})
		}
		return out
	}
	// number of leading / trailing Emit edits of a chunk
	lead := func(c rng) int {
		k := 0
		for k < len(c.es) && c.es[k].op == "E" {
			k++
		}
		return k
	}
	trail := func(c rng) int {
		k := 0
		for k < len(c.es) && c.es[len(c.es)-1-k].op == "E" {
			k++
		}
		return k
	}
	meets := func(cs []rng) (overlap, adjacent bool) {
		for i := 0; i+1 < len(cs); i++ {
			if cs[i].le > cs[i+1].ls {
				overlap = true
			}
			if cs[i].le == cs[i+1].ls {
				adjacent = true
			}
		}
		return
	}
	seen := map[string]bool{}
	add := func(t string) {
		if !seen[t] {
			seen[t] = true
			tags = append(tags, t)
		}
	}
	nN := len(parse(get("N")))
	stages := strings.Split(get("H"), "!")
	prev := parse(get("N"))
	prevS := get("N")
	effAdds, unifies := 0, 0 // effective AddContext calls since New / Unify calls so far
	for i := range ops {
		if i >= len(stages) {
			break
		}
		cur := parse(stages[i])
		if isUnify[i] {
			ov, adj := meets(prev)
			switch {
			case effAdds == 0 && unifies == 0:
				add("hist-unify-before-any-context")
			case i > 0 && isUnify[i-1]:
				add("hist-unify-twice")
			}
			if len(cur) < len(prev) {
				add("hist-unify-merged")
				if unifies > 0 {
					add("hist-second-unify-merged")
				}
			}
			if ov && effAdds >= 2 {
				add("hist-unify-overlap-after-several-adds")
			}
			for j := 0; j+1 < len(prev); j++ {
				a, b := prev[j], prev[j+1]
				lap := a.le - b.ls
				if lap < 0 || len(a.es) == 0 {
					continue
				}
				last := a.es[len(a.es)-1]
				if trail(a) >= 2 && lead(b) >= 2 {
					add("hist-unify-several-layers")
					switch {
					case lap == 0:
						add("hist-unify-layers-meet")
					case last.op == "E" && lap == last.xlen:
						add("hist-unify-latest-layer-removed-fuse-earlier")
					case last.op == "E" && lap < last.xlen:
						add("hist-unify-latest-layer-trimmed")
					}
				}
				if trail(a) == 1 && last.op == "E" && lap == last.xlen && lap > 0 {
					add("hist-unify-only-layer-removed")
				}
			}
			for _, c := range cur {
				inner := 0
				for k := lead(c); k < len(c.es)-trail(c); k++ {
					if c.es[k].op == "E" {
						inner++
					}
				}
				if inner > 0 && (lead(c) > 0 || trail(c) > 0) {
					add("hist-merged-chunk-with-outer-context")
				}
			}
			if adj {
				add("hist-unify-adjacent")
			}
			unifies++
		} else {
			n := ops[i]
			switch {
			case n < 0:
				add("hist-n-negative")
			case n == 0:
				add("hist-n-zero")
			case n > 1<<40:
				add("hist-n-huge")
			}
			if n > 0 && nN > 0 {
				ov, adj := meets(prev)
				if effAdds > 0 && unifies == 0 {
					add("hist-add-after-add")
				}
				if unifies > 0 {
					add("hist-add-after-unify")
				}
				if ov {
					add("hist-add-on-overlapping")
				}
				if adj {
					add("hist-add-on-adjacent")
				}
				if stages[i] != prevS {
					add("hist-add-effective")
					if effAdds > 0 {
						add("hist-later-add-effective")
					}
				}
				effAdds++
			}
		}
		prev, prevS = cur, stages[i]
	}
	return nN >= 1 && len(ops) >= 2, tags
}

// structured pair: changed lines separated by common runs of chosen lengths (the gaps the
// context layers of successive AddContext calls eat into), with common lines before and after
func structured(r *tr.Rand, alpha []string) (lhs, rhs []string) {
	common := func(n int) {
		for i := 0; i < n; i++ {
			x := tr.Pick(r, alpha)
			lhs, rhs = append(lhs, x), append(rhs, x)
		}
	}
	common(r.Intn(5))
	for k := 2 + r.Intn(3); k > 0; k-- {
		switch r.Intn(3) {
		case 0:
			lhs = append(lhs, "OLD")
		case 1:
			rhs = append(rhs, "NEW")
		default:
			lhs, rhs = append(lhs, "OLD"), append(rhs, "NEW")
		}
		if k > 1 {
			common(1 + r.Intn(8))
		}
	}
	common(r.Intn(5))
	return
}

// an arbitrary chunk list for UnifyChunks: mostly ascending, neighbours apart, adjacent or
// overlapping by up to two lines more than the context edit at the boundary holds; edits of all
// four kinds, chunks without edits, context edits at either, both or neither side of a boundary
func randChunks(r *tr.Rand) []*mdiff.Chunk {
	alpha := []string{"a", "b", "c"}
	randEdit := func(op slice.EditOp) mdiff.Edit {
		e := mdiff.Edit{Op: op}
		if op != slice.OpCopy {
			e.X = randLines(r, alpha, r.Intn(4))
		}
		if op == slice.OpCopy || op == slice.OpReplace {
			e.Y = randLines(r, alpha, r.Intn(3))
		}
		return e
	}
	ops := []slice.EditOp{slice.OpDrop, slice.OpEmit, slice.OpCopy, slice.OpReplace}
	var out []*mdiff.Chunk
	pos, rpos := 1+r.Intn(3), 1+r.Intn(3)
	for k := 1 + r.Intn(4); k > 0; k-- {
		c := &mdiff.Chunk{LStart: pos, RStart: rpos}
		if r.Chance(1, 2) {
			c.Edits = append(c.Edits, randEdit(slice.OpEmit))
		}
		for j := r.Intn(3); j > 0; j-- {
			c.Edits = append(c.Edits, randEdit(tr.Pick(r, ops)))
		}
		if r.Chance(1, 2) {
			c.Edits = append(c.Edits, randEdit(slice.OpEmit))
		}
		nl, nr := 0, 0
		for _, e := range c.Edits {
			if e.Op != slice.OpCopy {
				nl += len(e.X)
			}
			switch e.Op {
			case slice.OpEmit:
				nr += len(e.X)
			case slice.OpCopy, slice.OpReplace:
				nr += len(e.Y)
			}
		}
		if r.Chance(1, 8) { // ranges that do not fit the edits
			nl, nr = r.Intn(5), r.Intn(5)
		}
		c.LEnd, c.REnd = c.LStart+nl, c.RStart+nr
		out = append(out, c)
		d := r.Intn(8) - 4 // next chunk: from 4 lines before the end to 3 lines after it
		pos, rpos = c.LEnd+d, c.REnd+d
		if r.Chance(1, 10) {
			rpos += r.Intn(3) - 1
		}
	}
	return out
}

func randLines(r *tr.Rand, alpha []string, n int) []string {
	out := make([]string, n)
	for i := range out {
		out[i] = tr.Pick(r, alpha)
	}
	return out
}

// a repetitive text: a short block repeated, with a few random disturbances
func repetitive(r *tr.Rand, alpha []string, n int) []string {
	blk := randLines(r, alpha, 1+r.Intn(3))
	out := make([]string, n)
	for i := range out {
		out[i] = blk[i%len(blk)]
		if r.Chance(1, 8) {
			out[i] = tr.Pick(r, alpha)
		}
	}
	return out
}

// rhs derived from lhs by a few local edits (long common runs between the chunks)
func mutate(r *tr.Rand, alpha []string, lhs []string) []string {
	out := append([]string(nil), lhs...)
	for k := 1 + r.Intn(4); k > 0; k-- {
		pos := r.Intn(len(out) + 1)
		switch r.Intn(3) {
		case 0: // insert 1..3 lines
			ins := randLines(r, alpha, 1+r.Intn(3))
			out = append(out[:pos:pos], append(ins, out[pos:]...)...)
		case 1: // delete 1..3 lines
			end := min(len(out), pos+1+r.Intn(3))
			out = append(out[:pos:pos], out[end:]...)
		case 2: // replace
			if pos < len(out) {
				out[pos] = tr.Pick(r, alpha)
			}
		}
	}
	return out
}

const rule = "C13: ROUND 6 (S lines, round6.go): constructed LARGE texts of 1100 x 2200 and 4100 x 4101 lines (above 2^20 and 2^24 pairs of lines; thorough: lengths around the square roots of 2^20 .. 2^24, thin-against-long pairs) made of blocks of different lines -- a block behind / in front of / in the middle of the common lines, the common lines between two blocks or split between both ends, the last / first three lines replaced, ONE line inserted into a run of 1, 2, 5 identical lines (the common prefix and suffix of the inputs overlap), x y x y -> x y, one of two adjacent empty lines removed, a line doubled -- and the mirror image of each, under New alone and AddContext(0, 1, 3) + Unify. ROUND 5 (V/VC lines, round5.go): Left and Right as two windows arr[i:j], arr[p:q] of ONE backing array - every array over two symbols up to length 4 (thorough 5) with every pair of windows, plain and capacity-clipped slice expressions, rhs := append(lhs, ...) performed within lhs's spare capacity and its mirror image, New(s, s[:k]), New(s[:k], s), New(s, s[k:]), New(s[k:], s) for every length of s up to 300, random arrays, windows and histories, every fifth line with the Diff rebuilt as a struct literal from copies of its exported fields; the model predicts the line from the texts of the two windows, and the whole array (sentinels included), both arguments and d.Left/d.Right are compared with copies after the chunks' edits were overwritten. BOTH LENGTHS SWEPT (S lines): Left of L lines against Right of L, L-1, L+1, 2L lines sharing exactly one line or a run of L/2 lines, every L up to 300 (600). ROUND 4: (PD/PU lines, each self-contained) a history case run after an earlier call in the same process - another diff (much larger, tiny, the same texts, the texts swapped, structured) under its own calls, or UnifyChunks on an arbitrary chunk list (a fifth panic) - whose result is spelled before and after the case and must not have changed. COLLIDING LINES from corpus/common/hash-collisions.tsv (FNV-1a/FNV-1 32, CRC-32, Adler-32, djb2, 31-polynomial hashes; each pair checked against its hash when the generator starts) and lines equal up to case, surrounding blanks, Unicode normalisation, numeric value, byte order: as the two symbols of ten templates (one in Left where Right has the other, alone in the files, next to each other and swapped, both deleted, both inserted, one the context of a change to the other, crosswise, at both ends, alternating, at the very end) under the pipeline for n = 0..2 and under histories, and of every pair of sequences up to length 3 (thorough 4). EXTREME CONTEXT ARGUMENTS MaxInt, MaxInt-1, -2, -7, -40, 2^62 and 2^62+-1, MaxInt/2 and +1, 2^40, 2^32 and -1, 2^31 and -1, 2^16, MinInt, MinInt+1, -2^62, -2^31, -2 on every pair of 2-symbol sequences up to length 3 (4) in the pipeline and in four histories (twice, after AddContext(1), around a Unify), and on structured and repetitive texts with n = MaxInt - r for r up to the file length (the sums prevEnd+n and c.LEnd+n wrap for the later chunks only). EVERY VALUE 0..600 (S lines, thorough 800) of: the argument n with exactly n of n+1 lines in front of the change, the size of one change (dropped / inserted / replaced); and for every value 0..272 (the extracted model of findContext costs n x file length per context, a sweep costs the cube of its bound; thorough 800): a trailing context cut by the end of the file and one of exactly n lines, two changes v lines apart under AddContext(v) (whole context removed), AddContext(v-1) (trimmed by v-2 lines), AddContext((v+1)/2) (contexts abut); 1..128 changes two lines apart; a run of 1..128 equal lines behind a dropped copy; n within the file length of MaxInt deep in a 1500-line file. THEN, as before: New(lhs, rhs).AddContext(n).Unify() on every pair of line sequences of length <= 5 over 2 symbols for every n in 0..3 (15876 cases, every run); every pair of length <= 3 (quick) / 4 (thorough) over 3 symbols, n in 0..3; random repetitive texts (a short block repeated with disturbances), random texts, and texts derived from one another by a few local edits (long common runs), lengths up to 40, alphabets of 2-4 lines including the empty line, n from {0,1,2,3,5,8,100} (n larger than every gap). The edit script slice.EditScript returned is recorded with the input (oracle) and compared with d.Edits; every fourth case carries no oracle and is predicted by the composed model (model of slice.EditScript + chunk model). n also from {-1, MaxInt64, MinInt64}. HISTORIES (H/HC lines): after New, any sequence of AddContext(n_i) and Unify calls: 23 fixed sequences (Unify alone, Unify twice, AddContext twice with equal/growing/shrinking n, AddContext after Unify, Unify-AddContext-Unify, negative/zero/MaxInt64/MinInt64 n in between) on every pair of sequences of length <= 4 (quick) / 5 (thorough) over 2 symbols, and a random sequence of 2-7 calls (n from {1,2,3,4,6,0,-1,100,MaxInt64,MinInt64}) on every second random pair and on structured pairs (2-4 changed lines separated by common runs of 1-8 lines, so that several calls stack several layers of context in one gap); d.Chunks recorded after every call. ARBITRARY CHUNK LISTS (U lines): the exported UnifyChunks on 4000 (quick) / 100000 (thorough) random lists of 1-4 chunks with edits of all kinds, neighbours apart, adjacent or overlapping by more or less than the context edit at the boundary, with or without context edits on either side, some with ranges that do not fit their edits; panics (nil edit pointer, the explicit merge panic, slice bounds) are part of the compared output. A case is non-trivial when there is at least one chunk and n > 0 (pipeline) or at least two calls (history); counters say how many cases had several chunks, overlapping or adjacent chunks after AddContext, chunks merged by Unify, chunks kept apart by Unify. SCALE (S/SC lines, scale.go): texts named by a recipe (runs of common lines with all lines different / period 2 / period 3 / all equal / runs of 33 equal lines, dropped and inserted lines that occur nowhere else or are copies of the neighbouring line), outputs digested (FNV-1a 64 of the same spelling D/H lines print), the property decided by the harness on the implementation's own chunks by direct definition (line texts compared at the chunk's offsets) and reported in field P: (G) for every n in {0,1,2,3,5,8,64,255,256,257,5000} two or three changes separated by exactly n-1, n, n+1, 2n-1, 2n, 2n+1 common lines (for 5000: gaps 1..700, n larger than the file) with 0, 1, n-1, n, n+1 lines before and after, under AddContext(n)+Unify and one of: AddContext twice, Unify first and twice, AddContext(0) first, AddContext again after Unify (thorough: all); the six gaps in one text repeated up to 1500/4000 lines; (Z) Left of exactly 2^k-1, 2^k, 2^k+1 lines for k = 1..12 with one change at line 1 / in the middle / at the very end (dropped or inserted), two changes at both ends, three, and many changes (one every 2, 3, 4 lines, up to 1025 chunks), n rotating through the same list; quick runs every variant below 200 lines and a seed-rotated selection above (slice.EditScript is quadratic and 40 times dearer on equal lines), thorough all; (R) 40/600 random texts of random such gaps under random histories. After the last call of every D, H and S line every slot of every Chunks[i].Edits up to its capacity and the line texts of the context edits are overwritten before d.Edits and the inputs are compared with their copies."

func gen(g *tr.G) {
	k := 0
	emit := func(n int, lhs, rhs []string, tag string) {
		in := input(n, lhs, rhs)
		if k++; k%4 == 0 { // every fourth case without the oracle (composed model)
			in = "C " + strconv.Itoa(n) + " " + tr.HexList(lhs) + " " + tr.HexList(rhs)
			g.W.Count("composed-no-oracle", 1)
		}
		out := g.Emit(in, false)
		nt, tags := tagsFor(n, out)
		if nt {
			g.W.NonTriv++ // inputs are distinct by construction in the exhaustive part; random repeats are rare
		}
		g.W.Count(tag, 1)
		for _, t := range tags {
			g.W.Count(t, 1)
		}
	}
	emitHist := func(ops []int, isUnify []bool, lhs, rhs []string, tag string) {
		in := "H " + fmtOps(ops, isUnify) + " " + oracle(lhs, rhs) + " " + tr.HexList(lhs) + " " + tr.HexList(rhs)
		if k++; k%4 == 0 {
			in = "HC " + fmtOps(ops, isUnify) + " " + tr.HexList(lhs) + " " + tr.HexList(rhs)
			g.W.Count("composed-no-oracle", 1)
		}
		out := g.Emit(in, false)
		nt, tags := histTags(ops, isUnify, out)
		if nt {
			g.W.NonTriv++
		}
		g.W.Count(tag, 1)
		for _, t := range tags {
			g.W.Count(t, 1)
		}
	}
	// ---- round 4 (round4.go), FIRST: earlier calls in the same process, then colliding and
	// number-like lines.  The prelude lines carry their own earlier call, so they fail alone when replayed; an
	// ordinary line that fails only because of what an earlier LINE of this process left behind does
	// not, and must not be the first one reported
	genPreludes(g, preludeCases(g))
	// ---- round 5 (round5.go): the two arguments of New as two windows of one array
	genShared(g)
	genValues(g, emit, emitHist)
	// ---- histories: every sequence of calls a user can write after New
	const U = -999 // marker for Unify in the tables below
	mk := func(xs ...int) ([]int, []bool) {
		ops, un := make([]int, len(xs)), make([]bool, len(xs))
		for i, x := range xs {
			if x == U {
				un[i] = true
			} else {
				ops[i] = x
			}
		}
		return ops, un
	}
	fixed := [][]int{
		{U}, {U, U}, {1, 1}, {1, 1, U}, {1, 2, U}, {2, 1, U}, {1, 1, 1, U}, {1, U, 1, U}, {2, U, 1, U}, {1, U, 2, U},
		{U, 1, U}, {1, U, U}, {1, 3, U}, {3, 1, U}, {1, U, 1, 1, U}, {-1, 1, U}, {1, -1, U}, {1, 0, 1, U},
		{math.MaxInt, U}, {1, math.MaxInt, U}, {math.MinInt, 1, U}, {1, U, math.MaxInt, U}, {2, 2, U, 2, U},
	}
	hseqs := allSeqs([]string{"a", "b"}, g.Scale(4, 5))
	for _, l := range hseqs {
		for _, r := range hseqs {
			if len(l)+len(r) < 3 {
				continue
			}
			for _, h := range fixed {
				ops, un := mk(h...)
				emitHist(ops, un, l, r, "hist-exhaustive-2")
			}
		}
	}
	// ---- UnifyChunks on arbitrary chunk lists
	for i := 0; i < g.Scale(4000, 100000); i++ {
		cs := randChunks(g.R)
		out := g.Emit("U "+fmtChunks(cs), false)
		g.W.Count("unify-arbitrary", 1)
		switch {
		case strings.Contains(out, "panic:nil"):
			g.W.Count("unify-arbitrary-panic-nil", 1)
		case strings.Contains(out, "panic:other"):
			g.W.Count("unify-arbitrary-panic-merge", 1)
		case strings.Contains(out, "panic:"):
			g.W.Count("unify-arbitrary-panic-index", 1)
		default:
			if strings.Count(out, "_") < len(cs)-1 {
				g.W.Count("unify-arbitrary-merged", 1)
				g.W.NonTriv++
			}
		}
	}
	two := allSeqs([]string{"a", "b"}, 5)
	for _, l := range two {
		for _, r := range two {
			for n := 0; n <= 3; n++ {
				emit(n, l, r, "exhaustive-2x5")
			}
		}
	}
	three := allSeqs([]string{"a", "b", "c"}, g.Scale(3, 4))
	for _, l := range three {
		for _, r := range three {
			for n := 0; n <= 3; n++ {
				emit(n, l, r, "exhaustive-3")
			}
		}
	}
	alphas := [][]string{{"a", "b"}, {"a", "b", "c"}, {"a", "b", "", "line"}, {"x", "y", "z", "w"}}
	ns := []int{0, 1, 1, 2, 2, 3, 3, 5, 8, 100, -1, math.MaxInt, math.MinInt}
	hns := []int{1, 1, 1, 2, 2, 3, 4, 6, 0, -1, 100, math.MaxInt, math.MinInt}
	for i := 0; i < g.Scale(6000, 250000); i++ {
		alpha := tr.Pick(g.R, alphas)
		n := tr.Pick(g.R, ns)
		ll := g.R.Intn(g.Scale(30, 40)) + 1
		var lhs, rhs []string
		tag := ""
		switch g.R.Intn(4) {
		case 0:
			lhs, rhs, tag = repetitive(g.R, alpha, ll), repetitive(g.R, alpha, g.R.Intn(30)+1), "random-repetitive"
		case 1:
			lhs = repetitive(g.R, alpha, ll)
			rhs, tag = mutate(g.R, alpha, lhs), "random-repetitive-edited"
		case 2:
			lhs = randLines(g.R, alpha, ll)
			rhs, tag = mutate(g.R, alpha, lhs), "random-edited"
		default:
			lhs, rhs, tag = randLines(g.R, alpha, ll), randLines(g.R, alpha, g.R.Intn(30)), "random"
		}
		emit(n, lhs, rhs, tag)
		if i%3 == 0 {
			lhs, rhs = structured(g.R, alpha)
			tag = "structured"
			emit(n, lhs, rhs, tag)
		}
		// the same pair under a random history of calls
		if i%2 == 0 || tag == "structured" {
			nops := 2 + g.R.Intn(6)
			ops, un := make([]int, nops), make([]bool, nops)
			for j := range ops {
				switch {
				case g.R.Chance(1, 3):
					un[j] = true
				case tag == "structured" && g.R.Chance(2, 3):
					ops[j] = 1 + g.R.Intn(3) // small steps: several layers fit into one gap
				default:
					ops[j] = tr.Pick(g.R, hns)
				}
			}
			emitHist(ops, un, lhs, rhs, "hist-"+tag)
		}
	}
	// ---- the scale stream (scale.go): sizes around powers of two, exact gaps for every n
	genScale(g)
	// ---- round 4 (round4.go): colliding and number-like lines, extreme context arguments, every
	// value of every cheap dimension up to 600, earlier calls in the same process
	genExtremeNs(g, emit, emitHist)
	genEvery(g)
	// ---- round 5 (round5.go): both lengths swept together
	genTwoSided(g)
	// ---- round 6 (round6.go): constructed large texts, above 2^20 and 2^24 pairs of lines
	genLarge(g)
	// ---- round 7 (round7.go): min(len) = L for every L, the extra lines of the longer text at spread positions
	genShortSide(g)
}

// replayArg returns the value of the -replay flag, if given.
func replayArg() string {
	for i, a := range os.Args[1:] {
		for _, p := range []string{"-replay", "--replay"} {
			if a == p && i+2 < len(os.Args) {
				return os.Args[i+2]
			}
			if strings.HasPrefix(a, p+"=") {
				return a[len(p)+1:]
			}
		}
	}
	return ""
}

func main() {
	if rp := replayArg(); rp != "" {
		// Replay: the oracle field of each input is refreshed from the implementation under test
		// (it is an observation, not a choice of the test), then the line is run as usual.
		o := tr.ParseFlags()
		w := tr.NewW(o.Out)
		for _, in := range tr.ReplayInputs(rp) {
			f := strings.Fields(in)
			if len(f) == 5 && f[0] == "D" {
				n, _ := strconv.Atoi(f[1])
				in = input(n, tr.UnHexList(f[3]), tr.UnHexList(f[4]))
			}
			if len(f) == 5 && f[0] == "H" {
				lhs, rhs := tr.UnHexList(f[3]), tr.UnHexList(f[4])
				in = "H " + f[1] + " " + oracle(lhs, rhs) + " " + f[3] + " " + f[4]
			}
			if len(f) == 8 && f[0] == "PD" {
				in = strings.Join(f[:5], " ") + " " + oracle(tr.UnHexList(f[6]), tr.UnHexList(f[7])) + " " + f[6] + " " + f[7]
			}
			if len(f) == 6 && f[0] == "PU" {
				in = strings.Join(f[:3], " ") + " " + oracle(tr.UnHexList(f[4]), tr.UnHexList(f[5])) + " " + f[4] + " " + f[5]
			}
			if len(f) == 6 && f[0] == "V" {
				arr := tr.UnHexList(f[5])
				if w, ok := clampWin(f[4], len(arr)); ok {
					in = sharedInput(f[1], f[2], w, arr, false)
					in = "V " + f[1] + " " + f[2] + " " + strings.Fields(in)[3] + " " + f[4] + " " + f[5]
				}
			}
			if len(f) == 4 && f[0] == "S" { // the oracle of an S line is d.Edits of the run itself (scale.go)
				out, orc := execScale(f[1], f[3])
				w.Case("S "+f[1]+" "+orc+" "+f[3], out, true, "replayed")
				continue
			}
			w.Case(in, exec(in), true, "replayed")
		}
		w.Close(o, rule7+rule, nil)
		return
	}
	tr.Main(rule7+rule, exec, gen)
}
