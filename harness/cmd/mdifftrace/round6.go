// Round 6: constructed LARGE texts (class 6 of ROUND6_GUIDE.md): inputs of 1100 x 2200 and 4100 x 4101
// lines, above 2^20 and 2^24 pairs of lines, where New (or the slice.EditScript under it) could
// switch to another strategy -- strip a common prefix and suffix first, split the problem, give up
// and report one Replace.
//
// S lines (scale.go): texts by recipe, the oracle d.Edits by lengths, digests, the property decided
// in field P on the implementation's own chunks.  New costs ~10 ns per pair of DIFFERENT lines and 40
// times that per pair of equal ones, so the texts are blocks of lines that are all different,
//
//	A        n lines 10001, 10002, ...  present in both inputs
//	J, K     blocks of lines that occur nowhere else, in one input only
//
// with the one change the shape is about:
//
//	front / back / middle / centre     Right = A with a block J put behind / in front of / into the middle of
//	                                   it / A between two blocks
//	split-k    Right = A[:k] ++ J ++ K ++ A[k:]       (k = 1, n/2, n-1)
//	tails / heads                      a long common prefix (suffix), the last (first) three lines replaced
//	run-k      ONE line inserted into a run of k identical lines (k = 1, 2, 5): the common prefix and
//	           the common suffix of the two inputs, each taken on the whole inputs, OVERLAP
//	abab       x y x y -> x y           the same with a period of two
//	blank      one of two adjacent EMPTY lines removed
//	dup        one line doubled in place
//
// and the mirror image of each (Left and Right exchanged: an insertion becomes a deletion), under
// New alone and under AddContext(n) + Unify for n = 0, 1, 3 (scaleHists).  Quick tier: every shape
// once at 1100 x 2200 (1100 x 1101 where the shape fixes the difference), the overlapping shapes
// at 4100 x 4101 in both directions and front / middle / tails once.  Thorough: all shapes at lengths
// around the square roots of 2^20 .. 2^24 against the same length, one more and twice the length,
// and thin-against-long pairs with a product just above 2^20 and 2^24.
package main

import (
	"strings"

	"verif/harness/internal/tr"
)

const (
	baseA6 = 10001
	baseJ6 = 200001
	baseK6 = 400001
)

// largeRecipe: the recipe of a shape; n = the length of the common block, m = the length asked of
// the longer input where the shape leaves it open.  "" when the shape does not fit.
func largeRecipe(shape string, n, m int) string {
	A := func(from, to int) string { return itn('e', to-from, max(to-from, 1), baseA6+from) }
	J := func(kind byte, k int) string { return itn(kind, k, max(k, 1), baseJ6) }
	K := func(kind byte, k int) string { return itn(kind, k, max(k, 1), baseK6) }
	if n < 8 || m < n {
		return ""
	}
	switch {
	case shape == "front" && m > n:
		return joinItems(A(0, n), J('c', m-n))
	case shape == "back" && m > n:
		return joinItems(J('c', m-n), A(0, n))
	case shape == "middle" && m > n:
		return joinItems(A(0, n/2), J('c', m-n), A(n/2, n))
	case shape == "centre" && m > n+1:
		return joinItems(J('c', (m-n)/2), A(0, n), K('c', m-n-(m-n)/2))
	case strings.HasPrefix(shape, "split-"):
		k := map[string]int{"split-1": 1, "split-half": n / 2, "split-last": n - 1}[shape]
		top, bot := m/2-k, m-m/2-(n-k)
		if k < 1 || top < 1 || bot < 1 {
			return ""
		}
		return joinItems(A(0, k), J('c', top), K('c', bot), A(k, n))
	case shape == "tails":
		return joinItems(A(0, n-3), J('d', 3), K('c', max(m-n, 3)))
	case shape == "heads":
		return joinItems(J('d', 3), K('c', max(m-n, 3)), A(0, n-3))
	case strings.HasPrefix(shape, "run-"):
		k := map[string]int{"run-1": 1, "run-2": 2, "run-5": 5}[shape]
		if k < 1 {
			return ""
		}
		h := (n - k) / 2
		return joinItems(A(0, h), it('e', k, 1, 7), it('c', 1, 1, 7), A(h, n-k))
	case shape == "abab":
		h := (n - 2) / 2
		return joinItems(A(0, h), it('e', 2, 2, 7), it('c', 2, 2, 7), A(h, n-2))
	case shape == "blank":
		h := (n - 1) / 2
		return joinItems(A(0, h), it('e', 1, 1, 0), it('c', 1, 1, 0), A(h, n-1))
	case shape == "dup":
		p := n / 3
		return joinItems(A(0, p), it('c', 1, 1, baseA6+p-1), A(p, n))
	}
	return ""
}

// mirrorRecipe exchanges Left and Right: lines only in Left become lines only in Right
func mirrorRecipe(rec string) string {
	groups := strings.Split(rec, ",")
	for gi, g := range groups {
		items := strings.Split(g, "/")
		for i, x := range items {
			switch {
			case strings.HasPrefix(x, "d"):
				items[i] = "c" + x[1:]
			case strings.HasPrefix(x, "c"):
				items[i] = "d" + x[1:]
			}
		}
		groups[gi] = strings.Join(items, "/")
	}
	return strings.Join(groups, ",")
}

var largeShapes = []string{"front", "back", "middle", "centre", "split-1", "split-half", "split-last",
	"tails", "heads", "run-1", "run-2", "run-5", "abab", "blank", "dup"}

func largeFixedDiff(shape string) bool {
	return strings.HasPrefix(shape, "run-") || shape == "abab" || shape == "blank" || shape == "dup"
}

var nLarge int

func (s *scaleGen) large(shape string, n, m int, mirror bool) {
	rec := largeRecipe(shape, n, m)
	if rec == "" {
		return
	}
	if mirror {
		rec = mirrorRecipe(rec)
	}
	gs, ok := parseRecipe(rec)
	if !ok {
		s.g.W.Count("large-recipe-rejected(not intended)", 1)
		return
	}
	nLarge++
	h := []string{".", "a3,u", "a1,u", "a0,u", "u,a3,u,u"}[nLarge%5]
	l, r := buildTexts(gs)
	tags := []string{"large:" + shape}
	switch cells := len(l) * len(r); {
	case cells > 1<<24:
		tags = append(tags, "large:pairs-of-lines>2^24")
	case cells >= 1<<20:
		tags = append(tags, "large:pairs-of-lines>=2^20")
	}
	s.emit(h, rec, "constructed-large", false, tags...)
}

func genLarge(g *tr.G) {
	s := &scaleGen{g: g}
	seed := int(g.Seed)
	if !g.Thorough() {
		for i, sh := range largeShapes {
			s.large(sh, 1100, 2200, (i+seed)%2 == 0)
		}
		for _, sh := range []string{"run-1", "run-2", "abab", "blank", "dup"} {
			s.large(sh, 4100, 4100, false)
			s.large(sh, 4100, 4100, true)
		}
		for i, sh := range []string{"front", "middle", "tails"} {
			s.large(sh, 4099+(i+seed)%2, 4101, (i+seed)%2 == 1)
		}
		return
	}
	for ni, n := range []int{724, 725, 1023, 1024, 1025, 1100, 1448, 1449, 2047, 2048, 2049, 2896, 2897, 4095, 4096, 4097, 4100} {
		for mi, m := range []int{n, n + 1, 2 * n} {
			if n*m > 17_500_000 {
				continue
			}
			for si, sh := range largeShapes {
				if largeFixedDiff(sh) && mi != 0 {
					continue
				}
				if n > 2100 && (ni+mi+si+seed)%2 == 0 && !largeFixedDiff(sh) { // 17 million pairs of lines take 0.2 s a line
					continue
				}
				s.large(sh, n, m, false)
				s.large(sh, n, m, true)
			}
		}
	}
	// a thin input against a long one, the product just above 2^20 and 2^24
	for i, p := range [][2]int{{64, 16385}, {256, 4097}, {512, 2049}, {1024, 16385}, {2048, 8193}} {
		for si, sh := range []string{"front", "back", "middle", "centre", "split-1", "split-half", "split-last"} {
			s.large(sh, p[0], p[1], (i+si+seed)%2 == 0)
		}
	}
}
