// Round 7: equal sizes on the SHORTER side (class 3 of ROUND7_GUIDE.md).  slice.LCSFunc sizes its two
// rows by the shorter input, so anything it does by that length (a fixed buffer, a fast path, a row
// layout) depends on min(len(Left), len(Right)) and on nothing else.  The two-sided sweep of round 5
// moves both lengths together but its texts share ONE line; the scale stream puts long texts against
// thin changes.  Here
//
//	min(len) = L  for EVERY L in 0..130, 255..257, 511..513
//	max(len) = L + x,  x in {0, 1, 2, 3, 4, 8}
//
// and the x extra lines of the longer text are INSERTED AT SPREAD POSITIONS (not appended), in four
// shapes, each in both directions (Right the longer text: insertions; Left the longer: deletions):
//
//	spread     the shorter text is L different lines, all of them in the longer one; the extras are lines
//	           that occur nowhere else, at (k+1)L/(x+1): the longer text STARTS with a common line
//	copies     the same, but extra k is a COPY of line L-1-k of the shorter text (the first line of the
//	           longer text occurs at the END of the shorter one), at kL/(x-1): front, ..., end
//	first      every extra is a copy of the FIRST line of the shorter text, at (k+1)L/(x+1) and for
//	           x >= 2 the last one at the very end: the first line is met again and again
//	edges      extras that occur nowhere else, the first just in front of the LAST common line, the second
//	           just behind the FIRST one, the others at (k+1)L/(x+1): the last cell of a row is reached
//	           through a change
//	random     (L <= 130) the shorter text drawn over three lines, the extras drawn from the same three
//	           lines and put at drawn positions
//	own        up to three lines of the shorter text are its own (at L/4, L/2, 3L/4): L - 3 common lines,
//	           3 + x extras on the longer side at spread positions -- min(len) = L with fewer than L
//	           common lines, Replace edits
//	periodic   the shorter text has period 3, the extras are copies of its lines: many longest common
//	           subsequences
//
// S lines (scale.go): texts by recipe, the oracle d.Edits by lengths, the property decided in field P
// on the implementation's own chunks, under New alone and under AddContext(n) + Unify for n in
// {0, 1, 2, 3, 8, 64}; short ones (L <= 24, every fourth) as SC lines, where the composed model
// computes the script itself.
package main

import (
	"sort"
	"strconv"

	"verif/harness/internal/tr"
)

// rule7 is put in front of the rule text of main.go
const rule7 = "C13: ROUND 7 (S/SC lines, round7.go): EQUAL SIZES ON THE SHORTER SIDE - min(len(Left), len(Right)) = L for EVERY L in 0..130, 255..257, 511..513, the longer text L + {0,1,2,3,4,8} lines with the extra lines INSERTED AT SPREAD POSITIONS, seven shapes (extras that occur nowhere else at (k+1)L/(x+1); copies of late lines of the shorter text from the front to the end; up to three own lines on the shorter side, Replace edits; texts of period 3 with copies as extras; the FIRST line of the shorter text again and again; both texts drawn over three lines; extras just in front of the last and just behind the first common line), Right the longer text and Left the longer text, under New alone and AddContext(0,1,2,3,8,64) + Unify, short ones predicted by the composed model. "

const (
	baseA7 = 30001  // the common lines: 30001, 30002, ...
	baseX7 = 500001 // extras of the longer text that occur nowhere else
	baseY7 = 600001 // own lines of the shorter text
)

// shortSideLs: every L the sweep takes for the shorter side
func shortSideLs() []int {
	var ls []int
	for l := 0; l <= 130; l++ {
		ls = append(ls, l)
	}
	return append(ls, 255, 256, 257, 511, 512, 513)
}

var shortSideExtras = []int{0, 1, 2, 3, 4, 8}

const nShortShapes = 7

var shortShapeNames = [nShortShapes]string{"spread", "copies", "own", "periodic", "first", "random", "edges"}

// shortSideRecipe: the recipe with Right the longer text ("" when the shape has nothing to show)
func shortSideRecipe(r *tr.Rand, shape, L, x int) string {
	common := func(from, to int) string { // lines from..to-1 of the shorter text
		if shape == 3 { // period 3: line j is 30001 + j mod 3
			var parts []string
			for j := from; j < to; { // keep the phase: cut at multiples of 3
				n := min(to-j, 3-j%3)
				if j%3 == 0 {
					n = to - j
				}
				parts = append(parts, itn('e', n, 3, baseA7+j%3))
				j += n
			}
			return groupItems(parts...)
		}
		return itn('e', to-from, max(to-from, 1), baseA7+from)
	}
	interior := func(k, n int) int { return (k + 1) * L / (n + 1) }
	ends := func(k, n int) int { return k * L / max(n-1, 1) }
	var parts []string
	switch shape {
	case 5:
		if L > 130 {
			return ""
		}
		ext := map[int]int{}
		for k := 0; k < x; k++ {
			ext[r.Intn(L+1)]++
		}
		for j := 0; j <= L; j++ {
			for c := ext[j]; c > 0; c-- {
				parts = append(parts, it('c', 1, 1, baseA7+r.Intn(3)))
			}
			if j < L {
				parts = append(parts, it('e', 1, 1, baseA7+r.Intn(3)))
			}
		}
	case 0, 1, 3, 4, 6:
		pos := interior
		if shape == 1 || shape == 3 {
			pos = ends
		}
		if shape == 4 && x >= 2 {
			pos = func(k, n int) int {
				if k == n-1 {
					return L
				}
				return interior(k, n)
			}
		}
		if shape == 6 {
			ps := make([]int, x)
			for k := range ps {
				switch k {
				case 0:
					ps[k] = max(L-1, 0)
				case 1:
					ps[k] = min(1, L)
				default:
					ps[k] = interior(k-2, x-2)
				}
			}
			sort.Ints(ps)
			pos = func(k, n int) int { return ps[k] }
		}
		at := 0
		for k := 0; k < x; k++ {
			p := pos(k, x)
			parts = append(parts, common(at, p))
			at = p
			switch shape {
			case 0, 6:
				parts = append(parts, it('c', 1, 1, baseX7+k))
			case 1:
				if L == 0 {
					parts = append(parts, it('c', 1, 1, baseX7+k))
				} else {
					parts = append(parts, it('c', 1, 1, baseA7+((L-1-k)%L+L)%L))
				}
			case 3:
				parts = append(parts, it('c', 1, 1, baseA7+k%3))
			case 4:
				parts = append(parts, it('c', 1, 1, baseA7))
			}
		}
		parts = append(parts, common(at, L))
	case 2:
		m := min(L, 3)
		if m == 0 {
			return ""
		}
		// the own lines of the shorter text sit at L/4, L/2, 3L/4 (distinct for L >= 4; for smaller L the first m lines)
		own := map[int]bool{}
		for k := 0; k < m; k++ {
			p := (k + 1) * L / 4
			if L < 4 {
				p = k
			}
			own[p] = true
		}
		// the extras of the longer text: m + x lines at spread positions among the L - m common ones
		ext := map[int]int{}
		for k := 0; k < m+x; k++ {
			ext[interior(k, m+x)]++
		}
		nx := 0
		for j := 0; j <= L; j++ {
			for c := ext[j]; c > 0; c-- {
				parts = append(parts, it('c', 1, 1, baseX7+nx))
				nx++
			}
			if j == L {
				break
			}
			if own[j] {
				parts = append(parts, it('d', 1, 1, baseY7+j))
			} else {
				parts = append(parts, it('e', 1, 1, baseA7+j))
			}
		}
	}
	return joinItems(parts...)
}

var shortHists = []string{".", "a0,u", "a1,u", "a3,u", "u", "a2,a1,u", "a8,u", "a64,u"}

// genShortSide: the sweep.  Both directions for L <= 16 and around the powers of two; elsewhere the
// direction alternates with L, x and the shape (quick tier; thorough: both everywhere).
func genShortSide(g *tr.G) {
	sg := &scaleGen{g: g}
	seed := int(g.Seed)
	n := 0
	for _, L := range shortSideLs() {
		hot := L <= 16
		for p := 16; p <= 512; p *= 2 {
			if L >= p-1 && L <= p+1 {
				hot = true
			}
		}
		for _, x := range shortSideExtras {
			for shape := 0; shape < nShortShapes; shape++ {
				rec := shortSideRecipe(g.R, shape, L, x)
				if rec == "" {
					continue
				}
				for mirror := 0; mirror < 2; mirror++ {
					if !hot && !g.Thorough() && (L+x+shape+seed)%2 != mirror {
						continue
					}
					r := rec
					if mirror == 1 {
						r = mirrorRecipe(rec)
					}
					n++
					h := shortHists[(n+seed)%len(shortHists)]
					composed := L <= 24 && n%4 == 0
					tags := []string{"short-side:" + shortShapeNames[shape], "short-side-extra-" + strconv.Itoa(x)}
					if mirror == 1 {
						tags = append(tags, "short-side:left-longer")
					}
					if L == 64 || L == 128 || L == 256 || L == 512 {
						tags = append(tags, "short-side-min-len-2^k")
					}
					sg.emit(h, r, "short-side-sweep", composed, tags...)
				}
			}
		}
	}
}
