// The colliding line pairs of ROUND4_GUIDE.md class 3.  The hash-collision pairs come from the
// shared table corpus/common/hash-collisions.tsv (columns: hash, a, b; Go-quoted strings), read
// when the generator starts; trace lines carry their texts in full, so a replay does not depend
// on the table.  Every pair is checked against the hash it is listed under.  coarsePairs are not
// hash collisions: different lines that are equal under some other comparison coarser than string
// equality.  (The same file serves mdifftrace and mdifffmttrace.)
package main

import (
	"hash/adler32"
	"hash/crc32"
	"hash/fnv"
	"os"
	"path/filepath"
	"strconv"
	"strings"

	"verif/harness/internal/tr"
)

// equal but for: case, surrounding white space, Unicode normalisation (NFC / NFD), numeric value
// (leading zeros, exponent, float rounding above 2^53, wrap-around at 2^64), byte order (any
// additive checksum), a trailing NUL, the last digit of a 19-digit run, a cut-off UTF-8 sequence,
// the empty line against a blank one.
var coarsePairs = [][2]string{
	{"Line", "line"}, {"x", "x "}, {" x", "x"}, {"x\t", "x"}, {"caf\u00e9", "cafe\u0301"}, {"007", "7"}, {"1e3", "1000"},
	{"9007199254740993", "9007199254740992"}, {"18446744073709551617", "1"}, {"listen", "silent"}, {"ab", "ba"}, {"a\x00", "a"},
	{"0123456789012345678", "0123456789012345679"}, {"x\xc3\xa9", "x\xc3"}, {"\xf0\x9f\x98\x80", "\xf0\x9f\x98"}, {"", " "},
}

// the pairs ROUND4_GUIDE.md names, used when the table cannot be found (counted: not intended)
var guidePairs = [][3]string{
	{"fnv1a32", "liquid", "costarring"}, {"fnv1a32", "declinate", "macallums"}, {"fnv1a32", "altarage", "zinke"},
	{"fnv1a32", "\tx[462789] = y", "\tx[679192] = y"}, {"java31", "Aa", "BB"}, {"java31", "AaAa", "BBBB"}, {"java31", "AaBB", "BBBB"},
}

var pairHash = map[string]func(string) uint32{
	"fnv1a32": func(s string) uint32 { h := fnv.New32a(); h.Write([]byte(s)); return h.Sum32() },
	"fnv1_32": func(s string) uint32 { h := fnv.New32(); h.Write([]byte(s)); return h.Sum32() },
	"crc32":   func(s string) uint32 { return crc32.ChecksumIEEE([]byte(s)) },
	"adler32": func(s string) uint32 { return adler32.Checksum([]byte(s)) },
	"djb2": func(s string) uint32 {
		h := uint32(5381)
		for i := 0; i < len(s); i++ {
			h = h*33 + uint32(s[i])
		}
		return h
	},
	"java31": func(s string) uint32 {
		h := uint32(0)
		for i := 0; i < len(s); i++ {
			h = h*31 + uint32(s[i])
		}
		return h
	},
}

func collisionTable() (rows [][3]string, found bool) {
	var roots []string
	if r := os.Getenv("VERIF_ROOT"); r != "" {
		roots = append(roots, r)
	}
	if exe, err := os.Executable(); err == nil { // <root>/work/bin/<command>
		roots = append(roots, filepath.Dir(filepath.Dir(filepath.Dir(exe))))
	}
	roots = append(roots, "/verif")
	for _, root := range roots {
		data, err := os.ReadFile(filepath.Join(root, "corpus", "common", "hash-collisions.tsv"))
		if err != nil {
			continue
		}
		for _, l := range strings.Split(string(data), "\n") {
			f := strings.Split(strings.TrimRight(l, "\r"), "\t")
			if len(f) != 3 || strings.HasPrefix(l, "#") {
				continue
			}
			a, err1 := strconv.Unquote(f[1])
			b, err2 := strconv.Unquote(f[2])
			if err1 == nil && err2 == nil {
				rows = append(rows, [3]string{f[0], a, b})
			}
		}
		if len(rows) > 0 {
			return rows, true
		}
	}
	return nil, false
}

// loadPairs: the table's pairs (each checked against its hash) followed by coarsePairs.
func loadPairs(w *tr.W) [][2]string {
	rows, found := collisionTable()
	if !found {
		rows = guidePairs[:]
		w.Count("collision-table-not-found(not intended)", 1)
	}
	var out [][2]string
	for _, r := range rows {
		h, known := pairHash[r[0]]
		switch {
		case r[1] == r[2] || strings.ContainsAny(r[1]+r[2], "\n"):
			w.Count("collision-pair-unusable(not intended)", 1)
			continue
		case !known:
			w.Count("collision-pair-of-a-hash-not-checked-here", 1)
		case h(r[1]) != h(r[2]):
			w.Count("collision-pair-does-not-collide(not intended)", 1)
		}
		w.Count("collision-pair:"+r[0], 1)
		out = append(out, [2]string{r[1], r[2]})
	}
	w.Count("collision-pairs-from-the-table", len(out))
	return append(out, coarsePairs...)
}
