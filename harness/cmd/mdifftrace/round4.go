// Round 4 streams: conditions on values, extreme context arguments, equalities, carried state.
//
// PRELUDE lines: the ordinary history case of an H line, run AFTER an earlier call in the same
// process whose result the caller still holds:
//
//	PD <pops> <plhs> <prhs> <ops> <script> <lhs> <rhs> | (output of the H line) Q=<flag>
//	PU <chunks>             <ops> <script> <lhs> <rhs> | (output of the H line) Q=<flag>
//
// PD: New(plhs, prhs) under the calls pops first (another diff: larger, smaller, of colliding
// lines); PU: UnifyChunks on an arbitrary chunk list first (it may panic; recovered).  The line
// is self-contained, so replayed alone it prepares the same state.  New/AddContext/Unify keep
// nothing between calls, so the model predicts the case from its own inputs alone.  Q = 1 when
// what the prelude returned (chunks, edits, its inputs) spells the same after the case ran as
// before: a later call must not reach into a Diff handed out earlier.
package main

import (
	"math"
	"strconv"
	"strings"

	"github.com/creachadair/mds/mdiff"
	"verif/harness/internal/tr"
)

// ---------------------------------------------------------------- preludes (class 1)

func execPrelude(f []string) string {
	var spell func() string
	var rest []string
	switch {
	case f[0] == "PD" && len(f) == 8:
		ops, isUnify, ok := parseOps(f[1])
		if !ok {
			return "?"
		}
		lhs, rhs := padded(tr.UnHexList(f[2])), padded(tr.UnHexList(f[3]))
		var d *mdiff.Diff
		tr.Catch(func() {
			d = mdiff.New(lhs, rhs)
			for i := range ops {
				if isUnify[i] {
					d.Unify()
				} else {
					d.AddContext(ops[i])
				}
			}
		})
		spell = func() string {
			if d == nil {
				return "-"
			}
			return fmtChunks(d.Chunks) + " " + fmtEdits(d.Edits) + " " + tr.HexList(d.Left) + " " + tr.HexList(d.Right) + " " + tr.HexList(lhs) + " " + tr.HexList(rhs)
		}
		rest = f[4:]
	case f[0] == "PU" && len(f) == 6:
		cs, ok := parseChunks(f[1])
		if !ok {
			return "?"
		}
		var out []*mdiff.Chunk
		tr.Catch(func() { out = mdiff.UnifyChunks(cs) })
		spell = func() string { return fmtChunks(out) + " " + fmtChunks(cs) }
		rest = f[2:]
	default:
		return "?"
	}
	before := spell()
	out := execHist(rest[0], rest[2], rest[3])
	return out + " Q=" + tr.B(spell() == before)
}

func genPreludes(g *tr.G, pairs [][2][]string) {
	hists := []string{"a1,u", "a2,a1,u", "u,a3,u", "a0,u", "a9223372036854775807,u", "a1,a1,u,u"}
	emit := func(pre string, i int, tag string) {
		p := pairs[i%len(pairs)]
		ops := hists[i%len(hists)]
		in := pre + " " + ops + " " + oracle(p[0], p[1]) + " " + tr.HexList(p[0]) + " " + tr.HexList(p[1])
		out := g.Emit(in, true, "prelude", tag)
		if strings.HasSuffix(out, "Q=0") {
			g.W.Count("prelude-result-changed", 1)
		}
	}
	n := 0
	// another diff first: much larger, of one line, empty, the same texts, the texts swapped
	alpha := []string{"a", "b", "c"}
	for i := 0; i < g.Scale(600, 12000); i++ {
		var pl, pr []string
		switch i % 6 { // the tiny ones first: the first failing line of a run is the one reported
		case 0:
			pl, pr = randLines(g.R, alpha, g.R.Intn(4)), randLines(g.R, alpha, g.R.Intn(4))
		case 1:
			pl = repetitive(g.R, alpha, 40+g.R.Intn(300))
			pr = mutate(g.R, alpha, pl)
		case 2:
			p := pairs[(n+1)%len(pairs)]
			pl, pr = p[1], p[0]
		case 3:
			p := pairs[n%len(pairs)]
			pl, pr = p[0], p[1]
		case 4:
			pl, pr = structured(g.R, alpha)
		default:
			pl = randLines(g.R, []string{"x", "y"}, 1+g.R.Intn(70))
			pr = randLines(g.R, []string{"x", "y"}, 1+g.R.Intn(70))
		}
		pops := tr.Pick(g.R, []string{".", "a1", "a1,u", "a3,a1,u", "u", "a9223372036854775807,u", "a64,u"})
		emit("PD "+pops+" "+tr.HexList(pl)+" "+tr.HexList(pr), n, "prelude-diff")
		n++
	}
	// UnifyChunks on an arbitrary chunk list first (a fifth of them panic)
	for i := 0; i < g.Scale(400, 8000); i++ {
		emit("PU "+fmtChunks(randChunks(g.R)), n, "prelude-unify-chunks")
		n++
	}
}

// ---------------------------------------------------------------- conditions on values (class 3)

// the colliding pairs: collisions.go (shared table + coarsePairs), loaded when the stream starts
var collidingPairs [][2]string

// extremeNs: context arguments at and near the ends of int and at the usual word sizes.  An n that
// is within the file length of math.MaxInt makes prevEnd+n / c.LEnd+n wrap for the later chunks only.
var extremeNs = []int{math.MaxInt, math.MaxInt - 1, math.MaxInt - 2, math.MaxInt - 7, math.MaxInt - 40, 1 << 62, 1<<62 + 1, 1<<62 - 1, math.MaxInt / 2,
	math.MaxInt/2 + 1, 1 << 40, 1 << 32, 1<<32 - 1, 1 << 31, 1<<31 - 1, 1 << 16, math.MinInt, math.MinInt + 1, -(1 << 62), -(1 << 31), -2}

// genValues: every colliding pair as the two symbols of small texts: one in Left where Right has
// the other, next to each other, one a context line of a change to the other, and every pair of
// sequences up to length 3 over the two; under the pipeline for n in 0..2 and under histories.
func genValues(g *tr.G, emit func(n int, lhs, rhs []string, tag string), emitHist func(ops []int, isUnify []bool, lhs, rhs []string, tag string)) {
	if collidingPairs == nil {
		collidingPairs = loadPairs(g.W)
	}
	seqs := allSeqs([]string{"A", "B"}, g.Scale(3, 4))
	subst := func(s []string, a, b string) []string {
		out := make([]string, len(s))
		for i, x := range s {
			out[i] = map[string]string{"A": a, "B": b, "k": "k", "m": "m"}[x]
		}
		return out
	}
	tmpl := [][2][]string{
		{{"k", "A", "m"}, {"k", "B", "m"}},                     // aligned: a in Left where Right has b
		{{"A"}, {"B"}},                                         // nothing else in the files
		{{"k", "A", "B", "m"}, {"k", "B", "A", "m"}},           // next to each other, swapped
		{{"k", "A", "B", "m"}, {"k", "m"}},                     // both deleted
		{{"k", "m"}, {"k", "B", "A", "m"}},                     // both inserted
		{{"A", "A", "B"}, {"A", "B", "B"}},                     // one is the other's context
		{{"k", "A", "k", "B", "k"}, {"k", "B", "k", "A", "k"}}, // aligned twice, crosswise
		{{"A", "k", "k", "k", "B"}, {"B", "k", "k", "k", "A"}}, // at both ends, a gap of context between
		{{"A", "B", "A", "B", "A"}, {"B", "A", "B", "A", "B"}}, // alternating, shifted by one
		{{"k", "A"}, {"k", "B", "B"}},                          // at the very end
	}
	for pi, p := range collidingPairs {
		for _, ab := range [][2]string{{p[0], p[1]}, {p[1], p[0]}} {
			for ti, t := range tmpl {
				l, r := subst(t[0], ab[0], ab[1]), subst(t[1], ab[0], ab[1])
				emit((pi+ti)%3, l, r, "values-pair-template")
				ops, un := []int{1 + ti%2, 1, 0}, []bool{false, false, true}
				if ti%2 == 0 {
					ops, un = []int{0, extremeNs[(pi+ti)%len(extremeNs)], 0}, []bool{true, false, true}
				}
				emitHist(ops, un, l, r, "values-pair-history")
			}
		}
		for li, l := range seqs {
			for ri, r := range seqs {
				if len(l)+len(r) == 0 {
					continue
				}
				emit((pi+li+ri)%3, subst(l, p[0], p[1]), subst(r, p[0], p[1]), "values-pair-exhaustive")
			}
		}
	}
}

// preludeCases: the texts of the cases the prelude lines run: every colliding pair aligned, alone
// in the files, and next to each other
func preludeCases(g *tr.G) [][2][]string {
	if collidingPairs == nil {
		collidingPairs = loadPairs(g.W)
	}
	var out [][2][]string
	for _, p := range collidingPairs {
		a, b := p[0], p[1]
		out = append(out, [2][]string{{"k", a, "m"}, {"k", b, "m"}}, [2][]string{{a}, {b}}, [2][]string{{"k", a, b, "m"}, {"k", b, a, "m"}})
	}
	return out
}

// genExtremeNs: every extreme context argument on every pair of 2-symbol sequences up to length 3
// (4 thorough) and on structured texts with several chunks, alone, twice, and around a Unify.
func genExtremeNs(g *tr.G, emit func(n int, lhs, rhs []string, tag string), emitHist func(ops []int, isUnify []bool, lhs, rhs []string, tag string)) {
	seqs := allSeqs([]string{"a", "b"}, g.Scale(3, 4))
	k := 0
	for _, l := range seqs {
		for _, r := range seqs {
			if len(l)+len(r) < 3 {
				continue
			}
			for j := 0; j < 3; j++ { // three of the values per pair, rotating: every value meets every pair within 7 pairs
				n := extremeNs[k%len(extremeNs)]
				k++
				emit(n, l, r, "extreme-n")
				switch k % 4 {
				case 0:
					emitHist([]int{n, n, 0}, []bool{false, false, true}, l, r, "extreme-n-history")
				case 1:
					emitHist([]int{1, n, 0}, []bool{false, false, true}, l, r, "extreme-n-history")
				case 2:
					emitHist([]int{n, 0, n, 0}, []bool{false, true, false, true}, l, r, "extreme-n-history")
				default:
					emitHist([]int{0, n, 1, 0}, []bool{true, false, false, true}, l, r, "extreme-n-history")
				}
			}
		}
	}
	// several chunks, the previous chunk ending well inside the file: n within the file length of MaxInt
	for i := 0; i < g.Scale(1500, 30000); i++ {
		alpha := tr.Pick(g.R, [][]string{{"a", "b"}, {"a", "b", "c"}, {"x", "", "y"}})
		var l, r []string
		if i%2 == 0 {
			l, r = structured(g.R, alpha)
		} else {
			l = repetitive(g.R, alpha, 4+g.R.Intn(30))
			r = mutate(g.R, alpha, l)
		}
		n := tr.Pick(g.R, extremeNs)
		if g.R.Chance(1, 2) {
			n = math.MaxInt - g.R.Intn(len(l)+3) // wraps for the chunks behind line MaxInt-n only
		}
		if i%3 == 0 {
			emit(n, l, r, "extreme-n-structured")
		} else {
			ops, un := []int{n, 0}, []bool{false, true}
			if g.R.Chance(1, 2) {
				ops, un = []int{tr.Pick(g.R, []int{1, 2, n}), n, 0}, []bool{false, false, true}
			}
			emitHist(ops, un, l, r, "extreme-n-structured")
		}
	}
}

// ---------------------------------------------------------------- equalities (class 2)

// genEvery: EVERY value of each cheap integer dimension from 0 to 600 (thorough 800; S lines: texts by recipe,
// outputs digested, the property decided on the implementation's chunks), not only 2^k-1, 2^k,
// 2^k+1.  Costs decide the layout: slice.EditScript is quadratic in the text, and the extracted
// model of findContext indexes the texts from their heads and measures them at every step of the
// trailing loop, so a context of n lines costs it about n x (length of the file + position of the
// chunk).  Hence one context per text, the text about as long as the swept value:
//
//	pre       n = v: one change with v+1 lines before it and nothing behind (the leading context is
//	          exactly n of the n+1 available lines)
//	post      n = v: one change at line 1 with v-1 lines behind it (the trailing context is cut by
//	          the end of the file one line short of n), and with v+1 lines behind it (exactly n)
//	gap       two changes v lines apart under AddContext(v): both contexts are the whole gap, they
//	          overlap in v lines, Unify removes the trailing one whole
//	trim      the same under AddContext(v-1): the contexts overlap in v-2 lines, Unify trims
//	abut      the same under AddContext((v+1)/2): the contexts abut (v even) or overlap in one line
//	size      one change of v dropped / inserted / replaced lines
//	chunks    v changes two lines apart (v <= 128; thorough 400), n = 0 and 1
//	run       a gap of v EQUAL lines behind a dropped copy of that line (v <= 128; thorough 300)
//
// Quick tier: pre (the argument n and the leading context) and size for every v in 0..600; post,
// gap, trim and abut for every v in 0..272 only: in the extracted model a context of n lines costs
// n x (file length + position), so a sweep up to V costs V^3 (0..600: 4-5 s of driver time for
// EACH of the four; 0..272: under half a second).  Thorough: everything for every v up to 800.
// A sweep line whose texts turn out equal, or whose change New does not report, is counted as
// "every-line-without-a-chunk(not intended)".
func genEvery(g *tr.G) {
	sg := &scaleGen{g: g}
	s := everyGen{sg}
	top := g.Scale(600, 800) // thorough: (800/600)^3 = 2.4 times the cost of 600 for every sweep, the dear ones included
	const dearTop = 272      // quick tier: bound of the sweeps whose cost in the extracted model grows with the cube of the bound
	a := func(n int) string { return "a" + strconv.Itoa(max(n, 0)) }
	for v := 0; v <= top; v++ {
		all := g.Thorough() || v <= dearTop
		half := all
		// leading context of exactly n = v lines
		s.emit(a(v)+",u", joinItems(run(v+1, 0, 7), change(v, 0)), "every-context-size", false, "every-leading-context")
		// trailing context: cut by the end of the file; exactly n (every second v in the quick tier, v odd: the other line covers v-1)
		if half {
			s.emit(a(v)+",u", joinItems(change(v, 0), run(max(v-1, 0), 0, 7)), "every-context-size", false, "every-trailing-context")
		}
		if all && v%2 == 1 {
			s.emit(a(v)+",u", joinItems(change(v, 0), run(v+1, 0, 7)), "every-context-size", false, "every-trailing-context")
		}
		if g.Thorough() && v%4 == 0 {
			s.emit(a(v)+","+a(v)+",u", joinItems(run(v+1, 0, 7), change(v, 0), run(max(v-1, 0), 0, 5000)), "every-context-size", false)
		}
		// two changes v lines apart
		rec := joinItems(change(v+1, 0), run(v, v%2*4, 7), change(v+2, 0))
		if all {
			s.emit(a(v)+",u", rec, "every-gap", false, "every-gap-whole-context-removed")
		}
		if v >= 2 && all {
			s.emit(a(v-1)+",u", rec, "every-gap", false, "every-gap-context-trimmed")
			s.emit(a((v+1)/2)+",u", rec, "every-gap", false, "every-gap-contexts-abut")
		}
		// size of one change
		var ch string
		switch v % 3 {
		case 0:
			ch = it('d', v, v, 100000)
		case 1:
			ch = it('c', v, v, 200000)
		default:
			ch = it('d', v, v, 100000) + "," + it('c', (v+1)/2, v, 200000)
		}
		if v > 0 {
			s.emit("a2,u", joinItems(run(3, 0, 7), ch, run(3, 0, 5000)), "every-change-size", false)
		}
	}
	for v := 1; v <= g.Scale(128, 400); v++ {
		rec := groupItems(run(2, 0, 7), it('d', 1, 1, 100000)) + "*" + strconv.Itoa(v) + "," + run(2, 0, 99)
		s.emit([]string{"a0,u", "a1,u", "a1,a1,u"}[v%3], rec, "every-chunk-count", false)
	}
	for v := 1; v <= g.Scale(128, 300); v++ {
		// Left has a copy of the run's line in front of the run (which of the v+1 equal lines is the
		// dropped one is slice.EditScript's choice) and a line of its own behind it
		rec := joinItems(run(1, 0, 3), it('d', 1, 1, 7), run(v, 3, 7), it('d', 1, 1, 100000+v), run(1, 0, 5000))
		s.emit("a"+strconv.Itoa([]int{v, v/2 + 1, 1}[v%3])+",u", rec, "every-equal-run", false)
	}
	// n within the file length of MaxInt, deep in a long file: wraps for the later chunks only
	for i, n := range []int{math.MaxInt, math.MaxInt - 1, math.MaxInt - 700, math.MaxInt - 1499, 1 << 62, 1 << 40}[:g.Scale(3, 6)] {
		rec := groupItems(run(2+i%2, 0, 7), it('d', 1, 1, 100000)) + "*500," + run(2, 0, 99)
		s.emit("a"+strconv.Itoa(n)+",u", rec, "extreme-n-deep", false)
		rec = groupItems(run(2, 4, 7), it('c', 1, 1, 7)) + "*400," + run(3, 0, 99)
		s.emit("a1,a"+strconv.Itoa(n)+",u", rec, "extreme-n-deep", false)
	}
}

// everyGen: scaleGen.emit, counting the lines of a sweep that did not produce a chunk (a recipe
// whose two changes cancel each other looks like coverage and is none)
type everyGen struct{ *scaleGen }

func (e everyGen) emit(ops, recipe, tag string, composed bool, more ...string) {
	if e.scaleGen.emit(ops, recipe, tag, composed, more...) == 0 {
		e.g.W.Count("every-line-without-a-chunk(not intended)", 1)
	}
}
