// Round 5: shared storage.  Every earlier stream hands mdiff.New two independently allocated
// slices.  A caller may just as well pass two views of ONE array -- New(s, s[:k]), New(s[:k], s),
// New(s[i:j], s[p:q]), rhs := append(lhs, more...) performed within lhs's spare capacity -- and the
// property quantifies over those as over all other inputs: the chunks depend on the CONTENTS of
// the two arguments only, never on where they are stored.
//
//	V  <how> <ops> <script> <i>.<j>.<p>.<q> <arr> | (output of the H line)
//	VC <how> <ops>          <i>.<j>.<p>.<q> <arr> | (same; no oracle, composed model)
//
// arr    the lines of the backing array (hex list); Left = arr[i:j], Right = arr[p:q] -- the SAME
//
//	array, two windows.  Indices are clamped to 0..len(arr) and j, q raised to i, p, so that
//	a shrunk line still means something.
//
// how    v   plain slice expressions base[i:j], base[p:q]: the capacity of each reaches to the end
//
//	    of the array (two sentinel slots in front of the lines, three behind)
//	c   capacity clipped: base[i:j:j], base[p:q:q]
//	a   i = p, j <= q required: lhs = base[i:j]; rhs = append(lhs, <copies of arr[j:q]>...)
//	    -- performed within lhs's spare capacity, so rhs starts at lhs's first element
//	A   i = p, q <= j required: the mirror image, lhs = append(rhs, <copies of arr[q:j]>...)
//	an l behind the letter (vl, cl, al, Al): after New the Diff is rebuilt as a struct LITERAL
//	&mdiff.Diff{Left, Right, Chunks, Edits} from deep copies of the chunks and edits (the type
//	and its fields are exported; AddContext and Unify may use nothing else).
//
// ops, script, output: as in H lines.  The oracle is slice.EditScript on independent COPIES of the
// two windows.  K's second flag: the whole backing array (sentinels included), both arguments and
// d.Left, d.Right read as before the calls, after the poisoning of the chunks.
// The model has no notion of storage: the driver cuts the two windows out of arr and predicts the
// line as the H line of those texts.
package main

import (
	"strconv"
	"strings"

	"github.com/creachadair/mds/mdiff"
	"verif/harness/internal/tr"
)

func aOrA(lhsLonger bool) string {
	if lhsLonger {
		return "A"
	}
	return "a"
}

func clampWin(s string, n int) (w [4]int, ok bool) {
	p := strings.Split(s, ".")
	if len(p) != 4 {
		return w, false
	}
	for k := range p {
		x, err := strconv.Atoi(p[k])
		if err != nil {
			return w, false
		}
		w[k] = min(max(x, 0), n)
	}
	w[1], w[3] = max(w[1], w[0]), max(w[3], w[2])
	return w, true
}

func cloneChunks(cs []*mdiff.Chunk) []*mdiff.Chunk {
	out := make([]*mdiff.Chunk, len(cs))
	for i, c := range cs {
		if c != nil {
			out[i] = &mdiff.Chunk{Edits: copyEdits(c.Edits), LStart: c.LStart, LEnd: c.LEnd, RStart: c.RStart, REnd: c.REnd}
			if c.Edits == nil {
				out[i].Edits = nil
			}
		}
	}
	if cs == nil {
		return nil
	}
	return out
}

// sharedViews builds the two arguments as the line says; intact() reads everything the caller
// owns again
func sharedViews(how byte, arr []string, w [4]int) (lhs, rhs []string, intact func() bool, ok bool) {
	const front, back = 2, 3
	base := make([]string, front+len(arr)+back)
	for i := range base {
		base[i] = "SENTINEL"
	}
	copy(base[front:], arr)
	i, j, p, q := w[0]+front, w[1]+front, w[2]+front, w[3]+front
	switch how {
	case 'v':
		lhs, rhs = base[i:j], base[p:q]
	case 'c':
		lhs, rhs = base[i:j:j], base[p:q:q]
	case 'a':
		if i != p || j > q {
			return nil, nil, nil, false
		}
		lhs = base[i:j]
		rhs = append(lhs, append([]string(nil), arr[w[1]:w[3]]...)...)
		if len(rhs) > 0 && &rhs[0] != &base[i] {
			return nil, nil, nil, false // not within the spare capacity: the generator got it wrong
		}
	case 'A':
		if i != p || q > j {
			return nil, nil, nil, false
		}
		rhs = base[p:q]
		lhs = append(rhs, append([]string(nil), arr[w[3]:w[1]]...)...)
		if len(lhs) > 0 && &lhs[0] != &base[p] {
			return nil, nil, nil, false
		}
	default:
		return nil, nil, nil, false
	}
	snap := append([]string(nil), base...)
	l0, r0 := append([]string(nil), lhs...), append([]string(nil), rhs...)
	la, ra := lhs, rhs // the slice headers as passed
	intact = func() bool {
		return sameLines(base, snap) && sameLines(la, l0) && sameLines(ra, r0)
	}
	return lhs, rhs, intact, true
}

func execShared(how, opsS, winS, arrS string) string {
	ops, isUnify, ok := parseOps(opsS)
	arr := tr.UnHexList(arrS)
	w, ok2 := clampWin(winS, len(arr))
	if !ok || !ok2 || how == "" || len(how) > 2 || (len(how) == 2 && how[1] != 'l') {
		return "?"
	}
	lhs, rhs, intact, ok3 := sharedViews(how[0], arr, w)
	if !ok3 {
		return "?"
	}
	lhs0, rhs0 := append([]string(nil), lhs...), append([]string(nil), rhs...)
	var d *mdiff.Diff
	if p := tr.Catch(func() { d = mdiff.New(lhs, rhs) }); p != "" {
		return "E=- N=" + p + " H=- K=-"
	}
	if d == nil {
		return "E=- N=nil-diff H=- K=-"
	}
	out := "E=" + fmtEdits(d.Edits) + " N=" + fmtChunks(d.Chunks)
	if len(how) == 2 { // the Diff as a struct literal of copies
		d = &mdiff.Diff{Left: d.Left, Right: d.Right, Chunks: cloneChunks(d.Chunks), Edits: copyEdits(d.Edits)}
	}
	snap := copyEdits(d.Edits)
	same, ret := true, true
	var stages []string
	for i := range ops {
		var d2 *mdiff.Diff
		p := tr.Catch(func() {
			if isUnify[i] {
				d2 = d.Unify()
			} else {
				d2 = d.AddContext(ops[i])
			}
		})
		if p != "" {
			stages = append(stages, p)
			return out + " H=" + strings.Join(stages, "!") + " K=-"
		}
		ret = ret && d2 == d
		same = same && sameEdits(snap, d.Edits)
		stages = append(stages, fmtChunks(d.Chunks))
	}
	hs := "none"
	if len(stages) > 0 {
		hs = strings.Join(stages, "!")
	}
	poisonChunks(d.Chunks)
	same = same && sameEdits(snap, d.Edits)
	k := tr.B(same) + tr.B(intact() && sameLines(d.Left, lhs0) && sameLines(d.Right, rhs0)) + tr.B(ret)
	return out + " H=" + hs + " K=" + k
}

// sharedInput spells a V line (oracle on copies of the windows) or, composed, a VC line
func sharedInput(how, ops string, w [4]int, arr []string, composed bool) string {
	win := strconv.Itoa(w[0]) + "." + strconv.Itoa(w[1]) + "." + strconv.Itoa(w[2]) + "." + strconv.Itoa(w[3])
	if composed {
		return "VC " + how + " " + ops + " " + win + " " + tr.HexList(arr)
	}
	cw, _ := clampWin(win, len(arr))
	l, r := append([]string(nil), arr[cw[0]:cw[1]]...), append([]string(nil), arr[cw[2]:cw[3]]...)
	return "V " + how + " " + ops + " " + oracle(l, r) + " " + win + " " + tr.HexList(arr)
}

var sharedHists = []string{"a1,u", "u", "a2,a1,u", "a0,u", "a1,a1,u,u", ".", "a3,u", "a9223372036854775807,u", "u,a1,u"}

func genShared(g *tr.G) {
	k := 0
	emit := func(how string, w [4]int, arr []string, ops, tag string) {
		k++
		lw, rw := w[1]-w[0], w[3]-w[2]
		// the composed model's LCS costs ~15 us per pair of lines
		composed := k%4 == 0 && lw*rw <= 1600
		if k%5 == 0 {
			how += "l"
		}
		out := g.Emit(sharedInput(how, ops, w, arr, composed), false)
		g.W.Count(tag, 1)
		g.W.Count("shared-storage", 1)
		if composed {
			g.W.Count("composed-no-oracle", 1)
		}
		nchunks := 0
		for _, f := range strings.Fields(out) {
			if strings.HasPrefix(f, "N=") && f != "N=." {
				nchunks = strings.Count(f, "_") + 1
			}
		}
		if nchunks > 0 && ops != "." {
			g.W.NonTriv++
		}
		switch {
		case lw == 0 || rw == 0:
			g.W.Count("shared-one-window-empty", 1)
		case w[0] == w[2] && w[1] == w[3]:
			g.W.Count("shared-the-same-slice-twice", 1)
		case w[0] == w[2]:
			g.W.Count("shared-same-first-element-different-lengths", 1)
			if nchunks > 0 {
				g.W.Count("shared-same-first-element-different-lengths:with-chunks", 1)
			}
		case w[1] == w[3]:
			g.W.Count("shared-same-last-element-different-starts", 1)
		case w[1] <= w[2] || w[3] <= w[0]:
			g.W.Count("shared-windows-disjoint-in-one-array", 1)
		default:
			g.W.Count("shared-windows-overlap", 1)
		}
		if strings.Contains(out, "K=") && !strings.Contains(out, "K=111") {
			g.W.Count("shared-inputs-or-edits-disturbed", 1)
		}
	}
	hist := func() string { return sharedHists[k%len(sharedHists)] }
	windows := func(n int) (ws [][2]int) {
		for i := 0; i <= n; i++ {
			for j := i; j <= n; j++ {
				ws = append(ws, [2]int{i, j})
			}
		}
		return
	}
	// (1) every array over two symbols up to length 4 (thorough 5), every pair of windows
	for _, arr := range allSeqs([]string{"a", "b"}, g.Scale(4, 5)) {
		ws := windows(len(arr))
		for _, l := range ws {
			for _, r := range ws {
				how := "v"
				if (l[0]+l[1]+r[1])%3 == 0 {
					how = "c"
				}
				emit(how, [4]int{l[0], l[1], r[0], r[1]}, arr, hist(), "shared-exhaustive-windows")
				// append within spare capacity, both directions, whenever the windows start together
				if l[0] == r[0] && l[1] <= r[1] {
					emit("a", [4]int{l[0], l[1], r[0], r[1]}, arr, hist(), "shared-append-within-capacity")
				}
				if l[0] == r[0] && r[1] <= l[1] {
					emit("A", [4]int{l[0], l[1], r[0], r[1]}, arr, hist(), "shared-append-within-capacity")
				}
			}
		}
	}
	// (2) all lines different (what a prefix / suffix / inner window drops is one run), and with the
	// empty line among them
	for _, arr := range [][]string{{"a", "b", "c", "d"}, {"p", "q", "r", "s", "t", "u"}, {"", "x", "", "y", ""}, {"x", "", ""}} {
		ws := windows(len(arr))
		for _, l := range ws {
			for _, r := range ws {
				emit([]string{"v", "c"}[(l[1]+r[0])%2], [4]int{l[0], l[1], r[0], r[1]}, arr, hist(), "shared-distinct-lines")
				if l[0] == r[0] && l[1] != r[1] {
					emit(aOrA(l[1] > r[1]), [4]int{l[0], l[1], r[0], r[1]}, arr, hist(), "shared-append-within-capacity")
				}
			}
		}
	}
	// (3) sweep of both lengths: New(s, s[:k]), New(s[:k], s), New(s, s[k:]), New(s[k:], s), the same
	// slice twice, and append within capacity, for every length L = 0..300 of s.  Lines all
	// different; every third text with period 3 (short ones only: EditScript and the model are
	// dear on equal lines)
	top := g.Scale(300, 600)
	for L := 0; L <= top; L++ {
		per := L + 1
		if L%3 == 2 && L <= 60 {
			per = 3
		}
		arr := make([]string, L)
		for i := range arr {
			arr[i] = strconv.Itoa(1000 + i%per)
		}
		ks := []int{L, L - 1, L / 2, 1, 0, L - L/4}
		variants := 6
		if L > 64 && !g.Thorough() {
			variants = 1
		}
		for v := 0; v < variants; v++ {
			kk := min(max(ks[(L+v)%len(ks)], 0), L)
			h := []string{"a1,u", "a2,u", "u", "a3,a1,u"}[(L+v)%4]
			switch (L/2 + v) % 6 {
			case 0:
				emit("v", [4]int{0, L, 0, kk}, arr, h, "shared-sweep-prefix")
			case 1:
				emit("v", [4]int{0, kk, 0, L}, arr, h, "shared-sweep-prefix")
			case 2:
				emit("a", [4]int{0, kk, 0, L}, arr, h, "shared-sweep-append")
			case 3:
				emit("A", [4]int{0, L, 0, kk}, arr, h, "shared-sweep-append")
			case 4:
				emit("c", [4]int{0, L, L - kk, L}, arr, h, "shared-sweep-suffix")
			default:
				emit("v", [4]int{L - kk, L, 0, L}, arr, h, "shared-sweep-suffix")
			}
		}
	}
	// (4) random arrays, windows, histories
	alphas := [][]string{{"a", "b"}, {"a", "b", "c"}, {"a", "b", "", "line"}, {"x", "y", "z", "w"}}
	for i := 0; i < g.Scale(1500, 40000); i++ {
		alpha := tr.Pick(g.R, alphas)
		var arr []string
		if g.R.Chance(1, 2) {
			arr = repetitive(g.R, alpha, 1+g.R.Intn(24))
		} else {
			arr = randLines(g.R, alpha, 1+g.R.Intn(24))
		}
		n := len(arr)
		a, b := g.R.Intn(n+1), g.R.Intn(n+1)
		c, d := g.R.Intn(n+1), g.R.Intn(n+1)
		if a > b {
			a, b = b, a
		}
		if c > d {
			c, d = d, c
		}
		how := tr.Pick(g.R, []string{"v", "v", "c"})
		switch g.R.Intn(4) {
		case 0: // same first element
			c = a
			how = tr.Pick(g.R, []string{"v", "c", "a"})
			if how == "a" && b > d {
				how = "A"
			}
		case 1: // same last element
			d = b
			if c > d {
				c = d
			}
		}
		nops := g.R.Intn(5)
		ops := make([]string, nops)
		for j := range ops {
			if g.R.Chance(1, 3) {
				ops[j] = "u"
			} else {
				ops[j] = "a" + strconv.Itoa(tr.Pick(g.R, []int{1, 1, 2, 3, 0, -1, 100}))
			}
		}
		h := "."
		if nops > 0 {
			h = strings.Join(ops, ",")
		}
		emit(how, [4]int{a, b, c, d}, arr, h, "shared-random")
	}
}

// genTwoSided: BOTH lengths swept (class 4 of the round-5 guide).  The scale and every-value streams
// put one long side against a thin change; here Left has L lines and Right L, L-1, L+1 or 2L lines,
// for every L = 0..300 (thorough 600), and the two share exactly ONE line (at the end of one and the
// start of the other, in the middle, or at both starts) or a run of L/2 lines -- so the script is one
// long Drop, one Emit and one long Copy, and the chunks on both sides of the common line have sizes
// that grow with L on both sides at once.  S lines: texts by recipe, digests, property in field P.
func genTwoSided(g *tr.G) {
	sg := &scaleGen{g: g}
	s := everyGen{sg}
	top := g.Scale(300, 600)
	for L := 0; L <= top; L++ {
		shapes := []string{
			// (L, L): Left = L-1 own lines + the common one; Right = the common one + L-1 own lines
			joinItems(itn('d', L-1, max(L, 1), 100000), itn('e', min(L, 1), 1, 7), itn('c', L-1, max(L, 1), 200000)),
			// (L, L+1) and (L, L-1): the common line in the middle of Left, at the start of Right
			joinItems(itn('d', L/2, max(L, 1), 100000), itn('e', min(L, 1), 1, 7), itn('d', L-1-L/2, max(L, 1), 150000), itn('c', L, max(L, 1), 200000)),
			joinItems(itn('c', L-2, max(L, 1), 200000), itn('d', L-1, max(L, 1), 100000), itn('e', min(L, 1), 1, 7)),
			// (L, 2L): Right twice as long, the common line in its middle
			joinItems(itn('c', L, max(L, 1), 200000), itn('e', min(L, 1), 1, 7), itn('d', L-1, max(L, 1), 100000), itn('c', L-1, max(L, 1), 300000)),
			// a common run of L/2 lines between own runs on both sides
			joinItems(itn('d', L-L/2, max(L, 1), 100000), run(L/2, 0, 7), itn('c', L-L/2, max(L, 1), 200000)),
			// (L, L) with nothing in common at all but the first line
			joinItems(itn('e', min(L, 1), 1, 7), itn('d', L-1, max(L, 1), 100000), itn('c', L-1, max(L, 1), 200000)),
		}
		for v, rec := range shapes {
			if L > 64 && !g.Thorough() && (L+v)%3 != 0 {
				continue
			}
			if !strings.ContainsAny(rec, "dc") {
				continue // nothing but the common line: no change to report
			}
			h := []string{"a1,u", "a3,u", "u", "a2,a1,u", "a" + strconv.Itoa(L) + ",u"}[(L+v)%5]
			s.emit(h, rec, "two-sided-sweep", L <= 24 && (L+v)%4 == 0, "two-sided-shape-"+strconv.Itoa(v))
		}
	}
}

// itn: it, or no item at all for a count below one
func itn(kind byte, count, period, offset int) string {
	if count < 1 {
		return ""
	}
	return it(kind, count, period, offset)
}
