package main

// Round-3 generators of bytestrace:
//
//   - wide alphabets for Trunc and CompareNatural: multi-byte runes that unicode.IsDigit (Nd in
//     2-, 3- and 4-byte encodings), unicode.IsNumber, unicode.IsSpace and unicode.IsLetter accept,
//     combining marks, 4-byte runes, invalid UTF-8 (including cut-off encodings of those very
//     runes), placed before / after / inside ASCII digit runs, in pairs and triples; every single
//     byte value in every syntactic position;
//   - scale streams: sizes 2^k-1, 2^k, 2^k+1 for k up to 13 (plus a few random large ones) for the
//     mbits slices (all 8 alignments), for the string handed to Trunc and for the common prefix /
//     digit run / non-digit run of the strings handed to CompareNatural.
//
// The extracted model is quadratic in the slice / string length (list indexing), so the big cases
// are few; the small ones are many.

import (
	"strconv"
	"strings"
	"unicode"
	"unicode/utf8"

	"verif/harness/internal/tr"
)

// ---- token classes

const (
	clsDigit    = iota // a run of ASCII digits
	clsUniDigit        // Unicode Nd outside ASCII
	clsNumeric         // No / Nl: numbers that are not decimal digits
	clsPunct           // ASCII non-digits around '0'..'9' in byte order, letters
	clsSpace           // Unicode White_Space (and two look-alikes that are not)
	clsLetter          // non-ASCII letters, 2- to 4-byte
	clsMark            // combining marks, joiners, variation selectors
	clsWide            // other 4-byte runes and the ends of the code space
	clsInvalid         // invalid UTF-8
	nClasses
)

var classToks = [nClasses][]string{
	clsDigit: {"0", "1", "2", "5", "9", "00", "01", "10", "12", "007", "99", "100"},
	clsUniDigit: {
		"\u0660", "\u0661", "\u0662", "\u0669", // Arabic-Indic 0 1 2 9 (2 bytes)
		"\u06f0", "\u06f5", "\u07c1", // Extended Arabic-Indic, NKo
		"\u0966", "\u0967", "\u096f", // Devanagari 0 1 9 (3 bytes)
		"\u09e6", "\u0e50", "\u0e59", "\u1040", // Bengali, Thai, Myanmar
		"\uff10", "\uff11", "\uff12", "\uff19", // full-width 0 1 2 9
		"\U000104a0", "\U00011066", "\U0001e950", // Osmanya, Brahmi, Adlam (4 bytes)
		"\U0001d7ce", "\U0001d7cf", "\U0001d7d7", "\U0001d7ff", // mathematical bold 0 1 9, monospace 9
	},
	clsNumeric: {"\u00b2", "\u00b9", "\u00bd", "\u2070", "\u2460", "\u2167", "\u3007", "\u4e00", "\U00010107"},
	clsPunct:   {"a", "b", "z", "A", "/", ":", "-", ".", " ", "_", "~", "\x00", "\x7f", "ab", "x/"},
	clsSpace: {"\t", "\n", "\v", "\f", "\r", " ", "\u0085", "\u00a0", "\u1680", "\u2000", "\u2003", "\u200a",
		"\u2028", "\u2029", "\u202f", "\u205f", "\u3000", "\u200b", "\ufeff"},
	clsLetter: {"\u00e9", "\u00df", "\u0130", "\u0131", "\u03a9", "\u044f", "\u05d0", "\u0627", "\u4e2d", "\u7ae0", "\u7b2c", "\u01c5",
		"\U0001d400", "\U00020000"},
	clsMark: {"\u0301", "\u0308", "\u0483", "\u20dd", "\ufe0f", "\u200d", "\U000e0100"},
	clsWide: {"\U0001f600", "\U0001f1e6", "\U00010000", "\U0010ffff", "\uffff", "\ufffd", "\u0080", "\u07ff", "\u0800"},
	clsInvalid: {"\x80", "\xbf", "\xb0", "\xb1", "\xb9", "\xc0\x80", "\xc2", "\xd9", "\xe0\x80", "\xed\xa0\x80", "\xef\xbc",
		"\xf0\x9f", "\xf0\x9d\x9f", "\xf5", "\xfe", "\xff", "\xc0\xb1", "\xe0\x80\xb1"},
}

type tok struct {
	cls int
	s   string
}

func flat(ts []tok) string {
	var sb strings.Builder
	for _, t := range ts {
		sb.WriteString(t.s)
	}
	return sb.String()
}

func randTok(r *tr.Rand, cls int) tok {
	if cls == clsDigit && r.Chance(1, 2) {
		var sb strings.Builder
		for z := r.Intn(3); z > 0; z-- {
			sb.WriteByte('0')
		}
		for k := 1 + r.Intn(4); k > 0; k-- {
			sb.WriteByte(byte('0' + r.Intn(10)))
		}
		return tok{cls, sb.String()}
	}
	if cls == clsUniDigit && r.Chance(1, 3) { // a run of digits of one script
		base := tr.Pick(r, []rune{0x0660, 0x0966, 0xff10, 0x1d7ce, 0x0e50})
		var sb strings.Builder
		for k := 1 + r.Intn(3); k > 0; k-- {
			sb.WriteRune(base + rune(r.Intn(10)))
		}
		return tok{cls, sb.String()}
	}
	return tok{cls, tr.Pick(r, classToks[cls])}
}

var classWeights = []int{clsDigit, clsDigit, clsDigit, clsDigit, clsUniDigit, clsUniDigit, clsUniDigit, clsUniDigit,
	clsPunct, clsPunct, clsPunct, clsSpace, clsSpace, clsLetter, clsLetter, clsMark, clsWide, clsInvalid, clsInvalid, clsNumeric}

func randClass(r *tr.Rand) int { return tr.Pick(r, classWeights) }

func randWide(r *tr.Rand) []tok {
	n := 1 + r.Intn(6)
	ts := make([]tok, n)
	for i := range ts {
		ts[i] = randTok(r, randClass(r))
	}
	return ts
}

// mutateWide returns a string related to flat(ts): the same, one token exchanged within or across
// classes, an ASCII digit for a Unicode one or back, a leading zero of some script, a token
// deleted / added / moved, one byte changed to any value, or a cut at any byte.
func mutateWide(r *tr.Rand, ts []tok) string {
	t := append([]tok(nil), ts...)
	i := 0
	if len(t) > 0 {
		i = r.Intn(len(t))
	}
	switch r.Intn(11) {
	case 0: // the same string
	case 1:
		if len(t) > 0 {
			t[i] = randTok(r, t[i].cls)
		}
	case 2:
		if len(t) > 0 {
			switch t[i].cls {
			case clsDigit:
				t[i] = randTok(r, clsUniDigit)
			case clsUniDigit:
				t[i] = randTok(r, clsDigit)
			default:
				t[i] = randTok(r, randClass(r))
			}
		}
	case 3:
		for j := range t {
			k := (i + j) % len(t)
			if t[k].cls == clsDigit || t[k].cls == clsUniDigit {
				z := tr.Pick(r, []string{"0", "0", "00", "\u0660", "\uff10", "\U0001d7ce", "\u0966"})
				t[k] = tok{t[k].cls, z + t[k].s}
				break
			}
		}
	case 4:
		if len(t) > 0 {
			t = append(t[:i], t[i+1:]...)
		}
	case 5:
		t = append(t, randTok(r, randClass(r)))
	case 6:
		if len(t) > 1 {
			j := (i + 1) % len(t)
			t[i], t[j] = t[j], t[i]
		}
	case 7:
		b := []byte(flat(t))
		if len(b) > 0 {
			b[r.Intn(len(b))] = byte(r.Intn(256))
		}
		return string(b)
	case 8:
		s := flat(t)
		if len(s) > 0 {
			return s[:r.Intn(len(s))]
		}
	case 9:
		t = append(t[:i], append([]tok{randTok(r, randClass(r))}, t[i:]...)...)
	case 10: // a different ending after the same beginning
		t = append(t[:i], randTok(r, randClass(r)))
	}
	return flat(t)
}

// ---- tags: which of the named states a string / pair reaches

func nonASCIIDigitAt(s string) int { // byte offset of the first Unicode decimal digit outside ASCII, or -1
	for i, c := range s {
		if c >= 0x80 && unicode.IsDigit(c) {
			return i
		}
	}
	return -1
}

func wideTags(tag string, ss ...string) []string {
	tags := []string{tag}
	var dig, num, sp, let, mark, four, inval, adj bool
	for _, s := range ss {
		if !utf8.ValidString(s) {
			inval = true
		}
		prevDigit := false
		prevUni := false
		for _, c := range s {
			ud := c >= 0x80 && unicode.IsDigit(c)
			ad := c >= '0' && c <= '9'
			if (ud && prevDigit) || (ad && prevUni) {
				adj = true
			}
			prevDigit, prevUni = ad, ud
			switch {
			case ud:
				dig = true
			case c >= 0x80 && unicode.IsNumber(c):
				num = true
			case c >= 0x80 && unicode.IsSpace(c):
				sp = true
			case c >= 0x80 && unicode.IsLetter(c):
				let = true
			case unicode.IsMark(c):
				mark = true
			}
			if c >= 0x10000 {
				four = true
			}
		}
	}
	add := func(b bool, t string) {
		if b {
			tags = append(tags, t)
		}
	}
	add(dig, "has-nonascii-decimal-digit")
	add(adj, "nonascii-digit-next-to-ascii-digit")
	add(num, "has-nonascii-number-not-digit")
	add(sp, "has-nonascii-space")
	add(let, "has-nonascii-letter")
	add(mark, "has-combining-mark")
	add(four, "has-4-byte-rune")
	add(inval, "has-invalid-utf8")
	if len(ss) >= 2 {
		a, b := ss[0], ss[1]
		k := 0
		for k < len(a) && k < len(b) && a[k] == b[k] {
			k++
		}
		ia, ib := nonASCIIDigitAt(a), nonASCIIDigitAt(b)
		// both strings agree up to (and into) a non-ASCII digit: the scanners meet it together
		add(ia >= 0 && ia == ib && k >= ia, "both-reach-a-nonascii-digit-together")
		add((ia >= 0) != (ib >= 0), "nonascii-digit-in-one-only")
	}
	return tags
}

func emitC(g *tr.G, a, b, tag string) {
	g.Emit("C "+tr.Hex(a)+" "+tr.Hex(b), true, append(wideTags(tag, a, b), natTags(a, b, "wide")[1:]...)...)
}

func emitX(g *tr.G, a, b, c, tag string) {
	g.Emit("X "+tr.Hex(a)+" "+tr.Hex(b)+" "+tr.Hex(c), true, append(wideTags(tag+"-triples", a, b, c), natTags3(a, b, c, "wide")[1:]...)...)
}

// ---- CompareNatural, wide alphabets

// smallWide: one or two representatives of every class, used for the exhaustive small scopes.
var smallWide = []string{"0", "1", "a", "/", "\uff11", "\uff12", "\u0661", "\U0001d7cf", "\u00a0", "\u00e9", "\u0301", "\xff"}

// frames: X marks where the token under test goes -- alone, before / after / inside a digit run,
// before / after / between letters, after a leading zero.
var frames = []string{"X", "X1", "1X", "1X2", "12X34", "aX", "Xa", "aXb", "a1X", "X1a", "0X", "X0", "a0X1", "a X"}

func inFrame(f, x string) string { return strings.Replace(f, "X", x, 1) }

func emitWideCompare(g *tr.G) {
	// (1) every token of every class in every frame, against the same frame holding: the token
	// itself, its neighbour in the class, an ASCII digit, a zero, a letter, nothing, '/', ':'
	for cls := clsUniDigit; cls < nClasses; cls++ {
		toks := classToks[cls]
		for ti, x := range toks {
			if !g.Thorough() && cls != clsUniDigit && ti%2 == 1 {
				continue // quick: every decimal digit, every other token of the remaining classes
			}
			nb := toks[(ti+1)%len(toks)]
			for fi, f := range frames {
				a := inFrame(f, x)
				for _, y := range []string{x, nb, "1", "0", "a", "", "/", ":"} {
					emitC(g, a, inFrame(f, y), "framed-token")
				}
				emitX(g, a, inFrame(f, nb), inFrame(f, tr.Pick(g.R, []string{"1", "0", "a", "", ":"})), "framed-token")
				if fi%3 == ti%3 { // the same token in two different frames and a third string
					emitX(g, a, inFrame(frames[(fi+1)%len(frames)], x), inFrame(f, "9"), "framed-token")
				}
			}
		}
	}
	// (2) every byte value in every position: alone, after / before / inside a digit run, after /
	// before / between letters
	for v := 0; v < 256; v++ {
		x := string([]byte{byte(v)})
		for _, f := range frames[:8] {
			a := inFrame(f, x)
			for _, y := range []string{x, string([]byte{byte(v + 1)}), string([]byte{byte(v ^ 0x80)}), "0", "a", ""} {
				emitC(g, a, inFrame(f, y), "every-byte-value")
			}
		}
		emitX(g, "1"+x, "1"+string([]byte{byte(v + 1)}), x+"1", "every-byte-value")
	}
	// (3) exhaustive small scopes over one or two representatives of every class
	var w2 []string
	allStrings(smallWide, 2, func(s string, k int) { w2 = append(w2, s) })
	for _, a := range w2 {
		for _, b := range w2 {
			emitC(g, a, b, "wide-all-pairs")
		}
	}
	var w1 []string
	allStrings(smallWide, 1, func(s string, k int) { w1 = append(w1, s) })
	for i := range w1 {
		for j := i; j < len(w1); j++ {
			for k := j; k < len(w1); k++ {
				emitX(g, w1[i], w1[j], w1[k], "wide-all")
			}
		}
	}
	var w3 []string
	if g.Thorough() {
		allStrings(smallWide, 3, func(s string, k int) { w3 = append(w3, s) })
	} else {
		w3 = w2
	}
	for i := 0; i < g.Scale(3000, 100000); i++ {
		emitX(g, tr.Pick(g.R, w3), tr.Pick(g.R, w3), tr.Pick(g.R, w3), "wide-random-small")
	}
	if g.Thorough() {
		for i := 0; i < 150000; i++ {
			emitC(g, tr.Pick(g.R, w3), tr.Pick(g.R, w3), "wide-random-small-pairs")
		}
	}
	// (4) random strings of tokens of all classes, paired with mutations of themselves
	for i := 0; i < g.Scale(6000, 150000); i++ {
		ts := randWide(g.R)
		a := flat(ts)
		b := mutateWide(g.R, ts)
		if g.R.Chance(1, 8) {
			b = flat(randWide(g.R))
		}
		emitC(g, a, b, "wide-random")
		if i%3 == 0 {
			c := mutateWide(g.R, ts)
			if g.R.Chance(1, 4) {
				c = flat(randWide(g.R))
			}
			emitX(g, a, b, c, "wide-random")
		}
	}
}

// ---- scale

// scaleSizes: 2^k-1, 2^k, 2^k+1 for k = lo..13 and a few random sizes up to 9000.
func scaleSizes(g *tr.G, lo int) []int {
	var out []int
	for k := lo; k <= 13; k++ {
		out = append(out, 1<<k-1, 1<<k, 1<<k+1)
	}
	for i := 0; i < g.Scale(2, 5); i++ {
		out = append(out, 1100+g.R.Intn(7900))
	}
	return out
}

// body builds a string of exactly n bytes of the given kind (the last rune is cut when n is not
// a multiple of the unit -- except for the all-ASCII kinds).
func body(kind string, n int) string {
	unit := map[string]string{
		"digits": "1234567890", "zeros": "0", "nines": "9", "letters": "a", "tokens": "ab12/", "fullwidth": "\uff11",
		"letters-2byte": "\u00e9", "mixed-runes": "a\u00e9\u4e2d\U0001f600\u0661", "spaces": "\u3000", "continuation": "\x80", "leads": "\xe4",
		"digit-tokens": "12ab/7", "rune-tokens": "\u00e91\uff11/a22\u0661",
	}[kind]
	return strings.Repeat(unit, n/len(unit)+1)[:n]
}

// emitScaleCompare.  The extracted model costs about (bytes scanned) x (string length), so the two
// dimensions are covered separately:
//   - depth: the strings agree on their first n bytes -- one digit run, a run of zeros, one run of
//     letters, many short tokens, multi-byte digits, mixed runes -- and differ right after, n around
//     2^k up to 2^11 (quick; beyond 300 bytes fewer kinds per size, rotating with the seed);
//   - length: strings of about 2^k bytes up to 2^13 that differ within the first few dozen bytes.
func emitScaleCompare(g *tr.G) {
	kinds := []string{"digits", "zeros", "letters", "tokens", "fullwidth", "mixed-runes"}
	tails := [][3]string{{"1", "2", "10"}, {"9", "10", "a"}, {"a", "b", ""}, {"/", "0", ":"}, {"\uff11", "1", "\uff12"}, {"", "0", "00"}, {"a1", "a01", "a2"}}
	one2k := 2047 + int(g.Seed)%3
	for si, n := range scaleSizes(g, 5) {
		for ki, kind := range kinds {
			rot := ki + si + int(g.Seed)
			var do bool
			switch { // quick tier: about 2 s of model time in all (110 ns x n^2 per comparison)
			case n <= 300:
				do = true
			case n <= 600:
				do = g.Thorough() || rot%2 == 0
			case n <= 1100:
				do = g.Thorough() || rot%3 == 0
			case n <= 2100:
				do = (g.Thorough() || n == one2k) && rot%6 == 0
			default:
				do = g.Thorough() && rot%6 == 0 && n <= 4200
			}
			if !do {
				continue
			}
			t := tails[rot%len(tails)]
			p := body(kind, n)
			tag := "scale-depth-" + kind
			emitC(g, p+t[0], p+t[1], tag)
			g.W.Count("scale-common-prefix>=255", b2i(n >= 255))
			g.W.Count("scale-common-prefix>=1023", b2i(n >= 1023))
			full := g.Thorough() && (n <= 300 || (n <= 1100 && rot%3 == 0))
			if n <= 130 || full {
				emitC(g, p+t[1], p+t[0], tag)
				emitC(g, "x"+p+t[0], "x"+p+t[0], tag)
			}
			if (n <= 130 && rot%2 == 0) || (n <= 300 && rot%6 == 0) || full {
				emitX(g, p+t[0], p+t[1], p+t[2], "scale-depth")
			}
		}
	}
	// length: the runs after the point of difference are short (the scanners read a whole run
	// before anything is compared, and so does the model)
	fills := []string{"tokens", "digit-tokens", "rune-tokens"}
	for si, n := range scaleSizes(g, 9) {
		for ki, kind := range kinds {
			rot := ki + si + int(g.Seed)
			if !g.Thorough() && rot%2 != 0 {
				continue
			}
			t := tails[rot%5] // not the last two: equal up to leading zeros means reading on to the end
			q := body(kind, g.R.Intn(25))
			fa, fb, fc := body(fills[rot%3], n), body(fills[(rot+1)%3], n), body("tokens", n/2)
			if g.R.Bool() {
				fb = fa
			}
			tag := "scale-length-" + kind
			emitC(g, q+t[0]+fa, q+t[1]+fb, tag)
			g.W.Count("scale-length>=4095", b2i(n >= 4095))
			if ki == si%len(kinds) || g.Thorough() {
				emitX(g, q+t[0]+fa, q+t[1]+fb, q+t[2]+fc, "scale-length")
			}
		}
	}
}

func b2i(b bool) int {
	if b {
		return 1
	}
	return 0
}

// emitScaleTrunc: strings of about 2^k bytes of one kind of rune (or of continuation / lead bytes
// only), cut at the start, in the middle and around the end.  Above 1100 bytes: two kinds per size
// and four cuts in the quick tier, and no string of continuation bytes only (Trunc walks back
// over the whole run; the model does the same, quadratically).
func emitScaleTrunc(g *tr.G) {
	kinds := []string{"letters", "letters-2byte", "spaces", "mixed-runes", "fullwidth", "leads", "continuation"}
	for si, n := range scaleSizes(g, 3) {
		big := n > 1100
		for ki, kind := range kinds {
			cuts := []int{0, 1, 2, 3, n/2 - 1, n / 2, n - 2, n - 1, n, n + 1, n + 2, n + 3, n + 4}
			if big {
				if kind == "continuation" && n > 2100 {
					continue
				}
				cuts = []int{0, 1, n/2 - 1, n / 2, n - 2, n - 1, n, n + 1, n + 3, n + 4}
				if !g.Thorough() {
					if kind == "continuation" || (ki+si+int(g.Seed))%3 != 0 {
						continue
					}
					cuts = []int{n/2 + ki, n - 1, n + 1, n + 4}
				}
			} else if n > 200 && !g.Thorough() {
				cuts = []int{1, n/2 + ki, n - 1, n, n + 1, n + 2, n + 4}
			}
			s := body(kind, n+3)
			for _, cut := range cuts {
				if cut < 0 {
					continue
				}
				tags := []string{"scale-trunc-" + kind}
				if n >= 1023 {
					tags = append(tags, "scale-string>=1023")
				}
				if n >= 4095 {
					tags = append(tags, "scale-string>=4095")
				}
				g.Emit("U "+strconv.Itoa(cut)+" "+tr.Hex(s), cut < len(s), tags...)
			}
		}
	}
}

// emitWideTrunc: every cut of (1) every token of every class between two neighbours of every
// width, (2) every byte value between such neighbours, (3) random strings of tokens.
func emitWideTrunc(g *tr.G) {
	nbs := []string{"", "a", "\u00e9", "\u4e2d", "\U0001f600", "\x80", "\xe4"}
	for cls := clsUniDigit; cls < nClasses; cls++ {
		for _, x := range classToks[cls] {
			for i, pre := range nbs {
				for j, suf := range nbs {
					if g.Thorough() || (i+j)%2 == 0 {
						emitTrunc(g, pre+x+suf, false, "wide-token-between-neighbours")
					}
				}
			}
		}
	}
	// every lead byte 0xc2..0xf4 in a valid rune (the lowest and the highest it can start)
	for lead := 0xc2; lead <= 0xf4; lead++ {
		var lo, hi rune
		switch {
		case lead < 0xe0:
			lo = rune(lead&0x1f) << 6
			hi = lo | 0x3f
		case lead < 0xf0:
			lo = rune(lead&0x0f) << 12
			hi = lo | 0xfff
		default:
			lo = rune(lead&0x07) << 18
			hi = lo | 0x3ffff
		}
		// 0xe0 and 0xf0 start above the overlong forms, 0xed stops below the surrogates, 0xf4 at U+10FFFF
		first, last := rune(-1), rune(-1)
		for c := lo; c <= hi; c++ {
			if utf8.ValidRune(c) && string(c)[0] == byte(lead) {
				if first < 0 {
					first = c
				}
				last = c
			}
		}
		for _, c := range []rune{first, last} {
			x := string(c)
			for _, pre := range []string{"", "a", "\u00e9"} {
				for _, suf := range []string{"", "a", "\U0001f600"} {
					emitTrunc(g, pre+x+suf, true, "every-lead-byte-in-a-valid-rune")
				}
			}
		}
	}
	for v := 0; v < 256; v++ {
		x := string([]byte{byte(v)})
		for _, pre := range nbs[:5] {
			for _, suf := range []string{"", "a", "\u00e9", "\x80"} {
				emitTrunc(g, pre+x+suf, false, "every-byte-value-between-neighbours")
			}
		}
	}
	for i := 0; i < g.Scale(1500, 20000); i++ {
		ts := randWide(g.R)
		s := flat(ts)
		if g.R.Chance(1, 3) {
			s = mutateWide(g.R, ts)
		}
		emitTrunc(g, s, false, "wide-random-trunc")
	}
}

// ---- mbits scale: lengths around 2^k at all 8 alignments

func emitScaleMbits(g *tr.G) {
	for si, n := range scaleSizes(g, 5) {
		deep := 9 + g.R.Intn(n-17)
		pats := [][]int{{}, {n - 1}, {0}, {n - 9}, {n - 8}, {7}, {8}, {n / 2}, {deep}, {deep &^ 7, deep | 7}, {0, n - 1}}
		big := n > 1100
		for al := 0; al < 8; al++ {
			off := 8 + al
			rot := al + si + int(g.Seed)
			tags := []string{"scale", "scale-align" + strconv.Itoa(al)}
			if n >= 1023 {
				tags = append(tags, "scale>=1023")
			}
			if n >= 4095 {
				tags = append(tags, "scale>=4095-align"+strconv.Itoa(al))
			}
			args := func(pi int) string {
				p := make([]bool, n)
				for _, i := range pats[pi] {
					p[i] = true
				}
				return " " + strconv.Itoa(off) + " " + strconv.Itoa(n) + " " + tr.Hex(memFor(off, p, 0xa5, al+pi))
			}
			// The model is quadratic in n, its Zero with a large constant (0.3 s at 8192 bytes).  Above
			// 1100 bytes (quick tier): the all-zero slice and two more of the patterns per (size,
			// alignment), one more above 4200, rotating; Zero once per (size, alignment) up to 2100 bytes, at 2 of the 8 alignments
			// around 4096 and 1 of the 8 around 8192 (rotating with the size and the seed; the
			// thorough tier runs everything).
			for pi := range pats {
				// (the all-zero slice -- the whole word loop and the tail -- always; of the others ...)
				if big && !g.Thorough() && pi > 0 && ((n <= 4200 && (pi+rot)%5 != 0) || (n > 4200 && (pi+rot)%10 != 0)) {
					continue
				}
				if n > 4200 && g.Thorough() && pi > 0 && (pi+rot)%2 != 0 { // thorough: half of the patterns above 4200 bytes
					continue
				}
				a := args(pi)
				g.Emit("L"+a, true, tags...)
				g.Emit("T"+a, true, tags...)
				if !big && (pi < 2 || pi == 8) {
					g.Emit("Z"+a, true, append(tags, "scale-zero")...)
				}
			}
			if big && (g.Thorough() || n <= 2100 || (n <= 4200 && rot%4 == 0) || rot%8 == 0) {
				g.Emit("Z"+args(rot%len(pats)), true, append(tags, "scale-zero")...)
				if n >= 4095 {
					g.W.Count("scale-zero>=4095-align"+strconv.Itoa(al), 1)
				}
			}
		}
	}
	// every non-zero byte value at every position of a two-word window, alignment rotating
	for v := 1; v < 256; v++ {
		for pos := 0; pos < 17; pos++ {
			off := 8 + (v+pos)%8
			b := []byte(memFor(off, make([]bool, 17), 0xa5, 0))
			b[off+pos] = byte(v)
			args := " " + strconv.Itoa(off) + " 17 " + tr.Hex(string(b))
			g.Emit("L"+args, true, "every-byte-value")
			g.Emit("T"+args, true, "every-byte-value")
		}
	}
}
