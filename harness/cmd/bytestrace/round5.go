package main

// Round-5 generators of bytestrace (ROUND5_GUIDE.md): WORD-LEVEL ALGEBRAIC COINCIDENCES.
//
// The mbits functions read the slice as 64-bit little-endian words.  A "faster" variant that folds
// several words into one test -- the sum, the xor, the and, the product of two, four or eight
// words compared with zero -- agrees with the byte-by-byte definition on every buffer the earlier
// rounds built (one filler value per byte position, text tokens), because there a fold of non-zero
// words is never zero.  It is zero for
//
//	sum      (a, 2^64-a), (x, ^x+1), (2^63, 2^63), (1, ff..ff), 4 x 2^62, 8 x 2^61, (a, b, c, -(a+b+c)),
//	         (ff..ff, ff..ff, 2, 0) -- a carry over two words, bytes 0x80 at the top of two words,
//	         0x40 of four, 0x20 of eight
//	xor      equal words (a, a), (a, a, b, b), (a, b, a^b, 0), byte fills 0x01 / 0x80 / 0xc0 / 0xff
//	and      complementary words (x, ^x), single bits in different words, low half / high half
//	product  (2^32, 2^32), (2^63, 2), (2^k, 2^(64-k))
//
// while every word is non-zero.  The stream puts such a block of 2, 4 or 8 words
//
//   - for TrailingZeroes: in front of z zero bytes at the end of the slice, z = EVERY distance
//     0..8B+8 (B the block size in words: the block sits on the word grid that is anchored at the END
//     of the slice exactly when z is a multiple of 8, on the grid of B-word blocks when z is a
//     multiple of 8B), all 8 address alignments when z is a multiple of 8 and a rotating one
//     otherwise, behind a ragged front of 0, 5 or 11 bytes (zero, or one non-zero byte first);
//     and far from the end (z = 8B*k, k = 2..16, and 2^k up to 1024 (thorough 4096));
//   - for LeadingZeroes: the mirror image (z zero bytes in front, a ragged tail behind);
//   - for Zero: at the front, in the middle and at the end of a slice otherwise filled with 0xff
//     (a variant that "skips blocks that are zero already" leaves them);
//
// plus two blocks in a row and a block followed by a genuinely non-zero one.  The expected counts
// come from the byte-by-byte definition in the driver's spec, as for every other L/T/Z line.
//
// CompareNatural and Trunc, the 8-byte-block analogue: two strings that agree on a whole number of
// 8-byte blocks (8..40 bytes, 64, 128, 256) whose common part ends in 1..6 digits, the digit run
// going on behind the block boundary in one string only / in both with different lengths / in
// neither -- in BOTH argument orders and as triples (order laws); Trunc with a 2-, 3- or 4-byte
// rune straddling every multiple of 8 behind 7 or more ASCII bytes, cut at every place around it.

import (
	"encoding/binary"
	"strconv"
	"strings"

	"verif/harness/internal/tr"
)

type wordBlock struct {
	name string
	w    []uint64
}

const (
	top  = uint64(1) << 63
	ones = ^uint64(0)
	lo01 = uint64(0x0101010101010101)
)

// coincidences: tuples of B non-... words (zero words only where named) whose fold is zero.
func coincidences(B int, r *tr.Rand) []wordBlock {
	var out []wordBlock
	add := func(name string, w ...uint64) {
		if len(w) != B {
			panic("bad block " + name)
		}
		out = append(out, wordBlock{name, w})
	}
	rnd := func() uint64 {
		v := r.Uint64()
		if v == 0 {
			v = 1
		}
		return v
	}
	as := []uint64{1, 0xff, top, 0x80, 1 << 32, 0xffffffff, lo01, 0x80 * lo01, 0x0100000000000000, rnd(), rnd() | top}
	switch B {
	case 2:
		for _, a := range as {
			add("sum", a, -a)
			add("sum", -a, a)
			add("xor", a, a)
			add("and", a, ^a)
		}
		add("sum", 1, ones)  // 01 00*7 ff*8
		add("sum", ones, 1)  // ff*8 01 00*7
		add("sum", top, top) // two bytes 0x80 exactly 8 apart at the top of their words
		add("and", 1, 2)     // single bottom bits
		add("and", top, 1)   // top bit, bottom bit
		add("and", 0xffffffff, 0xffffffff00000000)
		add("product", 1<<32, 1<<32)
		add("product", top, 2)
		add("product", 1<<20, 1<<44)
		add("product", 0x100000000, 0xffffffff00000000)
		for _, f := range []uint64{0x80, 0x40, 0xc0, 0x01, 0xff} { // byte fills: equal words
			add("fill", f*lo01, f*lo01)
		}
		add("half", 0x00000001ffffffff, 0xffffffff00000001) // the 32-bit halves of each word sum to zero
		add("half", 0x8000000080000000, 0x8000000080000000) // bytes 0x80 four apart, at the top of each half
		add("half", 0xc000000040000000, 0x0000ffffffff0001) // ... and the 16-bit quarters
		add("half", 0x7f7f7f7f80808081, 0x0000000100000000+0xffffffff)
		add("control", 1, 1)
		add("control", top, 1<<62)
	case 4:
		for _, a := range as[:9] {
			add("sum", a, -a, 0, 0)
			add("sum", 0, 0, a, -a)
			add("sum", a, 0, 0, -a)
			add("sum", 0, a, -a, 0)
			add("xor", a, a, a, a)
		}
		a, b, c := rnd(), rnd(), rnd()
		add("sum", a, b, c, -(a + b + c))
		add("sum", -(a + b + c), c, b, a)
		add("sum", a, -a, b, -b)
		add("sum", 1<<62, 1<<62, 1<<62, 1<<62) // bytes 0x40 at the top of four words
		add("sum", top, top, 0, 0)
		add("sum", 0, top, 0, top)
		add("sum", top, 1<<62, 1<<62, 0)
		add("sum", ones, ones, 2, 0) // the carry runs over two words
		add("sum", ones, ones, ones, 3)
		add("sum", 1, 0, 0, ones)
		add("sum", 0xc0<<56, 0x40<<56, 0, 0) // bytes 0xc0 and 0x40 at word tops
		add("sum", 0xc0<<56, 0xc0<<56, top, 0)
		add("xor", a, a, b, b)
		add("xor", a, b, a^b, 0)
		add("xor", a, b, c, a^b^c)
		add("and", a, ^a, ones, ones)
		add("and", 1, 2, 4, 8)
		add("and", top, 1<<62, 1<<61, 1<<60)
		add("product", 1<<16, 1<<16, 1<<16, 1<<16)
		add("product", 1<<32, 1, 1, 1<<32)
		for _, f := range []uint64{0x80, 0x40, 0xc0, 0x01, 0xff} {
			add("fill", f*lo01, f*lo01, f*lo01, f*lo01)
		}
		add("fill", 0x40<<56, 0x40<<56, 0x40<<56, 0x40<<56)
		add("half", 0x00000001ffffffff, 0x8000000080000000, 0xffffffff00000001, 0x4000000040000000+0x8000000000000000)
		add("and", 0, a, ^a, 0) // the middle two without a common bit, between zero words
		add("and", 0, 1, 2, 0)
		add("control", 1, 1, 1, 1)
		add("control", 0, 0, 0, 1)
		add("control", top, 0, 0, 0)
	case 8:
		z := func(pairs ...uint64) []uint64 { // (index, value) pairs into eight zero words
			w := make([]uint64, 8)
			for i := 0; i+1 < len(pairs); i += 2 {
				w[pairs[i]] = pairs[i+1]
			}
			return w
		}
		for _, a := range []uint64{1, top, 0xff, 1 << 32, rnd()} {
			add("sum", z(0, a, 7, -a)...)
			add("sum", z(3, a, 4, -a)...)
			add("sum", z(0, a, 1, -a)...)
			add("sum", z(6, -a, 7, a)...)
			add("xor", a, a, a, a, a, a, a, a)
		}
		a, b, c := rnd(), rnd(), rnd()
		add("sum", 1<<61, 1<<61, 1<<61, 1<<61, 1<<61, 1<<61, 1<<61, 1<<61) // bytes 0x20 at the top of eight words
		add("sum", a, -a, b, -b, c, -c, 1, ones)                           // four pairs in a row (= two four-word blocks)
		add("sum", a, b, c, -(a + b + c), -a, -b, -c, a+b+c)
		add("sum", ones, ones, ones, ones, ones, ones, ones, 7)
		add("sum", top, 0, 0, 0, 0, 0, 0, top)
		add("sum", a, b, c, a, b, c, 1, -(2*(a+b+c) + 1))
		add("xor", a, b, c, a, b, c, 5, 5)
		add("xor", a, b, a^b, 0, 0, c, c, 0)
		add("and", a, ^a, b, ^b, c, ^c, ones, ones)
		add("and", 1, 2, 4, 8, 16, 32, 64, 128)
		add("product", 1<<8, 1<<8, 1<<8, 1<<8, 1<<8, 1<<8, 1<<8, 1<<8)
		for _, f := range []uint64{0x80, 0x01, 0xff} {
			add("fill", f*lo01, f*lo01, f*lo01, f*lo01, f*lo01, f*lo01, f*lo01, f*lo01)
		}
		add("control", z(7, 1)...)
		add("control", z(0, top)...)
	}
	return out
}

func (b wordBlock) bytes() []byte {
	out := make([]byte, 8*len(b.w))
	for i, w := range b.w {
		binary.LittleEndian.PutUint64(out[8*i:], w)
	}
	return out
}

// emitWords: one L / T / Z case on the window w at address alignment al.
func emitWords(g *tr.G, op string, al int, w []byte, tags ...string) {
	off := 8 + al
	guard := []byte{0xa5, 0x00, 0xff}[(al+len(w))%3]
	g.Emit(op+" "+strconv.Itoa(off)+" "+strconv.Itoa(len(w))+" "+tr.Hex(memText(off, w, guard)), true, tags...)
}

// ragged: the bytes on the far side of the block (in front of it for TrailingZeroes, behind it for
// LeadingZeroes): none, five zero bytes, or eleven bytes of which the outermost is non-zero.
func ragged(kind int, front bool) []byte {
	switch kind {
	case 1:
		return make([]byte, 5)
	case 2:
		r := make([]byte, 11)
		if front {
			r[0] = 0x7f
		} else {
			r[10] = 0x7f
		}
		return r
	}
	return nil
}

func cat(parts ...[]byte) []byte {
	var out []byte
	for _, p := range parts {
		out = append(out, p...)
	}
	return out
}

func emitWordCoincidences(g *tr.G) {
	seed := int(g.Seed)
	own := tr.NewRand(uint64(g.Seed)*7919 + 5) // (a stream of its own: the later generators draw what they drew before this round)
	for _, B := range []int{2, 4, 8} {
		blocks := coincidences(B, own)
		BB := 8 * B
		for bi, blk := range blocks {
			body := blk.bytes()
			tag := "words-" + blk.name
			tags := []string{"word-coincidence", tag, "words-block-of-" + strconv.Itoa(B)}
			// (1) every distance z from the end (T) / from the front (L)
			for z := 0; z <= BB+8; z++ {
				for rk := 0; rk < 3; rk++ {
					if !g.Thorough() && blk.name == "control" && rk != (z+bi)%3 {
						continue
					}
					var als []int
					switch {
					case z%8 == 0 && (g.Thorough() || B < 8 || rk == (bi+z/8+seed)%3):
						als = []int{0, 1, 2, 3, 4, 5, 6, 7}
					case z%8 == 0:
						als = []int{(bi + z/8 + rk + seed) % 8, (bi + z/8 + rk + seed + 3) % 8}
					default:
						als = []int{(bi + z + rk + seed) % 8}
					}
					for _, al := range als {
						t := tags
						if z%BB == 0 {
							t = append(append([]string{}, tags...), "words-on-the-block-grid", tag+"-on-the-block-grid")
						} else if z%8 == 0 {
							t = append(append([]string{}, tags...), "words-on-the-word-grid")
						}
						emitWords(g, "T", al, cat(ragged(rk, true), body, make([]byte, z)), t...)
						emitWords(g, "L", al, cat(make([]byte, z), body, ragged(rk, false)), t...)
					}
				}
			}
			// (2) far from the end / the front: whole blocks of zeros in between
			var far []int
			for k := 2; k <= 16; k++ {
				if g.Thorough() || k <= 4 || (k+bi+seed)%4 == 0 {
					far = append(far, BB*k)
				}
			}
			for k := 7; k <= g.Scale(10, 12); k++ {
				if g.Thorough() || blk.name == "sum" || (k+bi+seed)%3 == 0 {
					far = append(far, 1<<k)
				}
			}
			for fi, z := range far {
				if blk.name == "control" || blk.name == "fill" {
					continue
				}
				al := (bi + fi + seed) % 8
				rk := (bi + fi) % 3
				t := append(append([]string{}, tags...), "words-far-from-the-end")
				emitWords(g, "T", al, cat(ragged(rk, true), body, make([]byte, z)), t...)
				emitWords(g, "L", (al+3)%8, cat(make([]byte, z), body, ragged(rk, false)), t...)
			}
			// (3) two blocks in a row, and a block behind / in front of a genuinely non-zero one
			other := blocks[(bi+7)%len(blocks)].bytes()
			solid := make([]byte, BB)
			for i := range solid {
				solid[i] = 0x11
			}
			for _, k := range []int{0, 1} {
				z := BB * k
				al := (bi + k + seed) % 8
				t := append(append([]string{}, tags...), "words-two-blocks")
				emitWords(g, "T", al, cat(ragged(bi%3, true), other, body, make([]byte, z)), t...)
				emitWords(g, "T", (al+1)%8, cat(solid, body, make([]byte, z)), t...)
				emitWords(g, "L", (al+2)%8, cat(make([]byte, z), body, other, ragged(bi%3, false)), t...)
				emitWords(g, "L", (al+5)%8, cat(make([]byte, z), body, solid), t...)
			}
			// (4) Zero: the block at the front, in the middle, at the end of a slice of 0xff; alone; in zeros
			ff := func(n int) []byte {
				b := make([]byte, n)
				for i := range b {
					b[i] = 0xff
				}
				return b
			}
			for li, w := range [][]byte{body, cat(body, ff(BB+3)), cat(ff(BB), body, ff(5)), cat(ff(3+bi%8), body), cat(body, other), cat(make([]byte, BB), body, make([]byte, BB+bi%8))} {
				for al := 0; al < 8; al++ {
					if !g.Thorough() && li > 0 && (al+li+bi+seed)%4 != 0 {
						continue
					}
					emitWords(g, "Z", al, w, append(append([]string{}, tags...), "words-zero")...)
				}
			}
		}
	}
}

// ---- CompareNatural: a digit run that straddles a boundary of 8-byte blocks

func emitBlockCompare(g *tr.G) {
	seed := int(g.Seed)
	// what follows the common part in a and in b: the run ends in one and goes on in the other,
	// goes on in both, ends in both
	tails := [][3]string{{"", "9", "90"}, {"x", "9x", "0x"}, {"x", "0x", "00x"}, {"", "0", "00"}, {"5", "56", "6"}, {"/", "0", ":"},
		{"a", "00a", "0a"}, {"1", "2", "10"}, {"9", "10", "09"}, {"-1", "1", "1-"}, {"é", "1é", "١"}, {"0000000x", "00000000x", "000000000x"}}
	digits := []string{"0001", "1234", "0000", "9999", "7", "000000", "10", "99"}
	fronts := []string{"img-", "a", "log.2024-", "é", "0", "12ab/"}
	for _, blocks := range []int{1, 2, 3, 4, 5, 8, 16, 32} {
		n := 8 * blocks
		for di, d := range digits {
			if len(d) > n {
				continue
			}
			for fi, fr := range fronts {
				// (the model is quadratic in the common length: 7 ms per comparison at 256 bytes)
				if blocks > 5 && !g.Thorough() && (di+fi+blocks+seed)%(3*blocks/4) != 0 {
					continue
				}
				// common part of exactly n bytes: the front repeated, cut, then the digits
				fill := strings.Repeat(fr, n/len(fr)+1)[:n-len(d)]
				if len(fill) > 0 && fill[len(fill)-1] >= 0xc0 { // do not end on a cut-off lead byte
					fill = fill[:len(fill)-1] + "a"
				}
				if fr == "0" && n > 18 { // a run of zeros of any length is inside the domain; other digits are not
					fill = strings.Repeat("0", len(fill))
				}
				p := fill + d
				for ti, t := range tails {
					if !g.Thorough() && blocks >= 2 && (ti+di+fi+blocks+seed)%3 != 0 { // (a C line costs 0.13 ms of model + spec time, a triple 0.8 ms)
						continue
					}
					a, b, c := p+t[0], p+t[1], p+t[2]
					tags := natTags(a, b, "block-boundary-in-a-digit-run")
					tags = append(tags, "block-boundary-"+strconv.Itoa(n))
					g.Emit("C "+tr.Hex(a)+" "+tr.Hex(b), true, tags...)
					g.Emit("C "+tr.Hex(b)+" "+tr.Hex(a), true, tags...)
					if (ti+di+fi)%2 == 0 {
						g.Emit("X "+tr.Hex(a)+" "+tr.Hex(b)+" "+tr.Hex(c), true, natTags3(a, b, c, "block-boundary-triples")...)
					}
					// one byte earlier / later: the boundary right in front of / behind the run's first digit
					if blocks <= 1 || g.Thorough() || (blocks == 2 && (ti+fi)%2 == 0) {
						g.Emit("C "+tr.Hex("z"+a)+" "+tr.Hex("z"+b), true, "block-boundary-shifted")
						g.Emit("C "+tr.Hex(b[1:])+" "+tr.Hex(a[1:]), true, "block-boundary-shifted")
					}
				}
			}
		}
	}
}

// ---- Trunc: a multi-byte rune across a multiple of 8, ASCII in front

func emitBlockTrunc(g *tr.G) {
	runes := []string{"é", "€", "\U0001f600", "\u0080", "￿", "\U0010ffff"}
	for _, blocks := range []int{1, 2, 3, 4, 8, 16, 32, 64} {
		n := 8 * blocks
		for ri, r := range runes {
			for j := 0; j <= len(r); j++ { // the rune starts j bytes in front of the boundary
				if n-j < 0 {
					continue
				}
				s := strings.Repeat("a", n-j) + r + "zz" + r
				for cut := n - 5; cut <= n+5; cut++ {
					if cut < 0 {
						continue
					}
					if blocks > 4 && !g.Thorough() && (cut+ri+j+int(g.Seed))%2 != 0 {
						continue
					}
					g.Emit("U "+strconv.Itoa(cut)+" "+tr.Hex(s), cut < len(s), "block-boundary-trunc")
				}
			}
		}
	}
}
