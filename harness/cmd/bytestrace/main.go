// Command bytestrace drives mbits.Zero/LeadingZeroes/TrailingZeroes and mstr.Trunc/CompareNatural
// of the working tree and records inputs and observables, one case per line:
//
//	Z <off> <n> <hexmem>     | <ret> <hexmem after>      Zero(mem[off:off+n]); the whole buffer, guard bytes included
//	L <off> <n> <hexmem>     | <ret>                      LeadingZeroes(mem[off:off+n])  (" MEMCHANGED" appended if it wrote)
//	T <off> <n> <hexmem>     | <ret>                      TrailingZeroes(mem[off:off+n])
//	U <n> <hex s>            | <hex result>               Trunc(s, n)
//	C <hex a> <hex b>        | <int>                      CompareNatural(a, b)
//	X <hex a> <hex b> <hex c> | <ab> <bc> <ac> <ba> <cb> <ca>  CompareNatural on a triple (order laws)
//	N <hex s>                | nil | empty | <hex>,<hex>,...   Lines(s)        (supplementary, outside C20)
//	P <hex s> <hex sep>      | nil | empty | <hex>,<hex>,...   Split(s, sep)   (supplementary, outside C20)
//
// A panic is recorded as "panic:<kind>".  The buffer handed to the mbits functions starts at an
// 8-byte-aligned address, so off mod 8 is the alignment of the slice.
//
// Every case runs under a watchdog: a call that does not return within it is recorded as "hang"
// (no model output and no clause of the property accepts that).  The abandoned goroutine keeps
// spinning, so after three hangs of one kind of case (or six in all) the remaining cases of that
// kind are not run and are recorded as "hang-skipped".
package main

import (
	"fmt"
	"math/big"
	"os"
	"runtime"
	"strconv"
	"strings"
	"time"
	"unsafe"

	"github.com/creachadair/mds/mbits"
	"github.com/creachadair/mds/mstr"
	"verif/harness/internal/tr"
)

// alignedBuf returns a byte slice of length n whose first byte is 8-byte aligned.
func alignedBuf(n int) []byte {
	w := make([]uint64, (n+7)/8+1)
	b := unsafe.Slice((*byte)(unsafe.Pointer(&w[0])), len(w)*8)
	return b[:n:n]
}

// tight (environment BYTES_TIGHT=1, used by the checkptr run): the slice handed to mbits is a
// fresh heap allocation of exactly (off mod 8) + n bytes with the slice at its end, so that an
// 8-byte access leaving the slice also leaves the allocation whenever that size is a malloc size
// class (8, 16, 24, 32, 48, 64, ...) -- which a binary built with -d=checkptr reports as a fatal
// "converted pointer straddles multiple allocations".  Every input is echoed to stderr first so
// that the culprit is the last line before the fatal error.
var tight = os.Getenv("BYTES_TIGHT") == "1"

func mbitsCase(op string, off, n int, mem string) string {
	buf := alignedBuf(len(mem))
	copy(buf, mem)
	if off < 0 || n < 0 || off+n > len(buf) {
		return "bad-case"
	}
	data := buf[off : off+n : off+n]
	if op == "z" || op == "l" || op == "t" {
		// round 7: the same call on a slice whose capacity is left open to the end of the buffer (a
		// window of a larger buffer, as a caller gets from buf[i:j]); what lies between len and cap
		// is not the function's to read
		data = buf[off : off+n]
		op = strings.ToUpper(op)
	}
	var tb []byte
	if tight && cap(data) == n {
		fmt.Fprintln(os.Stderr, "case", op, off, n, tr.Hex(mem))
		al := off % 8
		tb = make([]byte, al+n)
		for i := 0; i < al; i++ {
			tb[i] = 0xa5
		}
		copy(tb[al:], buf[off:off+n])
		data = tb[al : al+n : al+n]
	}
	var ret int
	p := tr.Catch(func() {
		switch op {
		case "Z":
			ret = mbits.Zero(data)
		case "L":
			ret = mbits.LeadingZeroes(data)
		case "T":
			ret = mbits.TrailingZeroes(data)
		}
	})
	if p != "" {
		return p
	}
	if tb != nil {
		copy(buf[off:off+n], data)
		for i := 0; i < off%8; i++ {
			if tb[i] != 0xa5 {
				buf[off-1] ^= 0xff // report a write in front of the slice as a changed guard byte
			}
		}
	}
	if op == "Z" {
		return strconv.Itoa(ret) + " " + tr.Hex(string(buf))
	}
	if string(buf) != mem {
		return strconv.Itoa(ret) + " MEMCHANGED"
	}
	return strconv.Itoa(ret)
}

// ---- watchdog

// The cases run on one long-lived worker goroutine; the generator waits for its answer and counts
// the ticks of a 500 ms ticker meanwhile (no per-case timer): five ticks without an answer -- 2 to
// 2.5 s; a case takes microseconds, the largest ones a fraction of a millisecond -- is a hang.
// The stuck worker is abandoned (it cannot be stopped) and a new one started.  Until the first
// hang everything runs on one processor (the hand-over to the worker is then a plain goroutine
// switch, 1 us per case instead of 2.5).
const watchdogTicks = 5

var (
	hangs    = map[string]int{}
	spinning int
	wdTick   = time.NewTicker(500 * time.Millisecond)
	wdReq    chan string
	wdResp   chan string
)

func worker(req <-chan string, resp chan<- string) {
	for in := range req {
		func() {
			defer func() {
				if r := recover(); r != nil {
					resp <- "panic:" + tr.PanicKind(r)
				}
			}()
			resp <- execRaw(in)
		}()
	}
}

// exec runs one case under the watchdog.
func exec(in string) string {
	kind := in
	if i := strings.IndexAny(in, " _"); i >= 0 {
		kind = in[:i]
	}
	if hangs[kind] >= 3 || spinning >= 6 {
		return "hang-skipped"
	}
	if wdReq == nil {
		wdReq, wdResp = make(chan string), make(chan string, 1)
		go worker(wdReq, wdResp)
	}
	wdReq <- in
	for ticks := 0; ; {
		select {
		case s := <-wdResp:
			return s
		case <-wdTick.C:
			if ticks++; ticks >= watchdogTicks {
				hangs[kind]++
				spinning++
				wdReq = nil                          // the next case gets a fresh worker
				runtime.GOMAXPROCS(runtime.NumCPU()) // ... and a processor of its own
				return "hang"
			}
		}
	}
}

func execRaw(in string) string {
	f := strings.Fields(strings.ReplaceAll(in, "_", " ")) // supporting runs print inputs with _ for blanks
	switch f[0] {
	case "Z", "L", "T", "z", "l", "t":
		off, _ := strconv.Atoi(f[1])
		n, _ := strconv.Atoi(f[2])
		return mbitsCase(f[0], off, n, tr.UnHex(f[3]))
	case "U":
		n, _ := strconv.Atoi(f[1])
		s := tr.UnHex(f[2])
		var r string
		if p := tr.Catch(func() { r = mstr.Trunc(s, n) }); p != "" {
			return p
		}
		return tr.Hex(r)
	case "C":
		var r int
		if p := tr.Catch(func() { r = mstr.CompareNatural(tr.UnHex(f[1]), tr.UnHex(f[2])) }); p != "" {
			return p
		}
		return strconv.Itoa(r)
	case "N", "P":
		var r []string
		if p := tr.Catch(func() {
			if f[0] == "N" {
				r = mstr.Lines(tr.UnHex(f[1]))
			} else {
				r = mstr.Split(tr.UnHex(f[1]), tr.UnHex(f[2]))
			}
		}); p != "" {
			return p
		}
		if r == nil {
			return "nil"
		}
		if len(r) == 0 {
			return "empty"
		}
		hs := make([]string, len(r))
		for i, x := range r {
			hs[i] = tr.Hex(x)
		}
		return strings.Join(hs, ",")
	case "X":
		a, b, c := tr.UnHex(f[1]), tr.UnHex(f[2]), tr.UnHex(f[3])
		var out []string
		if p := tr.Catch(func() {
			for _, pr := range [][2]string{{a, b}, {b, c}, {a, c}, {b, a}, {c, b}, {c, a}} {
				out = append(out, strconv.Itoa(mstr.CompareNatural(pr[0], pr[1])))
			}
		}); p != "" {
			return p
		}
		return strings.Join(out, " ")
	}
	return "?"
}

// ---- generators

var nzVals = []byte{0x01, 0x80, 0xff, 0x10, 0x7f}

// memFor lays out guard | window | guard: off bytes of guard (off in 8..15 gives all 8 alignments
// with at least 8 guard bytes in front), the window with the given zero/non-zero pattern, and at
// least 9 guard bytes behind.
func memFor(off int, pat []bool, guard byte, salt int) string {
	n := len(pat)
	total := off + n + 9 + (8-(off+n)%8)%8
	b := make([]byte, total)
	for i := range b {
		b[i] = guard
	}
	for i, nz := range pat {
		if nz {
			b[off+i] = nzVals[(i+salt)%len(nzVals)]
		} else {
			b[off+i] = 0
		}
	}
	return string(b)
}

func emitMbits(g *tr.G, pat []bool, tag string) {
	n := len(pat)
	any := false
	for _, p := range pat {
		any = any || p
	}
	for al := 0; al < 8; al++ {
		off := 8 + al
		for gi, guard := range []byte{0xa5, 0x00} {
			mem := tr.Hex(memFor(off, pat, guard, al+gi))
			args := " " + strconv.Itoa(off) + " " + strconv.Itoa(n) + " " + mem
			nt := n >= 8 || any
			tags := []string{tag, "align" + strconv.Itoa(al)}
			if n >= 8 && n%8 != 0 {
				tags = append(tags, "word+ragged")
			}
			g.Emit("L"+args, nt, tags...)
			g.Emit("T"+args, nt, tags...)
			if gi == 0 || n == 0 {
				g.Emit("Z"+args, nt, tags...)
			}
		}
	}
}

// emitBig: slices of thousands of bytes (hundreds of word-loop iterations) at three alignments,
// one guard value; the patterns put the only non-zero bytes at the places that decide the counts.
func emitBig(g *tr.G, n int) {
	pats := [][]int{{}, {0}, {n - 1}, {7}, {8}, {n - 9}, {n - 8}, {n / 2}, {n/2 - 1, n/2 + 8}, {0, n - 1}}
	for _, al := range []int{0, 1, 7} {
		off := 8 + al
		for pi, idx := range pats {
			p := make([]bool, n)
			for _, i := range idx {
				if i >= 0 && i < n {
					p[i] = true
				}
			}
			mem := tr.Hex(memFor(off, p, 0xa5, al+pi))
			args := " " + strconv.Itoa(off) + " " + strconv.Itoa(n) + " " + mem
			tags := []string{"big-slice", "align" + strconv.Itoa(al)}
			g.Emit("L"+args, true, tags...)
			g.Emit("T"+args, true, tags...)
			if pi < 3 {
				g.Emit("Z"+args, true, tags...)
			}
		}
	}
}

func allPatterns(n int, f func(p []bool)) {
	p := make([]bool, n)
	for m := 0; m < 1<<n; m++ {
		for i := range p {
			p[i] = m>>i&1 == 1
		}
		f(p)
	}
}

func allStrings(alpha []string, maxLen int, f func(s string, k int)) {
	var rec func(cur string, k int)
	rec = func(cur string, k int) {
		f(cur, k)
		if k == maxLen {
			return
		}
		for _, a := range alpha {
			rec(cur+a, k+1)
		}
	}
	rec("", 0)
}

var runeAlpha = []string{"a", "\x7f", "é", "\u0080", "߿", "€", "ࠀ", "￿", "\U0001F600", "\U00010000", "\U0010FFFF"}
var badAlpha = []string{"a", "\x80", "\xbf", "\xc0", "\xc2", "\xe0", "\xf0", "\xff"}
var natAlpha = []string{"0", "1", "9", "/", ":", "a"}

// leadWidth is the encoded width announced by a lead byte (0 for ASCII / continuation bytes).
func leadWidth(b byte) int {
	switch {
	case b >= 0xf0:
		return 4
	case b >= 0xe0:
		return 3
	case b >= 0xc0:
		return 2
	}
	return 0
}

func emitTrunc(g *tr.G, s string, valid bool, tag string) {
	for n := -1; n <= len(s)+1; n++ {
		tags := []string{tag}
		if n >= 0 && n < len(s) {
			if w := leadWidth(s[0]); w > 0 && n >= 1 && n <= w {
				tags = append(tags, "cut-in-or-after-FIRST-multibyte-rune") // the result must be empty or that rune
			}
			if s[n]&0xc0 == 0x80 {
				tags = append(tags, "cut-before-continuation-byte")
			} else if n > 0 && s[n-1] >= 0xc0 {
				tags = append(tags, "cut-right-after-lead-byte")
			} else if n > 0 && s[n-1]&0xc0 == 0x80 {
				tags = append(tags, "cut-after-complete-multibyte-rune")
			}
		}
		g.Emit("U "+strconv.Itoa(n)+" "+tr.Hex(s), len(s) > 0 && n >= 0 && n < len(s), tags...)
	}
	// n far beyond every length (1<<62 - 1: the largest the OCaml side reads as an int)
	g.Emit("U 4611686018427387903 "+tr.Hex(s), false, tag, "huge-n")
	_ = valid
}

// natTags names the states of CompareNatural a pair reaches.
func natTags(a, b string, tag string) []string {
	tags := []string{tag}
	if a != "" && b != "" && isDig(a[0]) != isDig(b[0]) {
		tags = append(tags, "mixed-first-token")
		nd := a[0]
		if isDig(nd) {
			nd = b[0]
		}
		if nd < '0' {
			tags = append(tags, "mixed-first-token-below-0")
		}
	}
	if a != b && stripZeros(a) == stripZeros(b) {
		tags = append(tags, "equal-up-to-leading-zeros")
	}
	if !runsFit(a) || !runsFit(b) {
		tags = append(tags, "run-beyond-MaxInt64")
	}
	return tags
}

func natTags3(a, b, c string, tag string) []string {
	tags := []string{tag}
	if !runsFit(a) || !runsFit(b) || !runsFit(c) {
		tags = append(tags, "triple-with-run-beyond-MaxInt64")
	}
	return tags
}

func isDig(c byte) bool { return c >= '0' && c <= '9' }

func eachRun(s string, f func(run string)) {
	for i := 0; i < len(s); {
		if !isDig(s[i]) {
			i++
			continue
		}
		j := i
		for j < len(s) && isDig(s[j]) {
			j++
		}
		f(s[i:j])
		i = j
	}
}

var maxInt64 = new(big.Int).SetUint64(1<<63 - 1)

func runsFit(s string) bool {
	ok := true
	eachRun(s, func(r string) {
		v, _ := new(big.Int).SetString(r, 10)
		if v.Cmp(maxInt64) > 0 {
			ok = false
		}
	})
	return ok
}

func stripZeros(s string) string {
	var sb strings.Builder
	for i := 0; i < len(s); {
		if !isDig(s[i]) {
			sb.WriteByte(s[i])
			i++
			continue
		}
		j := i
		for j < len(s) && isDig(s[j]) {
			j++
		}
		r := strings.TrimLeft(s[i:j], "0")
		if r == "" {
			r = "0"
		}
		sb.WriteString(r)
		i = j
	}
	return sb.String()
}

// boundaryRuns: decimal spellings around the limits of int64/uint64 and of 18/19/20 digits.
func boundaryRuns() []string {
	var out []string
	add := func(v *big.Int) {
		for d := int64(-2); d <= 2; d++ {
			w := new(big.Int).Add(v, big.NewInt(d))
			if w.Sign() >= 0 {
				out = append(out, w.String())
			}
		}
	}
	two := big.NewInt(2)
	ten := big.NewInt(10)
	add(new(big.Int).Exp(two, big.NewInt(63), nil))
	add(new(big.Int).Exp(two, big.NewInt(64), nil))
	add(new(big.Int).Add(new(big.Int).Exp(two, big.NewInt(64), nil), new(big.Int).Exp(two, big.NewInt(63), nil)))
	add(new(big.Int).Exp(two, big.NewInt(65), nil))
	add(new(big.Int).Exp(ten, big.NewInt(18), nil))
	add(new(big.Int).Exp(ten, big.NewInt(19), nil))
	out = append(out, "0", "1", "2", "9", "10")
	return out
}

func hasDigit(s string) bool { return strings.ContainsAny(s, "0123456789") }

func randNat(r *tr.Rand) string {
	var sb strings.Builder
	parts := 1 + r.Intn(5)
	for i := 0; i < parts; i++ {
		switch r.Intn(4) {
		case 0, 1: // a digit run, often with leading zeros, sometimes long
			for z := r.Intn(4); z > 0 && r.Bool(); z-- {
				sb.WriteByte('0')
			}
			k := 1 + r.Intn(6)
			if r.Chance(1, 8) {
				k = 15 + r.Intn(10) // around and beyond the 18/19-digit limits
			}
			for j := 0; j < k; j++ {
				sb.WriteByte(byte('0' + r.Intn(10)))
			}
		case 2:
			sb.WriteString(tr.Pick(r, []string{"a", "/", ":", "ab", "-", " ", "z", "\xff", "."}))
		case 3:
			sb.WriteString(tr.Pick(r, []string{"a", "x", "/", ":"}))
		}
	}
	return sb.String()
}

// mutate returns a string related to s: equal up to leading zeros, or off by one digit, ...
func mutateNat(r *tr.Rand, s string) string {
	b := []byte(s)
	switch r.Intn(5) {
	case 0: // insert a zero in front of some digit run
		for i := 0; i < len(b); i++ {
			if b[i] >= '0' && b[i] <= '9' && (i == 0 || b[i-1] < '0' || b[i-1] > '9') && r.Bool() {
				b = append(b[:i], append([]byte{'0'}, b[i:]...)...)
				break
			}
		}
	case 1: // change one byte
		if len(b) > 0 {
			i := r.Intn(len(b))
			b[i] = tr.Pick(r, []byte{'0', '1', '9', '/', ':', 'a', b[i]})
		}
	case 2: // truncate
		if len(b) > 0 {
			b = b[:r.Intn(len(b))]
		}
	case 3: // append
		b = append(b, tr.Pick(r, []byte{'0', '5', '9', '/', ':', 'a'}))
	}
	return string(b)
}

func main() {
	runtime.GOMAXPROCS(1)
	tr.Main("C20. mbits: every zero/non-zero pattern of every length 0..L (L=10 quick, 15 thorough) plus, for lengths up to 26 (40), all-zero, one and two non-zero bytes at every position; each at all 8 alignments inside a buffer with >= 8 guard bytes on both sides, guards 0xa5 and 0x00 (the whole buffer is compared after Zero). Scale: lengths 2^k-1, 2^k, 2^k+1 for k=5..13 and a few random ones up to 9000, at all 8 alignments, with the only non-zero bytes at the places that decide the counts (none, first, last, n-9, n-8, 7, 8, middle, random deep, both ends of a deep word) -- all 11 patterns up to 1100 bytes, 2-3 rotating ones above; Zero at every alignment up to 2100 bytes, at 2 of 8 alignments around 4096 and 1 of 8 around 8192 (quick; rotating with size and seed; thorough: all). Every non-zero byte value at every position of a 17-byte window. Trunc: every cut point n in -1..len+1 of every string of up to 3 (4) runes over an 11-rune alphabet of 1-4-byte encodings at the encoding-length boundaries, of every string of up to 4 (5) bytes over 8 valid/invalid byte classes, of random mixed strings, of every token of the wide alphabet (below) and every single byte value between neighbours of every width, of random strings of wide tokens; strings of 2^k-1..2^k+1 (+3) bytes, k=3..13, of one kind of rune (1-4 bytes, mixed) or of lead / continuation bytes only, cut at the start, middle and end; n = 2^62-1. CompareNatural: all ordered pairs of strings of length <= 3 (4) over {0 1 9 / : a}, all multisets of three strings of length <= 2 (the six comparisons of a triple are recorded and the order laws evaluated for every arrangement) and random triples of length <= 4, random longer strings with leading zeros and digit runs up to 25 digits paired with mutations of themselves; digit runs within 2 of 2^63, 2^64, 2^64+2^63, 2^65, 10^18, 10^19 bare, with leading zeros and embedded (all pairs, random triples), runs of 19-40 zeros. Wide alphabet: Unicode decimal digits outside ASCII (Nd; Arabic-Indic, Devanagari, Thai, full-width, mathematical, Brahmi, Adlam ...: 2-, 3- and 4-byte encodings), other numbers (No/Nl), Unicode spaces, non-ASCII letters, combining marks and joiners, 4-byte runes and the ends of the code space, invalid UTF-8 (stray continuation and lead bytes, overlong forms, surrogates, cut-off encodings of those digits) -- every token alone, before, after and inside ASCII digit runs and between letters (14 frames) against the same frame holding itself, its neighbour in the class, an ASCII digit, a zero, a letter, nothing, '/' and ':'; every byte value 0..255 in 8 frames; all ordered pairs of strings of up to 2 tokens and all multisets of three single tokens over 12 representatives, random triples of those; random strings of 1-6 tokens of all classes paired / tripled with mutations of themselves (same string, token exchanged within or across classes, ASCII digit for Unicode digit and back, leading zero of some script, token deleted / added / moved, one byte changed to any value, cut at any byte). Scale: strings agreeing on their first n bytes (one digit run, zeros, one run of letters, many short tokens, full-width digits, mixed runes), n around 2^k up to 2^11 (quick: fewer kinds per size above 300 bytes; thorough to 2^12), and strings of about 2^k bytes up to 2^13 differing within the first 30 bytes. Round 4: mbits on slices whose non-zero bytes are real text -- 52 tokens: well-formed 2-, 3- and 4-byte UTF-8 sequences, U+FFFD, a byte-order mark, surrogates, overlong forms incl. the overlong NUL c0 80, sequences beyond U+10FFFF, cut-off sequences, stray continuation bytes, ASCII -- at every position of windows up to 12 (20) bytes longer than the token, at the front / the back / both ends / the middle / followed or preceded by 1..9 zeros at all 8 alignments for 26 lengths up to 65, random pairs of tokens, whole lines of text, guards 0xa5, 0x00, 0x80, 0xbf, 0xc3; EVERY slice length 0..600 (all zero, text at the back, at the front, near both ends) and text at the ends and in the middle of slices of 2^k-1..2^k+1 bytes up to 8193; Trunc on every string length 0..600 cut around the end; CompareNatural on 15..19-digit numbers inside int64 that differ in the last digits only (2^49..2^62 and their neighbours, 2^53+1, powers of ten, runs of nines, random ones; v against v+1, +2, +5, +10, +64, +1024) bare, with leading zeros, embedded, and followed by suffixes that order the other way round; non-digit runs with equal FNV-1a-32 / Java hashes (liquid/costarring, Aa/BB, ...) alone and between digit runs; every length 0..600 of the common prefix (letters, zeros, digits, tokens, full-width digits; quick: every length to 128, every twelfth beyond) and runs of n against n+1 leading zeros. Round 5: mbits on word-level algebraic coincidences -- blocks of 2, 4 and 8 little-endian 64-bit words, each word non-zero, whose sum is 0 modulo 2^64 ((a, 2^64-a), (x, ^x+1), (1, ff..ff), two bytes 0x80 / four 0x40 / eight 0x20 at word tops, a carry over two words), whose xor is 0 (equal words, byte fills 0x01 0x40 0x80 0xc0 0xff), whose and is 0 (complementary words, single bits), whose product is 0 (2^32 twice, 2^63 and 2), the 32-bit halves summing to 0 -- in front of EVERY number 0..8B+8 of zero bytes at the end of the slice (TrailingZeroes) / behind as many at the front (LeadingZeroes), all 8 alignments when the block lies on the word grid, a ragged 0 / 5 / 11 bytes on the other side, far from the end (whole blocks of zeros, 2^k up to 1024, thorough 4096), two blocks in a row, next to a genuinely non-zero block; Zero on such blocks at the front, in the middle and at the end of a slice of 0xff; CompareNatural on strings that agree on a whole number of 8-byte blocks (8..40, 64, 128, 256 bytes) ending in 1..6 digits with the digit run going on behind the boundary in one string only, in both, in neither, both argument orders and triples; Trunc with a 2-, 3-, 4-byte rune across every such boundary behind ASCII, cut at every place within 5 bytes of it. Every call runs under a 2 s watchdog (recorded as hang). Supplementary, outside the text of C20 (correspondence only): Lines on all strings up to 5 (6) over {a, LF, CR, b}; Split on all strings up to 4 (6) over {a , b} with separators empty, [,], a, aa, ab, [a,], on rune strings, and Split(s, empty) on valid/invalid byte strings. A case is non-trivial when the slice has a word loop or a non-zero byte / the cut is inside the string / a digit occurs.",
		exec, func(g *tr.G) {
			// ---- mbits
			L := g.Scale(10, 15)
			for n := 0; n <= L; n++ {
				allPatterns(n, func(p []bool) { emitMbits(g, p, "exhaustive-pattern") })
			}
			for n := L + 1; n <= g.Scale(26, 40); n++ {
				p := make([]bool, n)
				emitMbits(g, p, "long-all-zero")
				for i := 0; i < n; i++ {
					p[i] = true
					emitMbits(g, p, "long-one-nonzero")
					if g.Thorough() || i%3 == n%3 {
						for j := i + 1; j < n; j++ {
							p[j] = true
							emitMbits(g, p, "long-two-nonzero")
							p[j] = false
						}
					}
					p[i] = false
				}
			}
			for i := 0; i < g.Scale(300, 20000); i++ {
				n := g.R.Intn(70)
				p := make([]bool, n)
				lead, trail := g.R.Intn(n+1), g.R.Intn(n+1)
				for j := range p {
					p[j] = j >= lead && j < n-trail && g.R.Chance(1, 3)
				}
				emitMbits(g, p, "random")
			}
			emitScaleMbits(g)
			emitTextSweepMbits(g)
			if g.Thorough() {
				for _, n := range []int{4095, 4096, 4097, 4103, 4104, 8195, 12288} {
					emitBig(g, n)
				}
			}
			if tight {
				return // the end-of-allocation run is about the mbits cases only (same inputs: they come first)
			}
			emitTextMbits(g) // (byte contents, not lengths: guarded layout only)
			emitWordCoincidences(g)
			emitOpenCap(g)
			// ---- Trunc
			allStrings(runeAlpha, g.Scale(3, 4), func(s string, k int) { emitTrunc(g, s, true, "runes") })
			allStrings(badAlpha, g.Scale(4, 5), func(s string, k int) { emitTrunc(g, s, false, "byte-classes") })
			for i := 0; i < g.Scale(300, 20000); i++ {
				var sb strings.Builder
				for k := g.R.Intn(12); k > 0; k-- {
					if g.R.Chance(1, 6) {
						sb.WriteString(tr.Pick(g.R, badAlpha))
					} else {
						sb.WriteString(tr.Pick(g.R, runeAlpha))
					}
				}
				emitTrunc(g, sb.String(), false, "random-mixed")
			}
			emitWideTrunc(g)
			emitScaleTrunc(g)
			emitSweepTrunc(g)
			emitBlockTrunc(g)
			// ---- supplementary (outside C20): Lines and Split
			allStrings([]string{"a", "\n", "\r", "b"}, g.Scale(5, 6), func(s string, k int) {
				g.Emit("N "+tr.Hex(s), strings.Contains(s, "\n"), "supp-lines")
			})
			seps := []string{"", ",", "a", "aa", "ab", "a,", "\xa9", "\xc3\xa9"}
			allStrings([]string{"a", ",", "b"}, g.Scale(4, 6), func(s string, k int) {
				for _, sep := range seps[:6] {
					g.Emit("P "+tr.Hex(s)+" "+tr.Hex(sep), s != "" && sep != "", "supp-split")
				}
			})
			allStrings(runeAlpha[:6], 2, func(s string, k int) {
				for _, sep := range seps {
					g.Emit("P "+tr.Hex(s)+" "+tr.Hex(sep), s != "", "supp-split-runes")
				}
			})
			allStrings(badAlpha, g.Scale(3, 4), func(s string, k int) {
				g.Emit("P "+tr.Hex(s)+" -", s != "", "supp-split-explode-invalid")
			})
			for i := 0; i < g.Scale(300, 5000); i++ {
				var sb strings.Builder
				for k := g.R.Intn(8); k > 0; k-- {
					if g.R.Chance(1, 4) {
						sb.WriteString(tr.Pick(g.R, badAlpha))
					} else {
						sb.WriteString(tr.Pick(g.R, runeAlpha))
					}
				}
				g.Emit("P "+tr.Hex(sb.String())+" -", true, "supp-split-explode-random")
			}
			// ---- CompareNatural
			var small []string
			allStrings(natAlpha, g.Scale(3, 4), func(s string, k int) { small = append(small, s) })
			for _, a := range small {
				for _, b := range small {
					g.Emit("C "+tr.Hex(a)+" "+tr.Hex(b), hasDigit(a) || hasDigit(b), natTags(a, b, "all-pairs")...)
				}
			}
			var tiny []string
			allStrings(natAlpha, 2, func(s string, k int) { tiny = append(tiny, s) })
			// every multiset {a, b, c}: the line records all six ordered comparisons and the order
			// laws are evaluated for every arrangement of the three, so nothing is lost against
			// enumerating the ordered triples
			for i := range tiny {
				for j := i; j < len(tiny); j++ {
					for k := j; k < len(tiny); k++ {
						a, b, c := tiny[i], tiny[j], tiny[k]
						g.Emit("X "+tr.Hex(a)+" "+tr.Hex(b)+" "+tr.Hex(c), hasDigit(a+b+c), "all-triples")
					}
				}
			}
			var mid []string
			allStrings(natAlpha, 4, func(s string, k int) { mid = append(mid, s) })
			for i := 0; i < g.Scale(7000, 400000); i++ {
				a, b, c := tr.Pick(g.R, mid), tr.Pick(g.R, mid), tr.Pick(g.R, mid)
				g.Emit("X "+tr.Hex(a)+" "+tr.Hex(b)+" "+tr.Hex(c), true, "random-triples")
			}
			for i := 0; i < g.Scale(3500, 200000); i++ {
				a := randNat(g.R)
				b := mutateNat(g.R, a)
				if g.R.Chance(1, 4) {
					b = randNat(g.R)
				}
				g.Emit("C "+tr.Hex(a)+" "+tr.Hex(b), true, natTags(a, b, "random-long")...)
				if i%4 == 0 {
					c := mutateNat(g.R, b)
					g.Emit("X "+tr.Hex(a)+" "+tr.Hex(b)+" "+tr.Hex(c), true, natTags3(a, b, c, "random-long-triples")...)
				}
			}
			// digit runs at the limits of int64 / uint64 / 18-20 digits, bare, with leading zeros
			// (a run of 40 zeros in front of a small number is inside the domain) and embedded
			br := boundaryRuns()
			var forms []string
			for _, r := range br {
				forms = append(forms, r, "00"+r, "a"+r, r+"/", "a"+r+"b7")
			}
			forms = append(forms, strings.Repeat("0", 40)+"12", strings.Repeat("0", 19), strings.Repeat("0", 25)+"9223372036854775807",
				strings.Repeat("0", 25)+"9223372036854775808", "a"+strings.Repeat("0", 30)+"b")
			for _, a := range br {
				for _, b := range br {
					g.Emit("C "+tr.Hex(a)+" "+tr.Hex(b), true, natTags(a, b, "int-boundary-pairs")...)
				}
			}
			// (the model's 64-bit wrap-around makes these the most expensive lines of the trace: about
			// 1 ms of model time per triple)
			// (round 4: 2000 -> 1500 in the quick tier; emitNumbers adds 2.8k pairs of 15..19-digit numbers)
			for i := 0; i < g.Scale(1500, 60000); i++ {
				a, b, c := tr.Pick(g.R, forms), tr.Pick(g.R, forms), tr.Pick(g.R, forms)
				g.Emit("C "+tr.Hex(a)+" "+tr.Hex(b), true, natTags(a, b, "int-boundary-forms")...)
				if g.Thorough() || i%2 == 0 {
					g.Emit("X "+tr.Hex(a)+" "+tr.Hex(b)+" "+tr.Hex(c), true, natTags3(a, b, c, "int-boundary-triples")...)
				}
			}
			emitWideCompare(g)
			emitScaleCompare(g)
			emitNumbers(g)
			emitCollisions(g)
			emitSweepCompare(g)
			emitBlockCompare(g)
		})
}
