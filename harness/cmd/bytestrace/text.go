package main

// Round-4 generators of bytestrace (ROUND4_GUIDE.md, classes 2 and 3):
//
//   - mbits on byte contents that are REAL TEXT: well-formed 2-, 3- and 4-byte UTF-8 sequences, the
//     replacement character, a byte-order mark, surrogates, overlong forms (including the overlong
//     NUL c0 80), sequences beyond U+10FFFF, cut-off sequences, stray continuation bytes, ASCII --
//     at the front, at the back (followed by 0..9 zero bytes), at every position of short windows
//     and in the middle of otherwise zero slices, at all 8 alignments; a rune-wise scan (bytes.IndexFunc,
//     LastIndexFunc, TrimFunc, ...) counts such bytes differently from a byte-wise one, while every
//     buffer built from ONE filler value looks the same to both;
//   - every length 0..600 of the mbits slice, of the string given to Trunc and of the common
//     prefix / digit run / run of leading zeros of the strings given to CompareNatural (an equality
//     on a length is met, not only the 2^k thresholds);
//   - CompareNatural on numbers of 15..19 digits that differ in the last digits only: around 2^53
//     (float64 stops being exact), 2^63, powers of ten, runs of nines, random ones; bare, with
//     leading zeros, embedded, and followed by suffixes that order the other way round;
//   - CompareNatural on non-digit runs with equal 32-bit hashes (FNV-1a, Java's 31-polynomial).

import (
	"math/big"
	"strconv"
	"strings"

	"verif/harness/internal/tr"
)

// textToks: what a buffer of text holds.  The first textCore entries are the ones run at every
// alignment and length.
var textToks = []string{
	"\xc3\xa9", "\xc2\x80", "\xdf\xbf", // 2 bytes: U+00E9, U+0080, U+07FF
	"\xe2\x82\xac", "\xe0\xa0\x80", "\xef\xbf\xbd", "\xed\x9f\xbf", // 3 bytes: euro, U+0800, U+FFFD, U+D7FF
	"\xf0\x9f\x98\x80", "\xf0\x90\x80\x80", "\xf4\x8f\xbf\xbf", // 4 bytes: U+1F600, U+10000, U+10FFFF
	"\xed\xa0\x80", "\xc0\x80", "\xe0\x80\x80", "\xf0\x80\x80\x80", // surrogate; overlong NUL in 2, 3, 4 bytes
	"\xc3", "\xe2\x82", "\xf0\x9f\x98", "\x80", "\xa9\xa9", // cut-off sequences, stray continuation bytes
	"\xc3\xa9\xc3\xa9", "a\xc3\xa9", "\xc3\xa9a", "a", // two runes, ASCII next to a rune, ASCII
	// ---- textCore ends here
	"\xee\x80\x80", "\xef\xbb\xbf", "\xef\xbf\xbf", "\xd9\xa0", "\xef\xbc\x91", // U+E000, BOM, U+FFFF, Arabic-Indic zero, full-width one
	"\xed\xbf\xbf", "\xc1\xbf", "\xe0\x9f\xbf", "\xf0\x8f\xbf\xbf", // surrogate, overlong forms of U+007F, U+07FF, U+FFFF
	"\xf4\x90\x80\x80", "\xf5\x80\x80\x80", "\xff", "\xfe\xff", // beyond U+10FFFF, bytes that never occur
	"\xf0\x9f", "\xbf", "\x80\x80\x80", "\xe2\x82\xac\x80", "\x80\xc3\xa9", "\xc3\xa9\x80", // more cut-off / stray forms
	"ab", "0", " ", "\n", "\x7f", "\x01", "\xc3\xa9\xe2\x82\xac\xf0\x9f\x98\x80", // ASCII; a 2-, 3- and 4-byte rune in a row
}

const textCore = 23

// memText lays out guard | window | guard like memFor, the window given byte by byte.
func memText(off int, window []byte, guard byte) string {
	n := len(window)
	total := off + n + 9 + (8-(off+n)%8)%8
	b := make([]byte, total)
	for i := range b {
		b[i] = guard
	}
	copy(b[off:], window)
	return string(b)
}

// at: tokens and their positions, written in this order (a later one overwrites an earlier one; a
// position outside the window is skipped)
type at []struct {
	pos int
	t   string
}

// window of n zero bytes with the tokens at the given positions
func textWindow(n int, a at) []byte {
	w := make([]byte, n)
	for _, x := range a {
		if x.pos >= 0 && x.pos+len(x.t) <= n {
			copy(w[x.pos:], x.t)
		}
	}
	return w
}

func emitText(g *tr.G, al int, w []byte, guard byte, zero bool, tags ...string) {
	off := 8 + al
	args := " " + strconv.Itoa(off) + " " + strconv.Itoa(len(w)) + " " + tr.Hex(memText(off, w, guard))
	g.Emit("L"+args, true, tags...)
	g.Emit("T"+args, true, tags...)
	if zero {
		g.Emit("Z"+args, true, tags...)
	}
}

func emitTextMbits(g *tr.G) {
	seed := int(g.Seed)
	// (1) every token at EVERY position of every window of up to 12 bytes longer than itself (quick;
	// thorough: 20), one alignment per case (rotating); Zero on the front and back placements
	maxExtra := g.Scale(12, 20)
	for ti, t := range textToks {
		for n := len(t); n <= len(t)+maxExtra; n++ {
			for pos := 0; pos+len(t) <= n; pos++ {
				al := (ti + n + pos + seed) % 8
				guard := []byte{0xa5, 0x00, 0xbf}[(ti+pos)%3] // a continuation byte as the guard: a rune-wise scan must not look at it
				emitText(g, al, textWindow(n, at{{pos, t}}), guard, pos == 0 || pos+len(t) == n, "text", "text-every-position")
			}
		}
	}
	// (2) the core tokens at the front, at the back, followed by 1..9 zeros and in the middle, at all 8
	// alignments, for the lengths around the word size and its multiples
	lens := []int{0, 1, 2, 3, 4, 5, 6, 7, 8, 9, 10, 11, 12, 13, 15, 16, 17, 23, 24, 25, 31, 32, 33, 63, 64, 65}
	for ti, t := range textToks[:textCore] {
		for _, n := range lens {
			if n < len(t) {
				continue
			}
			for al := 0; al < 8; al++ {
				if !g.Thorough() && n > 17 && (al+ti+n+seed)%2 != 0 { // quick: half of the alignments above 17 bytes
					continue
				}
				emitText(g, al, textWindow(n, at{{0, t}}), 0xa5, false, "text", "text-front", "text-align"+strconv.Itoa(al))
				emitText(g, al, textWindow(n, at{{n - len(t), t}}), 0xa5, al == ti%8, "text", "text-back", "text-align"+strconv.Itoa(al))
				if n >= 2*len(t)+2 {
					emitText(g, al, textWindow(n, at{{0, t}, {n - len(t), t}}), 0x80, false, "text", "text-both-ends")
					emitText(g, al, textWindow(n, at{{(n - len(t)) / 2, t}}), 0xa5, false, "text", "text-middle")
				}
				if k := 1 + (al+ti+n)%9; n >= len(t)+k { // 1..9 zero bytes behind / in front of the text
					emitText(g, al, textWindow(n, at{{n - len(t) - k, t}}), 0xa5, false, "text", "text-back-then-zeros")
					emitText(g, al, textWindow(n, at{{k, t}}), 0xa5, false, "text", "text-zeros-then-front")
				}
			}
		}
	}
	// (3) two different tokens: the last non-zero bytes are the second, the first non-zero bytes the first
	for i := 0; i < g.Scale(1500, 30000); i++ {
		a, b := tr.Pick(g.R, textToks), tr.Pick(g.R, textToks)
		lead, gap, trail := g.R.Intn(12), g.R.Intn(12), g.R.Intn(12)
		n := lead + len(a) + gap + len(b) + trail
		emitText(g, g.R.Intn(8), textWindow(n, at{{lead, a}, {lead + len(a) + gap, b}}), tr.Pick(g.R, []byte{0xa5, 0x00, 0x80, 0xc3}), i%4 == 0, "text", "text-random-two-tokens")
	}
	// (4) a whole line of text (no zero byte inside) with zeros around
	lines := []string{"caf\xc3\xa9 \xe2\x82\xac 5 \xf0\x9f\x98\x80", "na\xc3\xafve r\xc3\xa9sum\xc3\xa9", "\xe4\xb8\xad\xe6\x96\x87\xe5\xad\x97", "plain ascii text", "\xef\xbb\xbfbom first", "bad \xc3 tail \xe2\x82"}
	for li, s := range lines {
		for k := 0; k <= 9; k++ {
			for al := 0; al < 8; al++ {
				if (al+k+li+seed)%4 != 0 && !g.Thorough() {
					continue
				}
				emitText(g, al, textWindow(k+len(s)+(9-k), at{{k, s}}), 0xa5, k == 0, "text", "text-line")
				emitText(g, al, textWindow(k+len(s), at{{k, s}}), 0x00, false, "text", "text-line")
			}
		}
	}
}

// emitTextSweepMbits: the part of the text streams that also runs in the end-of-allocation
// (checkptr) layout: every length, and the big slices.
func emitTextSweepMbits(g *tr.G) {
	seed := int(g.Seed)
	// (5) EVERY length 0..600: all zero, a token at the back, a token at the front (rotating token
	// and alignment; the thorough tier runs two alignments and Zero everywhere)
	for n := 0; n <= 600; n++ {
		t := textToks[(n+seed)%textCore]
		als := []int{(n + seed) % 8}
		if g.Thorough() {
			als = append(als, (n+seed+3)%8)
		}
		for _, al := range als {
			tags := []string{"text", "length-sweep-0..600"}
			emitText(g, al, make([]byte, n), 0xa5, g.Thorough() || n%2 == 0, tags...)
			if n >= len(t) {
				emitText(g, al, textWindow(n, at{{n - len(t), t}}), 0xa5, g.Thorough() || n%2 == 1, tags...)
				emitText(g, al, textWindow(n, at{{0, t}}), 0x00, false, tags...)
			}
			if k := n % 17; n >= len(t)+k+1 {
				emitText(g, al, textWindow(n, at{{n - len(t) - k, t}, {k, t}}), 0xa5, false, tags...)
			}
		}
	}
	// (6) text at the ends and in the middle of big slices (the model is quadratic: few cases)
	for si, n := range scaleSizes(g, 7) {
		if n > 4200 && !g.Thorough() && (si+seed)%3 != 0 {
			continue
		}
		t := textToks[(si+seed)%textCore]
		al := (si + seed) % 8
		tags := []string{"text", "text-big-slice"}
		emitText(g, al, textWindow(n, at{{n - len(t), t}}), 0xa5, false, tags...)
		emitText(g, (al+5)%8, textWindow(n, at{{n - len(t) - 1 - si%9, t}, {1 + si%7, t}}), 0xa5, false, tags...)
		if n <= 1100 || g.Thorough() {
			emitText(g, (al+3)%8, textWindow(n, at{{n/2 - 2, t}}), 0x00, n <= 1100, tags...)
		}
	}
}

// ---- Trunc: every string length 0..600

func emitSweepTrunc(g *tr.G) {
	kinds := []string{"letters-2byte", "mixed-runes", "spaces", "fullwidth", "letters", "leads", "continuation"}
	for n := 0; n <= 600; n++ {
		kind := kinds[(n+int(g.Seed))%len(kinds)]
		if kind == "continuation" && n > 300 {
			kind = "mixed-runes"
		}
		s := body(kind, n)
		for _, cut := range []int{n - 4, n - 3, n - 2, n - 1, n, n + 1, n / 2} {
			if cut < 0 {
				continue
			}
			g.Emit("U "+strconv.Itoa(cut)+" "+tr.Hex(s), cut < len(s), "length-sweep-0..600", "sweep-trunc-"+kind)
		}
	}
}

// ---- CompareNatural

// lastDigitNumbers: numbers of 15..19 digits that fit an int64, with neighbours that differ in
// the last digits only.
func lastDigitNumbers(g *tr.G) [][]string {
	var bases []*big.Int
	add := func(s string) {
		v, ok := new(big.Int).SetString(s, 10)
		if !ok {
			panic("bad number " + s)
		}
		bases = append(bases, v)
	}
	pow := func(b, e int64) *big.Int { return new(big.Int).Exp(big.NewInt(b), big.NewInt(e), nil) }
	for _, e := range []int64{53, 54, 62, 56, 49, 50, 52, 55, 57, 59, 60, 61} { // 2^e: from 15 digits on; float64 is exact below 2^53 (the first four groups get every frame)
		bases = append(bases, pow(2, e))
		bases = append(bases, new(big.Int).Add(pow(2, e), big.NewInt(1)))
		bases = append(bases, new(big.Int).Sub(pow(2, e), big.NewInt(1)))
	}
	for _, e := range []int64{14, 15, 16, 17, 18} { // 10^e and the runs of nines below
		bases = append(bases, pow(10, e), new(big.Int).Sub(pow(10, e+1), big.NewInt(1)), new(big.Int).Add(pow(10, e), big.NewInt(7)))
	}
	add("9007199254740993")    // 2^53 + 1: the first integer a float64 cannot hold
	add("9007199254740995")    // rounds up
	add("9223372036854775800") // a few below MaxInt64 (the +1, +2, +5 neighbours still fit)
	add("9223372036854775000")
	add("1234567890123456789")
	add("4611686018427387905")
	add("1152921504606846977")
	add("72057594037927937") // 2^56 + 1
	add("123456789012345")   // 15 digits
	add("999999999999998")
	fixedBases := len(bases)
	for i := 0; i < g.Scale(60, 400); i++ { // random 15..19-digit numbers below 2^63 - 100
		d := 15 + g.R.Intn(5)
		var sb strings.Builder
		sb.WriteByte(byte('1' + g.R.Intn(9)))
		if d == 19 {
			sb.Reset()
			sb.WriteByte(byte('1' + g.R.Intn(8))) // 1..8 followed by 18 digits: below 9*10^18 < 2^63
		}
		for j := 1; j < d; j++ {
			sb.WriteByte(byte('0' + g.R.Intn(10)))
		}
		add(sb.String())
	}
	maxOK := new(big.Int).Sub(pow(2, 63), big.NewInt(1))
	var out [][]string
	for bi, v := range bases {
		grp := []string{}
		deltas := []int64{0, 1, 2, 10, 64, 1024}
		if bi >= fixedBases && !g.Thorough() {
			deltas = []int64{0, 1, 5}
		}
		for _, d := range deltas {
			w := new(big.Int).Add(v, big.NewInt(d))
			if w.Sign() > 0 && w.Cmp(maxOK) <= 0 {
				grp = append(grp, w.String())
			}
		}
		if len(grp) >= 2 && grp[0] == v.String() { // (10^19 - 1 does not fit)
			out = append(out, grp)
		}
	}
	return out
}

// frames for a pair of numbers x < y: the same text around both, and suffixes that order the other
// way round (if the numbers were taken as equal the suffix would decide, wrongly)
var numFrames = [][2]string{{"X", "X"}, {"00X", "X"}, {"aX", "aX"}, {"log-X.txt", "log-X.txt"}, {"Xb", "Xa"}, {"X/9", "X/1"}, {"v1.X-2", "v1.X-1"}, {"X", "0X"}, {"X 9", "X 10"}}

func emitNumbers(g *tr.G) {
	for gi, grp := range lastDigitNumbers(g) {
		x := grp[0]
		for yi, y := range grp[1:] {
			for fi, f := range numFrames {
				if !g.Thorough() && gi >= 12 && (fi+yi+gi)%3 != 0 { // quick: every frame around 2^53, 2^54, 2^62, 2^56; a third of the frames for the rest
					continue
				}
				a, b := strings.Replace(f[0], "X", x, 1), strings.Replace(f[1], "X", y, 1)
				tags := natTags(a, b, "last-digits")
				if len(x) >= 16 {
					tags = append(tags, "numbers>=2^53-differing-in-last-digits")
				}
				g.Emit("C "+tr.Hex(a)+" "+tr.Hex(b), true, tags...)
				if (fi+yi)%2 == 0 {
					g.Emit("C "+tr.Hex(b)+" "+tr.Hex(a), true, tags...)
				}
			}
		}
		if len(grp) >= 3 {
			g.Emit("X "+tr.Hex(grp[0])+" "+tr.Hex(grp[1])+" "+tr.Hex(grp[2]), true, "last-digits-triples")
			g.Emit("X "+tr.Hex("a"+grp[2]+"z")+" "+tr.Hex("a"+grp[0]+"z")+" "+tr.Hex("a0"+grp[1]+"z"), true, "last-digits-triples")
		}
	}
}

// hashCollisions: non-digit runs with equal 32-bit hashes (FNV-1a-32; Java's s[0]*31^(n-1)+...).
var hashCollisions = [][]string{{"liquid", "costarring"}, {"declinate", "macallums"}, {"altarage", "zinke"}, {"\tx[462789] = y", "\tx[679192] = y"},
	{"Aa", "BB"}, {"AaAa", "BBBB", "AaBB", "BBAa"}, {"AaAaAa", "BBBBBB", "AaBBAa"}}

func emitCollisions(g *tr.G) {
	for _, grp := range hashCollisions {
		for i, x := range grp {
			for j, y := range grp {
				if i == j {
					continue
				}
				for _, f := range []string{"X", "X1", "1X", "1X2", "X01", "aX", "Xz", "7X7X"} {
					a, b := strings.ReplaceAll(f, "X", x), strings.ReplaceAll(f, "X", y)
					g.Emit("C "+tr.Hex(a)+" "+tr.Hex(b), true, natTags(a, b, "hash-collisions")...)
				}
				g.Emit("X "+tr.Hex(x)+" "+tr.Hex(y)+" "+tr.Hex(x+"0"), true, "hash-collisions-triples")
				g.Emit("X "+tr.Hex("1"+x+"2")+" "+tr.Hex("1"+y+"2")+" "+tr.Hex("01"+y+"10"), true, "hash-collisions-triples")
			}
		}
	}
}

// emitSweepCompare: EVERY length of the common prefix (a run of letters, of zeros, of other
// digits, of short tokens) up to 600 -- the model costs about 110 ns x n^2 per comparison, so the
// quick tier runs every length to 128 and every twelfth beyond (rotating with the seed).
func emitSweepCompare(g *tr.G) {
	kinds := []string{"letters", "zeros", "digits", "tokens", "fullwidth"}
	tails := [][2]string{{"1", "2"}, {"9", "10"}, {"a", "b"}, {"", "0"}, {"a1", "a01"}, {"/", ":"}}
	for n := 0; n <= 600; n++ {
		if !g.Thorough() && n > 128 && (n+int(g.Seed))%12 != 0 {
			continue
		}
		kind := kinds[(n+int(g.Seed))%len(kinds)]
		if kind == "digits" && n > 18 { // a run of more than 18 other digits leaves the domain: zeros in front of one
			kind = "zeros"
		}
		t := tails[(n/len(kinds)+int(g.Seed))%len(tails)]
		p := body(kind, n)
		tag := "length-sweep-0..600"
		g.Emit("C "+tr.Hex(p+t[0])+" "+tr.Hex(p+t[1]), true, natTags(p+t[0], p+t[1], tag)...)
		if n <= 128 || (g.Thorough() && n <= 300) {
			g.Emit("C "+tr.Hex("x"+p+t[1])+" "+tr.Hex("x"+p+t[0]), true, natTags("x"+p+t[1], "x"+p+t[0], tag)...)
			// runs of n and n-1 leading zeros in front of the same number: equal up to leading zeros
			z := strings.Repeat("0", n)
			g.Emit("C "+tr.Hex("a"+z+"7b")+" "+tr.Hex("a0"+z+"7b"), true, natTags("a"+z+"7b", "a0"+z+"7b", tag)...)
		}
	}
}
