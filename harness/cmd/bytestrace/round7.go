package main

// Round 7: slices with spare capacity.  Until now every slice handed to mbits had its capacity
// clipped to its length (buf[off:off+n:off+n]), so that behaviour depending on cap(data) -- a
// ragged tail read with one 8-byte load "because the backing array has room", a head read from
// the word in front -- could not show.  The ops z, l, t make the same calls as Z, L, T on
// buf[off:off+n] (capacity open to the end of the buffer).  The generator puts behind (and in
// front of) the slice every mixture that matters to a word-wise reader: g zero bytes and then a
// non-zero byte, for every gap g = 0..9, every alignment, every slice length 0..40 and a few long
// ones, with the slice itself all zero, zero only in its ragged tail / head, or non-zero at one
// place.  What lies outside the slice must influence neither the counts nor be written.

import (
	"strconv"

	"verif/harness/internal/tr"
)

func emitOpenCap(g *tr.G) {
	lens := []int{}
	for n := 0; n <= g.Scale(40, 72); n++ {
		lens = append(lens, n)
	}
	lens = append(lens, 63, 64, 65, 127, 129, 255, 257, 1023, 1025)
	for _, n := range lens {
		for al := 0; al < 8; al++ {
			off := 8 + al
			for gap := 0; gap <= 9; gap++ {
				// slice contents: 0 all zero; 1 last byte non-zero; 2 first byte non-zero;
				// 3 non-zero just in front of the ragged tail; 4 non-zero just behind the ragged head
				for kind := 0; kind < 5; kind++ {
					if n == 0 && kind > 0 {
						continue
					}
					if n > 72 && (gap > 4 || (al != 0 && al != 3 && al != 7)) {
						continue
					}
					total := off + n + 24
					b := make([]byte, total)
					// in front of the slice: gap zero bytes, then non-zero further out
					for i := 0; i < off-gap; i++ {
						b[i] = nzVals[(i+al)%len(nzVals)]
					}
					// behind the slice: gap zero bytes, then non-zero
					for i := off + n + gap; i < total; i++ {
						b[i] = nzVals[(i+gap)%len(nzVals)]
					}
					switch kind {
					case 1:
						b[off+n-1] = 0x5a
					case 2:
						b[off] = 0x5a
					case 3:
						if k := n - n%8 - 1; k >= 0 {
							b[off+k] = 0x5a
						}
					case 4:
						if k := (8 - off%8) % 8; k < n {
							b[off+k] = 0x5a
						}
					}
					args := " " + strconv.Itoa(off) + " " + strconv.Itoa(n) + " " + tr.Hex(string(b))
					tags := []string{"open-capacity", "align" + strconv.Itoa(al), "gap" + strconv.Itoa(gap)}
					g.Emit("l"+args, true, tags...)
					g.Emit("t"+args, true, tags...)
					if gap == 0 || gap == 1 || gap == 8 {
						g.Emit("z"+args, true, tags...)
					}
				}
			}
		}
	}
}
