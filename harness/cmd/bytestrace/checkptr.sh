#!/usr/bin/env bash
# Supporting run for C20 (props.d/bytes.json "extra"): build bytestrace with the compiler's
# pointer-conversion instrumentation (-gcflags=all=-d=checkptr) and run the mbits cases with the
# slice placed at the very end of a heap allocation (BYTES_TIGHT=1).  A word access that leaves the
# slice then leaves the allocation and the runtime aborts with "checkptr: converted pointer
# straddles multiple allocations".  exit 0 = clean (or SKIPPED: the toolchain cannot instrument),
# 1 = violation (FAIL line), 2 = could not run.  Runs in every tier.
# args: <prop> <tier> <seed>
set -u
PROP="${1:-C20}"; TIER="${2:-quick}"; SEED="${3:-1}"
ROOT="$(cd "$(dirname "$0")/../../.." && pwd)"
REPO="${VERIF_REPO:-/repo}"
export GOFLAGS=-mod=mod GOPROXY=off GOSUMDB=off GOTOOLCHAIN=local
W="$ROOT/work/$PROP"; mkdir -p "$W" "$ROOT/work/bin"
MOD="$W/checkptr.mod"
sed "s|=> /repo|=> $REPO|" "$ROOT/harness/go.mod" > "$MOD"
[ -f "$REPO/go.sum" ] && cp "$REPO/go.sum" "$W/checkptr.sum"
EXE="$ROOT/work/bin/bytestrace_checkptr"
if ! ( cd "$ROOT/harness" && timeout 600 go build -modfile "$MOD" -tags verif -gcflags=all=-d=checkptr -o "$EXE" ./cmd/bytestrace ) > "$W/checkptr.build.log" 2>&1; then
  # Is it the instrumentation this toolchain/platform does not offer, or the harness itself?
  if ( cd "$ROOT/harness" && timeout 600 go build -modfile "$MOD" -tags verif -o "$EXE.plain" ./cmd/bytestrace ) > "$W/checkptr.plain.log" 2>&1; then
    rm -f "$EXE.plain"
    echo "SKIPPED: this Go toolchain cannot build with -gcflags=all=-d=checkptr ($(tail -1 "$W/checkptr.build.log" | cut -c1-160)); the guard-byte runs of the main trace still apply"
    echo "EXTRA-JSON {\"checkptr_cases\": 0, \"skipped\": true}"
    exit 0
  fi
  echo "checkptr build failed (the harness does not build without the flag either):"; tail -5 "$W/checkptr.build.log"; exit 2
fi
BYTES_TIGHT=1 timeout 900 "$EXE" -prop "$PROP" -tier "$TIER" -seed "$SEED" -out "$W/checkptr.trace" > "$W/checkptr.out" 2> "$W/checkptr.err"
rc=$?
cases=$(grep -c '^case ' "$W/checkptr.err" 2>/dev/null || echo 0)
if [ $rc -ne 0 ]; then
  last=$(grep '^case ' "$W/checkptr.err" | tail -1 | sed 's/^case //; s/ /_/g')
  why=$(grep -m1 -E 'fatal error|panic' "$W/checkptr.err" | tr ' ' '_')
  echo "FAIL input=${last:-unknown} reason=${why:-harness_exit_$rc}"
  echo "EXTRA-JSON {\"checkptr_cases\": $cases, \"rc\": $rc}"
  exit 1
fi
# the tight layout must not change any observable: compare, case by case, with the guarded-layout
# trace of this run (same generator, same seed).  If the two generators did not produce the same
# inputs (the harness source changed between the two builds) the layouts are not comparable.
if [ -f "$W/trace.txt" ]; then
  verdict=$(paste <(grep -E '^[ZLT] ' "$W/trace.txt") <(grep -E '^[ZLT] ' "$W/checkptr.trace") | awk -F'\t' '
    { i1 = index($1, " | "); i2 = index($2, " | ");
      in1 = substr($1, 1, i1 - 1); in2 = substr($2, 1, i2 - 1);
      if ($2 == "") exit   # the guarded trace goes on (round 4: the text streams run in the guarded layout only)
      if (in1 != in2) { print "INCOMPARABLE"; exit }
      if ($1 != $2) { gsub(/ /, "_", in1); print "DIFF " in1; exit } }')
  case "$verdict" in
    DIFF*)
      echo "FAIL input=${verdict#DIFF } reason=result_differs_between_guarded_and_end-of-allocation_layout"
      echo "EXTRA-JSON {\"checkptr_cases\": $cases, \"rc\": 0}"
      exit 1 ;;
    INCOMPARABLE)
      echo "note: guarded and end-of-allocation traces were generated from different inputs; layouts not compared" ;;
  esac
fi
echo "checkptr run clean: $cases mbits cases at the end of their allocation, no pointer-conversion fault"
echo "EXTRA-JSON {\"checkptr_cases\": $cases, \"rc\": 0}"
exit 0
