#!/usr/bin/env bash
# Supporting run for C20 (props.d/bytes.json "extra"): build bytestrace with the compiler's
# pointer-conversion instrumentation (-gcflags=all=-d=checkptr) and run the mbits cases with the
# slice placed at the very end of a heap allocation (BYTES_TIGHT=1).  A word access that leaves the
# slice then leaves the allocation and the runtime aborts with "checkptr: converted pointer
# straddles multiple allocations".  exit 0 = clean, 1 = violation (FAIL line), 2 = could not run.
# args: <prop> <tier> <seed>
set -u
PROP="${1:-C20}"; TIER="${2:-quick}"; SEED="${3:-1}"
ROOT="$(cd "$(dirname "$0")/../../.." && pwd)"
REPO="${VERIF_REPO:-/repo}"
export GOFLAGS=-mod=mod GOPROXY=off GOSUMDB=off GOTOOLCHAIN=local
W="$ROOT/work/$PROP"; mkdir -p "$W" "$ROOT/work/bin"
MOD="$W/checkptr.mod"
sed "s|=> /repo|=> $REPO|" "$ROOT/harness/go.mod" > "$MOD"
[ -f "$REPO/go.sum" ] && cp "$REPO/go.sum" "$W/checkptr.sum"
EXE="$ROOT/work/bin/bytestrace_checkptr"
( cd "$ROOT/harness" && timeout 600 go build -modfile "$MOD" -tags verif -gcflags=all=-d=checkptr -o "$EXE" ./cmd/bytestrace ) > "$W/checkptr.build.log" 2>&1 \
  || { echo "checkptr build failed:"; tail -5 "$W/checkptr.build.log"; exit 2; }
BYTES_TIGHT=1 timeout 900 "$EXE" -prop "$PROP" -tier "$TIER" -seed "$SEED" -out "$W/checkptr.trace" > "$W/checkptr.out" 2> "$W/checkptr.err"
rc=$?
cases=$(grep -c '^case ' "$W/checkptr.err" 2>/dev/null || echo 0)
if [ $rc -ne 0 ]; then
  last=$(grep '^case ' "$W/checkptr.err" | tail -1 | sed 's/^case //; s/ /_/g')
  why=$(grep -m1 -E 'fatal error|panic' "$W/checkptr.err" | tr ' ' '_')
  echo "FAIL input=${last:-unknown} reason=${why:-harness_exit_$rc}"
  echo "EXTRA-JSON {\"checkptr_cases\": $cases, \"rc\": $rc}"
  exit 1
fi
# the tight layout must not change any observable: compare with the guarded-layout trace if present
if [ -f "$W/trace.txt" ] && ! cmp -s <(grep -E '^[ZLT] ' "$W/trace.txt") <(grep -E '^[ZLT] ' "$W/checkptr.trace"); then
  d=$(diff <(grep -E '^[ZLT] ' "$W/trace.txt") <(grep -E '^[ZLT] ' "$W/checkptr.trace") | grep -m1 '^>' | cut -c3- | cut -d'|' -f1 | sed 's/ *$//; s/ /_/g')
  echo "FAIL input=${d:-unknown} reason=result_differs_between_guarded_and_end-of-allocation_layout"
  echo "EXTRA-JSON {\"checkptr_cases\": $cases, \"rc\": 0}"
  exit 1
fi
echo "checkptr run clean: $cases mbits cases at the end of their allocation, no pointer-conversion fault"
echo "EXTRA-JSON {\"checkptr_cases\": $cases, \"rc\": 0}"
exit 0
