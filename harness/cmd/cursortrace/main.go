// Command cursortrace drives stree.Cursor of the working tree.  One case per line (the B lines for
// trees of hundreds to thousands of keys are described in scale.go):
//
//	W <cmp> <build> <shape> <ops>  |  t:<inorder>;<item>;<item>...
//
// cmp    n natural order, r reversed, m<k> keys compared modulo k  (results -1/0/+1);
//
//	a a-b, t 3*(a-b), h (a-b)<<32, A b-a, D 7*(b-a), M<k> (a mod k)-(b mod k), R<k> the same
//	reversed, x MinInt/0/MaxInt, X the same reversed  (arbitrary and extreme magnitudes);
//	q<base> the comparator <base> that also reads its tree while cursor operations run (round 5)
//
// build  P            the keys of <shape> are added in preorder to a β=1000 tree (public API only;
//
//	             reaches every BST shape)
//	H<β>/<k_k_k>/<o_o_o>  stree.New(β, cmp, keys...) then the history o: a<k> Add, p<k> Replace,
//	             r<k> Remove, c Clear
//
// shape  the tree the generator saw after <build>, preorder, "." = nil child, read from the node
//
//	pointers by the verif hook (no Cursor method involved).  When a replay builds a different
//	tree the output is "SHAPE <actual>".
//
// ops    ';'-separated, over cursor registers 0..3 (all start as nil *Cursor):
//
//	K<r>=<k> Tree.Cursor(k)   O<r> Tree.Root()   Z<r> nil cursor   E<r> new(Cursor) (empty path)
//	G<r>=<k> Tree.Get(k) (the register is not used): item g:<key>,<ok>
//	C<a><b>  reg b = reg a .Clone()
//	n p l r u m x <r>   Next Prev Left Right Up Min Max   (item gets "!" if the result is not the receiver)
//	w<r>:<seq>  the moves of <seq> (letters n p l r u m x) one after the other with nothing observed in
//	            between; h H v k inside <seq> call HasNext HasPrev Valid Key there: item y<answers>=<state>
//	i<r> Inorder (all)   j<r>:<k> Inorder stopped after k keys
//	N<r> / P<r>  Next / Prev until invalid, at most Len+2 steps: keys visited, then final Valid
//
// item   after every op that is not i/j/N/P: the state of every register assigned so far, '/'-separated,
//
//	each  <path>:<key>:<Valid HasNext HasPrev HasLeft HasRight HasParent as 0/1>
//	path  from the hook by pointer comparison: nil | - (empty) | ^ then L/R per step from the root
package main

import (
	"fmt"
	"math"
	"os"
	"strconv"
	"strings"

	"github.com/creachadair/mds/stree"
	"verif/harness/internal/tr"
)

func nat(a, b int) int {
	if a < b {
		return -1
	} else if a > b {
		return 1
	}
	return 0
}

func cmpFor(s string) func(a, b int) int {
	modk := func() func(int) int {
		k, _ := strconv.Atoi(s[1:])
		if k <= 0 {
			k = 1
		}
		return func(a int) int { return ((a % k) + k) % k }
	}
	ext := func(a, b int) int {
		if a < b {
			return math.MinInt
		} else if a > b {
			return math.MaxInt
		}
		return 0
	}
	switch {
	case strings.HasPrefix(s, "q") && len(s) > 1:
		// q<base>: <base>, and while the cursor operations of a W line run (reentT set) the comparator
		// first READS the tree it belongs to (round 5: read-only re-entrancy through the comparison callback)
		base := cmpFor(s[1:])
		depth, calls := 0, 0
		return func(a, b int) int {
			if t := reentT; t != nil && depth == 0 {
				depth++
				calls++
				// (lookups of OTHER keys than the one being searched: the search paths differ)
				switch calls % 6 {
				case 0:
					t.Get(t.Max())
				case 1:
					t.Cursor(t.Max()).Prev()
				case 2:
					n := 0
					for range t.InorderAfter(t.Min()) {
						if n++; n == 2 {
							break
						}
					}
				case 3:
					t.Root().Min()
				case 4:
					t.Cursor(t.Min()).Next()
				default:
					t.Len()
					t.Get(b)
				}
				depth--
			}
			return base(a, b)
		}
	case s == "n":
		return nat
	case s == "r":
		return func(a, b int) int { return nat(b, a) }
	case s == "a":
		return func(a, b int) int { return a - b }
	case s == "t":
		return func(a, b int) int { return 3 * (a - b) }
	case s == "h":
		return func(a, b int) int { return (a - b) << 32 }
	case s == "A":
		return func(a, b int) int { return b - a }
	case s == "D":
		return func(a, b int) int { return 7 * (b - a) }
	case s == "x":
		return ext
	case s == "X":
		return func(a, b int) int { return ext(b, a) }
	case strings.HasPrefix(s, "m"):
		md := modk()
		return func(a, b int) int { return nat(md(a), md(b)) }
	case strings.HasPrefix(s, "M"):
		md := modk()
		return func(a, b int) int { return md(a) - md(b) }
	case strings.HasPrefix(s, "R"):
		md := modk()
		return func(a, b int) int { return md(b) - md(a) }
	}
	panic("bad comparator " + s)
}

// reentT: the tree of the W line whose cursor operations are running (for the comparators q<base>)
var reentT *stree.Tree[int]

func split(s, sep string) []string {
	if s == "" {
		return nil
	}
	return strings.Split(s, sep)
}

func shapeKeys(shape string) []int {
	var out []int
	for _, f := range strings.Split(shape, ",") {
		if f != "." {
			n, err := strconv.Atoi(f)
			if err != nil {
				panic("bad shape key " + f)
			}
			out = append(out, n)
		}
	}
	return out
}

func build(cmps, b, shape string) *stree.Tree[int] {
	cf := cmpFor(cmps)
	if b == "P" {
		t := stree.New(1000, cf)
		for _, k := range shapeKeys(shape) {
			t.Add(k)
		}
		return t
	}
	parts := strings.Split(b[1:], "/")
	if len(parts) != 3 {
		panic("bad build " + b)
	}
	beta, _ := strconv.Atoi(parts[0])
	var keys []int
	for _, k := range split(parts[1], "_") {
		n, _ := strconv.Atoi(k)
		keys = append(keys, n)
	}
	t := stree.New(beta, cf, keys...)
	for _, o := range split(parts[2], "_") {
		switch o[0] {
		case 'c':
			t.Clear()
		default:
			n, _ := strconv.Atoi(o[1:])
			switch o[0] {
			case 'a':
				t.Add(n)
			case 'p':
				t.Replace(n)
			case 'r':
				t.Remove(n)
			}
		}
	}
	return t
}

func dump(t *stree.Tree[int]) string { return stree.VerifCursorShape(t, strconv.Itoa) }

func obs(t *stree.Tree[int], c *stree.Cursor[int]) string {
	return stree.VerifCursorPath(t, c) + ":" + strconv.Itoa(c.Key()) + ":" +
		tr.B(c.Valid()) + tr.B(c.HasNext()) + tr.B(c.HasPrev()) + tr.B(c.HasLeft()) + tr.B(c.HasRight()) + tr.B(c.HasParent())
}

// machine: the cursor registers over one tree.  big = the tree may hold thousands of keys: key lists
// longer than 200 are printed as a digest (fmtInts).
type machine struct {
	t    *stree.Tree[int]
	regs [4]*stree.Cursor[int]
	used int
	big  bool
}

func (m *machine) ints(xs []int) string {
	if m.big {
		return fmtInts(xs)
	}
	return tr.Ints(xs)
}

func (m *machine) state() string {
	var s []string
	for i := 0; i < m.used; i++ {
		s = append(s, obs(m.t, m.regs[i]))
	}
	return strings.Join(s, "/")
}

func (m *machine) touch(r int) {
	if r+1 > m.used {
		m.used = r + 1
	}
}

// op runs one register operation and returns its item.
func (m *machine) op(op string) string {
	t := m.t
	if len(op) < 2 {
		return "?"
	}
	r := int(op[1] - '0')
	if r < 0 || r > 3 {
		return "?"
	}
	if it, ok := m.op5(op); ok { // round 5: y, t, z (round5.go)
		return it
	}
	switch op[0] {
	case 'K':
		if len(op) < 4 {
			return "?"
		}
		k, _ := strconv.Atoi(op[3:])
		m.regs[r] = t.Cursor(k)
		m.touch(r)
		return m.state()
	case 'G':
		if len(op) < 4 {
			return "?"
		}
		k, _ := strconv.Atoi(op[3:])
		v, ok := t.Get(k)
		return "g:" + strconv.Itoa(v) + "," + tr.B(ok)
	case 'O':
		m.regs[r] = t.Root()
		m.touch(r)
		return m.state()
	case 'Z':
		m.regs[r] = nil
		m.touch(r)
		return m.state()
	case 'E':
		m.regs[r] = new(stree.Cursor[int])
		m.touch(r)
		return m.state()
	case 'C':
		if len(op) < 3 || op[2] < '0' || op[2] > '3' {
			return "?"
		}
		b := int(op[2] - '0')
		m.touch(r)
		m.regs[b] = m.regs[r].Clone()
		m.touch(b)
		return m.state()
	case 'n', 'p', 'l', 'r', 'u', 'm', 'x':
		m.touch(r)
		c := m.regs[r]
		var got *stree.Cursor[int]
		switch op[0] {
		case 'n':
			got = c.Next()
		case 'p':
			got = c.Prev()
		case 'l':
			got = c.Left()
		case 'r':
			got = c.Right()
		case 'u':
			got = c.Up()
		case 'm':
			got = c.Min()
		case 'x':
			got = c.Max()
		}
		s := m.state()
		if got != c {
			s += "!"
		}
		return s
	case 'w':
		// w<r>:<seq>: the moves of seq applied one after the other with NOTHING observed in between
		// (every other op is followed by all observers on all registers); the letters h H v k call
		// HasNext, HasPrev, Valid, Key at that point and record the answer
		if len(op) < 4 || op[2] != ':' || strings.Trim(op[3:], "nplrumxhHvk") != "" {
			return "?"
		}
		m.touch(r)
		c := m.regs[r]
		var res strings.Builder
		for _, ch := range op[3:] {
			switch ch {
			case 'n':
				c.Next()
			case 'p':
				c.Prev()
			case 'l':
				c.Left()
			case 'r':
				c.Right()
			case 'u':
				c.Up()
			case 'm':
				c.Min()
			case 'x':
				c.Max()
			case 'h':
				res.WriteString(tr.B(c.HasNext()))
			case 'H':
				res.WriteString(tr.B(c.HasPrev()))
			case 'v':
				res.WriteString(tr.B(c.Valid()))
			case 'k':
				res.WriteString("(" + strconv.Itoa(c.Key()) + ")")
			}
		}
		return "y" + res.String() + "=" + m.state()
	case 'i':
		m.touch(r)
		var ks []int
		m.regs[r].Inorder(func(k int) bool { ks = append(ks, k); runaway(len(ks), t); return true })
		return "i:" + m.ints(ks)
	case 'j':
		if len(op) < 4 {
			return "?"
		}
		if strings.HasSuffix(op, "!") { // (B lines) the callback panics where the other one returns false
			lim, _, ok := limOf(op[3:])
			if !ok || op[2] != ':' {
				return "?"
			}
			m.touch(r)
			var ks []int
			swallow(stopPanic{}, func() {
				m.regs[r].Inorder(func(k int) bool { ks = append(ks, k); runaway(len(ks), t); return stopAt(len(ks), lim, true) })
			})
			return "i:" + m.ints(ks)
		}
		m.touch(r)
		lim, _ := strconv.Atoi(op[3:])
		var ks []int
		m.regs[r].Inorder(func(k int) bool { ks = append(ks, k); runaway(len(ks), t); return len(ks) < lim })
		return "i:" + m.ints(ks)
	case 'N', 'P':
		m.touch(r)
		var ks []int
		c := m.regs[r]
		for step := 0; c.Valid() && step < t.Len()+2; step++ {
			ks = append(ks, c.Key())
			if op[0] == 'N' {
				c.Next()
			} else {
				c.Prev()
			}
		}
		return "s:" + m.ints(ks) + ":" + tr.B(c.Valid())
	}
	return "?"
}

// exec runs one case under the watchdog: a case that does not come back (a walk over a cycle among the
// nodes) is reported as "hang" (see guard in session.go).
func exec(in string) string {
	var out string
	if res := guard(func() { out = execCase(in) }); res != "" {
		return res
	}
	return out
}

func execCase(in string) string {
	f := strings.Fields(in)
	if len(f) == 4 && f[0] == "B" {
		return execBig(f)
	}
	if len(f) != 5 || f[0] != "W" {
		return "?"
	}
	var items []string
	res := tr.Catch(func() {
		t := build(f[1], f[2], f[3])
		if got := dump(t); got != f[3] {
			items = []string{"SHAPE " + got}
			return
		}
		items = append(items, "t:"+tr.Ints(inorderKeys(t)))
		m := &machine{t: t}
		reentT = t
		defer func() { reentT = nil }()
		for _, op := range split(f[4], ";") {
			items = append(items, m.op(op))
		}
	})
	if res != "" {
		items = append(items, res)
	}
	return strings.Join(items, ";")
}

// ---------------------------------------------------------------- generation

type gen struct {
	g *tr.G
	// noShape: the line being built has no shape field (B lines): compound walks use only the moves
	// whose result the checker can follow on the key list alone (Next, Prev)
	noShape bool
}

// compound returns a compound walk w<r>:<seq> of n letters: moves, now and then an observer
func (x *gen) compound(reg string, n int) string {
	r := x.g.R
	mv := moves
	if x.noShape {
		mv = "nnpp"
	}
	var sb strings.Builder
	for i := 0; i < n; i++ {
		if r.Chance(1, 4) {
			sb.WriteByte("hHvkhH"[r.Intn(6)])
		} else {
			sb.WriteByte(mv[r.Intn(len(mv))])
		}
	}
	return "w" + reg + ":" + sb.String()
}

const moves = "nplrumx"

// allShapes lists every binary tree shape with n nodes as preorder strings over keys lo, lo+10, ...
func allShapes(n, lo int) []string {
	if n == 0 {
		return []string{"."}
	}
	var out []string
	for nl := 0; nl < n; nl++ {
		root := lo + 10*nl
		for _, l := range allShapes(nl, lo) {
			for _, r := range allShapes(n-1-nl, root+10) {
				out = append(out, strconv.Itoa(root)+","+l+","+r)
			}
		}
	}
	return out
}

// history returns a build string: a pattern of Add/Replace/Remove over a key space.
func history(r *tr.Rand, pattern string, beta, n int) string {
	var init, ops []string
	add := func(k int) { ops = append(ops, "a"+strconv.Itoa(k)) }
	switch pattern {
	case "asc":
		for i := 0; i < n; i++ {
			add(i * 3)
		}
	case "desc":
		for i := n; i > 0; i-- {
			add(i * 3)
		}
	case "zigzag": // 0, 2n, 1, 2n-1, ... : each key goes between the two previous ones
		lo, hi := 0, 4*n
		for i := 0; i < n; i++ {
			if i%2 == 0 {
				add(lo)
				lo += 2
			} else {
				add(hi)
				hi -= 2
			}
		}
	case "bulk":
		for i := 0; i < n; i++ {
			init = append(init, strconv.Itoa(r.Intn(2*n+1)))
		}
		for i := 0; i < n/4; i++ {
			ops = append(ops, string("apr"[r.Intn(3)])+strconv.Itoa(r.Intn(2*n+1)))
		}
	case "churn": // grow, then remove most (delete-side rebuilds), then grow again
		for i := 0; i < n; i++ {
			add(r.Intn(3 * n))
		}
		for i := 0; i < 2*n; i++ {
			ops = append(ops, "r"+strconv.Itoa(r.Intn(3*n)))
		}
		for i := 0; i < n/2+1; i++ {
			add(r.Intn(3 * n))
		}
	default: // random mix over a small key space
		space := n + 1 + r.Intn(n+1)
		for i := 0; i < 2*n; i++ {
			c := "aaapr"[r.Intn(5)]
			ops = append(ops, string(c)+strconv.Itoa(r.Intn(space)-space/8))
		}
		if r.Chance(1, 30) {
			ops = append(ops, "c")
			for i := 0; i < n/2; i++ {
				add(r.Intn(space))
			}
		}
	}
	return "H" + strconv.Itoa(beta) + "/" + strings.Join(init, "_") + "/" + strings.Join(ops, "_")
}

func maxDepth(shape string) int {
	// depth of the preorder string
	f := strings.Split(shape, ",")
	pos := 0
	var rec func(d int) int
	rec = func(d int) int {
		if pos >= len(f) {
			return d
		}
		tok := f[pos]
		pos++
		if tok == "." {
			return d
		}
		a := rec(d + 1)
		b := rec(d + 1)
		return max(a, b)
	}
	return rec(0)
}

func (x *gen) emit(cmps, b, shape string, ops []string, tags ...string) {
	n := len(shapeKeys(shape))
	d := maxDepth(shape)
	if n >= 3 && d == n {
		tags = append(tags, "path-shaped-tree")
	}
	if n >= 8 && d >= n/2 && d < n {
		tags = append(tags, "skewed-tree")
	}
	x.g.Emit("W "+cmps+" "+b+" "+shape+" "+strings.Join(ops, ";"), n >= 2 && len(ops) > 0, tags...)
}

func (x *gen) randomWalk(keys []int, steps int) []string {
	r := x.g.R
	var ops []string
	pick := func() int {
		if len(keys) == 0 || r.Chance(1, 8) {
			return r.Intn(50) - 10
		}
		return tr.Pick(r, keys)
	}
	ops = append(ops, "K0="+strconv.Itoa(pick()))
	nreg := 1
	for i := 0; i < steps; i++ {
		reg := r.Intn(nreg)
		rs := strconv.Itoa(reg)
		switch c := r.Intn(100); {
		case c < 50:
			ops = append(ops, string(moves[r.Intn(len(moves))])+rs)
		case c < 62: // several moves with nothing observed in between
			ops = append(ops, x.compound(rs, 2+r.Intn(5)))
		case c < 70:
			ops = append(ops, "K"+rs+"="+strconv.Itoa(pick()))
		case c < 74:
			ops = append(ops, "O"+rs)
		case c < 84:
			dst := r.Intn(min(nreg+1, 4))
			if dst == reg {
				dst = (reg + 1) % 4
			}
			if dst+1 > nreg {
				nreg = dst + 1
			}
			ops = append(ops, "C"+rs+strconv.Itoa(dst))
		case c < 90:
			ops = append(ops, "i"+rs)
		case c < 93:
			ops = append(ops, "j"+rs+":"+strconv.Itoa(1+r.Intn(4)))
		case c < 95:
			ops = append(ops, string("ZE"[r.Intn(2)])+rs)
		case c < 97:
			ops = append(ops, "G"+rs+"="+strconv.Itoa(pick()))
		default:
			// re-anchor then sweep, so that later moves continue from a real position
			ops = append(ops, string("NP"[r.Intn(2)])+rs)
		}
	}
	return ops
}

// shrinkHistory: a build string that grows a tree by 16..90 Adds (ascending, descending, zig-zag or
// random) at a balance factor below 1000 and then removes keys, shallow ones first or from one end,
// until 1/2, 1/4 or 1/8 remain (so that the remaining keys sit deeper than a tree of that size grown
// by Adds alone would put them).
func shrinkHistory(r *tr.Rand, cmps string, i int) (string, []string) {
	beta := tr.Pick(r, []int{0, 0, 1, 50, 250, 500})
	n := 16 + r.Intn(75)
	pat := "adzr"[r.Intn(4)]
	var ops []string
	for _, j := range orderIdx(pat, n, r.Intn(1000)) {
		ops = append(ops, "a"+strconv.Itoa(3*j))
	}
	head := "H" + strconv.Itoa(beta) + "//"
	t := build(cmps, head+strings.Join(ops, "_"), "")
	keys := inorderKeys(t)
	keep := max(1, len(keys)/[]int{2, 4, 4, 8}[r.Intn(4)])
	ord := "ssPPPlhorebB"[r.Intn(12)]
	for _, j := range removalIdx(ord, len(keys), keep, r.Intn(1000), shapeMetric(t)) {
		ops = append(ops, "r"+strconv.Itoa(keys[j]))
	}
	return head + strings.Join(ops, "_"), []string{"shrink-order-" + string(ord), "shrink-grow-" + string(pat)}
}

// scaleSize: a size around a power of two, 2^k-1, 2^k or 2^k+1
func scaleSize(r *tr.Rand, kmin, kmax int) int {
	return 1<<(kmin+r.Intn(kmax-kmin+1)) + r.Intn(3) - 1
}

func (x *gen) bigTrees() {
	// (tr.Rand streams of different seeds are shifts of one sequence and often fall into step after a
	// few thousand draws: this section draws from a stream whose offset is a scrambled function of the seed)
	g, r := x.g, tr.NewRand(tr.NewRand(x.g.Seed).Uint64()^0xC03B16)
	betas := []int{0, 1, 50, 250, 500, 800, 999}
	pats := "adzr"
	orders := "lhoibBreEspP"
	adversarial := map[byte]string{'a': "lbe", 'd': "hbE", 'z': "oib", 'r': "rbB", 'i': "oib", 'b': "lhB"}
	if g.Thorough() {
		pats = "adzrib"
	}
	emitOne := func(beta int, pat byte, ord byte, n int, cmps string) {
		t := stree.New(beta, cmpFor(cmps))
		var ops []string
		known := true // can the checker know the key set here? (not after a real-depth order until a probe prints it)
		run := func(op string) {
			ops = append(ops, op)
			applyMacro(t, op)
		}
		probeOp := func() {
			s := 1 + r.Intn(4)
			if t.Len() > 1100 {
				s = 1
			}
			ops = append(ops, "Q"+strconv.Itoa(s))
			if t.Len() <= plainMax {
				known = true
			}
		}
		tags := []string{"big-tree", "big-beta-" + strconv.Itoa(beta), "big-grow-" + string(pat), "big-shrink-" + string(ord)}
		if n >= 1023 {
			tags = append(tags, "big-1023-or-more")
		}
		if n >= 4095 {
			tags = append(tags, "big-4095-or-more")
		}
		walks := func() {
			if !known || t.Len() == 0 {
				return
			}
			keys := inorderKeys(t)
			depths := depthsInorder(t)
			for _, d := range depths {
				if d > 100 { // every item prints the paths of the registers: keep the line bounded
					return
				}
			}
			// the deepest key, a key whose path holds 2^k nodes (a full path slice), a random key
			deepest, full := 0, -1
			for i, d := range depths {
				if d > depths[deepest] {
					deepest = i
				}
				if d+1 >= 4 && (d+1)&d == 0 && (full < 0 || r.Chance(1, 3)) {
					full = i
				}
			}
			starts := []int{deepest, r.Intn(len(keys))}
			if full >= 0 {
				starts = append(starts, full)
				tags = append(tags, "big-walk-full-path-slice")
			}
			for _, i := range starts {
				ks := strconv.Itoa(keys[i])
				ops = append(ops, "K0="+ks, "G0="+ks, "C01", "u0", "r0", "K0="+ks, "C01", "u1", "l1", "K0="+ks, "C01", "n0", "n0", "p0", "p0", "p0",
					"K0="+ks, "C01", "C02", "p1", "p1", "n2", "n2", "j0:3", "j1:2", "K0="+ks, "u0", "u0", "m0", "K0="+ks, "u0", "u0", "x0", "j0:5")
			}
			x.noShape = true
			w := x.randomWalk(keys, 12+r.Intn(12))
			x.noShape = false
			w[0] = "K0=" + strconv.Itoa(keys[deepest])
			ops = append(ops, w...)
			tags = append(tags, "big-walk")
		}
		run(fmt.Sprintf("A%c:0:%d:3:%d", pat, n, r.Intn(100000)))
		probeOp()
		fracs := []int{2, 4, 8, 16}
		if beta <= 100 { // Remove rebuilds below max*beta/2000: here the tree can shrink much further unrebuilt
			fracs = append(fracs, 32, 64)
		}
		for _, fr := range fracs {
			run(fmt.Sprintf("R%c:%d:%d", ord, n/fr, r.Intn(100000)))
			if ord == 's' || ord == 'p' || ord == 'P' {
				known = false
			}
			probeOp()
			if fr == 4 || (fr == 16 && r.Chance(1, 2)) {
				walks()
			}
		}
		run(fmt.Sprintf("A%c:1:%d:3:%d", "adzr"[r.Intn(4)], n/2, r.Intn(100000)))
		if ord == 's' || ord == 'p' || ord == 'P' {
			known = false
		}
		probeOp()
		g.Emit("B "+cmps+" "+strconv.Itoa(beta)+" "+strings.Join(ops, ";"), true, tags...)
	}
	count := 0
	sizeFor := func(beta int) int {
		count++
		switch {
		case beta >= 999: // no rebalancing in reach: the tree is as deep as the insertion order makes it
			return 100 + r.Intn(g.Scale(160, 300))
		case g.Thorough():
			if count%8 == 0 {
				return scaleSize(r, 12, 13)
			}
			return scaleSize(r, 8, 11)
		default: // quick: 72 trees below 999, of which 2 around 4096 and 5 around 2048
			if count%36 == 29 && beta > 1 { // (at 0 and 1 nearly every Add rebuilds: slow to replay on the model)
				return scaleSize(r, 12, 12)
			}
			if count%14 == 3 {
				return scaleSize(r, 11, 11)
			}
			return scaleSize(r, 8, 10)
		}
	}
	cmpOf := func() string {
		if r.Chance(1, 3) {
			return tr.Pick(r, []string{"r", "a", "t", "h", "A", "D", "x", "X"})
		}
		return "n"
	}
	for _, beta := range betas {
		for pi := 0; pi < len(pats); pi++ {
			pat := pats[pi]
			if g.Thorough() {
				for oi := 0; oi < len(orders); oi++ {
					emitOne(beta, pat, orders[oi], sizeFor(beta), cmpOf())
				}
				continue
			}
			// quick: the order that keeps the deepest keys with their ancestors, the real shallow-first
			// order, and an arithmetic order (one that suits this growth pattern, or any)
			adv := adversarial[pat]
			emitOne(beta, pat, 'P', sizeFor(beta), "n")
			emitOne(beta, pat, 's', sizeFor(beta), cmpOf())
			if r.Chance(1, 2) {
				emitOne(beta, pat, adv[r.Intn(len(adv))], sizeFor(beta), cmpOf())
			} else {
				emitOne(beta, pat, orders[r.Intn(len(orders))], sizeFor(beta), cmpOf())
			}
		}
	}
}

// replayRequested: is there a -replay flag on the command line?  (The replay loop of tr.Main does not stop
// after a case that hangs; ours does.)
func replayRequested() bool {
	for _, a := range os.Args[1:] {
		a = strings.TrimLeft(a, "-")
		if a == "replay" || strings.HasPrefix(a, "replay=") {
			return true
		}
	}
	return false
}

func main() {
	if replayRequested() {
		o := tr.ParseFlags()
		w := tr.NewW(o.Out)
		for _, in := range tr.ReplayInputs(o.Replay) {
			w.Case(in, exec(in), true, "replayed")
			if hung {
				break // the goroutine of that case is still running: nothing more can be trusted
			}
		}
		w.Close(o, "C03: replay", nil)
		return
	}
	tr.Main("C03: every tree shape with up to 4 (quick) / 5 (thorough) nodes x every start (each key, absent keys, Root, nil, empty) x every sequence of up to 2 (3) of the seven moves, with a clone taken first and re-read after every move; trees built by Add/Replace/Remove/Clear/New histories (ascending and descending vines, zig-zags, churn with delete-side rebuilds, bulk New, random mixes) at β in {0,1,250,500,999,1000,random} under natural, reversed and modular comparators, and from each of them random walks (from random keys and, for trees up to 16 keys, from every key) over all moves, re-anchoring, clones in up to 4 registers, Inorder (full and stopped early) and full Next/Prev sweeps from every key. Round 3: histories that grow a tree by 16-90 Adds at beta < 1000 and then remove keys (shallowest first by real depth, keeping the deepest root-to-leaf paths, from one end, ...) down to 1/2, 1/4, 1/8, with Cursor/Get/Next/Prev/Up/Min/Max/Inorder from every remaining key; compound walks (several moves, HasNext/HasPrev/Valid/Key calls among them, with nothing else observed in between): every 3-move sequence from every start of every small shape, random ones from every key of the history-built trees and inside the random walks; and big trees (B lines): beta in {0,1,50,250,500,800,999} x growth order (ascending, descending, outside-in, random; thorough also inside-out and ideal breadth-first) x removal order (low end, high end, outside-in, inside-out, ideal breadth-first and its reverse, random, evenly spaced survivors, shallowest/deepest first by real depth, keeping the deepest paths) with sizes 2^k-1, 2^k, 2^k+1 for k = 8..12 (thorough ..13; 100-400 at beta 999 where the tree is a vine), shrunk in stages to 1/2, 1/4, 1/8, 1/16 (1/32, 1/64 at beta <= 100) of the peak and regrown, after every stage from EVERY key: Tree.Cursor valid at the key, Get, flags, real path, Next and Prev steps, a Next/Prev zig-zag, Up to the root, Min, Max, Inorder of the subtree, Cursor of the absent neighbour, and full Min..Next and Max..Prev sweeps, folded into digests (key lists beyond 200 keys too) so that a line stays a few kB, plus explicit walks with clones from the deepest key, from a key whose path slice is exactly full (2^k nodes) and from a random key. The B lines carry no shape: the replay rebuilds the tree with the C01 tree model. Round 4 (tree sessions, B lines over up to three trees): setter; barrier; consumer - setter = InorderAfter complete and broken off after every number of keys from every key and every absent neighbour, Tree.Inorder and Cursor.Inorder broken off at every position, the same with a loop body that panics (recovered), Get/Cursor/InorderAfter under a comparator that panics at its n-th call, Get, Min, Max, Len, Tree.Cursor, Root, cursors moved and left behind, a probe; barrier = nothing, an edit in place (Add of a neighbour, Remove of the key / its neighbours / an end, Replace by the same or an equivalent key, Add of a present key, Remove then Add back, Clear, Clear or key-by-key drain and the same keys again), or Clone and then the original or the clone edited, or a clone of a clone; consumer = on the other tree (and then on the edited one) Tree.Cursor of the key and its neighbours with full Next/Prev walks, Inorder, compound walks, Get, InorderAfter, Inorder, Min, Max, Len, Root and the probe of every key; cursors of one tree kept in their registers while the other tree is edited; every tree size 0..600 (grow, probe, shrink to exactly the size at which Remove does not yet rebuild, probe, one more Remove, Clear or drain, regrow). Round 5 (W ops y, t, z; comparators q<base>): Cursor.Inorder with a loop body that uses the VERY cursor being iterated (every move, HasNext/HasPrev/Valid/Key, a complete or stopped nested Inorder of the same cursor) or its clone, at every or every other key, the cursor brought to its key directly, from the root, or from the deepest key below it and up again (a path slice with spare room); two Inorder traversals of one cursor, or of a cursor and its clone, alive together through iter.Pull with the cursor moved between the pulls; Tree.Inorder whose body takes Tree.Cursor(key) at every key and moves it (what omap.Iter.Seek does) - for every key of every shape up to 4 (5) nodes with 21 loop bodies and on history-built trees; each traversal must deliver the keys of the subtree its cursor was at when it started, the moves from the body must leave the cursor where the same moves outside would; a comparator that reads its tree (Get, Cursor+Next, InorderAfter, Root+Min, Len, Max) while Tree.Cursor/Tree.Get run. A case that does not return (a walk over a cycle among the nodes) is reported as hang by a watchdog and ends the run. The real shape and every cursor's real path are read from the node pointers by a hook. A case is non-trivial when the tree has at least two nodes and at least one cursor operation; distinct = distinct input lines.",
		exec, func(g *tr.G) {
			theG, theRule = g, "C03: see the generator (ended early after a case that did not return)"
			x := &gen{g: g}
			r := g.R
			// 1. exhaustive small scope
			maxN := g.Scale(4, 5)
			maxLen := g.Scale(2, 3)
			for n := 0; n <= maxN; n++ {
				for _, shape := range allShapes(n, 10) {
					keys := shapeKeys(shape)
					var starts []string
					for _, k := range keys {
						starts = append(starts, "K0="+strconv.Itoa(k))
					}
					starts = append(starts, "K0=5", "K0=15", "K0="+strconv.Itoa(10*n+5), "O0", "Z0", "E0")
					var seqs [][]string
					var rec func(cur []string, d int)
					rec = func(cur []string, d int) {
						seqs = append(seqs, append([]string(nil), cur...))
						if d == 0 {
							return
						}
						for _, m := range moves {
							rec(append(cur[:len(cur):len(cur)], string(m)), d-1)
						}
					}
					rec(nil, maxLen)
					for _, st := range starts {
						for _, sq := range seqs {
							// the moves go to the original (register 0) or to the clone (register 1);
							// every register is re-read after every move
							for _, mv := range []string{"0", "1"} {
								if mv == "1" && len(sq) == 0 {
									continue
								}
								ops := []string{st, "C01"}
								for _, m := range sq {
									ops = append(ops, m+mv)
								}
								ops = append(ops, "i0", "i1")
								tag := "exhaustive"
								if st == "Z0" || st == "E0" {
									tag = "nil-or-empty-cursor"
								}
								tags := []string{tag}
								if mv == "1" {
									tags = append(tags, "clone-moved")
								} else if len(sq) > 0 {
									tags = append(tags, "original-moved")
								}
								x.emit("n", "P", shape, ops, tags...)
								// the same tree under comparators that return arbitrary magnitudes
								if n <= 3 && mv == "0" && len(sq) <= 1 {
									for _, c := range []string{"a", "t", "x", "h"} {
										gk := "15"
										if i := strings.IndexByte(st, '='); i >= 0 {
											gk = st[i+1:]
										}
										x.emit(c, "P", shape, append([]string{"G0=" + gk}, ops...), tag, "custom-comparator", "comparator-magnitudes")
									}
								}
							}
						}
					}
				}
			}
			// 1b. moves with NOTHING observed in between (everywhere else all observers of all registers run
			// after every op, which would refresh anything a cursor remembers between calls): for every
			// shape up to 4 (5) nodes and every start, every sequence of 3 moves as one compound walk, and
			// every pair of moves with HasNext (HasPrev) called before, between and after / before and after
			for n := 1; n <= maxN; n++ {
				for _, shape := range allShapes(n, 10) {
					var starts []string
					for _, k := range shapeKeys(shape) {
						starts = append(starts, "K0="+strconv.Itoa(k))
					}
					starts = append(starts, "O0")
					for _, st := range starts {
						var ops []string
						for _, a := range moves {
							for _, b := range moves {
								for _, c := range moves {
									ops = append(ops, st, "w0:"+string([]rune{a, b, c}))
								}
								for _, o := range "hH" {
									ops = append(ops, st, "w0:"+string([]rune{o, a, o, b, o}), st, "w0:"+string([]rune{o, a, b, o}))
								}
							}
						}
						x.emit("n", "P", shape, ops, "exhaustive", "compound-walk")
					}
				}
			}
			// 2. sweeps from every key, and clone independence in both directions, on history-built trees
			betas := []int{0, 1, 250, 500, 999, 1000}
			patterns := []string{"asc", "desc", "zigzag", "bulk", "churn", "mix", "shrink"}
			for i := 0; i < g.Scale(600, 6000); i++ {
				beta := tr.Pick(r, betas)
				if r.Chance(1, 4) {
					beta = r.Intn(1001)
				}
				pat := patterns[i%len(patterns)]
				n := 1 + r.Intn(24)
				if r.Chance(1, 10) {
					n = 30 + r.Intn(60)
				}
				if (pat == "asc" || pat == "desc" || pat == "zigzag") && i%3 == 0 {
					beta = 1000
				}
				cmps := "n"
				var ctags []string
				switch r.Intn(8) {
				case 0:
					cmps = "r"
				case 1:
					cmps = "m" + strconv.Itoa(3+r.Intn(17))
				case 2:
					cmps = tr.Pick(r, []string{"M", "R"}) + strconv.Itoa(3+r.Intn(17))
					ctags = []string{"comparator-magnitudes"}
				case 3, 4:
					cmps = tr.Pick(r, []string{"a", "t", "h", "A", "D", "x", "X"})
					ctags = []string{"comparator-magnitudes"}
				}
				b := ""
				var stags []string
				if pat == "shrink" {
					b, stags = shrinkHistory(r, cmps, i)
					beta = -1 // chosen by shrinkHistory
				} else {
					b = history(r, pat, beta, n)
				}
				t := build(cmps, b, "")
				shape := dump(t)
				var keys []int
				for k := range t.Inorder {
					keys = append(keys, k)
				}
				tags := append([]string{"history-" + pat}, stags...)
				if pat == "shrink" {
					// from EVERY remaining key: Cursor, Get, one step each way, Up, Max, Inorder of the subtree
					var ev []string
					for _, k := range keys {
						ks := strconv.Itoa(k)
						ev = append(ev, "K0="+ks, "G0="+ks, "n0", "K0="+ks, "p0", "K0="+ks, "u0", "K0="+ks, "x0", "K0="+ks, "m0", "K0="+ks, "i0")
					}
					ev = append(ev, "O0", "m0", "N0", "O0", "x0", "P0")
					x.emit(cmps, b, shape, ev, append(tags, "every-key-after-shrink")...)
				}
				if beta == 1000 {
					tags = append(tags, "beta-1000")
				}
				if cmps != "n" {
					tags = append(tags, "custom-comparator")
				}
				tags = append(tags, ctags...)
				// full sweeps from every key (bounded number of keys for the big ones)
				var sw []string
				for j, k := range keys {
					if len(keys) > 30 && j%(len(keys)/15+1) != 0 {
						continue
					}
					ks := strconv.Itoa(k)
					sw = append(sw, "K0="+ks, "N0", "K0="+ks, "P0")
				}
				sw = append(sw, "O0", "m0", "N0", "O0", "x0", "P0")
				x.emit(cmps, b, shape, sw, append(tags, "sweep-from-every-key")...)
				// clone, then move the original away and back down another branch, re-read the clone; and vice versa
				for j := 0; j < 3 && len(keys) > 0; j++ {
					k := strconv.Itoa(tr.Pick(r, keys))
					a, bb := "0", "1"
					if j == 1 {
						a, bb = "1", "0"
					}
					ops := []string{"K0=" + k, "C01"}
					for s := 0; s < 6; s++ {
						ops = append(ops, string("uulrnpmx"[r.Intn(8)])+a)
					}
					ops = append(ops, "i"+bb, string(moves[r.Intn(len(moves))])+bb, "u"+bb, "r"+bb, "i"+a)
					x.emit(cmps, b, shape, ops, append(tags, "clone-then-move")...)
				}
				// clone, then move ONE of the two up and down another branch (Up then Left/Right; Next/Prev
				// that climb to an ancestor and then descend), re-reading both after every step: a path
				// array shared between the two would be overwritten by the descent.  From every key of the
				// smaller trees, the original moved (a=0) and the clone moved (a=1).
				if len(keys) >= 2 && len(keys) <= 24 {
					for _, k := range keys {
						ks := strconv.Itoa(k)
						for _, a := range []string{"0", "1"} {
							ops := []string{"K0=" + ks, "C01", "u" + a, "l" + a, "K0=" + ks, "C01", "u" + a, "r" + a,
								"K0=" + ks, "C01", "u" + a, "u" + a, "x" + a, "K0=" + ks, "C01", "u" + a, "m" + a,
								"K0=" + ks, "C01", "n" + a, "n" + a, "p" + a, "p" + a, "p" + a, "n" + a,
								"K0=" + ks, "C01", "C02", "p" + a, "p" + a, "n2", "n2", "i0", "i1", "i2"}
							tg := "clone-up-down-original-moved"
							if a == "1" {
								tg = "clone-up-down-clone-moved"
							}
							x.emit(cmps, b, shape, ops, append(tags, tg)...)
						}
					}
				}
				// compound walks (nothing observed between the moves) from every key of the smaller trees
				if len(keys) >= 3 && len(keys) <= 20 {
					var ops []string
					for _, k := range keys {
						for j := 0; j < 6; j++ {
							ops = append(ops, "K0="+strconv.Itoa(k), x.compound("0", 3+r.Intn(5)))
						}
					}
					x.emit(cmps, b, shape, ops, append(tags, "compound-walk")...)
				}
				// random walks: from random keys, and from every key of the smaller trees
				for j := 0; j < 6; j++ {
					x.emit(cmps, b, shape, x.randomWalk(keys, 10+r.Intn(30)), append(tags, "random-walk")...)
				}
				if len(keys) <= 16 {
					for _, k := range keys {
						ops := x.randomWalk(keys, 8+r.Intn(10))
						ops[0] = "K0=" + strconv.Itoa(k)
						x.emit(cmps, b, shape, ops, append(tags, "random-walk-from-every-key")...)
					}
				}
			}
			// 3. long vines and zig-zags at β=1000 (depth = size), few but deep
			for i := 0; i < g.Scale(6, 60); i++ {
				n := g.Scale(150, 400) + r.Intn(100)
				pat := []string{"asc", "desc", "zigzag"}[i%3]
				b := history(r, pat, 1000, n)
				t := build("n", b, "")
				shape := dump(t)
				var keys []int
				for k := range t.Inorder {
					keys = append(keys, k)
				}
				ops := []string{"O0", "m0", "N0", "O0", "x0", "P0"}
				for j := 0; j < 4; j++ {
					ks := strconv.Itoa(tr.Pick(r, keys))
					ops = append(ops, "K0="+ks, "n0", "K0="+ks, "p0", "K0="+ks, "C01", "u0", "u0", "l0", "r1", "u1")
				}
				x.emit("n", b, shape, ops, "deep-vine-"+pat, "beta-1000")
			}
			// 3b. round 5: a cursor used inside its own Inorder, traversals alive together (round5.go)
			x.round5()
			// 4. big trees (B lines): grow, shrink to 1/2, 1/4, 1/8, 1/16 of the peak, regrow; probe EVERY key
			// after every stage; explicit walks from the deepest keys and from keys whose path is 2^k long
			x.bigTrees()
			// 5. tree sessions (round 4): the whole Tree API around the creation of cursors, over a tree and
			// its clones: setter; barrier; consumer (session.go)
			x.sessionLines()
			_ = fmt.Sprint
		})
}
