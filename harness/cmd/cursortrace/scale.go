// Big trees (round 3): one case per line
//
//	B <cmp> <beta> <ops>  |  <item>;<item>;...
//
// The tree starts empty (stree.New(beta, cmp)) and is grown and shrunk by macro operations whose key
// sequences are arithmetic (the OCaml driver expands them the same way), so the line stays short
// however big the tree is.  ops, ';'-separated:
//
//	A<pat>:<lo>:<n>:<step>:<seed>   Add the n keys lo+step*j, j in the order <pat> of 0..n-1:
//	                                a ascending, d descending, z outside-in (0,n-1,1,n-2,..),
//	                                i inside-out (the reverse of z), r random (LCG seed),
//	                                b breadth-first order of the ideal balanced tree, B its reverse.
//	                                item a<number of Adds that returned true>
//	R<ord>:<keep>:<seed>            Remove keys until <keep> remain; L = Len, m = L-keep, the keys are
//	                                numbered 0..L-1 in Tree.Inorder order; removed, in this order:
//	                                l the m lowest ascending, h the m highest descending, o outside-in,
//	                                i inside-out, b/B the first m of the ideal breadth-first order / of
//	                                its reverse (shallow first / leaves first), r random, e/E all but
//	                                <keep> evenly spaced keys ascending / descending, s/p the m
//	                                shallowest / deepest keys by their REAL depth (read from the node
//	                                pointers by the hook), ties by rank; P the m keys with the shortest
//	                                longest root-to-leaf path through them first (depth of the key + height
//	                                of its subtree): what remains are the deepest keys WITH their ancestors.
//	                                item r<number of Removes that returned true>
//	Q<s>                            probe every key, see probe() for the item
//	every op of the W lines         over cursor registers; A and R reset the registers (a tree must not
//	                                be edited under a cursor); key lists longer than 200 are printed
//	                                as #<len>~<first>~<last>~<digest>
//	the tree operations of session.go (round 4): single edits, Clone into other tree slots, Tree.Inorder /
//	                                InorderAfter stopped at any position, Min, Max, Len
package main

import (
	"fmt"
	"sort"
	"strconv"
	"strings"

	"github.com/creachadair/mds/stree"
	"verif/harness/internal/tr"
)

// ---------------------------------------------------------------- digest, LCG, orders (mirrored in ocaml/cursor_driver.ml)

const (
	dgP1 = 2147483647
	dgM1 = 1000003
	dgP2 = 2147483629
	dgM2 = 1000033
)

type dig struct{ h1, h2 int64 }

func (d *dig) add(x int) {
	v1 := ((int64(x) % dgP1) + dgP1) % dgP1
	v2 := ((int64(x) % dgP2) + dgP2) % dgP2
	d.h1 = (d.h1*dgM1 + v1 + 12345) % dgP1
	d.h2 = (d.h2*dgM2 + v2 + 54321) % dgP2
}

func (d *dig) addStr(s string) {
	for i := 0; i < len(s); i++ {
		d.add(int(s[i]))
	}
	d.add(-1)
}

func (d *dig) String() string { return fmt.Sprintf("%08x%08x", d.h1, d.h2) }

func digestOf(xs []int) string {
	var d dig
	for _, x := range xs {
		d.add(x)
	}
	return d.String()
}

const plainMax = 200

// zigzag: the moves of the probe's direction-changing walk (n Next, p Prev)
const zigzag = "npppnnpn"

func fmtInts(xs []int) string {
	if len(xs) <= plainMax {
		return tr.Ints(xs)
	}
	return fmt.Sprintf("#%d~%d~%d~%s", len(xs), xs[0], xs[len(xs)-1], digestOf(xs))
}

type lcg struct{ x int64 }

func (l *lcg) next() int {
	l.x = (l.x*1103515245 + 12345) % 2147483648
	return int(l.x >> 8)
}

func permOf(n, seed int) []int {
	p := make([]int, n)
	for i := range p {
		p[i] = i
	}
	l := &lcg{x: int64(((seed % 2147483648) + 2147483648) % 2147483648)}
	for i := n - 1; i > 0; i-- {
		j := l.next() % (i + 1)
		p[i], p[j] = p[j], p[i]
	}
	return p
}

func reversed(p []int) []int {
	out := make([]int, len(p))
	for i, x := range p {
		out[len(p)-1-i] = x
	}
	return out
}

// orderIdx: the indices 0..n-1 in the order named by pat (nil for an unknown name)
func orderIdx(pat byte, n, seed int) []int {
	out := make([]int, 0, n)
	switch pat {
	case 'a':
		for i := 0; i < n; i++ {
			out = append(out, i)
		}
	case 'd':
		for i := n - 1; i >= 0; i-- {
			out = append(out, i)
		}
	case 'z':
		lo, hi := 0, n-1
		for lo <= hi {
			out = append(out, lo)
			if lo != hi {
				out = append(out, hi)
			}
			lo++
			hi--
		}
	case 'i':
		return reversed(orderIdx('z', n, seed))
	case 'r':
		return permOf(n, seed)
	case 'b':
		type rg struct{ lo, hi int }
		q := []rg{{0, n - 1}}
		for len(q) > 0 {
			g := q[0]
			q = q[1:]
			if g.lo > g.hi {
				continue
			}
			mid := g.lo + (g.hi-g.lo)/2
			out = append(out, mid)
			q = append(q, rg{g.lo, mid - 1}, rg{mid + 1, g.hi})
		}
	case 'B':
		return reversed(orderIdx('b', n, seed))
	default:
		return nil
	}
	return out
}

// removalIdx: which ranks (of L keys) to remove, in order, so that keep remain; metric (the real depths
// for s/p, depth + height for P, in in-order) only for s/p/P
func removalIdx(ord byte, L, keep, seed int, metric func(ord byte) []int) []int {
	m := L - keep
	if m <= 0 || keep < 0 {
		return nil
	}
	switch ord {
	case 'l':
		return orderIdx('a', L, 0)[:m]
	case 'h':
		return orderIdx('d', L, 0)[:m]
	case 'o':
		return orderIdx('z', L, 0)[:m]
	case 'i', 'b', 'B':
		return orderIdx(ord, L, 0)[:m]
	case 'r':
		return permOf(L, seed)[:m]
	case 'e', 'E':
		kept := make([]bool, L)
		for j := 0; j < keep; j++ {
			kept[j*L/keep] = true
		}
		var out []int
		for i := 0; i < L; i++ {
			if !kept[i] {
				out = append(out, i)
			}
		}
		if ord == 'E' {
			out = reversed(out)
		}
		return out
	case 's', 'p', 'P':
		d := metric(ord)
		idx := orderIdx('a', L, 0)
		sort.SliceStable(idx, func(a, b int) bool {
			if ord == 'p' {
				return d[idx[a]] > d[idx[b]]
			}
			return d[idx[a]] < d[idx[b]]
		})
		return idx[:m]
	}
	return nil
}

// ---------------------------------------------------------------- observations

func inorderKeys(t *stree.Tree[int]) []int {
	var all []int
	for k := range t.Inorder {
		all = append(all, k)
		runaway(len(all), t)
	}
	return all
}

// depthsInorder: the depth (edges from the root) of every node in in-order, from the preorder dump
// the hook reads off the node pointers (no Cursor method involved)
func depthsInorder(t *stree.Tree[int]) []int {
	toks := strings.Split(dump(t), ",")
	pos := 0
	var out []int
	var rec func(d int)
	rec = func(d int) {
		if pos >= len(toks) {
			return
		}
		tok := toks[pos]
		pos++
		if tok == "." {
			return
		}
		rec(d + 1)
		out = append(out, d)
		rec(d + 1)
	}
	rec(0)
	return out
}

// throughInorder: for every node in in-order, its depth plus the height of its subtree (edges): the
// length of the longest root-to-leaf path through the node
func throughInorder(t *stree.Tree[int]) []int {
	toks := strings.Split(dump(t), ",")
	pos := 0
	var out []int
	var rec func(d int) int
	rec = func(d int) int {
		if pos >= len(toks) {
			return -1
		}
		tok := toks[pos]
		pos++
		if tok == "." {
			return -1
		}
		hl := rec(d + 1)
		at := len(out)
		out = append(out, 0)
		hr := rec(d + 1)
		h := 1 + max(hl, hr)
		out[at] = d + h
		return h
	}
	rec(0)
	return out
}

// shapeMetric: what the orders s, p (depth) and P (depth + height) sort by
func shapeMetric(t *stree.Tree[int]) func(ord byte) []int {
	return func(ord byte) []int {
		if ord == 'P' {
			return throughInorder(t)
		}
		return depthsInorder(t)
	}
}

func bitsOf(c *stree.Cursor[int]) int {
	v := 0
	for _, b := range []bool{c.Valid(), c.HasNext(), c.HasPrev(), c.HasLeft(), c.HasRight(), c.HasParent()} {
		v *= 2
		if b {
			v++
		}
	}
	return v
}

func keyOr(c *stree.Cursor[int]) int {
	if c.Valid() {
		return c.Key()
	}
	return -1
}

// probe: from EVERY key k of Tree.Inorder (rank i), c = Tree.Cursor(k):
//
//	n      Len;   keys  Tree.Inorder (fmtInts);   root  Root().Key()
//	maxd sd dd    the real depths (hook): maximum, sum, digest in in-order
//	nv fb         number of valid c; the first k whose c is invalid or has another Key ("-" if none)
//	dkey          digest of c.Key();  dfl of the six flags;  dpath of the real path (hook)
//	nget dget     Tree.Get(k): number found, digest of the keys returned
//	dabs          Tree.Cursor(k+1): its Key if valid, -1 if not
//	dnext dprev   a clone moved s times by Next (Prev): key or -1 after every step
//	dzig          a clone moved Next,Prev,Prev,Prev,Next,Next,Prev,Next: key or -1 after every step
//	sup nroot dup a clone moved Up while HasParent: total steps, how many ended on Root().Key(), digest of the keys passed
//	dmin dmax     Key of a clone after Min / Max;  sspan  sum of rank(Max)-rank(Min)+1
//	sino dino     Inorder of c: total count, digest of (count, keys...)
//	dkeep         c.Key() again after all of this (the clones moved, c must not)
//	nfwd dfwd     Root().Min() then Next to the end: number of keys, digest;  nbwd dbwd  Root().Max() then Prev, digest of the reversed list
func probe(t *stree.Tree[int], s int) string {
	keys := inorderKeys(t)
	n := len(keys)
	rank := make(map[int]int, n)
	for i, k := range keys {
		rank[k] = i
	}
	depths := depthsInorder(t)
	rootKey := t.Root().Key()
	var dd, dkey, dfl, dpath, dget, dabs, dnext, dprev, dzig, dup, dmin, dmax, dino, dkeep dig
	maxd, sd, nv, nget, sup, nroot, sspan, sino := 0, 0, 0, 0, 0, 0, 0, 0
	fb := "-"
	for i, k := range keys {
		if i < len(depths) {
			d := depths[i]
			dd.add(d)
			sd += d
			maxd = max(maxd, d)
		}
		c := t.Cursor(k)
		if c.Valid() {
			nv++
		}
		if (!c.Valid() || c.Key() != k) && fb == "-" {
			fb = strconv.Itoa(k)
		}
		dkey.add(c.Key())
		dfl.add(bitsOf(c))
		dpath.addStr(stree.VerifCursorPath(t, c))
		if v, ok := t.Get(k); ok {
			nget++
			dget.add(v)
		} else {
			dget.add(-1)
		}
		dabs.add(keyOr(t.Cursor(k + 1)))
		cn := c.Clone()
		for j := 0; j < s; j++ {
			cn.Next()
			dnext.add(keyOr(cn))
		}
		cp := c.Clone()
		for j := 0; j < s; j++ {
			cp.Prev()
			dprev.add(keyOr(cp))
		}
		cz := c.Clone()
		for _, ch := range zigzag {
			if ch == 'n' {
				cz.Next()
			} else {
				cz.Prev()
			}
			dzig.add(keyOr(cz))
		}
		cu := c.Clone()
		for steps := 0; cu.HasParent() && steps < n+2; steps++ {
			cu.Up()
			dup.add(keyOr(cu))
			sup++
		}
		if cu.Valid() && cu.Key() == rootKey {
			nroot++
		}
		mn, mx := keyOr(c.Clone().Min()), keyOr(c.Clone().Max())
		dmin.add(mn)
		dmax.add(mx)
		if a, ok := rank[mn]; ok {
			if b, ok := rank[mx]; ok {
				sspan += b - a + 1
			}
		}
		cnt := 0
		var sub dig
		c.Inorder(func(x int) bool { cnt++; sub.add(x); runaway(cnt, t); return true })
		sino += cnt
		dino.add(cnt)
		dino.add(int(sub.h1))
		dkeep.add(c.Key())
	}
	var fwd, bwd []int
	c := t.Root().Min()
	for step := 0; c.Valid() && step < n+2; step++ {
		fwd = append(fwd, c.Key())
		c.Next()
	}
	c = t.Root().Max()
	for step := 0; c.Valid() && step < n+2; step++ {
		bwd = append(bwd, c.Key())
		c.Prev()
	}
	bwd = reversed(bwd)
	f := []string{
		"n=" + strconv.Itoa(t.Len()), "keys=" + fmtInts(keys), "root=" + strconv.Itoa(rootKey),
		"maxd=" + strconv.Itoa(maxd), "sd=" + strconv.Itoa(sd), "dd=" + dd.String(),
		"nv=" + strconv.Itoa(nv), "fb=" + fb, "dkey=" + dkey.String(), "dfl=" + dfl.String(), "dpath=" + dpath.String(),
		"nget=" + strconv.Itoa(nget), "dget=" + dget.String(), "dabs=" + dabs.String(),
		"dnext=" + dnext.String(), "dprev=" + dprev.String(), "dzig=" + dzig.String(),
		"sup=" + strconv.Itoa(sup), "nroot=" + strconv.Itoa(nroot), "dup=" + dup.String(),
		"dmin=" + dmin.String(), "dmax=" + dmax.String(), "sspan=" + strconv.Itoa(sspan),
		"sino=" + strconv.Itoa(sino), "dino=" + dino.String(), "dkeep=" + dkeep.String(),
		"nfwd=" + strconv.Itoa(len(fwd)), "dfwd=" + digestOf(fwd), "nbwd=" + strconv.Itoa(len(bwd)), "dbwd=" + digestOf(bwd),
	}
	return "q/" + strings.Join(f, "/")
}

const maxBigKeys = 20000

func atoiOK(s string) (int, bool) {
	n, err := strconv.Atoi(s)
	return n, err == nil
}

// applyMacro runs an A or R operation on t; ok is false when op is neither.
func applyMacro(t *stree.Tree[int], op string) (item string, ok bool) {
	if op == "" {
		return "?", true
	}
	switch op[0] {
	case 'A':
		a := strings.Split(op[1:], ":")
		if len(a) != 5 || len(a[0]) != 1 {
			return "?", true
		}
		lo, ok1 := atoiOK(a[1])
		n, ok2 := atoiOK(a[2])
		step, ok3 := atoiOK(a[3])
		seed, ok4 := atoiOK(a[4])
		if !ok1 || !ok2 || !ok3 || !ok4 || n < 0 || n > maxBigKeys {
			return "?", true
		}
		idx := orderIdx(a[0][0], n, seed)
		if idx == nil && n > 0 {
			return "?", true
		}
		cnt := 0
		for _, j := range idx {
			if t.Add(lo + step*j) {
				cnt++
			}
		}
		return "a" + strconv.Itoa(cnt), true
	case 'R':
		a := strings.Split(op[1:], ":")
		if len(a) != 3 || len(a[0]) != 1 {
			return "?", true
		}
		keep, ok1 := atoiOK(a[1])
		seed, ok2 := atoiOK(a[2])
		if !ok1 || !ok2 || !strings.Contains("lhoibBreEspP", a[0]) {
			return "?", true
		}
		keys := inorderKeys(t)
		idx := removalIdx(a[0][0], len(keys), keep, seed, shapeMetric(t))
		cnt := 0
		for _, j := range idx {
			if t.Remove(keys[j]) {
				cnt++
			}
		}
		return "r" + strconv.Itoa(cnt), true
	}
	return "", false
}

func execBig(f []string) string {
	var items []string
	res := tr.Catch(func() {
		beta, ok := atoiOK(f[2])
		if !ok {
			items = append(items, "?")
			return
		}
		s := newSession(f[1], beta)
		for _, op := range split(f[3], ";") {
			t, m := s.trees[s.cur], s.machs[s.cur]
			if it, ok := applyMacro(t, op); ok {
				if it != "?" {
					*m = machine{t: t, big: true} // the tree was edited: every cursor of it is dropped
				}
				items = append(items, it)
				continue
			}
			if op[0] == 'Q' {
				sw, ok := atoiOK(op[1:])
				if !ok || sw < 0 || sw > 64 {
					items = append(items, "?")
					continue
				}
				items = append(items, probe(t, sw))
				continue
			}
			if it, ok := s.treeOp(op); ok {
				items = append(items, it)
				continue
			}
			items = append(items, m.op(op))
		}
	})
	if res != "" {
		items = append(items, res)
	}
	return strings.Join(items, ";")
}
